"""C14 - session ids are never adopted from clients; data persists until expiry.

Histories of requests / clock advances / sweeps / file damage are run through
cherrypy.lib.sessions (RamSession, FileSession) behind the session tool, via the
in-process WSGI driver, with Session.now()'s clock and os.urandom replaced from
outside, and through the extracted model coq/Model/M_session.v."""
import datetime
import http.cookies
import json
import os
import pickle
import re
import shutil
import urllib.parse

from .. import core, sx
from ..impl import wsgi

EPOCH = datetime.datetime(2020, 1, 1)
HEX40 = re.compile(r'^[0-9a-f]{40}$')
# presented values that are not ids the server could have issued
RAWS = ['', 'x', 'deadbeef', 'Z' * 40, '0' * 39, '0' * 41, 'session', '-', 'a.b', 'ABCDEF' + '0' * 34,
        'g' * 40, '0' * 40 + '.lock', '.lock']
# file contents that are not a pickle at all (pickle.load raises on each; classes differ)
GARBAGE = [b'garbage', b'\x00\x01\x02', b'\x80\x05junk', b'not a pickle\n', b'\xff' * 10, b'(', b'}',
           b'cnomod\nnoattr\n.', b'\x80\x04\x95\xff\xff\xff\xff\xff\xff\xff\x7f', b'S"abc', b'Vabc',
           b'\x80\x05\x95\x10\x00\x00\x00\x00\x00\x00\x00}\x94']
ACTK = {'r': 0, 'w': 1, 'd': 2, 'regen': 3, 'expire': 4, 'tick': 5}
UNSET = 'unset'


class RngExhausted(Exception):
    pass


def idstr(n):
    """model id -> the string the implementation sees"""
    if n >= 0:
        return '%040x' % n
    if n <= -1000:
        return idstr(-1000 - n) + '.lock'
    if n > -980:
        return RAWS[-1 - n]
    return idstr(n + 1000) + '.lock'


def idnum(s):
    """inverse of idstr; ids outside the encodable range map to a value no model id has"""
    if s is None:
        return -7777777
    if HEX40.match(s):
        n = int(s, 16)
        return n if n < 10 ** 9 else -8888888
    if s in RAWS:
        return -1 - RAWS.index(s)
    if s.endswith('.lock'):
        b = idnum(s[:-5])
        if 0 <= b < 10 ** 8:
            return -1000 - b
    return -9999999


def classify(blob):
    """the pickle oracle: what pickle.load does with these bytes"""
    try:
        v = pickle.loads(blob)
    except EOFError:
        return 0
    except OSError:
        return 1
    except pickle.UnpicklingError:
        return 2
    except Exception:
        return 3
    except BaseException:
        return 4
    if isinstance(v, tuple) and len(v) == 2 and isinstance(v[0], dict) and isinstance(v[1], datetime.datetime):
        return ('good', v)
    return -1


class Env:
    """everything patched into cherrypy.lib.sessions from outside, and the apps"""

    def __init__(self):
        self.t = 0
        self.rng = []
        self.drawn = []
        self.exhausted = False
        self.apps = {}
        self.dir = os.path.join(core.WORK, 'C14', 'store-%d' % os.getpid())

    def install(self):
        import cherrypy
        from cherrypy.lib import sessions
        self.cherrypy, self.sessions = cherrypy, sessions
        env = self

        class FakeDateTime(datetime.datetime):
            @classmethod
            def now(cls, tz=None):
                return EPOCH + datetime.timedelta(seconds=env.t)

        import types
        DatetimeShim = types.SimpleNamespace(datetime=FakeDateTime, timedelta=datetime.timedelta,
                                             timezone=datetime.timezone, date=datetime.date)

        class OsShim:
            def __getattr__(self, name):
                return getattr(os, name)

            def urandom(self, n):
                if not env.rng:
                    env.exhausted = True
                    raise RngExhausted('candidate stream exhausted')
                v = env.rng.pop(0)
                env.drawn.append(v)
                return v.to_bytes(n, 'big')

        self.saved = (sessions.datetime, sessions.os, getattr(cherrypy, 'session', None),
                      hasattr(cherrypy, 'session'))
        sessions.datetime = DatetimeShim
        sessions.os = OsShim()
        wsgi.quiet_cherrypy()

        class Root:
            @cherrypy.expose
            def run(self, a='[]'):
                s = cherrypy.session
                reads = []
                for act in json.loads(a):
                    k = act[0]
                    if k == 'r':
                        reads.append(sorted([int(key[1:]), val] for key, val in s.items()))
                    elif k == 'w':
                        s['k%d' % act[1]] = act[2]
                    elif k == 'd':
                        s.pop('k%d' % act[1], None)
                    elif k == 'regen':
                        cherrypy.tools.sessions.regenerate()
                    elif k == 'expire':
                        sessions.expire()
                    elif k == 'tick':
                        env.t += max(0, act[1])
                return json.dumps(reads)
            runs = run       # the same resource under a section with response.stream on (the save is then deferred
            #                  to on_end_request, after the body has been written)
        self.Root = Root

    def app(self, backend, tmo_min):
        key = (backend, tmo_min)
        if key not in self.apps:
            conf = {'tools.sessions.on': True, 'tools.sessions.timeout': tmo_min,
                    # the sweep is invoked by the harness (clean_up()), the Monitor thread is never started
                    'tools.sessions.clean_freq': 0}
            if backend == 'file':
                conf['tools.sessions.storage_class'] = self.sessions.FileSession
                conf['tools.sessions.storage_path'] = self.dir
            else:
                conf['tools.sessions.storage_class'] = self.sessions.RamSession
            self.apps[key] = wsgi.make_app(self.Root(), {'/': conf, '/runs': {'response.stream': True}})
        return self.apps[key]

    def reset(self, rng):
        s = self.sessions
        self.t = 0
        self.rng = list(rng)
        self.drawn = []
        self.exhausted = False
        s.RamSession.cache.clear()
        s.RamSession.locks.clear()
        shutil.rmtree(self.dir, ignore_errors=True)
        os.makedirs(self.dir)

    def uninstall(self):
        s = self.sessions
        s.datetime, s.os = self.saved[0], self.saved[1]
        for cls in (s.Session, s.RamSession, s.FileSession):
            t = cls.__dict__.get('clean_thread')
            if t is not None:          # must not happen (clean_freq = 0); stop it anyway
                try:
                    t.stop()
                    t.unsubscribe()
                except Exception:
                    pass
                cls.clean_thread = None
        s.RamSession.cache.clear()
        s.RamSession.locks.clear()
        shutil.rmtree(self.dir, ignore_errors=True)

    # ---- observation of the store ----
    def store(self, backend):
        """[[idstr, 'good', items, exp] | [idstr, 'torn', cls]] sorted, sizes, stray names"""
        out, sizes, stray = [], {}, []
        if backend == 'ram':
            for k, (d, e) in self.sessions.RamSession.cache.items():
                out.append([k, 'good', sorted([int(key[1:]), v] for key, v in d.items()), to_t(e)])
        else:
            for fn in sorted(os.listdir(self.dir)):
                if fn.startswith('session-') and fn.endswith('.lock'):
                    continue
                if not fn.startswith('session-'):
                    stray.append(fn)
                    continue
                blob = open(os.path.join(self.dir, fn), 'rb').read()
                sizes[fn[8:]] = len(blob)
                c = classify(blob)
                if isinstance(c, tuple):
                    d, e = c[1]
                    out.append([fn[8:], 'good', sorted([int(key[1:]), v] for key, v in d.items()), to_t(e)])
                else:
                    out.append([fn[8:], 'torn', c])
        out.sort(key=lambda x: x[0])
        return out, sizes, stray


def to_t(dt):
    s = (dt - EPOCH).total_seconds()
    return int(s) if s == int(s) else s


class C14(core.Check):
    pid = 'C14'
    props_files = ('Props/C14.v',)
    refuted_files = ('Refuted/R_C14.v',)
    model_fn = ('run_C14', 'Model.M_session')
    xcheck_n = 30
    rule = ('histories (<= 40 operations) over 1..4 clients x {RamSession, FileSession} x timeouts {0,1,2,60} min: '
            'requests with no / current / stale / foreign / unknown-hex / malformed / lock-file-name cookie whose '
            'handler reads, writes, deletes keys, regenerates, expires, lets time pass; clock advances at '
            'timeout-1/timeout/timeout+1; clean_up() sweeps; damage of session files (every truncation offset of three '
            'saved files, zero-length, garbage); candidate ids from a small space so that the regeneration loop meets '
            'live ids; non-trivial = the history adopted a known id with data, refused an unknown one, swept an entry '
            'or met a damaged file; distinct by (backend, timeout, per-operation tags)')
    assumptions = (
        'ids are opaque tokens compared for equality (dict key / file name on a case-sensitive file system)',
        'id freshness is relative to the RNG oracle: a candidate equal to the presented id is accepted (probability '
        '2^-160 in production); the oracle exempts ids that the patched os.urandom produced during the request',
        'pickle.load on a truncated, zero-length or garbage file raises a subclass of Exception (measured on every '
        'truncation offset and every garbage sample of each run); garbage that unpickles to a value is outside the model',
        'the instant expiry = now is left open (load uses <, the RAM sweep <=, the file sweep <); data carried over '
        'a regenerate inside one request is not constrained by the property text',
        'Session.delete() called by an application is not in the quantifier; path-traversal ids belong to C11',
        'sequential histories (locking is C13)')

    # ------------------------------------------------------------ G: ties
    def ties(self):
        """re-reads cherrypy/lib/sessions.py with ast: the three expiry comparisons, the except clause of
        FileSession._load and the existence test guarding adoption must be what the model computes"""
        import ast
        src = open(os.path.join(core.REPO, 'cherrypy', 'lib', 'sessions.py')).read()
        from ..translate import pynorm
        mod = pynorm.normalise(ast.parse(src))   # flag locals and extracted predicates folded back
        classes = {n.name: n for n in mod.body if isinstance(n, ast.ClassDef)}

        def fn(cls, name):
            return next(n for n in classes[cls].body if isinstance(n, ast.FunctionDef) and n.name == name)
        OPS = {ast.Lt: '<?', ast.LtE: '<=?', ast.Gt: '>?', ast.GtE: '>=?'}
        FLIP = {ast.Lt: ast.Gt, ast.LtE: ast.GtE, ast.Gt: ast.Lt, ast.GtE: ast.LtE}
        NEG = {ast.Lt: ast.GtE, ast.LtE: ast.Gt, ast.Gt: ast.LtE, ast.GtE: ast.Lt}

        def cmp_op(func):
            """the one comparison "<expiry> OP <now>" of the function, up to local names, operand order and a
            surrounding not; returns (Coq operator, the Compare node)"""
            nows = {n.targets[0].id for n in ast.walk(func)
                    if isinstance(n, ast.Assign) and len(n.targets) == 1 and isinstance(n.targets[0], ast.Name)
                    and ast.unparse(n.value) == 'self.now()'}

            def is_now(e):
                return ast.unparse(e) == 'self.now()' or (isinstance(e, ast.Name) and e.id in nows)
            negated = {id(n.operand) for n in ast.walk(func)
                       if isinstance(n, ast.UnaryOp) and isinstance(n.op, ast.Not)}
            found = []
            for n in ast.walk(func):
                if isinstance(n, ast.Compare) and len(n.ops) == 1 and type(n.ops[0]) in OPS:
                    l, r = n.left, n.comparators[0]
                    if is_now(l) == is_now(r):
                        continue
                    op = type(n.ops[0]) if is_now(r) else FLIP[type(n.ops[0])]
                    found.append((NEG[op] if id(n) in negated else op, n))
            if len(found) != 1:
                raise ValueError('%s: expected exactly one comparison with now()' % func.name)
            return OPS[found[0][0]], found[0][1]
        load_op, load_cmp = cmp_op(fn('Session', 'load'))
        ram_op, _ = cmp_op(fn('RamSession', 'clean_up'))
        file_op, _ = cmp_op(fn('FileSession', 'clean_up'))
        # load(): "if <x> is None or <expired>: self._data = {}"
        tests = [n for n in ast.walk(fn('Session', 'load')) if isinstance(n, ast.If)
                 and isinstance(n.test, ast.BoolOp) and isinstance(n.test.op, ast.Or) and len(n.test.values) == 2
                 and ast.unparse(n.test.values[0]).endswith(' is None') and n.test.values[1] is load_cmp
                 and 'self._data = {}' in ast.unparse(n.body)]
        if len(tests) != 1:
            raise ValueError('Session.load: flush condition not recognised')
        # _load: exactly one try with one handler around open + pickle.load
        tries = [n for n in ast.walk(fn('FileSession', '_load')) if isinstance(n, ast.Try)]
        if len(tries) != 1 or len(tries[0].handlers) != 1 or 'pickle.load' not in ast.unparse(tries[0].body) \
                or 'return None' not in ast.unparse(tries[0].handlers[0].body):
            raise ValueError('FileSession._load: try/except shape not recognised')
        h = tries[0].handlers[0].type
        types = BaseException if h is None else eval(ast.unparse(h), {'pickle': pickle, '__builtins__': __builtins__})
        reps = [EOFError, OSError, pickle.UnpicklingError, ValueError, KeyboardInterrupt]
        catches = [issubclass(r, types) for r in reps]
        # __init__: adoption guarded by self._exists(), the else branch regenerates
        init = fn('Session', '__init__')
        guards = [n for n in ast.walk(init) if isinstance(n, ast.If) and ast.unparse(n.test) == 'self._exists()'
                  and 'self._regenerate()' in ast.unparse(n.orelse) and 'self.id = None' in ast.unparse(n.orelse)
                  and '_regenerate' not in ast.unparse(n.body)]
        if len(guards) != 1:
            raise ValueError('Session.__init__: adoption guard not recognised')
        regen = fn('Session', '_regenerate')
        loops = [n for n in ast.walk(regen) if isinstance(n, ast.While) and ast.unparse(n.test) == 'self.id is None'
                 and 'if self._exists():\n    self.id = None' in ast.unparse(n.body)]
        if len(loops) != 1:
            raise ValueError('Session._regenerate: generation loop not recognised')
        text = """From Coq Require Import ZArith List Bool.
From CV Require Import Lib.Sx Lib.ListZ Model.M_session.
Import ListNotations.
Open Scope Z_scope.
(* generated from cherrypy/lib/sessions.py *)
Definition src_load_flush (e now : Z) : bool := e %s now.
Definition src_ram_del (e now : Z) : bool := e %s now.
Definition src_file_del (e now : Z) : bool := e %s now.
Definition src_catches : list bool := [%s].
Definition cM := Cfg true 60 true.   (* the variant vcheck/props/c14.py asks the model for *)
Definition grid : list (Z * Z) :=
  flat_map (fun e => map (fun n => (e, n)) [-1; 0; 1; 2; 59; 60; 61]) [-1; 0; 1; 2; 59; 60; 61].
Definition m_load_flush (e now : Z) : bool :=
  match ensure_loaded cM (W [(1, Good [(0, 0)] e)] now []) (Sess 1 [] false false) with
  | (SOk, x) => match x_data x with [] => true | _ => false end
  | _ => false
  end.
Definition m_ram_del (e now : Z) : bool := negb (mem 1 (sweep_ram now [(1, Good [] e)])).
Definition m_file_del (e now : Z) : bool := negb (mem 1 (snd (sweep_file cM now [(1, Good [] e)]))).
Lemma tie_expiry_comparisons :
  forallb (fun p => Bool.eqb (src_load_flush (fst p) (snd p)) (m_load_flush (fst p) (snd p))
                    && Bool.eqb (src_ram_del (fst p) (snd p)) (m_ram_del (fst p) (snd p))
                    && Bool.eqb (src_file_del (fst p) (snd p)) (m_file_del (fst p) (snd p))) grid = true.
Proof. vm_compute. reflexivity. Qed.
Lemma tie_load_except : map (caught cM) [0; 1; 2; 3; 4] = src_catches.
Proof. vm_compute. reflexivity. Qed.
""" % (load_op, ram_op, file_op, '; '.join('true' if b else 'false' for b in catches))
        ok, out = core.coq_check_text('Tie_C14', text)
        return [core.Obligation('G:tie_expiry_comparisons+tie_load_except (sessions.py: load %s, RAM sweep %s, file '
                                'sweep %s, _load catches %s; adoption guard and generation loop recognised)'
                                % (load_op, ram_op, file_op, ast.unparse(h) if h is not None else 'everything'),
                                ok, '' if ok else out)]

    # ------------------------------------------------------------------ setup
    def setup(self):
        self.env = Env()
        self.env.install()
        self._cache = {}

    def teardown(self):
        self.env.uninstall()

    # ------------------------------------------------------------- generation
    def gen_rng(self, rng, slots, short=False):
        out = []
        uniq = []
        for i in range(slots):
            if rng.random() < .4:
                for _ in range(rng.randrange(1, 3)):
                    out.append(rng.choice(uniq) if uniq and rng.random() < .7 else rng.randrange(0, 6))
            u = 100 + i
            uniq.append(u)
            out.append(u)
        if short:
            out = out[:rng.randrange(0, 3)]
        return out

    def gen_acts(self, rng, T):
        acts = []
        n = rng.choice([0, 1, 1, 2, 2, 3, 4])
        for _ in range(n):
            k = rng.choice(['r', 'r', 'r', 'w', 'w', 'w', 'd', 'regen', 'expire', 'tick'])
            if k == 'w':
                acts.append(['w', rng.randrange(3), rng.randrange(10)])
            elif k == 'd':
                acts.append(['d', rng.randrange(3)])
            elif k == 'tick':
                acts.append(['tick', rng.choice([0, 1, max(T - 1, 0), T, T + 1, 30])])
            else:
                acts.append([k])
        return acts

    def gen_cookie(self, rng, j, ncl):
        r = rng.random()
        if r < .48:
            return ['jar', j, 0]
        if r < .56:
            return None
        if r < .64:
            return ['raw', rng.randrange(len(RAWS))]
        if r < .72:
            return ['hex', rng.choice([500 + rng.randrange(20), rng.randrange(0, 6), 100 + rng.randrange(30)])]
        if r < .84:
            return ['jar', j, rng.randrange(1, 4)]
        if r < .95:
            return ['jar', rng.randrange(ncl), rng.randrange(0, 2)]
        if r < .975:
            return ['lock', rng.randrange(ncl), 0]
        return ['path', rng.randrange(ncl), 0, rng.randrange(5)]

    def gen_history(self, rng, backend=None, n=None):
        backend = backend or rng.choice(['ram', 'file'])
        tmo = rng.choice([0, 1, 1, 1, 2, 60])
        T = tmo * 60
        ncl = rng.randrange(1, 5)
        n = n or rng.choice([3, 5, 8, 12, 20, 30, 40])
        ops = []
        slots = 2
        for _ in range(n):
            r = rng.random()
            if r < .62:
                j = rng.randrange(ncl)
                acts = self.gen_acts(rng, T)
                slots += 1 + sum(1 for a in acts if a[0] == 'regen')
                ops.append(['req', j, self.gen_cookie(rng, j, ncl), acts])
            elif r < .80:
                ops.append(['adv', rng.choice([0, 1, max(T - 1, 0), T, T + 1, 2 * T, T // 2, 59, 60, 61])])
            elif r < .90 or backend == 'ram':
                ops.append(['sweep'])
            else:
                tgt = rng.choice([['jar', rng.randrange(ncl), 0], ['jar', rng.randrange(ncl), rng.randrange(0, 3)],
                                  ['hex', rng.randrange(0, 6)], ['raw', rng.randrange(len(RAWS))]])
                kind = rng.choice(['prefix', 'prefix', 'prefix', 'zero', 'garbage'])
                if tgt[0] != 'jar' and kind == 'prefix':
                    kind = 'zero'
                param = rng.randrange(0, 120) if kind == 'prefix' else rng.randrange(len(GARBAGE))
                ops.append(['tear', tgt, kind, param, UNSET])
        return {'backend': backend, 'tmo_min': tmo, 'rng': self.gen_rng(rng, slots, short=rng.random() < .01),
                'ops': ops}

    TEMPLATES = [
        # (data written by client 0, timeout minutes)
        ([['w', 0, 1]], 1),
        ([['w', 0, 1], ['w', 1, 7], ['w', 2, 9]], 1),
        ([], 2),
    ]

    def torn_cases(self, which):
        """every truncation offset of a saved session file, zero-length and garbage, followed by a request
        presenting the id, a sweep that has an expired neighbour to remove, and a write that heals the file"""
        out = []
        for ti in which:
            writes, tmo = self.TEMPLATES[ti]
            T = tmo * 60
            pre = [['req', 0, None, writes + [['r']]], ['req', 1, None, [['w', 0, 5]]], ['adv', 1],
                   ['req', 0, ['jar', 0, 0], [['r']]]]
            base = {'backend': 'file', 'tmo_min': tmo, 'rng': [11, 12, 13, 14, 15, 16], 'ops': pre}
            obs = self.run_impl(base)
            sid = obs['ops'][0]['rid_s']
            L = obs['ops'][-1]['sizes'].get(sid, 0)
            self.count('torn:file_len=%d' % L)
            tears = [['prefix', k] for k in range(L)] + [['zero', 0]] + [['garbage', g] for g in range(len(GARBAGE))]
            for kind, param in tears:
                post = [['tear', ['jar', 0, 0], kind, param, UNSET],
                        ['req', 0, ['jar', 0, 0], [['r']]],          # must be served, with an empty session
                        ['tear', ['jar', 0, 0], kind, param, UNSET],  # (the request re-saved it) damage it again
                        ['adv', T + 1], ['sweep'],                    # client 1's session is expired now
                        ['req', 2, ['jar', 1, 0], [['r']]],
                        ['req', 0, ['jar', 0, 0], [['w', 1, 3], ['r']]],
                        ['req', 0, ['jar', 0, 0], [['r']]]]
                out.append({'backend': 'file', 'tmo_min': tmo, 'rng': [11, 12, 13, 14, 15, 16], 'ops': pre + post})
        return out

    def boundary_cases(self):
        """expiry instants: load at exp-1 / exp / exp+1, sweep at exp-1 / exp / exp+1, both backends"""
        out = []
        for backend in ('ram', 'file'):
            for tmo in (0, 1, 2):
                T = tmo * 60
                for d in (T - 1, T, T + 1):
                    if d < 0:
                        continue
                    for mid in (['sweep'], None):
                        ops = [['req', 0, None, [['w', 0, 4]]], ['req', 1, None, [['w', 1, 2]]], ['adv', d]]
                        if mid:
                            ops.append(mid)
                        ops += [['req', 0, ['jar', 0, 0], [['r']]], ['req', 1, ['jar', 1, 0], [['r'], ['w', 2, 2]]],
                                ['adv', 1], ['sweep'], ['req', 0, ['jar', 0, 0], [['r']]],
                                ['req', 2, ['jar', 1, 0], [['r']]]]
                        out.append({'backend': backend, 'tmo_min': tmo, 'rng': [3, 3, 4, 3, 4, 5, 6, 7, 8],
                                    'ops': ops})
        # fixation attempts: unknown / malformed / lock-file-name ids, before and after the id existed
        for backend in ('ram', 'file'):
            for ck in ([['hex', 777]] + [['raw', i] for i in range(len(RAWS))] + [['lock', 0, 0], ['hex', 21]] +
                       [['path', 0, 0, v] for v in range(5)]):
                out.append({'backend': backend, 'tmo_min': 1, 'rng': [21, 22, 21, 23, 24, 25, 26],
                            'ops': [['req', 0, None, [['w', 0, 1]]], ['req', 1, ck, [['r'], ['w', 1, 1]]],
                                    ['req', 1, ck, [['r']]], ['req', 0, ['jar', 0, 0], [['regen'], ['r']]],
                                    ['req', 2, ['jar', 0, 1], [['r']]], ['req', 2, ck, [['r']]]]})
        return out

    def extra(self):
        """a request for an expired (not yet swept) file session completes while the sweep is on its way to that very
        file - just before the sweeper takes the session's lock: the request refreshed the session (new data, new
        expiry), so the sweep must leave it and the next request must get that data.  Oracle only."""
        env = self.env
        S = env.sessions
        out = []
        for tmo, late in ((1, 61), (1, 3600), (2, 121)):
            env.reset([7, 8, 9, 10, 11, 12])
            app = env.app('file', tmo)

            def req(cookie, acts):
                hdrs = [] if cookie is None else [('Cookie', 'session_id=%s' % cookie)]
                r = wsgi.call(app, 'GET', '/run?a=' + urllib.parse.quote(json.dumps(acts)), hdrs)
                ck = http.cookies.SimpleCookie()
                for v in wsgi.headers_all(r, 'Set-Cookie'):
                    ck.load(v)
                m = ck.get('session_id')
                try:
                    reads = json.loads(r.body)
                except ValueError:
                    reads = None
                return r.status, (m.value if m is not None else None), reads
            st0, sid, _ = req(None, [['w', 0, 1]])
            env.t += late                                  # expired, still on disk
            inter = {}
            orig = S.FileSession.acquire_lock

            def acquire(sess, path=None):
                if path is not None and not inter:        # the sweeper reaches the first file
                    inter['done'] = True
                    S.FileSession.acquire_lock = orig      # (the interleaved request locks normally)
                    try:
                        inter['res'] = req(sid, [['r'], ['w', 0, 2]])
                    finally:
                        S.FileSession.acquire_lock = acquire
                return orig(sess, path)
            S.FileSession.acquire_lock = acquire
            try:
                sw = S.FileSession.__new__(S.FileSession)
                sw.id_observers = []
                sw._data = {}
                sw.storage_path = env.dir
                sw.lock_timeout = None
                err = None
                try:
                    sw.clean_up()
                except BaseException as e:      # noqa
                    err = '%s: %s' % (type(e).__name__, e)
            finally:
                S.FileSession.acquire_lock = orig
            env.t += 1
            st2, sid2, reads2 = req(inter.get('res', (None, sid))[1] or sid, [['r']])
            self.count('request interleaved with the file sweep (before the sweeper locks the session)')
            obs = {'created': [st0, sid], 'interleaved': inter.get('res'), 'sweep_error': err,
                   'after': [st2, sid2, reads2]}
            isid = inter.get('res', (None, None))[1]
            if inter.get('res') and inter['res'][0] == 200 and isid is not None and err is None:
                if sid2 != isid or reads2 != [[[0, 2]]]:
                    out.append(core.Violation(
                        'sweep-removed-live-session',
                        'a request refreshed session %s (data k0=2, expires in %d min) while the sweep was reaching '
                        'its file; after the sweep the next request got id %s and data %r' % (isid, tmo, sid2, reads2),
                        case={'k': 'sweep-interleaved', 'timeout_min': tmo, 'late_s': late}, observed=obs))
                    break
        return out + self.subsecond_expiry()

    def subsecond_expiry(self):
        """the clock of the generated histories moves in whole seconds; here it stands at sub-second positions next to
        the expiry instant (saved at s, timeout T: returned at any t <= s + T, never after), with a whole-minute and a
        half-second timeout.  Oracle only."""
        env = self.env
        out = []
        for backend in ('ram', 'file'):
            for tmo_min, saved_at, probes in ((1, 10.9, [(70.5, True), (70.95, False)]),
                                              (0.5 / 60, 10.9, [(11.0, True), (11.35, True), (11.45, False)]),
                                              (1, 10.0, [(69.95, True), (70.0, True), (70.05, False)])):
                for at, alive in probes:
                    env.reset([21, 22, 23, 24, 25, 26])
                    app = env.app(backend, tmo_min)
                    env.t = saved_at
                    r = wsgi.call(app, 'GET', '/run?a=' + urllib.parse.quote(json.dumps([['w', 0, 7]])), [])
                    ck = http.cookies.SimpleCookie()
                    for v in wsgi.headers_all(r, 'Set-Cookie'):
                        ck.load(v)
                    sid = ck['session_id'].value
                    env.t = at
                    r2 = wsgi.call(app, 'GET', '/run?a=' + urllib.parse.quote(json.dumps([['r']])),
                                   [('Cookie', 'session_id=' + sid)])
                    try:
                        reads = json.loads(r2.body)
                    except ValueError:
                        reads = None
                    self.count('sub-second clock next to the expiry instant')
                    want = [[[0, 7]]] if alive else [[]]
                    if r.status != 200 or r2.status != 200 or reads != want:
                        out.append(core.Violation(
                            'expiry-instant',
                            '%s backend, timeout %s s: data saved at t=%s must %s at t=%s; the request read %r (status %s)'
                            % (backend, round(tmo_min * 60, 3), saved_at,
                               'still be returned' if alive else 'not be returned any more', at, reads, r2.status),
                            case={'k': 'subsecond-expiry', 'backend': backend, 'timeout_s': tmo_min * 60,
                                  'saved_at': saved_at, 'at': at}, observed={'reads': reads, 'status': r2.status}))
                        return out
        env.t = 0
        return out

    def cases(self):
        quick = self.tier == 'quick'
        out = self.boundary_cases()
        out += self.torn_cases([0, 1, 2])
        n = 2500 if quick else 12000
        for _ in range(n):
            out.append(self.gen_history(self.rng))
        if not quick:
            out += list(self.exhaustive())
        for c in out:
            self.fill(c)
        return out

    def exhaustive(self):
        """every history of length <= 4 over a small alphabet (one owner, one intruder, the clock at the expiry
        instant and one past it, the sweep, a truncated file), both backends"""
        import itertools
        alpha = [['req', 0, ['jar', 0, 0], [['w', 0, 1]]], ['req', 0, ['jar', 0, 0], [['r']]],
                 ['req', 0, ['jar', 0, 0], [['r'], ['regen']]], ['req', 1, ['hex', 777], [['r'], ['w', 1, 1]]],
                 ['req', 1, ['jar', 0, 1], [['r']]], ['adv', 60], ['adv', 1], ['sweep']]
        for backend in ('ram', 'file'):
            al = alpha + ([['tear', ['jar', 0, 0], 'prefix', 5, UNSET]] if backend == 'file' else [])
            for L in (1, 2, 3, 4):
                for ops in itertools.product(al, repeat=L):
                    yield {'backend': backend, 'tmo_min': 1, 'rng': [1, 1, 2, 1, 3, 4, 5, 6, 7, 8],
                           'ops': [json.loads(json.dumps(o)) for o in ops]}

    def search_cases(self, around=None):
        for c in around or []:
            yield c
        for _ in range(3000):
            c = self.gen_history(self.rng)
            self.fill(c)
            yield c

    def corpus(self):
        return [core.unjson(c) for c in super().corpus()]

    def fill(self, c):
        """a dry run on the real code supplies the pickle-oracle answers (what pickle.load does with each
        damaged file); the observation is kept so that the case is not run twice"""
        if any(op[0] == 'tear' and op[4] == UNSET for op in c['ops']):
            obs = self.run_impl(c, fill=True)
            self._cache[id(c)] = (c, obs)

    # ---------------------------------------------------------------- model
    def enc_ck(self, ck):
        if ck is None:
            return [0]
        if ck[0] == 'raw':
            return [1, -1 - ck[1]]
        if ck[0] == 'hex':
            return [1, ck[1]]
        if ck[0] == 'jar':
            return [2, ck[1], ck[2]]
        return [3, ck[1], ck[2]]

    def encode(self, c):
        ops = []
        for op in c['ops']:
            if op[0] == 'req':
                acts = [[ACTK[a[0]]] + list(a[1:]) for a in op[3]]
                ops.append([0, op[1], self.enc_ck(op[2]), acts])
            elif op[0] == 'adv':
                ops.append([1, op[1]])
            elif op[0] == 'sweep':
                ops.append([2])
            else:
                cls = op[4]
                if cls is None or cls == UNSET:
                    ops.append([1, 0])
                else:
                    ops.append([3, self.enc_ck(op[1]), cls])
        # the model is asked for the REPAIRED _load (flag 1): an unreadable file is an absent session
        return [c['backend'] == 'file', c['tmo_min'] * 60, 1, c['rng'], ops]

    # ------------------------------------------------------- implementation
    def impl(self, c):
        hit = self._cache.pop(id(c), None)
        if hit is not None and hit[0] is c:
            return hit[1]
        return self.run_impl(c)

    def resolve(self, jars, ck):
        if ck is None:
            return None
        if ck[0] == 'raw':
            return RAWS[ck[1]]
        if ck[0] == 'hex':
            return idstr(ck[1])
        j, k = ck[1], ck[2]
        if not (0 <= j < len(jars)) or not (0 <= k < len(jars[j])):
            return None
        if ck[0] == 'path':
            # path syntax around a live id that stays inside the storage directory after normalisation: not the
            # id of any stored session, so it must not be adopted (nor alias the live session's data)
            live = jars[j][k]
            return [live + '/', 'zz/../session-' + live, './' + live, live + '/.', 'session-' + live][ck[3] % 5]
        return jars[j][k] + ('.lock' if ck[0] == 'lock' else '')

    def run_impl(self, c, fill=False):
        env = self.env
        backend = c['backend']
        env.reset(c['rng'])
        app = env.app(backend, c['tmo_min'])
        jars = [[], [], [], []]
        res = []
        for op in c['ops']:
            o = {'st': 200, 'cls': 0}
            env.drawn = []
            before, _, _ = env.store(backend)
            if op[0] == 'req':
                p = self.resolve(jars, op[2])
                o['sent'] = p
                o['cat'] = self.category(p, before, env.t)
                hdrs = [] if p is None else [('Cookie', 'session_id=%s' % p)]
                # one history in five is served by the streamed twin of the resource (same session semantics)
                path = '/runs' if (len(c['ops']) + c['tmo_min']) % 5 == 0 else '/run'
                r = wsgi.call(app, 'GET', path + '?a=' + urllib.parse.quote(json.dumps(op[3])), hdrs)
                if env.exhausted:
                    o['st'] = 599
                elif r.status != 200 or r.escaped:
                    o['st'] = 500
                    o['err'] = (r.escaped or '') + ' ' + ' | '.join(
                        ln.strip() for ln in r.body.decode('latin-1').splitlines()
                        if 'Error' in ln and '<' not in ln)[:300]
                else:
                    ck = http.cookies.SimpleCookie()
                    for v in wsgi.headers_all(r, 'Set-Cookie'):
                        ck.load(v)
                    m = ck.get('session_id')
                    o['rid_s'] = m.value if m is not None else None
                    o['exp'] = bool(m is not None and m['expires'] and not m['max-age'])
                    o['maxage'] = m['max-age'] if m is not None else None
                    try:
                        o['reads'] = json.loads(r.body)
                    except ValueError:
                        o['reads'] = ['unparsable body']
                    if o['rid_s'] is not None and 0 <= op[1] < 4:
                        jars[op[1]].insert(0, o['rid_s'])
            elif op[0] == 'adv':
                env.t += max(0, op[1])
            elif op[0] == 'sweep':
                S = env.sessions
                cls = S.FileSession if backend == 'file' else S.RamSession
                sw = cls.__new__(cls)
                sw.id_observers = []
                sw._data = {}
                if backend == 'file':
                    sw.storage_path = env.dir
                    sw.lock_timeout = None
                try:
                    sw.clean_up()
                except BaseException as e:   # what would end the Monitor's callback
                    o['st'] = 500
                    o['err'] = '%s: %s' % (type(e).__name__, e)
                    o['cls'] = (0 if isinstance(e, EOFError) else 1 if isinstance(e, OSError) else
                                2 if isinstance(e, pickle.UnpicklingError) else 3 if isinstance(e, Exception) else 4)
                    if getattr(sw, 'locked', False):
                        o['lock_left_held'] = True
            else:
                cls = None
                if backend == 'file':
                    tgt = self.resolve(jars, op[1])
                    # a name ending in .lock is a lock file, not a session file: nothing to damage
                    if tgt is not None and '/' not in tgt and not tgt.endswith('.lock'):
                        path = os.path.join(env.dir, 'session-' + tgt)
                        if op[2] == 'prefix':
                            if os.path.exists(path):
                                blob = open(path, 'rb').read()
                                if isinstance(classify(blob), tuple):
                                    k = min(op[3], len(blob) - 1)
                                    open(path, 'wb').write(blob[:k])
                                    cls = classify(blob[:k])
                                    o['offset'] = k
                        elif op[2] == 'zero':
                            open(path, 'wb').close()
                            cls = classify(b'')
                        else:
                            open(path, 'wb').write(GARBAGE[op[3]])
                            cls = classify(GARBAGE[op[3]])
                        if isinstance(cls, tuple):
                            cls = -1
                if fill:
                    op[4] = cls
                elif op[4] != cls:
                    o['tear_mismatch'] = [op[4], cls]
                o['torn_cls'] = cls
            o['t'] = env.t
            o['drawn'] = list(env.drawn)
            o['store'], o['sizes'], o['stray'] = env.store(backend)
            res.append(o)
            if o['st'] == 599:
                break
        return {'ops': res}

    def category(self, p, store, t):
        if p is None:
            return 'none'
        for e in store:
            if e[0] == p:
                if e[1] == 'torn':
                    return 'torn'
                return 'expired' if e[3] < t else 'known'
        if p.endswith('.lock'):
            return 'lockname'
        return 'unknown' if HEX40.match(p) else 'malformed'

    # ---------------------------------------------------------- comparison
    def compare(self, c, mo, obs):
        ops = obs['ops']
        if len(mo) != len(ops):
            return 'operations executed: model %d impl %d' % (len(mo), len(ops))
        for i, (m, o) in enumerate(zip(mo, ops)):
            (mst, mcls), mid, mexp, mreads, mstore = m
            what = '%s (op %d)' % (c['ops'][i][0], i)
            if o.get('tear_mismatch'):
                return 'pickle oracle answer recorded in the case %r differs from pickle.load now %r (op %d)' % (
                    o['tear_mismatch'][0], o['tear_mismatch'][1], i)
            if mst != o['st']:
                return '%s status: model %d impl %d %s' % (what, mst, o['st'], o.get('err', ''))
            if c['ops'][i][0] == 'req' and mst == 200:
                if mid != idnum(o['rid_s']):
                    return '%s session id: model %s impl %r' % (what, idstr(mid) if mid > -7000000 else mid,
                                                                o['rid_s'])
                if bool(mexp) != o['exp']:
                    return '%s cookie-expired flag: model %r impl %r' % (what, mexp, o['exp'])
                if mreads != o['reads']:
                    return '%s data read: model %r impl %r' % (what, mreads, o['reads'])
            if c['ops'][i][0] == 'sweep' and mst == 500 and mcls != o['cls']:
                return '%s exception class: model %d impl %d' % (what, mcls, o['cls'])
            istore = sorted(([idnum(e[0]), 1, e[2], e[3]] if e[1] == 'good' else [idnum(e[0]), 0, e[2]])
                            for e in o['store'])
            if mstore != istore:
                return 'store after %s: model %r impl %r' % (what, mstore, istore)
        return None

    # ----------------------------------------------- property oracle (impl only)
    def oracle(self, c, obs):
        """a transition checker written from the property text: each observed step must be allowed given the
        store observed before it (initially empty), the logical clock and the cookie presented"""
        fails = []
        T = c['tmo_min'] * 60
        S = {}
        t = 0
        for i, (op, o) in enumerate(zip(c['ops'], obs['ops'])):
            S2 = {e[0]: e[1:] for e in o['store']}
            if o.get('stray'):
                fails.append(('stray-file', 'op %d left %r in the storage directory' % (i, o['stray'])))
            if o['st'] == 599:
                break
            if op[0] == 'req':
                fails += self.check_request(i, op, o, S, S2, t, T)
            elif op[0] == 'sweep':
                torn = [k for k, e in S.items() if e[0] == 'torn']
                if o['st'] != 200:
                    fails.append(('torn-file-stops-sweep' if torn else 'sweep-raised',
                                  'op %d: clean_up() raised %s%s' % (i, o.get('err'),
                                                                     ' with damaged file(s) %r present' % torn
                                                                     if torn else '')))
                for k, e in S.items():
                    if e[0] == 'good' and e[2] < t and k in S2 and o['st'] == 200:
                        fails.append(('expired-not-swept', 'op %d: the sweep at t=%s left %s (expiry %s)'
                                      % (i, t, k, e[2])))
                    if e[0] == 'good' and e[2] > t and S2.get(k) != e:
                        fails.append(('live-session-swept', 'op %d: the sweep at t=%s removed or changed %s '
                                      '(expiry %s)' % (i, t, k, e[2])))
                for k in S2:
                    if k not in S:
                        fails.append(('sweep-created', 'op %d: the sweep created %s' % (i, k)))
            elif op[0] == 'adv':
                if S2 != S:
                    fails.append(('store-changed-by-itself', 'op %d: the store changed while only time passed' % i))
            S = S2
            t = o['t']
        return fails

    def check_request(self, i, op, o, S, S2, t, T):
        fails = []
        p = o.get('sent')
        acts = op[3]
        held = p is not None and p in S
        if o['st'] != 200:
            torn = held and S[p][0] == 'torn'
            fails.append(('torn-file-500' if torn else 'request-500',
                          'op %d: request presenting %r answered 500 (%s)%s' % (
                              i, p, o.get('err', '').strip()[:160],
                              '; its session file is damaged (pickle class %r)' % S[p][1] if torn else '')))
            return fails
        rid = o['rid_s']
        drawn = [idstr(n) for n in o['drawn']]
        nregen = sum(1 for a in acts if a[0] == 'regen')
        sid0 = p if held else (rid if nregen == 0 else None)
        if rid is None:
            return [('no-session-cookie', 'op %d: the response carries no session cookie' % i)]
        if nregen == 0 and held:
            if rid != p:
                fails.append(('known-id-not-used', 'op %d: the store holds %r but the response cookie is %r'
                              % (i, p, rid)))
        else:
            if rid == p and not held and rid not in drawn:
                fails.append(('lockfile-name-adopted' if p.endswith('.lock') else 'unknown-id-adopted',
                              'op %d: the store holds nothing for the presented id %r, yet the response cookie '
                              'adopts it' % (i, p)))
                if p.endswith('.lock'):
                    return fails       # what follows (data kept in a lock file) is the same defect
            elif not HEX40.match(rid):
                fails.append(('fresh-id-malformed', 'op %d: issued id %r is not 40 hex digits' % (i, rid)))
            live = set(S) - ({p} if (held and nregen) else set())
            if rid in live:
                fails.append(('fresh-id-is-live', 'op %d: issued id %r is the id of a live session' % (i, rid)))
        # --- data: candidates where the text does not decide (expiry instant; regenerate before first access)
        tfirst, seen_regen = t, False
        tt = t
        for a in acts:
            if a[0] == 'tick':
                tt += max(0, a[1])
            if a[0] in 'rwd':
                tfirst = tt
                break
        starts = []
        if held and S[p][0] == 'good':
            items, e = S[p][1], S[p][2]
            for at in (t, tfirst):
                if e >= at and items not in starts:
                    starts.append(items)
                if e <= at and [] not in starts:
                    starts.append([])
        else:
            starts = [[]]
        ok = False
        why = ''
        for start in starts:
            for carry in (True, False):
                reads, final, tend = self.simulate(acts, start, carry, t)
                if reads != o['reads']:
                    why = 'data read %r, expected %r' % (o['reads'], reads)
                    continue
                if final is not None:
                    want = ['good', sorted(final.items()), tend + T]
                    got = S2.get(rid)
                    if got is None or got[0] != 'good' or [got[0], [tuple(x) for x in got[1]], got[2]] != \
                            [want[0], want[1], want[2]]:
                        why = 'stored under %r: %r, expected data %r with expiry %s' % (rid, got, want[1], want[2])
                        continue
                elif nregen == 0 and held and S2.get(rid) != S[p]:
                    why = 'the untouched session %r changed in the store: %r -> %r' % (rid, S[p], S2.get(rid))
                    continue
                ok = True
                break
            if ok:
                break
        if not ok:
            expired = held and S[p][0] == 'good' and S[p][2] < t
            fails.append(('expired-data-returned' if expired and o['reads'] and any(o['reads'])
                          else 'session-data-wrong', 'op %d (cookie %r, t=%s): %s' % (i, p, t, why)))
        own = {sid0, rid}
        for k, e in S.items():
            if k not in own and S2.get(k) != e:
                fails.append(('other-session-changed', 'op %d: a request for %r changed session %r: %r -> %r'
                              % (i, rid, k, e, S2.get(k))))
        for k in S2:
            if k not in S and k != rid:
                fails.append(('other-session-created', 'op %d: a request for %r created %r' % (i, rid, k)))
        if nregen and held and rid != p and p in S2:
            fails.append(('regenerated-id-kept', 'op %d: %r was regenerated but is still stored' % (i, p)))
        if p is not None and p.endswith('.lock') and not held:
            # everything that goes wrong in a request presenting a lock-file name is one defect
            fails = [('lockfile-name-adopted', w) for _, w in fails]
        return fails

    @staticmethod
    def simulate(acts, start, carry, t):
        data = None
        regen = False
        reads = []
        for a in acts:
            k = a[0]
            if k in 'rwd' and data is None:
                data = {} if (regen and not carry) else {kk: v for kk, v in start}
            if k == 'r':
                reads.append(sorted([kk, v] for kk, v in data.items()))
            elif k == 'w':
                data[a[1]] = a[2]
            elif k == 'd':
                data.pop(a[1], None)
            elif k == 'regen':
                regen = True
            elif k == 'tick':
                t += max(0, a[1])
        return reads, data, t

    # ------------------------------------------------------------- evidence
    def nontrivial(self, c, obs):
        tags = []
        interesting = False
        prev = []
        for op, o in zip(c['ops'], obs['ops']):
            k = op[0]
            if k == 'req':
                cat = o.get('cat')
                self.count('cookie:%s' % cat)
                for a in op[3]:
                    self.count('act:%s' % a[0])
                tags.append('q:%s:%s:%s' % (cat, ''.join(a[0][0] for a in op[3]), o['st']))
                if cat in ('unknown', 'malformed', 'lockname', 'torn', 'expired') or \
                        (cat == 'known' and o.get('reads') and any(o['reads'])):
                    interesting = True
            elif k == 'sweep':
                removed = len(prev) - len(o['store'])
                tags.append('s:%d' % removed)
                if removed or o['st'] != 200:
                    interesting = True
            elif k == 'tear':
                tags.append('t:%s:%s' % (op[2], o.get('torn_cls')))
                if o.get('torn_cls') is not None:
                    self.count('tear:%s:class=%s' % (op[2], o.get('torn_cls')))
            else:
                tags.append('a')
            self.count('op:%s' % k)
            prev = o['store']
        self.count('backend:%s' % c['backend'])
        self.count('timeout_min:%d' % c['tmo_min'])
        self.count('history_len:%s' % ('<=5' if len(c['ops']) <= 5 else '<=12' if len(c['ops']) <= 12 else
                                       '<=20' if len(c['ops']) <= 20 else '<=40'))
        if not interesting:
            return None
        return (c['backend'], c['tmo_min'], tuple(tags))

    def shrink(self, c, still_fails):
        def mk(ops):
            d = dict(c)
            d['ops'] = [list(op[:4]) + [UNSET] if op[0] == 'tear' else op for op in ops]
            self.fill(d)
            self._cache.pop(id(d), None)
            return d
        ops = core.shrink_list(c['ops'], lambda ops: still_fails(mk(ops)))
        d = mk(ops)
        for op in d['ops']:
            if op[0] == 'req' and len(op[3]) > 1:
                for k in range(len(op[3]) - 1, -1, -1):
                    saved = op[3][:]
                    del op[3][k]
                    if not still_fails(mk(d['ops'])):
                        op[3][:] = saved
        return mk(d['ops'])


CHECK = C14
