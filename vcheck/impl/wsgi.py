"""In-process WSGI driver that builds environ the way cheroot does, calls a CherryPy
application object and records everything observable at the WSGI boundary."""
import io
import re
import sys
import urllib.parse

QUOTED_SLASH = re.compile(b'(?i)%2F')
COMMA_SEPARATED = {b'Accept', b'Accept-Charset', b'Accept-Encoding', b'Accept-Language', b'Accept-Ranges',
                   b'Allow', b'Cache-Control', b'Connection', b'Content-Encoding', b'Content-Language',
                   b'Expect', b'If-Match', b'If-None-Match', b'Pragma', b'Proxy-Authenticate', b'Te',
                   b'Trailer', b'Transfer-Encoding', b'Upgrade', b'Vary', b'Via', b'Warning',
                   b'Www-Authenticate'}


class Input:
    """wsgi.input: like cheroot's KnownLengthRFile over the bytes the client sent; counts what is consumed.
    frags (optional) bounds what successive read calls return (socket fragmentation)."""

    def __init__(self, data, limit, frags=None):
        self.data = data
        self.limit = limit            # None = unlimited (chunked)
        self.pos = 0
        self.frags = list(frags or [])
        self.calls = 0

    def _avail(self, size):
        rem = len(self.data) - self.pos
        if self.limit is not None:
            rem = min(rem, self.limit - self.pos)
        if size is None or size < 0:
            size = rem
        size = min(size, rem)
        if self.frags and size > 0:
            f = self.frags.pop(0)
            size = min(size, max(1, f))
        return max(size, 0)

    def read(self, size=None):
        self.calls += 1
        n = self._avail(size)
        out = self.data[self.pos:self.pos + n]
        self.pos += n
        return out

    def readline(self, size=None):
        self.calls += 1
        n = self._avail(size)
        chunk = self.data[self.pos:self.pos + n]
        i = chunk.find(b'\n')
        if i >= 0:
            chunk = chunk[:i + 1]
        self.pos += len(chunk)
        return chunk

    def readlines(self, hint=None):
        out = []
        while True:
            l = self.readline()
            if not l:
                return out
            out.append(l)

    def __iter__(self):
        return iter(self.readlines())

    def close(self):
        pass


def build_environ(method='GET', target='/', headers=(), body=b'', protocol='HTTP/1.1', scheme='http',
                  script_name='', frags=None, chunked=False, add_host=True):
    """target: raw request-target bytes or str as on the wire (path[?query], percent-encoded).
    headers: list of (name, value) as on the wire (str = latin-1 / bytes).
    Returns (environ, input, reject) where reject is an int status if the *server* would refuse the request
    before calling the application (malformed Content-Length), else None."""
    if isinstance(target, str):
        target = target.encode('latin-1')
    if isinstance(method, str):
        method = method.encode('latin-1')
    path, _, qs = target.partition(b'?')
    if b'#' in path:
        return None, None, 400
    atoms = [urllib.parse.unquote_to_bytes(x) for x in QUOTED_SLASH.split(path)]
    path = b'%2F'.join(atoms)
    inh = {}
    if add_host and not any((k.decode('latin-1') if isinstance(k, bytes) else k).lower() == 'host' for k, _ in headers):
        headers = [('Host', 'localhost:8080')] + list(headers)
    for k, v in headers:
        if isinstance(k, str):
            k = k.encode('latin-1')
        if isinstance(v, str):
            v = v.encode('latin-1')
        k = k.strip().title()
        v = v.strip()
        if k in COMMA_SEPARATED and k in inh:
            v = b', '.join((inh[k], v))
        inh[k] = v
    reject = None
    cl = 0
    try:
        cl = int(inh.get(b'Content-Length', 0))
    except ValueError:
        reject = 400
    te = inh.get(b'Transfer-Encoding', b'')
    is_chunked = chunked or b'chunked' in te.lower()
    inp = Input(body, None if is_chunked else max(cl, 0), frags)
    env = {
        'ACTUAL_SERVER_PROTOCOL': 'HTTP/1.1',
        'PATH_INFO': path.decode('latin-1'),
        'QUERY_STRING': qs.decode('latin-1'),
        'REMOTE_ADDR': '127.0.0.1',
        'REMOTE_PORT': '55555',
        'REQUEST_METHOD': method.decode('latin-1'),
        'REQUEST_URI': target.decode('latin-1'),
        'SCRIPT_NAME': script_name,
        'SERVER_NAME': 'localhost',
        'SERVER_PORT': '8080',
        'SERVER_PROTOCOL': protocol,
        'SERVER_SOFTWARE': 'vcheck',
        'wsgi.errors': io.StringIO(),
        'wsgi.input': inp,
        'wsgi.input_terminated': bool(is_chunked),
        'wsgi.multiprocess': False,
        'wsgi.multithread': True,
        'wsgi.run_once': False,
        'wsgi.url_scheme': scheme,
        'wsgi.version': (1, 0),
    }
    for k, v in inh.items():
        env['HTTP_' + k.decode('latin-1').upper().replace('-', '_')] = v.decode('latin-1')
    ct = env.pop('HTTP_CONTENT_TYPE', None)
    if ct is not None:
        env['CONTENT_TYPE'] = ct
    c = env.pop('HTTP_CONTENT_LENGTH', None)
    if c is not None:
        env['CONTENT_LENGTH'] = c
    return env, inp, reject


class Result(dict):
    """status(int|None) status_line headers(list of pairs) body(bytes) chunks start_calls
    escaped(repr of an exception that reached the server, or None) consumed closed wellformed(list of problems)"""
    __getattr__ = dict.get


def call(app, method='GET', target='/', headers=(), body=b'', protocol='HTTP/1.1', scheme='http',
         script_name='', frags=None, chunked=False, abandon_after=None, close=True, add_host=True):
    env, inp, reject = build_environ(method, target, headers, body, protocol, scheme, script_name, frags, chunked,
                                     add_host)
    res = Result(status=None, status_line=None, headers=[], body=b'', chunks=[], start_calls=[],
                 escaped=None, consumed=0, closed=False, problems=[], server_rejected=reject)
    if reject:
        res['status'] = reject
        return res
    started = []

    def start_response(status, hdrs, exc_info=None):
        res['start_calls'].append({'status': status, 'headers': list(hdrs), 'exc_info': exc_info is not None})
        if started and not exc_info:
            res['problems'].append('start_response called twice without exc_info')
        started.append(1)
        if res['chunks'] and exc_info:
            # headers already sent: a conforming server re-raises
            raise exc_info[1]
        res['status_line'] = status
        res['headers'] = list(hdrs)
        return lambda data: res['chunks'].append(data)

    it = None
    try:
        it = app(env, start_response)
        n = 0
        for chunk in it:
            if not isinstance(chunk, bytes):
                res['problems'].append('non-bytes chunk %r' % type(chunk).__name__)
                chunk = b''
            if chunk:
                res['chunks'].append(chunk)
            n += 1
            if abandon_after is not None and n >= abandon_after:
                break
    except BaseException as e:   # what reaches the server
        res['escaped'] = '%s: %s' % (type(e).__name__, e)
        res['escaped_type'] = type(e).__name__
        if isinstance(e, (KeyboardInterrupt, SystemExit)) and False:
            raise
    finally:
        if close and it is not None and hasattr(it, 'close'):
            try:
                it.close()
                res['closed'] = True
            except BaseException as e:
                res['escaped'] = res['escaped'] or 'close: %s: %s' % (type(e).__name__, e)
    res['body'] = b''.join(res['chunks'])
    res['consumed'] = inp.pos
    sl = res['status_line']
    if isinstance(sl, str) and re.match(r'^\d{3} ', sl):
        res['status'] = int(sl[:3])
    elif sl is not None:
        res['problems'].append('illegal status line %r' % (sl,))
    for k, v in res['headers']:
        if not isinstance(k, str) or not isinstance(v, str):
            res['problems'].append('non-str header %r: %r' % (k, v))
        else:
            try:
                k.encode('latin-1'), v.encode('latin-1')
            except UnicodeEncodeError:
                res['problems'].append('non-latin-1 header %r' % k)
    if not res['start_calls'] and res['escaped'] is None:
        res['problems'].append('start_response never called')
    return res


def header(res, name, default=None):
    name = name.lower()
    for k, v in res['headers']:
        if isinstance(k, str) and k.lower() == name:
            return v
    return default


def headers_all(res, name):
    name = name.lower()
    return [v for k, v in res['headers'] if isinstance(k, str) and k.lower() == name]


def quiet_cherrypy():
    import cherrypy
    cherrypy.config.update({'environment': 'test_suite', 'log.screen': False, 'log.access_file': '',
                            'log.error_file': ''})
    cherrypy.log.error_log.handlers[:] = []
    cherrypy.log.access_log.handlers[:] = []
    return cherrypy


def make_app(root, config=None, script_name=''):
    """a mounted-like Application without touching the global tree"""
    cherrypy = quiet_cherrypy()
    app = cherrypy.Application(root, script_name, config or {})
    return app
