"""Deterministic scheduler over REAL threads for the schedule properties (C20, C13).

Controlled threads run the unchanged code of /repo but only one of them runs at a
time: every controlled thread *parks* (blocks on its own lock) at each park point
and continues only when the scheduler grants it one *step* (= run until the next
park point, until it blocks, or until it ends).  Park points are

* bytecode instructions of registered code objects, delivered by
  ``sys.monitoring`` INSTRUCTION events (``sys.settrace`` opcode events do not fire
  on 3.12).  ``instrument(code, labeler)`` chooses which instructions are park
  points (``labeler(dis.Instruction) -> label | None``; ``every=True`` makes every
  instruction one).  The thread parks BEFORE the labelled instruction executes;
* explicit points of the harness: ``point(label)``, ``sleep(dt)`` (a voluntary
  yield that advances the logical clock), ``wait_until(pred, label)`` (blocked
  while ``pred()`` is false), ``CoLock``/``CoRLock`` (cooperative replacements for
  ``threading.Lock``/``RLock``), the patched ``threading.Thread.start`` (label
  ``spawn``: threads started by a controlled thread are adopted as controlled
  threads, their ``run`` is executed unchanged) and ``Thread.join`` (label
  ``join``: blocked until the adopted thread has ended).

A *schedule* is a list of thread ids (tids are handed out in creation order,
starting at 0); ``execute(setup, schedule)`` replays it (entries naming a thread
that is not enabled are skipped) and then continues without pre-emption
(``tail='nonpreemptive'``: keep the current thread while it is enabled, else the
lowest enabled tid) until no thread is enabled.  ``explore(setup, bound)`` runs
every schedule with at most ``bound`` pre-emptions exactly once (stateless depth
first search; switching away from a thread that parked at a voluntary yield, that
is blocked or that has ended is free).

Guards: every wait of the scheduler has a wall-clock timeout (``step_timeout``) and
every execution a deadline (``exec_timeout``); a thread that does not come back is
reported as ``status='stuck'`` and abandoned (all controlled threads are daemonic
at the OS level unless the caller decides otherwise).  At the end of an execution
every parked thread is unwound with ``SchedulerExit`` (a ``SystemExit``), so no
thread outlives its execution.  ``close()`` removes the instrumentation, frees the
monitoring tool id and restores every patched name.

Hooks (plain attributes, set by the harness): ``on_step(tid, label)`` runs in the controlled
thread when its step is granted (just before the parked instruction executes); ``on_spawn(thread)``
runs in the parent just before an adopted thread is started; ``on_decision()`` runs in the
scheduler thread before every choice, while every controlled thread is parked (a consistent
snapshot of the shared state can be taken there).  ``emit(*event)`` appends to the journal of the
execution, ``now()`` is the logical clock, ``step_index()`` the number of steps granted so far.
``sleep_budget=n`` (argument of execute/explore) suspends a thread for good at its (n+1)-th sleep
so that endless workers give finite executions (status ``horizon``).

Typical use::

    with Scheduler() as S:
        S.instrument(Cls.method.__code__, labeler)
        S.patch(module, 'time', S.fake_time())
        S.patch_threading()                      # adopt Thread.start / join
        def setup(S):
            obj = make_system()
            S.spawn(lambda: drive(obj))          # tid 0
            return obj
        r = S.execute(setup, [0, 0, 1, 0])       # r.trace, r.journal, r.status ...
        for r in S.explore(setup, bound=2): ...
"""
import _thread
import dis
import sys
import threading
import time as _real_time

__all__ = ['Scheduler', 'SchedulerExit', 'Result', 'CoLock']

NEW, PARKED, RUNNING, DONE = 'new', 'parked', 'running', 'done'


class SchedulerExit(SystemExit):
    """raised inside a controlled thread to unwind it when its execution is over"""


class NonDeterminism(RuntimeError):
    """a replayed schedule prefix did not reproduce the recorded decisions"""


class _Rec:
    __slots__ = ('tid', 'name', 'thread', 'go', 'parked', 'state', 'label', 'pred', 'free', 'sleeping',
                 'sleeps', 'wake', 'error', 'kill', 'steps', 'ident')

    def __init__(self, tid, name):
        self.tid, self.name = tid, name
        self.thread = None
        self.go = _thread.allocate_lock()
        self.go.acquire()
        self.parked = _thread.allocate_lock()
        self.parked.acquire()
        self.state = NEW
        self.label = None
        self.pred = None
        self.free = False
        self.sleeping = False
        self.sleeps = 0
        self.wake = 0
        self.error = None
        self.kill = False
        self.steps = 0
        self.ident = None


class Result:
    """outcome of one execution"""

    def __init__(self):
        self.status = None       # done | horizon | deadlock | stuck | maxsteps | partial | error
        self.schedule = []       # tids granted, in order
        self.trace = []          # (tid, label) per granted step
        self.decisions = []      # (enabled tids, chosen, current tid or None, current is pre-emptible)
        self.journal = []        # whatever the harness emit()ted
        self.skipped = 0         # schedule entries that named a thread that was not enabled
        self.threads = {}        # tid -> dict(name, state, label, sleeps, error)
        self.clock = 0
        self.leaked = 0
        self.detail = ''
        self.ctx = None

    def preemptions(self):
        n = 0
        for enabled, chosen, cur, preemptible in self.decisions:
            if cur is not None and preemptible and chosen != cur:
                n += 1
        return n


class Scheduler:
    def __init__(self, name='vcheck-scheduler', step_timeout=5.0, exec_timeout=60.0):
        self.step_timeout = step_timeout
        self.exec_timeout = exec_timeout
        self._mon = sys.monitoring
        self._tool = None
        for t in (3, 4, 2, 1, 5, 0):
            try:
                self._mon.use_tool_id(t, name)
                self._tool = t
                break
            except ValueError:
                continue
        if self._tool is None:
            raise RuntimeError('no free sys.monitoring tool id')
        self._labels = {}        # (code, offset) -> label
        self._every = set()      # code objects where every instruction is a park point
        self._codes = []
        self._patches = []
        self._mon.register_callback(self._tool, self._mon.events.INSTRUCTION, self._on_instruction)
        self._by_ident = {}
        self._recs = []
        self._active = False
        self._closed = False
        self.on_step = None      # hook(tid, label): runs in the controlled thread when its step is granted
        self.on_spawn = None     # hook(thread): runs in the parent just before an adopted thread is started
        self.on_decision = None  # hook(): runs in the scheduler thread before every choice (all threads parked)
        self._res = None
        self.journal = []
        self.clock = 0
        self.sleep_budget = None
        self.executions = 0
        self.leaked_total = 0
        self._real_start = threading.Thread.start
        self._real_join = threading.Thread.join

    # ------------------------------------------------------------------ setup / teardown
    def __enter__(self):
        return self

    def __exit__(self, *a):
        self.close()

    def instrument(self, code, labeler=None, every=False, replace=False):
        """make instructions of ``code`` park points.  labeler(ins) -> label or None; every=True: the
        instructions the labeler does not name are park points too (generic label); replace=True
        forgets the park points registered for ``code`` before."""
        n = 0
        if replace:
            for k in [k for k in self._labels if k[0] is code]:
                del self._labels[k]
            self._every.discard(code)
        for ins in dis.get_instructions(code):
            lab = labeler(ins) if labeler is not None else None
            if lab is None and every:
                lab = '%s@%d:%s' % (code.co_qualname, ins.offset, ins.opname)
            if lab is not None:
                self._labels[(code, ins.offset)] = lab
                n += 1
        if every:
            self._every.add(code)
        if code not in self._codes:
            self._codes.append(code)
            self._mon.set_local_events(self._tool, code, self._mon.events.INSTRUCTION)
        else:
            self._mon.restart_events()
        return n

    def labels_of(self, code):
        return sorted((off, lab) for (c, off), lab in self._labels.items() if c is code)

    def patch(self, obj, name, value):
        """setattr(obj, name, value), undone by close()"""
        missing = object()
        old = obj.__dict__.get(name, missing) if hasattr(obj, '__dict__') else getattr(obj, name, missing)
        self._patches.append((obj, name, old, missing))
        setattr(obj, name, value)

    def patch_threading(self):
        """threads started / joined by a controlled thread become controlled / cooperative"""
        sched = self

        def start(thread):
            if sched._active and sched.current() is not None:
                return sched.start_thread(thread)
            return sched._real_start(thread)

        def join(thread, timeout=None):
            rec = sched.current() if sched._active else None
            target = getattr(thread, '_vcheck_rec', None)
            if rec is not None and target is not None and target in sched._recs:
                sched._park(rec, 'join', pred=lambda: target.state == DONE)
                return None
            return sched._real_join(thread, timeout)

        self.patch(threading.Thread, 'start', start)
        self.patch(threading.Thread, 'join', join)

    def close(self):
        if self._closed:
            return
        self._closed = True
        self._active = False
        for obj, name, old, missing in reversed(self._patches):
            if old is missing:
                try:
                    delattr(obj, name)
                except AttributeError:
                    pass
            else:
                setattr(obj, name, old)
        self._patches = []
        for code in self._codes:
            try:
                self._mon.set_local_events(self._tool, code, 0)
            except Exception:
                pass
        self._mon.register_callback(self._tool, self._mon.events.INSTRUCTION, None)
        self._mon.free_tool_id(self._tool)
        self._tool = None

    # ------------------------------------------------------------------ inside controlled threads
    def current(self):
        """the record of the calling thread if it is controlled, else None"""
        rec = self._by_ident.get(_thread.get_ident())
        if rec is not None and rec.state != DONE:
            if rec.kill:
                raise SchedulerExit()
            return rec
        return None

    def tid(self):
        rec = self.current()
        return None if rec is None else rec.tid

    def _on_instruction(self, code, offset):
        lab = self._labels.get((code, offset))
        if lab is None:
            return self._mon.DISABLE
        rec = self._by_ident.get(_thread.get_ident())
        if rec is None or rec.state == DONE:
            return None
        if rec.kill:
            raise SchedulerExit()
        if not self._active:
            return None
        self._park(rec, lab)
        return None

    def _park(self, rec, label, pred=None, free=False, sleeping=False):
        if rec.kill:
            raise SchedulerExit()
        rec.label, rec.pred, rec.free, rec.sleeping = label, pred, free, sleeping
        rec.state = PARKED
        rec.parked.release()
        rec.go.acquire()
        if rec.kill:
            rec.state = RUNNING
            raise SchedulerExit()
        rec.state = RUNNING
        rec.pred = None
        hook = self.on_step
        if hook is not None:
            hook(rec.tid, label)

    def point(self, label):
        """explicit park point (no-op in an uncontrolled thread)"""
        rec = self.current()
        if rec is not None and self._active:
            self._park(rec, label)

    def yield_(self, label='yield'):
        """voluntary yield: switching away here is not a pre-emption"""
        rec = self.current()
        if rec is not None and self._active:
            self._park(rec, label, free=True)

    def sleep(self, dt=0):
        """cooperative time.sleep: a voluntary yield; when the thread is granted again the logical
        clock is at least its wake-up time.  Counts against ``sleep_budget``."""
        rec = self.current()
        if rec is None or not self._active:
            return
        try:
            rec.wake = self.clock + (dt if dt and dt > 0 else 0)
        except TypeError:
            rec.wake = self.clock
        self._park(rec, 'sleep', free=True, sleeping=True)
        rec.sleeps += 1
        if rec.wake > self.clock:
            self.clock = rec.wake

    def wait_until(self, pred, label='wait'):
        """blocked (not enabled) until pred() holds; pred is evaluated by the scheduler while every
        controlled thread is parked"""
        rec = self.current()
        if rec is None or not self._active:
            if not pred():
                raise RuntimeError('uncontrolled thread would block in wait_until(%s)' % label)
            return
        self._park(rec, label, pred=pred)

    def emit(self, *event):
        self.journal.append(list(event))

    def now(self):
        return self.clock

    def step_index(self):
        """number of steps granted so far in the current execution"""
        return len(self._res.schedule) if self._res is not None else 0

    def alive(self, tid):
        return self._recs[tid].state != DONE

    def fake_time(self, real=_real_time, epoch=1000000000):
        return _FakeTime(self, real, epoch)

    def Lock(self, name='lock', release_point=False):
        return CoLock(self, name, False, release_point)

    def RLock(self, name='rlock', release_point=False):
        return CoLock(self, name, True, release_point)

    # ------------------------------------------------------------------ thread creation
    def _new_rec(self, name):
        rec = _Rec(len(self._recs), name)
        self._recs.append(rec)
        return rec

    def _enter(self, rec):
        rec.ident = _thread.get_ident()
        self._by_ident[rec.ident] = rec
        self._park(rec, 'begin')

    def _leave(self, rec):
        rec.state = DONE
        if self._by_ident.get(rec.ident) is rec:
            del self._by_ident[rec.ident]
        try:
            rec.parked.release()
        except RuntimeError:
            pass

    def _await_park(self, rec):
        if not rec.parked.acquire(timeout=self.step_timeout):
            raise _Stuck('thread %d (%s) did not reach a park point within %.1fs'
                         % (rec.tid, rec.name, self.step_timeout))

    def spawn(self, fn, name=None, daemon=True):
        """create a controlled thread running fn(); it parks at 'begin' before fn starts.  Returns its tid."""
        rec = self._new_rec(name or 'T%d' % len(self._recs))

        def body():
            try:
                self._enter(rec)
                fn()
            except SchedulerExit:
                pass
            except BaseException as e:   # recorded, not printed: the harness decides what it means
                rec.error = '%s: %s' % (type(e).__name__, e)
            finally:
                self._leave(rec)
        t = threading.Thread(target=body, name='vcheck-%s' % rec.name, daemon=daemon)
        rec.thread = t
        t._vcheck_rec = rec
        self._real_start(t)
        self._await_park(rec)
        return rec.tid

    def start_thread(self, thread, name=None):
        """start an existing threading.Thread object as a controlled thread.  Its own run() executes
        unchanged (wrapped only to register the thread and to notice its end).  When called from a
        controlled thread this is itself a park point (label 'spawn')."""
        parent = self.current()
        if parent is not None:
            self._park(parent, 'spawn')
        if self.on_spawn is not None:
            self.on_spawn(thread)
        rec = self._new_rec(name or getattr(thread, 'name', None) or 'adopted')
        rec.thread = thread
        thread._vcheck_rec = rec
        orig_run = thread.run

        def run():
            try:
                self._enter(rec)
                orig_run()
            except SchedulerExit:
                pass
            except BaseException as e:
                rec.error = '%s: %s' % (type(e).__name__, e)
            finally:
                self._leave(rec)
        thread.run = run
        self._real_start(thread)
        self._await_park(rec)
        return rec.tid

    def finished(self, tid):
        return self._recs[tid].state == DONE

    # ------------------------------------------------------------------ running
    def _enabled(self, rec):
        if rec.state != PARKED:
            return False
        if rec.sleeping and self.sleep_budget is not None and rec.sleeps >= self.sleep_budget:
            return False
        if rec.pred is not None:
            try:
                return bool(rec.pred())
            except Exception:
                return False
        return True

    def execute(self, setup, schedule=(), tail='nonpreemptive', max_steps=20000, sleep_budget=None):
        """One execution: setup(self) builds the system and spawns the controlled threads (returns a
        context object kept in Result.ctx), then the schedule is replayed, then the tail policy runs
        ('nonpreemptive' | 'stop')."""
        if self._closed:
            raise RuntimeError('scheduler is closed')
        res = Result()
        self._recs = []
        self.journal = res.journal
        self.clock = 0
        self.sleep_budget = sleep_budget
        self.executions += 1
        deadline = _real_time.monotonic() + self.exec_timeout
        self._active = True
        cur = None
        it = iter(schedule)
        exhausted = False
        try:
            self._res = res
            res.ctx = setup(self)
            while True:
                if self.on_decision is not None:
                    self.on_decision()
                enabled = [r.tid for r in self._recs if self._enabled(r)]
                if not enabled:
                    break
                if len(res.schedule) >= max_steps:
                    res.status = 'maxsteps'
                    break
                if _real_time.monotonic() > deadline:
                    raise _Stuck('execution exceeded %.0fs' % self.exec_timeout)
                chosen = None
                while not exhausted:
                    try:
                        x = next(it)
                    except StopIteration:
                        exhausted = True
                        break
                    if x in enabled:
                        chosen = x
                        break
                    res.skipped += 1
                if chosen is None:
                    if tail == 'stop':
                        res.status = 'partial'
                        break
                    chosen = cur if cur in enabled else enabled[0]
                crec = self._recs[cur] if cur is not None else None
                preemptible = bool(crec is not None and cur in enabled and not crec.free)
                res.decisions.append((tuple(enabled), chosen, cur, preemptible))
                rec = self._recs[chosen]
                res.schedule.append(chosen)
                res.trace.append((chosen, rec.label))
                rec.steps += 1
                rec.state = RUNNING
                rec.go.release()
                self._await_park(rec)
                cur = chosen
            if res.status is None:
                live = [r for r in self._recs if r.state != DONE]
                if not live:
                    res.status = 'done'
                elif any(r.sleeping and self.sleep_budget is not None and r.sleeps >= self.sleep_budget
                         for r in live):
                    res.status = 'horizon'
                else:
                    res.status = 'deadlock'
                    res.detail = '; '.join('thread %d (%s) blocked at %s' % (r.tid, r.name, r.label) for r in live)
        except _Stuck as e:
            res.status = 'stuck'
            res.detail = str(e)
        except SchedulerExit:
            res.status = 'error'
            res.detail = 'SchedulerExit escaped into the scheduler thread'
        finally:
            res.clock = self.clock
            for r in self._recs:
                res.threads[r.tid] = {'name': r.name, 'state': r.state, 'label': r.label if r.state != DONE else None,
                                      'sleeps': r.sleeps, 'error': r.error, 'steps': r.steps}
            res.leaked = self._kill_all()
            self.leaked_total += res.leaked
            self._active = False
        return res

    def _kill_all(self):
        """unwind every thread that is still parked; returns the number of threads that could not be ended"""
        leaked = 0
        for r in self._recs:
            r.kill = True
        for r in self._recs:
            if r.state == PARKED:
                try:
                    r.go.release()
                except RuntimeError:
                    pass
                r.parked.acquire(timeout=min(2.0, self.step_timeout))
        for r in self._recs:
            t = r.thread
            if t is not None and t.ident is not None:
                if r.state == DONE:
                    self._real_join(t, 1.0)
                if t.is_alive():
                    leaked += 1
        return leaked

    def explore(self, setup, bound, limit=None, **kw):
        """generate the Result of every schedule with <= bound pre-emptions (each exactly once)"""
        stack = [([], 0)]
        n = 0
        while stack:
            prefix, used = stack.pop()
            res = self.execute(setup, prefix, **kw)
            if res.status == 'stuck':
                yield res
                continue
            if res.skipped or res.schedule[:len(prefix)] != prefix:
                raise NonDeterminism('prefix %r replayed as %r (skipped %d)' % (prefix, res.schedule, res.skipped))
            alts = []
            for j in range(len(prefix), len(res.decisions)):
                enabled, chosen, cur, preemptible = res.decisions[j]
                for a in enabled:
                    if a == chosen:
                        continue
                    c = used + (1 if (preemptible and a != cur) else 0)
                    if c <= bound:
                        alts.append((res.schedule[:j] + [a], c))
            stack.extend(reversed(alts))
            n += 1
            yield res
            if limit is not None and n >= limit:
                return


class _Stuck(RuntimeError):
    pass


class _FakeTime:
    """stand-in for the ``time`` module inside a module under test"""

    def __init__(self, sched, real, epoch):
        self._s, self._real, self._epoch = sched, real, epoch

    def sleep(self, dt=0):
        self._s.sleep(dt)

    def time(self):
        return self._epoch + self._s.clock

    def monotonic(self):
        return self._s.clock

    perf_counter = monotonic

    def __getattr__(self, n):
        return getattr(self._real, n)


class CoLock:
    """cooperative Lock / RLock: acquire is a park point that is enabled only while the lock is free
    (or owned by the caller, when reentrant)"""

    def __init__(self, sched, name='lock', reentrant=False, release_point=False):
        self._s, self.name, self.reentrant, self.release_point = sched, name, reentrant, release_point
        self.owner = None
        self.count = 0
        self.history = []        # (tid, 'acquire' | 'release')

    def _me(self):
        rec = self._s.current() if self._s._active else None
        return rec, ('ext', _thread.get_ident()) if rec is None else rec.tid

    def _free_for(self, me):
        return self.owner is None or (self.reentrant and self.owner == me)

    def acquire(self, blocking=True, timeout=-1):
        rec, me = self._me()
        if rec is None:
            if self._free_for(me):
                self.owner, self.count = me, self.count + 1
                return True
            if not blocking or (timeout is not None and timeout >= 0):
                return False
            raise RuntimeError('uncontrolled thread would block on cooperative lock %s' % self.name)
        if blocking and (timeout is None or timeout < 0):
            self._s._park(rec, 'acquire:' + self.name, pred=lambda: self._free_for(me))
        else:
            self._s._park(rec, 'tryacquire:' + self.name)
            if not self._free_for(me):
                return False
        self.owner, self.count = me, self.count + 1
        self.history.append((me, 'acquire'))
        return True

    def release(self):
        rec, me = self._me()
        if self.owner is None or (self.reentrant and self.owner != me):
            raise RuntimeError('release of un-acquired lock %s' % self.name)
        if rec is not None and self.release_point:
            self._s._park(rec, 'release:' + self.name)
        self.count -= 1
        if self.count <= 0:
            self.owner, self.count = None, 0
        self.history.append((me, 'release'))

    def locked(self):
        return self.owner is not None

    def _is_owned(self):
        return self.owner == self._me()[1]

    __enter__ = acquire

    def __exit__(self, *a):
        self.release()
