"""C13 harness on top of vcheck.impl.scheduler: the REAL ``RamSession`` methods (acquire_lock, release_lock,
clean_up, _exists, _load, _save, _delete, Session.__init__/_regenerate/load/save and the module functions
``sessions.save``/``sessions.close``) run on real threads, one at a time, under the deterministic scheduler.

Park points (= the visible steps of coq/Model/M_locks.v):
  * every ``LOAD_ATTR cache`` / ``LOAD_ATTR locks`` inside the anchored RamSession functions (the thread parks
    just before it fetches the shared table for the dict operation that follows; the instructions between the
    fetch and the operation touch thread-local data only);
  * ``acquire`` / ``acquire(blocking=False)`` / ``release`` of the per-id lock objects: ``threading.RLock`` is
    replaced, in the ``sessions`` module namespace only, by the scheduler's cooperative re-entrant lock
    (``release_point=True``);
  * 'begin' of each thread and the sweeper's 'sweep' point before each ``clean_up()``.

Nothing of the scheduler is changed; this module only adds
  * ``JDict`` - a transparent ``dict`` subclass for ``RamSession.cache`` / ``.locks`` that journals mutations
    (methods are plain Python, not instrumented: no extra park points),
  * ``make_probe`` - a RamSession subclass whose acquire_lock/release_lock/_save/generate_id wrappers journal
    critical-section entry/exit and keep the occupancy counter of the oracle (the wrapped methods are the
    unchanged anchored ones),
  * ``Harness`` - builds the ``setup(S)`` function of one scenario and turns a scheduler Result into the
    observation the check compares with the model.
"""
import datetime
import types

LABELS = {
    'begin': 0, 'sweep': 1,
    'exists/cache': 10, 'load/cache': 11, 'save/cache': 12, 'delete/cache': 13,
    'acq/locks': 20, 'rel/locks': 21,
    'sweep/cache': 30, 'sweep/locks': 31,
    'acquire:L': 40, 'tryacquire:L': 41, 'release:L': 42,
}
STATUS = {'done': 0, 'deadlock': 2}
SID = 1
PAST = datetime.datetime(2000, 1, 1)
FUTURE = datetime.datetime(2200, 1, 1)
KINDS = {'rmw': 0, 'fail': 1, 'regen': 2, 'ro': 3}


def attr_labeler(fn):
    def lab(ins):
        if ins.opname == 'LOAD_ATTR' and ins.argval in ('cache', 'locks'):
            return '%s/%s' % (fn, ins.argval)
        return None
    return lab


class JDict(dict):
    """dict that journals removals / lock installations; reads and plain stores are untouched"""
    __slots__ = ('h', 'kind')

    def __delitem__(self, k):
        dict.__delitem__(self, k)
        self.h.removed(self.kind, k, None)

    def pop(self, k, *d):
        had = k in self
        v = dict.pop(self, k, *d)
        if had:
            self.h.removed(self.kind, k, v)
        return v

    def setdefault(self, k, d=None):
        if k not in self:
            self.h.installed(self.kind, k, d)
        return dict.setdefault(self, k, d)


class Boom(Exception):
    pass


class Harness:
    """one per check; ``bind(S)`` instruments the anchored code"""

    def __init__(self):
        from cherrypy.lib import sessions
        import cherrypy
        self.cherrypy = cherrypy
        self.sessions = sessions
        self.S = None
        self.ctx = None
        if not hasattr(cherrypy, 'session'):
            cherrypy.session = cherrypy._ThreadLocalProxy('session')

    # ---- instrumentation
    def codes(self):
        R = self.sessions.RamSession
        return [(R._exists.__code__, 'exists'), (R._load.__code__, 'load'), (R._save.__code__, 'save'),
                (R._delete.__code__, 'delete'), (R.acquire_lock.__code__, 'acq'),
                (R.release_lock.__code__, 'rel'), (R.clean_up.__code__, 'sweep')]

    def bind(self, S, opcode=False):
        self.S = S
        for code, fn in self.codes():
            S.instrument(code, attr_labeler(fn), every=opcode and fn in ('acq', 'rel', 'sweep'), replace=True)
        if getattr(self, '_patched_for', None) is not S:
            self._patched_for = S
            real = self.sessions.threading
            while getattr(real, '_c13_real', None) is not None:
                real = real._c13_real
            h = self

            class Shim(types.ModuleType):
                def __getattr__(self, n):
                    return getattr(real, n)
            shim = Shim('threading-shim')
            shim._c13_real = real
            # cooperative lock objects inside controlled threads only: the sequential WSGI part of the check
            # (uncontrolled threads) keeps the real threading.RLock
            shim.RLock = lambda: (h.S.RLock('L', release_point=True) if h.S.tid() is not None else real.RLock())
            S.patch(self.sessions, 'threading', shim)

    # ---- journal callbacks
    def removed(self, kind, k, v):
        tid = self.S.tid()
        if tid is None:
            return
        if kind == 'cache':
            self.S.emit(6, tid, k)
        else:
            self.S.emit(7, tid, k, getattr(v, 'no', -1) if v is not None else -1)

    def installed(self, kind, k, v):
        if kind != 'locks':
            return
        ctx = self.ctx
        v.no = len(ctx['objs'])
        ctx['objs'].append(v)
        tid = self.S.tid()
        if tid is not None:
            self.S.emit(8, tid, k, v.no)

    # ---- the system of one scenario
    def setup_fn(self, c):
        S, sessions, cherrypy, h = self.S, self.sessions, self.cherrypy, self
        state, kinds, sweeps, n0, prelock = c['state'], c['kinds'], c['sweeps'], c['n0'], c['prelock']
        R = sessions.RamSession

        def setup(S):
            ctx = {'objs': [], 'occ': {}, 'occ_max': 0, 'sess': {}, 'gen': {}, 'occ_who': None}
            h.ctx = ctx
            cache, locks = JDict(), JDict()
            cache.h = locks.h = h
            cache.kind, locks.kind = 'cache', 'locks'

            class Probe(R):
                def generate_id(self):
                    tid = S.tid()
                    k = ctx['gen'].get(tid, 0)
                    ctx['gen'][tid] = k + 1
                    return 100 + 10 * (tid if tid is not None else 9) + k

                def acquire_lock(self):
                    R.acquire_lock(self)
                    tid = S.tid()
                    occ = ctx['occ']
                    occ[self.id] = occ.get(self.id, 0) + 1
                    if occ[self.id] > ctx['occ_max']:
                        ctx['occ_max'] = occ[self.id]
                        ctx['occ_who'] = self.id
                    S.emit(0, tid, self.id)

                def release_lock(self):
                    tid = S.tid()
                    occ = ctx['occ']
                    occ[self.id] = occ.get(self.id, 0) - 1
                    S.emit(1, tid, self.id)
                    R.release_lock(self)

                def _save(self, expiration_time):
                    R._save(self, expiration_time)
                    S.emit(3, S.tid(), self.id, self._data.get('n', 0))
            Probe.cache, Probe.locks = cache, locks
            Probe.clean_thread = None
            ctx['cls'] = Probe
            if state in ('live', 'expired'):
                dict.__setitem__(cache, SID, ({'n': n0}, FUTURE if state == 'live' else PAST))
                if prelock:
                    locks.setdefault(SID, S.RLock('L', release_point=True))
            cookie = None if state == 'new' else SID

            def exc_code(e):
                return 1 if isinstance(e, KeyError) else 2 if isinstance(e, RuntimeError) else 3

            def request(kind):
                def body():
                    tid = S.tid()
                    serving = cherrypy.serving
                    sess = None
                    try:
                        serving.request = types.SimpleNamespace()
                        serving.response = types.SimpleNamespace(stream=False, body=b'')
                        sess = Probe(cookie, clean_freq=0, timeout=60)
                        serving.session = sess
                        ctx['sess'][tid] = sess
                        failed = False
                        try:
                            sess.acquire_lock()               # SessionTool._lock_session
                            if kind != KINDS['ro']:
                                v = sess.get('n', 0)
                                S.emit(2, tid, sess.id, v)
                                sess['n'] = v + 1
                            if kind == KINDS['regen']:
                                sess.regenerate()
                            if kind == KINDS['fail']:
                                raise Boom()
                        except Boom:
                            failed = True
                        except Exception as e:
                            S.emit(4, tid, exc_code(e))
                            failed = True
                        if not failed:
                            try:
                                sessions.save()               # before_finalize
                            except Exception as e:
                                S.emit(4, tid, exc_code(e))
                        try:
                            sessions.close()                  # on_end_request (failsafe)
                        except Exception as e:
                            S.emit(4, tid, exc_code(e))
                        # (not in a finally: a thread unwound by the scheduler at the end of a deadlocked
                        # execution is not a request that is over)
                        S.emit(5, tid, 1 if sess.locked else 0)
                    finally:
                        serving.clear()
                return body
            for i, k in enumerate(kinds):
                S.spawn(request(k), 'request-%d' % i)
            if sweeps:
                sw = Probe.__new__(Probe)

                def sweeper():
                    tid = S.tid()
                    for _ in range(sweeps):
                        S.point('sweep')
                        try:
                            sw.clean_up()
                        except Exception as e:
                            S.emit(4, tid, exc_code(e))
                            return
                S.spawn(sweeper, 'sweeper')
            return ctx
        return setup

    def observe(self, c, r):
        ctx = r.ctx
        P = ctx['cls']

        def own(l):
            return -1 if l.owner is None else (l.owner if isinstance(l.owner, int) else 99)
        n = len(c['kinds'])
        return {
            'status': STATUS.get(r.status, 9), 'detail': r.detail,
            'trace': [[t, LABELS.get(l, 99)] for t, l in r.trace],
            'labels_unknown': sorted({l for _, l in r.trace if l not in LABELS}),
            'journal': [list(e) for e in r.journal],
            'cache': [[k, v[0].get('n', 0), 1 if v[1] <= PAST else 0] for k, v in P.cache.items()],
            'locks': [[k, getattr(l, 'no', -1)] for k, l in P.locks.items()],
            'objs': [[own(l), l.count] for l in ctx['objs']],
            'locked': [1 if (t in ctx['sess'] and ctx['sess'][t].locked) else 0 for t in range(n)],
            'occ_max': ctx['occ_max'], 'occ_who': ctx['occ_who'],
            'errors': {str(t): d['error'] for t, d in r.threads.items() if d['error']},
            'leaked': r.leaked, 'steps': len(r.trace),
        }
