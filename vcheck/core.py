"""Shared protocol of every property check: build/proof obligations, generated
ties, differential correspondence against the extracted model, property oracle,
violation search, known findings, replay and evidence files."""
import fcntl
import hashlib
import json
import os
import random
import re
import resource
import subprocess
import sys
import time

from . import sx

VERIF = os.path.dirname(os.path.dirname(os.path.abspath(__file__)))
REPO = os.environ.get('VERIF_REPO', '/repo')
COQ = os.path.join(VERIF, 'coq')
WORK = os.path.join(VERIF, '.work')
PY = sys.executable

FORBIDDEN = re.compile(
    r'\b(Admitted|admit|Axiom|Axioms|Parameter|Parameters|Conjecture|Conjectures|Hypothesis|Hypotheses|Variable|Variables|Context'
    r'|Unset\s+Guard|bypass_check|type-in-type|impredicative-set|Admit\s+Obligations'
    r'|Unset\s+Positivity|Unset\s+Universe)\b')

TRUSTED_BASE = [
    'Coq 8.16.1 kernel via coqc (full .vo build); vm_compute used in tie lemmas, refutation '
    'witnesses and the in-Coq re-evaluation of sampled cases; native_compute not used',
    'extraction: ExtrOcamlBasic only (Extract Inductive bool/option/unit/list/prod/sumbool/sumor, '
    'Extract Inlined Constant andb/orb/negb/fst/snd), no Extract Constant of our own; OCaml 4.13.1 ocamlopt; '
    'ocaml/driver.ml (s-expression reader/printer)',
    'the correspondence harness (vcheck/*: generators, canonicalisers, drivers of the real code) and, '
    'where used, the Python-ast translator vcheck/translate (fails closed)',
    'CPython 3.12 and the standard library are modelled, not verified',
]


def log(*a):
    print(*a, file=sys.stderr, flush=True)


def _unlimit_stack():
    try:
        resource.setrlimit(resource.RLIMIT_STACK, (resource.RLIM_INFINITY, resource.RLIM_INFINITY))
    except Exception:
        pass


def sh(cmd, timeout=900, cwd=VERIF, env=None):
    p = subprocess.run(cmd, shell=isinstance(cmd, str), cwd=cwd, timeout=timeout,
                       stdout=subprocess.PIPE, stderr=subprocess.STDOUT, text=True,
                       env=env, preexec_fn=_unlimit_stack)
    return p.returncode, p.stdout


class Lock:
    def __init__(self, name):
        os.makedirs(WORK, exist_ok=True)
        self.path = os.path.join(WORK, name + '.lock')

    def __enter__(self):
        self.f = open(self.path, 'w')
        fcntl.flock(self.f, fcntl.LOCK_EX)

    def __exit__(self, *a):
        fcntl.flock(self.f, fcntl.LOCK_UN)
        self.f.close()


class Obligation:
    def __init__(self, name, ok, detail=''):
        self.name, self.ok, self.detail = name, ok, detail

    def as_json(self):
        return {'name': self.name, 'ok': self.ok, 'detail': self.detail[-2000:]}


def build_coq(targets=None):
    """Full .vo build (never -vos) of the hand-written development, or of the given .vo targets and
    everything they depend on; incremental, under a lock."""
    with Lock('coqbuild'):
        sh(['sh', 'mkproject.sh'], cwd=COQ)
        rc, out = sh('timeout 2400 make -j16 %s 2>&1' % ' '.join(targets or []), cwd=COQ, timeout=2500)
    return rc == 0, out


def build_model(pid):
    with Lock('ocaml_' + pid):
        rc, out = sh(['sh', 'build.sh', pid], cwd=os.path.join(VERIF, 'ocaml'), timeout=300)
    return rc == 0, out


def scan_forbidden(paths):
    hits = []
    for p in paths:
        try:
            txt = open(p).read()
        except OSError:
            continue
        txt = re.sub(r'\(\*.*?\*\)', ' ', txt, flags=re.S)
        for m in FORBIDDEN.finditer(txt):
            # Variable/Hypothesis are allowed inside a Section only
            if m.group(1) in ('Variable', 'Hypothesis', 'Variables', 'Hypotheses', 'Context'):
                before = txt[:m.start()]
                if len(re.findall(r'\bSection\s+\w+', before)) > len(re.findall(r'\bEnd\s+\w+\s*\.', before)):
                    continue
            hits.append('%s: %s' % (os.path.relpath(p, VERIF), m.group(0)))
    return hits


def all_v_files():
    out = []
    for d, _, fs in os.walk(COQ):
        for f in fs:
            if f.endswith('.v'):
                out.append(os.path.join(d, f))
    return sorted(out)


def check_props_file(relpath, extra_Q=()):
    """Re-compile coq/<relpath> (a Props/ or Refuted/ file), return
    (obligations, assumptions) parsed from statements and Print Assumptions output."""
    path = os.path.join(COQ, relpath)
    src = open(path).read()
    names = re.findall(r'^\s*(?:Theorem|Lemma|Example|Corollary)\s+(\w+)', src, flags=re.M)
    base = os.path.basename(relpath)[:-2]
    tmpdir = os.path.join(WORK, 'props')
    os.makedirs(tmpdir, exist_ok=True)
    # compile a copy so that the build tree's .vo is not raced
    tmp = os.path.join(tmpdir, base + '_chk.v')
    open(tmp, 'w').write(src)
    cmd = ['timeout', '600', 'coqc', '-Q', COQ, 'CV']
    for d, n in extra_Q:
        cmd += ['-Q', d, n]
    cmd += ['-w', '-notation-overridden,-deprecated-hint-without-locality', tmp]
    rc, out = sh(cmd, cwd=tmpdir, timeout=700)
    obls = []
    closed = out.count('Closed under the global context')
    axioms = re.findall(r'^Axioms:\n((?:.+\n?)+?)(?=^\S|\Z)', out, flags=re.M)
    n_print = len(re.findall(r'^\s*Print\s+Assumptions\s+(\w+)', src, flags=re.M))
    for n in names:
        obls.append(Obligation('%s:%s' % (relpath, n), rc == 0, '' if rc == 0 else out))
    assumptions = []
    if axioms:
        for a in axioms:
            assumptions.append(a.strip())
    if rc == 0 and closed + len(axioms) != n_print:
        obls.append(Obligation('%s:print-assumptions-count' % relpath, False,
                               'expected %d Print Assumptions results, saw %d closed + %d with axioms\n%s'
                               % (n_print, closed, len(axioms), out)))
    return obls, assumptions, out


def coqchk(props_files):
    """independent re-check (coqchk -o) of the compiled property files and everything they depend on;
    the obligation holds when the checker accepts them and reports no axiom, no type-in-type, no unsafe
    fixpoint and no assumed positivity"""
    mods = ['CV.' + f[:-2].replace('/', '.') for f in props_files]
    with Lock('coqbuild'):
        rc, out = sh(['timeout', '3000', 'coqchk', '-o', '-silent', '-Q', COQ, 'CV'] + mods, cwd=COQ, timeout=3100)
    summary = out[out.find('CONTEXT SUMMARY'):] if 'CONTEXT SUMMARY' in out else out[-1500:]
    clean = all(re.search(r'\* %s: <none>' % re.escape(k), summary) for k in
                ('Axioms', 'Constants/Inductives relying on type-in-type',
                 'Constants/Inductives relying on unsafe (co)fixpoints', 'Inductives whose positivity is assumed'))
    return Obligation('coqchk -o %s (independent checker: no axioms, no unsafe flags)' % ' '.join(mods),
                      rc == 0 and clean, summary[-1500:])


def coq_check_text(name, text, extra_Q=(), timeout=600):
    """Compile a generated .v text; returns (ok, output)."""
    # one directory per process: two runs of one property at a time (seed sweeps) must not share a file
    d = os.path.join(WORK, 'gen', str(os.getpid()))
    os.makedirs(d, exist_ok=True)
    p = os.path.join(d, name + '.v')
    open(p, 'w').write(text)
    cmd = ['timeout', str(timeout), 'coqc', '-Q', COQ, 'CV', '-Q', d, 'G']
    for dd, n in extra_Q:
        cmd += ['-Q', dd, n]
    cmd += ['-w', '-notation-overridden,-deprecated-hint-without-locality', p]
    rc, out = sh(cmd, cwd=d, timeout=timeout + 60)
    for ext in ('.vo', '.vok', '.vos', '.glob', '.aux'):
        for q in (os.path.join(d, name + ext), os.path.join(d, '.' + name + ext)):
            if os.path.exists(q):
                os.remove(q)
    if rc == 0:
        os.remove(p)
        try:
            os.rmdir(d)
        except OSError:
            pass
    return rc == 0, out


class Model:
    """The extracted model of one property as a batch function sx -> sx."""

    def __init__(self, pid):
        self.pid = pid
        self.exe = os.path.join(VERIF, 'ocaml', '.build', pid, 'run')

    def run(self, cases):
        """cases: list of python values (encoded with sx.enc); returns list of decoded results"""
        if not cases:
            return []
        d = os.path.join(WORK, self.pid)
        os.makedirs(d, exist_ok=True)
        inp = os.path.join(d, 'cases.%d.sx' % os.getpid())
        with open(inp, 'w') as f:
            for c in cases:
                f.write(c if isinstance(c, str) else sx.enc(c))
                f.write('\n')
        with open(inp) as fin:
            p = subprocess.run([self.exe], stdin=fin, stdout=subprocess.PIPE, stderr=subprocess.PIPE,
                               text=True, preexec_fn=_unlimit_stack, timeout=3600)
        os.unlink(inp)
        if p.returncode != 0:
            raise RuntimeError('model driver failed: %s' % p.stderr[-500:])
        lines = p.stdout.split('\n')
        if lines and lines[-1] == '':
            lines.pop()
        if len(lines) != len(cases):
            raise RuntimeError('model driver returned %d lines for %d cases' % (len(lines), len(cases)))
        res = []
        for ln in lines:
            if ln.startswith('STACKOVERFLOW') or ln.startswith('PARSEERROR'):
                res.append(ln)
            else:
                res.append(sx.dec(ln))
        return res

    def coq_crosscheck(self, fn, module, cases, results, chunk=40):
        """kernel re-evaluation: map fn cases = results by vm_compute"""
        if not cases:
            return Obligation('vm_compute-crosscheck', True, '0 cases')
        body = ['From Coq Require Import ZArith List.', 'Import ListNotations.',
                'From CV Require Import Lib.Sx %s.' % module, 'Open Scope Z_scope.']
        k = 0
        for i in range(0, len(cases), chunk):
            cs = cases[i:i + chunk]
            rs = results[i:i + chunk]
            body.append('Lemma xc%d : map %s [%s] = [%s].\nProof. vm_compute. reflexivity. Qed.' % (
                k, fn, ';\n '.join(sx.to_coq(sx.norm(c)) for c in cs),
                ';\n '.join(sx.to_coq(r) for r in rs)))
            k += 1
        ok, out = coq_check_text('XC_%s' % self.pid, '\n'.join(body) + '\n')
        return Obligation('vm_compute-crosscheck(%d cases: extracted binary = kernel evaluation)' % len(cases),
                          ok, '' if ok else out)


# --------------------------------------------------------------------------


def evidence_path(pid):
    """evidence/<id>.json describes a run against /repo; a run against another tree (VERIF_REPO=<scratch worktree>,
    used to evaluate seeded changes) keeps its record under .work/ so that it never replaces the committed one"""
    d = os.path.join(VERIF, 'evidence') if os.path.realpath(REPO) == '/repo' else os.path.join(WORK, 'evidence-other-tree')
    os.makedirs(d, exist_ok=True)
    return os.path.join(d, pid + '.json')


def load_known():
    p = os.path.join(VERIF, 'known_findings.json')
    if not os.path.exists(p):
        return []
    return json.load(open(p))['findings']


class Violation:
    def __init__(self, signature, what, case=None, observed=None, expected=None, kind='oracle',
                 no_input=False, broken=None):
        self.signature = signature        # stable class of the failing input
        self.what = what                  # human text: clause contradicted
        self.case = case
        self.observed = observed
        self.expected = expected
        self.kind = kind                  # oracle | correspondence | obligation
        self.no_input = no_input
        self.broken = broken              # names of theorems / ties / correspondence that no longer check


class Check:
    """Base class; a property module subclasses it and fills the hooks."""
    pid = None
    title = ''
    props_files = ()          # e.g. ('Props/C05.v',)
    refuted_files = ()        # e.g. ('Refuted/R_C05.v',)
    has_model = True
    model_fn = None           # e.g. ('run_C05', 'Model.M_reader')
    xcheck_n = 40
    extra_targets = ()
    rule = ''
    assumptions = ()

    def __init__(self, tier, seed):
        self.tier = tier
        self.seed = seed
        self.rng = random.Random(seed)
        self.stats = {}
        self.samples = []
        self.notes = []

    # ---- hooks -----------------------------------------------------------
    def ties(self):
        """G: regenerate from /repo and return [Obligation]."""
        return []

    def corpus(self):
        d = os.path.join(VERIF, 'corpus', self.pid)
        out = []
        if os.path.isdir(d):
            for f in sorted(os.listdir(d)):
                if f.endswith('.json'):
                    out.append(unjson(json.load(open(os.path.join(d, f)))['case']))
        return out

    def cases(self):
        return []

    def search_cases(self, around=None):
        """extra cases for the violation search (when an obligation or the correspondence broke)"""
        return []

    def encode(self, case):
        raise NotImplementedError

    def impl(self, case):
        raise NotImplementedError

    def compare(self, case, model_out, obs):
        """return None if model and implementation agree, else a short description"""
        raise NotImplementedError

    def oracle(self, case, obs):
        """property oracle on the implementation's observation: list of (signature, what)"""
        return []

    def nontrivial(self, case, obs):
        """a hashable key when the case reaches the interesting branch, else None"""
        return None

    def shrink(self, case, still_fails):
        return case

    def setup(self):
        pass

    def teardown(self):
        pass

    def extra(self):
        """property-specific additional steps; returns [Violation]"""
        return []

    # ---- protocol --------------------------------------------------------
    def count(self, key, n=1):
        self.stats[key] = self.stats.get(key, 0) + n

    def _watchdog(self, limit):
        """a check that does not finish (e.g. the implementation dead-locks under a change) is reported, not hung:
        the property is no longer shown to hold"""
        import threading

        def fire():
            try:
                v = Violation('watchdog:%s' % self.pid,
                              'the check did not finish within %d s (implementation or model blocked)' % limit,
                              kind='obligation', no_input=True, broken=['watchdog: check run did not terminate'])
                path = self.write_replay(v, [])
                print('VIOLATION property=%s replay=%s no-failing-input-found' % (self.pid, path), flush=True)
                ev = {'property_id': self.pid, 'tier': self.tier, 'seed': self.seed, 'level': 'proof',
                      'coverage': {'obligations': 1, 'discharged': 0, 'checker_cmd': 'watchdog',
                                   'trusted_base': TRUSTED_BASE, 'evaluations': 0, 'distinct_nontrivial': 0,
                                   'rule': self.rule, 'samples': [], 'notes': ['check run did not terminate']},
                      'wall_s': limit, 'violations': 1}
                with open(evidence_path(self.pid), 'w') as f:
                    json.dump(ev, f, indent=1)
            finally:
                os._exit(1)
        t = threading.Timer(limit, fire)
        t.daemon = True
        t.start()
        return t

    def run(self):
        t0 = time.time()
        wd = self._watchdog(int(os.environ.get('VERIF_WATCHDOG', '1500' if self.tier == 'quick' else '14000')))
        try:
            return self._run(t0)
        finally:
            wd.cancel()

    def _run(self, t0):
        os.makedirs(os.path.join(WORK, self.pid), exist_ok=True)
        obligations = []
        assumptions_seen = []
        violations = []

        # 1. proof obligations
        targets = [f[:-2] + '.vo' for f in tuple(self.props_files) + tuple(self.refuted_files)]
        if self.has_model:
            targets.append('Extract/X_%s.vo' % self.pid)
        ok, out = build_coq(targets + list(self.extra_targets))
        obligations.append(Obligation('coq-build(make %s, full .vo)' % ' '.join(targets), ok, '' if ok else out))
        hits = scan_forbidden(all_v_files())
        obligations.append(Obligation('no Admitted/admit/Axiom/Parameter/Conjecture/unset checks in coq/**/*.v',
                                      not hits, '; '.join(hits)))
        if ok:
            for pf in tuple(self.props_files) + tuple(self.refuted_files):
                ob, ass, _ = check_props_file(pf)
                obligations += ob
                assumptions_seen += ass
        if ok and self.tier == 'thorough' and os.environ.get('VERIF_COQCHK', '1') != '0':
            obligations.append(coqchk(self.props_files))
        if self.has_model and ok:
            ok2, out2 = build_model(self.pid)
            obligations.append(Obligation('extraction+ocamlopt', ok2, '' if ok2 else out2))
            ok = ok and ok2
        self.model = Model(self.pid) if (self.has_model and ok) else None

        # 2. generated ties
        try:
            obligations += list(self.ties())
        except Exception as e:   # translator fails closed
            import traceback
            obligations.append(Obligation('translator', False, traceback.format_exc()))

        # 3/4. correspondence + oracle
        self.setup()
        try:
            corpus = self.corpus()
            gen = list(self.cases())
            allcases = corpus + gen
            n_eval = 0
            nontriv = set()
            disagreements = []
            oracle_fail = []
            model_outs = [None] * len(allcases)
            if self.model is not None and allcases:
                encs = [self.encode(c) for c in allcases]
                try:
                    model_outs = self.model.run(encs)
                except Exception as e:
                    obligations.append(Obligation('model-run', False, repr(e)))
                k = min(self.xcheck_n, len(allcases))
                if k and self.model_fn and model_outs[0] is not None:
                    idx = sorted(self.rng.sample(range(len(allcases)), k), key=lambda i: len(sx.enc(encs[i])))
                    idx = [i for i in idx if len(sx.enc(encs[i])) < 4000 and not isinstance(model_outs[i], str)][:k]
                    obligations.append(self.model.coq_crosscheck(
                        self.model_fn[0], self.model_fn[1], [encs[i] for i in idx], [model_outs[i] for i in idx]))
            harness_errors = 0
            for i, c in enumerate(allcases):
                try:
                    obs = self.impl(c)
                except Exception:
                    # the driver of the real code failed on this case: the correspondence is broken for it
                    import traceback
                    harness_errors += 1
                    disagreements.append((c, None, model_outs[i], 'driver of the implementation failed: '
                                          + traceback.format_exc()[-600:]))
                    if harness_errors > 20:
                        break
                    continue
                n_eval += 1
                key = self.nontrivial(c, obs)
                if key is not None:
                    nontriv.add(key)
                if len(self.samples) < 3 and (key is not None) and i >= len(corpus):
                    self.samples.append({'case': c, 'observed': obs})
                if model_outs[i] is not None:
                    d = self.compare(c, model_outs[i], obs)
                    if d:
                        disagreements.append((c, obs, model_outs[i], d))
                try:
                    verdicts = list(self.oracle(c, obs))
                except Exception:
                    # the oracle cannot read this observation (a shape the unchanged code never produces): the
                    # correspondence is broken for the case, reported as such rather than ending the run
                    import traceback
                    verdicts = []
                    harness_errors += 1
                    disagreements.append((c, obs, model_outs[i], 'the property oracle failed on this observation: '
                                          + traceback.format_exc()[-600:]))
                    if harness_errors > 20:
                        break
                for sig, what in verdicts:
                    oracle_fail.append((c, obs, sig, what))
            for v in self.extra():
                violations.append(v)
            broken = [o.name for o in obligations if not o.ok]
            known_sigs = {k['signature'] for k in load_known()
                          if k.get('property') == self.pid and k.get('status') == 'known'}

            def unknown_fails():
                return [x for x in oracle_fail if x[2] not in known_sigs]

            # search when something broke
            searched = 0
            if (broken or disagreements) and not unknown_fails():
                log('[%s] obligation/correspondence broke; searching for a failing input' % self.pid)
                around = [d[0] for d in disagreements[:20]]
                for c in self.search_cases(around):
                    obs = self.impl(c)
                    searched += 1
                    for sig, what in self.oracle(c, obs):
                        oracle_fail.append((c, obs, sig, what))
                    if len(unknown_fails()) >= 5:
                        break
            self.stats['search_cases'] = searched

            # group oracle failures by signature, shrink the first of each
            bysig = {}
            for c, obs, sig, what in oracle_fail:
                bysig.setdefault(sig, []).append((c, obs, what))
            for sig, lst in bysig.items():
                c, obs, what = lst[0]
                try:
                    c2 = self.shrink(c, lambda cc: any(s == sig for s, _ in self.oracle(cc, self.impl(cc))))
                    if c2 is not c:
                        c, obs = c2, self.impl(c2)
                except Exception:
                    pass
                violations.append(Violation(sig, what, case=c, observed=obs, kind='oracle',
                                            broken=broken or None))
            if not unknown_fails():
                # a recorded known finding must not mask a broken correspondence or obligation
                if disagreements:
                    c, obs, mo, d = disagreements[0]
                    violations.append(Violation(
                        'correspondence:%s' % self.pid, 'model and implementation disagree (%d cases): %s'
                        % (len(disagreements), d), case=c, observed=obs, expected=mo, kind='correspondence',
                        no_input=True, broken=['correspondence:run_%s' % self.pid] + broken))
                elif broken:
                    violations.append(Violation(
                        'obligation:%s' % self.pid, 'proof/tie obligations no longer check: ' + ', '.join(broken),
                        kind='obligation', no_input=True, broken=broken))
        finally:
            self.teardown()

        # 5. known findings
        known = [k for k in load_known() if k.get('property') == self.pid and k.get('status') == 'known']
        rc = 0
        n_viol = 0
        for v in violations:
            k = next((k for k in known if k['signature'] == v.signature), None)
            if k is not None and not v.no_input:
                print('KNOWN-FINDING: property=%s %s' % (self.pid, k['what']))
                continue
            n_viol += 1
            rc = 1
            path = self.write_replay(v, obligations)
            print('VIOLATION property=%s replay=%s%s' % (
                self.pid, path, ' no-failing-input-found' if v.no_input else ''))
            log('  ' + v.what)
        # 6. evidence
        n_obl = len(obligations)
        n_dis = sum(1 for o in obligations if o.ok)
        ev = {
            'property_id': self.pid, 'tier': self.tier, 'seed': self.seed, 'level': 'proof',
            'coverage': {
                'obligations': n_obl, 'discharged': n_dis,
                'checker_cmd': 'make -C coq (coqc 8.16.1, full .vo) ; coqc %s ; generated ties and vm_compute cross-check via coqc'
                               % ' '.join(self.props_files),
                'trusted_base': TRUSTED_BASE,
                'obligation_list': [o.as_json() for o in obligations],
                'print_assumptions': assumptions_seen or ['Closed under the global context (every Print Assumptions)'],
                'evaluations': n_eval + searched,
                'distinct_nontrivial': len(nontriv),
                'rule': self.rule,
                'samples': self.samples[:3],
                'traces_validated_against_impl': n_eval if self.model is not None else 0,
                'disagreements_checked': len(disagreements),
                'corpus_cases': len(corpus),
                'distribution': self.stats,
                'notes': self.notes,
            },
            'assumptions': list(self.assumptions),
            'wall_s': round(time.time() - t0, 2),
            'violations': n_viol,
        }
        with open(evidence_path(self.pid), 'w') as f:
            json.dump(ev, f, indent=1, default=_jsonable)
        log('[%s] tier=%s obligations %d/%d, cases %d, nontrivial %d, disagreements %d, violations %d, %.1fs'
            % (self.pid, self.tier, n_dis, n_obl, n_eval, len(nontriv), len(disagreements), n_viol,
               time.time() - t0))
        return rc

    def write_replay(self, v, obligations):
        d = os.path.join(VERIF, 'replays', self.pid)
        os.makedirs(d, exist_ok=True)
        blob = {'property': self.pid, 'signature': v.signature, 'what': v.what, 'kind': v.kind,
                'case': v.case, 'observed': v.observed, 'expected_by_model': v.expected,
                'no_failing_input_found': v.no_input, 'no_longer_checks': v.broken,
                'failed_obligations': [o.as_json() for o in obligations if not o.ok],
                'seed': self.seed, 'tier': self.tier}
        txt = json.dumps(blob, indent=1, default=_jsonable, sort_keys=True)
        h = hashlib.sha1(txt.encode()).hexdigest()[:12]
        path = os.path.join('replays', self.pid, h + '.json')
        open(os.path.join(VERIF, path), 'w').write(txt)
        return path

    def replay(self, blob):
        """re-run one recorded case against the implementation (and the model)"""
        self.setup()
        try:
            case = blob.get('case')
            if case is None:
                print('replay names obligations only: %s' % blob.get('no_longer_checks'))
                return 1
            obs = self.impl(case)
            fails = self.oracle(case, obs)
            print(json.dumps({'case': case, 'observed': obs, 'oracle': fails}, indent=1, default=_jsonable))
            return 1 if fails else 0
        finally:
            self.teardown()


def _jsonable(o):
    if isinstance(o, (bytes, bytearray)):
        return {'__bytes__': bytes(o).hex()}
    if isinstance(o, (set, frozenset)):
        return sorted(o, key=repr)
    if isinstance(o, tuple):
        return list(o)
    return repr(o)


def unjson(o):
    """inverse of _jsonable for bytes"""
    if isinstance(o, dict):
        if set(o.keys()) == {'__bytes__'}:
            return bytes.fromhex(o['__bytes__'])
        return {k: unjson(v) for k, v in o.items()}
    if isinstance(o, list):
        return [unjson(x) for x in o]
    return o


def shrink_list(lst, pred):
    """greedy delta debugging: smallest sublist (by removing chunks) on which pred still holds"""
    lst = list(lst)
    n = 2
    while len(lst) >= 1:
        chunk = max(1, len(lst) // n)
        reduced = False
        i = 0
        while i < len(lst):
            cand = lst[:i] + lst[i + chunk:]
            try:
                ok = pred(cand)
            except Exception:
                ok = False
            if ok:
                lst = cand
                reduced = True
            else:
                i += chunk
        if not reduced:
            if chunk == 1:
                break
            n = min(len(lst), n * 2)
    return lst
