"""CLI:  python -m vcheck C05 --tier quick|thorough
         python -m vcheck replay <path>"""
import argparse
import importlib
import json
import os
import sys

if os.environ.get('PYTHONHASHSEED') != '0':
    os.environ['PYTHONHASHSEED'] = '0'
    os.execv(sys.executable, [sys.executable, '-m', 'vcheck'] + sys.argv[1:])
REPO = os.environ.get('VERIF_REPO', '/repo')
if REPO not in sys.path:
    sys.path.insert(0, REPO)

from . import core  # noqa: E402


def load(pid, tier, seed):
    mod = importlib.import_module('vcheck.props.' + pid.lower())
    return mod.CHECK(tier, seed)


def main():
    ap = argparse.ArgumentParser()
    ap.add_argument('what')
    ap.add_argument('path', nargs='?')
    ap.add_argument('--tier', default=os.environ.get('VERIF_TIER', 'quick'))
    a = ap.parse_args()
    seed = int(os.environ.get('VERIF_SEED', '20260926'))
    if a.what == 'replay':
        blob = core.unjson(json.load(open(a.path)))
        chk = load(blob['property'], 'quick', blob.get('seed', seed))
        sys.exit(chk.replay(blob))
    chk = load(a.what, a.tier, seed)
    sys.exit(chk.run())


if __name__ == '__main__':
    main()
