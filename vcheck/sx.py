"""S-expression text format shared with ocaml/driver.ml and coq/Lib/Sx.v.

Python values: int | bool | None | bytes | str | list/tuple (nested).
  int -> decimal atom, bool -> 0/1, None -> (), bytes -> #hex (or () when empty),
  str -> list of code points, list -> ( ... ).
Decoding always yields nested lists of ints.
"""


def enc(x, out=None):
    top = out is None
    if top:
        out = []
    if x is None:
        out.append('()')
    elif isinstance(x, bool):
        out.append('1' if x else '0')
    elif isinstance(x, int):
        out.append(str(x))
    elif isinstance(x, (bytes, bytearray)):
        out.append('#' + bytes(x).hex() if x else '()')
    elif isinstance(x, str):
        out.append('(' + ' '.join(str(ord(c)) for c in x) + ')')
    elif isinstance(x, (list, tuple)):
        out.append('(')
        first = True
        for y in x:
            if not first:
                out.append(' ')
            first = False
            enc(y, out)
        out.append(')')
    else:
        raise TypeError('cannot encode %r' % (x,))
    if top:
        return ''.join(out)


def dec(s):
    n = len(s)
    i = 0
    stack = [[]]
    while i < n:
        c = s[i]
        if c in ' \t\r\n':
            i += 1
        elif c == '(':
            stack.append([])
            i += 1
        elif c == ')':
            l = stack.pop()
            stack[-1].append(l)
            i += 1
        elif c == '#':
            j = i + 1
            while j < n and s[j] in '0123456789abcdefABCDEF':
                j += 1
            stack[-1].append(list(bytes.fromhex(s[i + 1:j])))
            i = j
        else:
            j = i + 1 if c == '-' else i
            while j < n and s[j].isdigit():
                j += 1
            stack[-1].append(int(s[i:j]))
            i = j
    if len(stack) != 1 or len(stack[0]) != 1:
        raise ValueError('bad s-expression: %r' % s[:80])
    return stack[0][0]


def norm(x):
    """Python value -> the nested list-of-ints form dec() produces."""
    if x is None:
        return []
    if isinstance(x, bool):
        return 1 if x else 0
    if isinstance(x, int):
        return x
    if isinstance(x, (bytes, bytearray)):
        return list(x)
    if isinstance(x, str):
        return [ord(c) for c in x]
    return [norm(y) for y in x]


def to_coq(x):
    """nested ints/lists -> Coq term of type sx"""
    if isinstance(x, int):
        return '(I (%d))' % x
    return '(L [' + '; '.join(to_coq(y) for y in x) + '])'
