"""G: fail-closed translator from selected CherryPy function bodies to terms of the
skeleton language of coq/Model/M_flow.v.

Normalisation (so that harmless edits do not break the tie): docstrings, comments, `self.stage = ...`,
pure logging calls, assignments whose right-hand side cannot raise (names, constants, attributes, tuples of
those) are dropped; every other simple statement becomes `Act <a>` where <a> comes from a closed vocabulary
(first matching regex over the statement's source text) or `Other`; consecutive `Other`s are merged;
conditions map to named flags or `COther`.  Any construct outside the supported subset raises Unsupported."""
import ast
import os
import re


class Unsupported(Exception):
    pass


# ---- vocabulary: (regex over statement source) -> Coq term of type stmt -----------------------------
HOOK = {'on_start_resource': 'OnStartResource', 'before_request_body': 'BeforeRequestBody',
        'before_handler': 'BeforeHandler', 'before_finalize': 'BeforeFinalize',
        'on_end_resource': 'OnEndResource', 'on_end_request': 'OnEndRequest',
        'before_error_response': 'BeforeErrorResponse', 'after_error_response': 'AfterErrorResponse'}

# Positions that hold LOCAL names (or parameters) are matched with \w+ : renaming a local must not change the term.
W = r'[A-Za-z_]\w*'
RESP = r'(?:%s|_?cherrypy\.serving\.response)' % W          # the response object, under any local alias
ACTIONS = [
    (r"^self\.hooks\.run\('(\w+)'\)$", lambda m: 'Act (RunHooks %s)' % HOOK[m.group(1)]),
    (r"^self\._do_respond\(%s\)$" % W, 'Call F_do_respond'),
    (r"^self\.respond\(%s\)$" % W, 'Call F_respond'),
    (r"^self\.handle_error\(\)$", 'Call F_handle_error'),
    (r"^self\.process_headers\(\)$", 'Act ProcessHeaders'),
    (r"^self\.get_resource\(%s\)$" % W, 'Act GetResource'),
    (r"^self\.body = _cpreqbody\.RequestBody\(", 'Act MakeBody'),
    (r"^self\.namespaces\(self\.config\)$", 'Act Namespaces'),
    (r"^self\.process_query_string\(\)$", 'Act ProcessQueryString'),
    (r"^self\.body\.process\(\)$", 'Act BodyProcess'),
    (r"^%s\.body = self\.handler\(\)$" % RESP, 'Act Handler'),
    (r"^%s\.finalize\(\)$" % RESP, 'Act Finalize'),
    (r"^%s\.set_response\(\)$" % W, 'Act SetResponseOfExc'),
    (r"^self\.error_response\(\)$", 'Act ErrorResponse'),
    (r"^%s = format_exc\(\)$" % W, 'Act FormatExcBody'),
    (r"^%s = _cperror\.format_exc\(\)$" % W, 'Act FormatExcTb'),
    (r"^%s = bare_error\(%s\)$" % (W, W), 'Act BareError'),
    (r"^%s, %s, %s = _cperror\.bare_error\(%s\)$" % (W, W, W, W), 'Act BareErrorTrap'),
    (r"^%s\.output_status, %s\.header_list, %s\.body = %s$" % (RESP, RESP, RESP, W), 'Act InstallBareError'),
    (r"^cherrypy\.log\.access\(\)$", 'Act LogAccess'),
    (r"^%s = self\.app\.find_config\(" % W, 'Act FindDispatch'),
    (r"^dispatch\(%s\)$" % W, 'Act Dispatch'),
    (r"^self\.error_response = cherrypy\.HTTPError\(500\)\.set_response$", 'Act SetDefaultErrorResponse'),
    (r"^self\.response = self\.trap\( self\.nextapp, self\.environ, self\.start_response, \)$", 'Call F_trap_init'),
    (r"^return self\.trap\(next, self\.iter_response\)$", 'Seq (Call F_trap_next) Return'),
    (r"^self\.response\.close\(\)$", 'Call F_appresponse_close'),
    (r"^%s\.body = \[\]$" % RESP, 'Act DropBody'),
    (r"^self\.hooks = self\.__class__\.hooks\.copy\(\)$", 'Act CopyHooks'),
    # _cptree
    (r"^%s = self\.request_class\(" % W, 'Act NewRequest'),
    (r"^%s = self\.response_class\(\)$" % W, 'Act NewResponse'),
    (r"^cherrypy\.serving\.load\(%s, %s\)$" % (W, W), 'Act LoadServing'),
    (r"^cherrypy\.engine\.publish\('(acquire_thread|before_request|after_request)'\)$", 'Act PublishEngine'),
    (r"^%s\.close\(\)$" % W, None),            # resolved by context: see Translator.simple
    (r"^cherrypy\.serving\.clear\(\)$", 'Act ClearServing'),
    # _cpwsgi
    (r"^self\.run\(\)$", 'Call F_appresponse_run'),
    (r"^%s, %s = self\.cpapp\.get_serving\(" % (W, W), 'Call F_get_serving'),
    (r"^%s\.run\(%s, %s, %s, %s, %s, %s\)$" % ((W,) * 7), 'Call F_request_run'),
    (r"^self\.close\(\)$", 'Call F_appresponse_close_init'),      # only in AppResponse.__init__'s except clause
    (r"^self\.cpapp\.release_serving\(\)$", 'Call F_release_serving'),
    (r"^self\.iter_response = iter\(%s\.body\)$" % W, 'Act IterBody'),
    (r"^self\.write = start_response\(%s, %s\)$" % (W, W), 'Act StartResponse'),
    (r"^self\.start_response\(%s, %s, _sys\.exc_info\(\)\)$" % (W, W), 'Act StartResponseExc'),
    (r"^%s = _cherrypy\.serving\.response\.stream$" % W, 'Assign FStreaming'),
    (r"^return func\(\*args, \*\*kwargs\)$", 'Seq CallParam Return'),
    (r"^return b''\.join\(%s\)$" % W, 'Return'),
    (r"^return self\.nextapp\(environ, start_response\)$", 'Seq (Call F_appresponse_init) Return'),
    (r"^%s\.request\.close\(\)$" % W, 'Call F_ir_request_close'),
    (r"^%s = _sys\.exc_info\(\)\[1\]$" % W, 'Act BindIr'),
    (r"^%s\.append\(%s\)$" % (W, W), 'Act RecordUri'),
    (r"^self\.closed = True$", 'Act SetClosed'),
    (r"^self\.iter_response = iter\(\[\]\)$", 'Act EmptyIter'),
    (r"^self\.iter_response = iter\(%s\)$" % W, 'Act ErrorIter'),
    (r"^%s = ''$" % W, None),                  # ClearTb in the trapper, ClearBody in Request.run
    (r"^%s\(\)$" % W, None),                   # a local bound to self.iter_response.close: IterClose
]

# statements that are dropped (cannot raise / irrelevant to control flow)
DROP = [
    r"^self\.stage = ", r"^(_?cherrypy)\.log\(", r"^cherrypy\.log\.error\(", r"^pass$",
    r"^%s = sys\.exc_info\(\)\[1\]$" % W, r"^%s = cherrypy\.serving\.response$" % W,
    r"^self\.toolmaps = \{\}$", r"^%s = cherrypy\.serving\.request$" % W, r"^%s\.app = self$" % W,
    r"^%s = self\.iter_response\.close$" % W, r"^self\.cpapp = cpapp$", r"^self\.environ = environ$",
    r"^%s = _cherrypy\.serving\.response$" % W, r"^%s = %s\.output_status$" % (W, W), r"^%s = \[\]$" % W,
    r"^environ = environ\.copy\(\)$",
    r"^%s = self\.environ\.get$" % W, r"^tmpl = ", r"^self\.nextapp = nextapp$", r"^self\.start_response = start_response$",
    r"^self\.throws = throws$", r"^self\.started_response = False$",
    # operations on values that the preceding isinstance checks / bare_error guarantee to be bytes: cannot raise
    r"^%s = %s\.decode\('ISO-8859-1'\)$" % (W, W),
    r"^%s = \[ \(%s\.decode\('ISO-8859-1'\), %s\.decode\('ISO-8859-1'\)\) for %s, %s in %s \]$" % ((W,) * 6),
    r"^%s\.append\(\(%s, %s\)\)$" % (W, W, W),
    r"^self\.iter_response = iter\(self\.response\)$",
]

CONDS = [
    (r"^not self\.closed$", 'CNot (CFlag FClosed)'),
    (r"^self\.closed$", 'CFlag FClosed'),
    (r"^self\.throw_errors$", 'CFlag FThrowErrors'),
    (r"^self\.show_tracebacks$", 'CFlag FShowTracebacksReq'),
    (r"^not _cherrypy\.request\.show_tracebacks$", 'CNot (CFlag FShowTracebacksServing)'),
    (r"^self\.started_response$", 'CFlag FStartedResponse'),
    (r"^self\.method == 'HEAD'$", 'CFlag FMethodHead'),
    (r"^self\.process_request_body$", 'CFlag FProcessBody'),
    (r"^self\.handler$", 'CFlag FHandlerSet'),
    (r"^self\.error_response$", 'CFlag FErrorResponseSet'),
    (r"^self\.app is None$", 'CFlag FAppNone'),
    (r"^not self\.recursive$", 'CNot (CFlag FRecursive)'),
    (r"^%s in %s$" % (W, W), 'CFlag FVisitedBefore'),
    (r"^%s and is_closable_iterator\(self\.iter_response\)$" % W, 'CFlag FStreaming'),   # see Translator.stmt (If)
    (r"^True$", 'CTrue'),
    (r"^not isinstance\((%s), bytes\)$" % W, None),      # which value: resolved by the role of the name
    (r"^hasattr\(self\.response, 'close'\)$", 'CFlag FResponseHasClose'),
]

EXC = {
    'self.throws': 'PThrows',
    'trapper.throws': 'PTrapThrows',
    '(cherrypy.HTTPRedirect, cherrypy.HTTPError)': 'PHTTPRedirectOrError',
    'cherrypy.HTTPRedirect': 'PHTTPRedirect',
    '_cherrypy.InternalRedirect': 'PInternalRedirect',
    'Exception': 'PException',
    'BaseException': 'PBaseException',
    'StopIteration': 'PStopIteration',
}

RAISE = {
    'cherrypy.NotFound()': 'XHTTPError',
}
# any other raise of a built-in error class is the "unexpected Exception" of the model
RAISE_CLASSES = r"^(TypeError|RuntimeError|ValueError|AssertionError)\("


def _src(node, text):
    return ' '.join(ast.get_source_segment(text, node).split())


def _callfree_bool(node):
    """a boolean combination / comparison of pure operands: what an `if` would test, named instead"""
    if isinstance(node, ast.BoolOp):
        return all(_callfree_bool(v) or _pure(v) for v in node.values)
    if isinstance(node, ast.UnaryOp) and isinstance(node.op, ast.Not):
        return _callfree_bool(node.operand) or _pure(node.operand)
    if isinstance(node, ast.Compare):
        return _pure(node.left) and all(_pure(c) for c in node.comparators)
    return False


def _pure(node):
    """expression that cannot raise in any way that matters: names, constants, attribute chains, tuples/lists of them"""
    if isinstance(node, (ast.Constant, ast.Name)):
        return True
    if isinstance(node, ast.Attribute):
        return _pure(node.value)
    if isinstance(node, (ast.Tuple, ast.List)):
        return all(_pure(e) for e in node.elts)
    if isinstance(node, ast.Dict):
        return all(_pure(e) for e in node.keys + node.values if e is not None)
    return False


class Translator:
    def __init__(self, text, trapper=False, in_init=False):
        self.text = text
        self.trapper = trapper
        self.in_init = in_init      # AppResponse.close as called from __init__: self.iter_response may be unset
        self.unknown = []
        self.roles = {}
        self.cls = None             # the enclosing class: private helper methods are translated in place
        self.inlining = []

    def helper_body(self, node):
        """`self._helper(plain args)` as a statement, where _helper is a method of the same class that has no return
        statement and is not a function of the vocabulary: its statements, to be translated where the call stands
        (locals are wildcards in the vocabulary, so the parameters need no renaming)"""
        if not (isinstance(node, ast.Expr) and isinstance(node.value, ast.Call)) or self.cls is None:
            return None
        f = node.value.func
        if not (isinstance(f, ast.Attribute) and isinstance(f.value, ast.Name) and f.value.id == 'self'
                and f.attr.startswith('_') and not f.attr.startswith('__')):
            return None
        if node.value.keywords or not all(_pure(a) for a in node.value.args):
            return None
        m = next((n for n in self.cls.body if isinstance(n, ast.FunctionDef) and n.name == f.attr), None)
        if m is None or m.decorator_list or f.attr in self.inlining:
            return None
        if any(isinstance(n, (ast.Return, ast.Yield, ast.YieldFrom)) for n in ast.walk(m)):
            return None
        return m

    def simple(self, node):
        s = _src(node, self.text)
        for rx in DROP:
            if re.search(rx, s):
                return None
        for rx, out in ACTIONS:
            m = re.search(rx, s)
            if m:
                if out is None:
                    out = self.by_context(s)
                    if out is None:
                        continue
                return out(m) if callable(out) else out
        if isinstance(node, (ast.Assign, ast.AnnAssign, ast.AugAssign)) and node.value is not None and _pure(node.value):
            return None
        if isinstance(node, ast.Assign) and len(node.targets) == 1 and isinstance(node.targets[0], ast.Name) \
                and _callfree_bool(node.value):
            return None             # a condition given a name: evaluated like the `if` test it will feed
        m = self.helper_body(node)
        if m is not None:
            self.inlining.append(m.name)
            try:
                return self.block(m.body)
            finally:
                self.inlining.pop()
        self.unknown.append(s)
        return 'Act Other'

    def by_context(self, s):
        """statements whose meaning depends on the function they stand in"""
        if re.search(r"^%s = ''$" % W, s):
            return 'Act ClearTb' if self.trapper else 'Act ClearBody'
        m = re.search(r"^(%s)\.close\(\)$" % W, s)
        if m and self.roles.get(m.group(1)) == 'request':
            return 'Call F_request_close'
        m = re.search(r"^(%s)\(\)$" % W, s)
        if m and self.roles.get(m.group(1)) == 'iter_close':
            return 'Act IterClose'
        return None

    def note_roles(self, fn):
        """which local name holds what: the request being released, the header key / value / status under test"""
        self.roles = {}
        for n in ast.walk(fn):
            if isinstance(n, ast.Assign) and len(n.targets) == 1 and isinstance(n.targets[0], ast.Name):
                src = _src(n.value, self.text)
                if src == 'cherrypy.serving.request':
                    self.roles[n.targets[0].id] = 'request'
                if src.endswith('.output_status'):
                    self.roles[n.targets[0].id] = 'status'
                if src == 'self.iter_response.close':
                    self.roles[n.targets[0].id] = 'iter_close'
            if isinstance(n, ast.For) and isinstance(n.target, ast.Tuple) and len(n.target.elts) == 2 \
                    and all(isinstance(e, ast.Name) for e in n.target.elts) and _src(n.iter, self.text).endswith('.header_list'):
                self.roles[n.target.elts[0].id] = 'key'
                self.roles[n.target.elts[1].id] = 'val'

    def cond(self, node):
        if isinstance(node, ast.UnaryOp) and isinstance(node.op, ast.Not):
            # `not X` for any X of the vocabulary (the listed `not ...` forms are found first by their own entries)
            s0 = _src(node, self.text)
            if not any(re.search(rx, s0) for rx, _ in CONDS):
                inner = self.cond(node.operand)
                if inner == 'COther':
                    return 'COther'
                return inner[len('CNot ('):-1] if inner.startswith('CNot (') else 'CNot (%s)' % inner
        return self.cond_text(_src(node, self.text))

    def cond_text(self, s):
        for rx, out in CONDS:
            m = re.search(rx, s)
            if m:
                if out is None:
                    role = self.roles.get(m.group(1))
                    out = {'status': 'CNot (CFlag FStatusIsBytes)', 'key': 'CNot (CFlag FHeaderKeyIsBytes)',
                           'val': 'CNot (CFlag FHeaderValIsBytes)'}.get(role)
                    if out is None:
                        continue
                return out
        self.unknown.append('if ' + s)
        return 'COther'

    @staticmethod
    def _guard(st):
        """`if not P: return` (nothing else) -> the node P"""
        if (isinstance(st, ast.If) and not st.orelse and len(st.body) == 1 and isinstance(st.body[0], ast.Return)
                and st.body[0].value is None and isinstance(st.test, ast.UnaryOp) and isinstance(st.test.op, ast.Not)):
            return st.test.operand
        return None

    def block(self, stmts, top=False):
        out = []
        for i, st in enumerate(stmts):
            if top and self._guard(st) is not None and i + 1 < len(stmts) and self._guard(stmts[i + 1]) is not None:
                # two guard clauses in a row: `if not P: return; if not Q: return; rest` == `if P and Q: rest`
                both = '%s and %s' % (_src(self._guard(st), self.text), _src(self._guard(stmts[i + 1]), self.text))
                n_unknown = len(self.unknown)
                c = self.cond_text(both)
                if c != 'COther':
                    rest = self.block(stmts[i + 2:], top=True)
                    if self.in_init and 'self.iter_response' in both:
                        if c != 'CFlag FStreaming':
                            raise Unsupported('condition reading self.iter_response: %s' % both)
                        rest = 'Seq (Act ReadIterResponse) (%s)' % rest
                    if rest != 'Skip':
                        out.append('If (%s) (%s) (Skip)' % (c, rest))
                    break
                del self.unknown[n_unknown:]
            if (top and isinstance(st, ast.If) and not st.orelse and len(st.body) == 1
                    and isinstance(st.body[0], ast.Return) and st.body[0].value is None and stmts[i + 1:]):
                # guard clause at the top level of a function returning nothing:
                #   if c: return ; rest      ==      if not c: rest
                c = self.cond(st.test)
                neg = c[len('CNot ('):-1] if c.startswith('CNot (') else 'CNot (%s)' % c
                rest = self.block(stmts[i + 1:], top=True)
                t = None if rest == 'Skip' else 'If (%s) (%s) (Skip)' % (neg, rest)
                if t is not None:
                    out.append(t)
                break
            t = self.stmt(st)
            if t is None or t == 'Skip':
                continue
            if t == 'Act Other' and out and out[-1] == 'Act Other':
                continue
            out.append(t)
        if not out:
            return 'Skip'
        r = out[-1]
        for t in reversed(out[:-1]):
            r = 'Seq (%s) (%s)' % (t, r)
        return r

    def stmt(self, st):
        if isinstance(st, ast.Expr) and isinstance(st.value, ast.Constant) and isinstance(st.value.value, str):
            return None
        if isinstance(st, (ast.Expr, ast.Assign, ast.AugAssign, ast.AnnAssign)):
            return self.simple(st)
        if isinstance(st, ast.Return):
            s = _src(st, self.text)
            for rx, out in ACTIONS:
                if re.search(rx, s):
                    return out
            if st.value is None or _pure(st.value):
                return 'Return'
            self.unknown.append(s)
            return 'Seq (Act Other) Return'
        if isinstance(st, ast.Raise):
            if st.exc is None:
                return 'Raise None'
            s = _src(st.exc, self.text)
            if s in RAISE:
                return 'Raise (Some %s)' % RAISE[s]
            if re.search(RAISE_CLASSES, s):
                return 'Raise (Some XException)'
            raise Unsupported('raise of unknown exception: %s' % s)
        if isinstance(st, ast.If):
            c = self.cond(st.test)
            a, b = self.block(st.body), self.block(st.orelse)
            if self.in_init and 'self.iter_response' in _src(st.test, self.text):
                if c != 'CFlag FStreaming':
                    raise Unsupported('condition reading self.iter_response: %s' % _src(st.test, self.text))
                a = 'Seq (Act ReadIterResponse) (%s)' % a
            if c.startswith('CNot (') and a != 'Skip' and b != 'Skip':
                c, a, b = c[len('CNot ('):-1], b, a          # if not c: A else: B   ==   if c: B else: A
            if c == 'CTrue':
                return None if a == 'Skip' else a
            if a == 'Skip' and b == 'Skip':
                return None
            if c == 'COther' and a in ('Skip', 'Act Other') and b in ('Skip', 'Act Other'):
                # an environment-determined choice between "nothing" and "something that may raise"
                return None if (a, b) == ('Skip', 'Skip') else 'Act Other'
            return 'If (%s) (%s) (%s)' % (c, a, b)
        if isinstance(st, ast.Try):
            hs = []
            for h in st.handlers:
                if h.type is None:
                    p = 'PBaseException'
                else:
                    s = _src(h.type, self.text)
                    if s == 'self.throws' and self.trapper:
                        s = 'trapper.throws'
                    if s not in EXC:
                        raise Unsupported('except clause: %s' % s)
                    p = EXC[s]
                hs.append('(%s, %s)' % (p, self.block(h.body)))
            return 'Try (%s) [%s] (%s) (%s)' % (self.block(st.body), '; '.join(hs), self.block(st.orelse),
                                               self.block(st.finalbody))
        if isinstance(st, ast.While):
            if _src(st.test, self.text) != 'True' or st.orelse:
                raise Unsupported('while with a condition')
            return 'Loop (%s)' % self.block(st.body)
        if isinstance(st, ast.For):
            # a for loop over response data: may raise, body executed zero or more times (as decided by the environment)
            b = self.block(st.body)
            return None if b == 'Skip' else 'ForLoop (%s)' % b
        if isinstance(st, ast.Pass):
            return None
        raise Unsupported('statement %s at line %d' % (type(st).__name__, st.lineno))


def find_function(tree, qualname):
    parts = qualname.split('.')
    body = tree.body
    node = None
    for p in parts:
        node = next((n for n in body if isinstance(n, (ast.FunctionDef, ast.ClassDef)) and n.name == p), None)
        if node is None:
            raise Unsupported('cannot find %s' % qualname)
        body = node.body
    return node


def translate(repo, relpath, qualname, in_init=False):
    text = open(os.path.join(repo, relpath)).read()
    tree = ast.parse(text)
    fn = find_function(tree, qualname)
    tr = Translator(text, trapper=qualname.startswith('_TrappedResponse'), in_init=in_init)
    if '.' in qualname:
        tr.cls = find_function(tree, qualname.rsplit('.', 1)[0])
    tr.note_roles(fn)
    return tr.block(fn.body, top=True), tr.unknown


FUNCTIONS = [
    ('request_run', 'cherrypy/_cprequest.py', 'Request.run'),
    ('respond', 'cherrypy/_cprequest.py', 'Request.respond'),
    ('do_respond', 'cherrypy/_cprequest.py', 'Request._do_respond'),
    ('handle_error', 'cherrypy/_cprequest.py', 'Request.handle_error'),
    ('request_close', 'cherrypy/_cprequest.py', 'Request.close'),
    ('get_serving', 'cherrypy/_cptree.py', 'Application.get_serving'),
    ('release_serving', 'cherrypy/_cptree.py', 'Application.release_serving'),
    ('appresponse_init', 'cherrypy/_cpwsgi.py', 'AppResponse.__init__'),
    ('appresponse_close', 'cherrypy/_cpwsgi.py', 'AppResponse.close'),
    ('appresponse_close_init', 'cherrypy/_cpwsgi.py', 'AppResponse.close'),     # translated with in_init=True
    ('appresponse_run', 'cherrypy/_cpwsgi.py', 'AppResponse.run'),
    ('redirector_call', 'cherrypy/_cpwsgi.py', 'InternalRedirector.__call__'),
    ('trap', 'cherrypy/_cpwsgi.py', '_TrappedResponse.trap'),
    ('trapped_init', 'cherrypy/_cpwsgi.py', '_TrappedResponse.__init__'),
    ('trapped_next', 'cherrypy/_cpwsgi.py', '_TrappedResponse.__next__'),
    ('trapped_close', 'cherrypy/_cpwsgi.py', '_TrappedResponse.close'),
]


def generate(repo):
    """returns (coq_text defining G_<name> : stmt for every function, unknown statements)"""
    lines = ['From Coq Require Import ZArith List.', 'Import ListNotations.',
             'From CV Require Import Model.M_flow.', '']
    unknown = {}
    for name, rel, q in FUNCTIONS:
        term, unk = translate(repo, rel, q, in_init=name.endswith('_init') and q == 'AppResponse.close')
        unknown[name] = unk
        lines.append('Definition G_%s : stmt :=\n  %s.\n' % (name, term))
    return '\n'.join(lines), unknown


if __name__ == '__main__':
    import sys
    txt, unk = generate(sys.argv[1] if len(sys.argv) > 1 else '/repo')
    print(txt)
    for k, v in unk.items():
        for s in v:
            print('(* unknown in %s: %s *)' % (k, s))


# ---- the same terms as s-expressions (the form in which the extracted model receives a program) ---------------
def _tokens(term):
    return re.findall(r"[A-Za-z_][A-Za-z_0-9]*|[()\[\];,]", term)


class _P:
    def __init__(self, term, codes):
        self.t = _tokens(term)
        self.i = 0
        self.c = codes          # dict: action / flag / fname / pat / exn name -> code

    def peek(self):
        return self.t[self.i] if self.i < len(self.t) else None

    def eat(self, tok=None):
        x = self.peek()
        if tok is not None and x != tok:
            raise Unsupported('term parser: expected %r, got %r at %d' % (tok, x, self.i))
        self.i += 1
        return x

    def pstmt(self):
        if self.peek() == '(':
            self.eat('(')
            s = self.stmt()
            self.eat(')')
            return s
        return self.stmt()

    def action(self):
        if self.peek() == '(':
            self.eat('(')
            self.eat('RunHooks')
            p = self.eat()
            self.eat(')')
            return self.c['action']['RunHooks ' + p]
        return self.c['action'][self.eat()]

    def cond(self):
        if self.peek() == '(':
            self.eat('(')
            c = self.cond()
            self.eat(')')
            return c
        k = self.eat()
        if k == 'CTrue':
            return [0]
        if k == 'COther':
            return [3]
        if k == 'CFlag':
            return [1, self.c['flag'][self.eat()]]
        if k == 'CNot':
            return [2, self.cond()]
        raise Unsupported('term parser: condition %r' % k)

    def stmt(self):
        k = self.eat()
        if k == 'Skip':
            return [0]
        if k == 'Return':
            return [7]
        if k == 'CallParam':
            return [11]
        if k == 'Act':
            return [1, self.action()]
        if k == 'Seq':
            return [2, self.pstmt(), self.pstmt()]
        if k == 'Try':
            body = self.pstmt()
            self.eat('[')
            hs = []
            while self.peek() != ']':
                self.eat('(')
                p = self.c['pat'][self.eat()]
                self.eat(',')
                h = self.stmt()
                self.eat(')')
                hs.append([p, h])
                if self.peek() == ';':
                    self.eat(';')
            self.eat(']')
            return [3, body, hs, self.pstmt(), self.pstmt()]
        if k == 'If':
            return [4, self.cond(), self.pstmt(), self.pstmt()]
        if k == 'Assign':
            return [5, self.c['flag'][self.eat()]]
        if k == 'Raise':
            if self.peek() == 'None':
                self.eat()
                return [6]
            self.eat('(')
            self.eat('Some')
            e = self.c['exn'][self.eat()]
            self.eat(')')
            return [6, e]
        if k == 'Loop':
            return [8, self.pstmt()]
        if k == 'ForLoop':
            return [9, self.pstmt()]
        if k == 'Call':
            return [10, self.c['fname'][self.eat()]]
        raise Unsupported('term parser: statement %r' % k)


def term_to_sx(term, codes):
    p = _P(term, codes)
    s = p.stmt()
    if p.peek() is not None:
        raise Unsupported('term parser: trailing tokens in %r' % term[:60])
    return s


def generate_terms(repo):
    """[(name, coq term)] for every translated function"""
    return [(name, translate(repo, rel, q, in_init=name.endswith('_init') and q == 'AppResponse.close')[0])
            for name, rel, q in FUNCTIONS]
