"""pynorm.py - shape normalisation of a Python module's ast, applied by tie readers before they look for the
statements a model relies on.  Three rewrites, each behaviour-preserving for the code it accepts, run to a fixpoint:

  N1  a call of a module-level helper whose body is a docstring and one `return <expr>` over its own parameters and
      globals, with plain arguments (names, attribute chains, constants), is replaced by that expression;
  N2  `if c: v = A` / `else: v = B` immediately followed by `if v:` / `if not v:`, where the local v occurs nowhere
      else in the function, becomes a test on `A if c else B` (written `c or B`, `c and A`, ... when A or B is a
      literal True / False);
  N3  `v = <expr>` immediately followed by a statement in which the local v is read exactly once, v occurring
      nowhere else in the function, is folded into that statement.

The readers that use it compare the normalised text with the normalised form of what they expect, so a refactoring
that extracts a predicate, names an intermediate value or splits a condition into a flag does not break a tie, while
a change of what is computed still does.  N3 can move an expression past the evaluation of its neighbours inside one
statement; the ties read which values reach which place, not evaluation order, and the differential correspondence
with the running code is what covers the latter."""
import ast
import copy


def _plain(e):
    while isinstance(e, ast.Attribute):
        e = e.value
    return isinstance(e, (ast.Name, ast.Constant))


def _body(fn):
    b = fn.body
    if b and isinstance(b[0], ast.Expr) and isinstance(b[0].value, ast.Constant) and isinstance(b[0].value.value, str):
        b = b[1:]
    return b


def _helpers(mod):
    out = {}
    for n in mod.body:
        if not isinstance(n, ast.FunctionDef) or n.decorator_list:
            continue
        a = n.args
        if a.vararg or a.kwarg or a.kwonlyargs or a.defaults or a.posonlyargs:
            continue
        b = _body(n)
        if len(b) != 1 or not isinstance(b[0], ast.Return) or b[0].value is None:
            continue
        expr = b[0].value
        if any(isinstance(x, (ast.Lambda, ast.ListComp, ast.SetComp, ast.DictComp, ast.GeneratorExp, ast.NamedExpr,
                              ast.Await, ast.Yield, ast.YieldFrom)) for x in ast.walk(expr)):
            continue
        out[n.name] = ([p.arg for p in a.args], expr)
    return out


class _Subst(ast.NodeTransformer):
    def __init__(self, env):
        self.env = env

    def visit_Name(self, node):
        if isinstance(node.ctx, ast.Load) and node.id in self.env:
            return copy.deepcopy(self.env[node.id])
        return node


class _Inline(ast.NodeTransformer):
    def __init__(self, helpers):
        self.helpers = helpers
        self.changed = False

    def visit_Call(self, node):
        self.generic_visit(node)
        if isinstance(node.func, ast.Name) and node.func.id in self.helpers and not node.keywords:
            params, expr = self.helpers[node.func.id]
            if len(params) == len(node.args) and all(_plain(a) for a in node.args):
                self.changed = True
                return _Subst(dict(zip(params, node.args))).visit(copy.deepcopy(expr))
        return node


def _occurrences(fn):
    """name -> (stores, loads) over the function, nested scopes included (a name used in a nested scope is never
    folded: it shows up as an extra occurrence)"""
    occ = {}
    for n in ast.walk(fn):
        if isinstance(n, ast.Name):
            s, l = occ.get(n.id, (0, 0))
            occ[n.id] = (s + 1, l) if isinstance(n.ctx, ast.Store) else (s, l + 1)
        elif isinstance(n, (ast.Global, ast.Nonlocal)):
            for name in n.names:
                occ[name] = (99, 99)
        elif isinstance(n, ast.arg):
            occ[n.arg] = (99, 99)
    return occ


def _is_const(e, v):
    return isinstance(e, ast.Constant) and e.value is v


def _neg(c):
    return ast.UnaryOp(op=ast.Not(), operand=c)


def _choice(c, a, b):
    if _is_const(a, True):
        return ast.BoolOp(op=ast.Or(), values=[c, b])
    if _is_const(a, False):
        return ast.BoolOp(op=ast.And(), values=[_neg(c), b])
    if _is_const(b, True):
        return ast.BoolOp(op=ast.Or(), values=[_neg(c), a])
    if _is_const(b, False):
        return ast.BoolOp(op=ast.And(), values=[c, a])
    return ast.IfExp(test=c, body=a, orelse=b)


def _single_assign(stmts):
    if len(stmts) == 1 and isinstance(stmts[0], ast.Assign) and len(stmts[0].targets) == 1 \
            and isinstance(stmts[0].targets[0], ast.Name):
        return stmts[0].targets[0].id, stmts[0].value
    return None, None


def _blocks(node):
    for field in ('body', 'orelse', 'finalbody'):
        b = getattr(node, field, None)
        if isinstance(b, list) and b and isinstance(b[0], ast.stmt):
            yield b
    for h in getattr(node, 'handlers', []) or []:
        yield h.body


def _fold_function(fn):
    changed = False
    again = True
    while again:
        again = False
        occ = _occurrences(fn)
        for holder in ast.walk(fn):
            if isinstance(holder, (ast.FunctionDef, ast.ClassDef, ast.Lambda)) and holder is not fn:
                continue
            for block in _blocks(holder):
                for i in range(len(block) - 1):
                    s, nxt = block[i], block[i + 1]
                    # N2
                    if isinstance(s, ast.If) and isinstance(nxt, ast.If):
                        va, a = _single_assign(s.body)
                        vb, b = _single_assign(s.orelse)
                        t = nxt.test
                        neg = isinstance(t, ast.UnaryOp) and isinstance(t.op, ast.Not)
                        tn = t.operand if neg else t
                        if va and va == vb and isinstance(tn, ast.Name) and tn.id == va and occ.get(va) == (2, 1):
                            e = _choice(s.test, a, b)
                            nxt.test = _neg(e) if neg else e
                            del block[i]
                            again = changed = True
                            break
                    # N3
                    if isinstance(s, ast.Assign) and len(s.targets) == 1 and isinstance(s.targets[0], ast.Name):
                        v = s.targets[0].id
                        if occ.get(v) == (1, 1) and not isinstance(nxt, (ast.FunctionDef, ast.ClassDef, ast.While,
                                                                         ast.For, ast.Try, ast.With)):
                            # the single read must be in the head of the next statement (not inside a nested block)
                            heads = [getattr(nxt, f) for f in ('test', 'value', 'exc') if getattr(nxt, f, None) is not None]
                            if isinstance(nxt, ast.Assign):
                                heads = [nxt.value] + list(nxt.targets)
                            elif isinstance(nxt, ast.Delete):
                                heads = list(nxt.targets)
                            uses = [x for h in heads for x in ast.walk(h)
                                    if isinstance(x, ast.Name) and x.id == v and isinstance(x.ctx, ast.Load)]
                            in_lambda = any(isinstance(x, (ast.Lambda, ast.ListComp, ast.GeneratorExp, ast.SetComp,
                                                           ast.DictComp)) for h in heads for x in ast.walk(h))
                            if len(uses) == 1 and not in_lambda:
                                env = {v: s.value}
                                for f in ('test', 'value', 'exc'):
                                    if getattr(nxt, f, None) is not None:
                                        setattr(nxt, f, _Subst(env).visit(getattr(nxt, f)))
                                if isinstance(nxt, (ast.Assign, ast.Delete)):
                                    nxt.targets = [_Subst(env).visit(t) for t in nxt.targets]
                                del block[i]
                                again = changed = True
                                break
                if again:
                    break
            if again:
                break
    return changed


def _only_bare_returns(fn):
    return not any((isinstance(n, ast.Return) and n.value is not None) or isinstance(n, (ast.Yield, ast.YieldFrom))
                   for n in ast.walk(fn))


def unreturn(stmts):
    """N5, for a function that returns nothing: `if c: S; return` followed by REST becomes `if c: S else: REST`, a
    trailing bare return is dropped.  Returns the new statement list, or None when a return sits anywhere else."""
    out = []
    for i, st in enumerate(stmts):
        if isinstance(st, ast.Return):
            if st.value is not None:
                return None
            return out                               # the statements after a return are dead
        if isinstance(st, ast.If):
            body = unreturn(st.body)
            orelse = unreturn(st.orelse)
            if body is None or orelse is None:
                return None
            ends = bool(st.body) and isinstance(st.body[-1], ast.Return)
            if ends and not st.orelse:
                rest = unreturn(stmts[i + 1:])
                if rest is None:
                    return None
                out.append(ast.If(test=st.test, body=body or [ast.Pass()], orelse=rest))
                return out
            if any(isinstance(n, ast.Return) for x in st.body + st.orelse for n in ast.walk(x)) and not (
                    ends and st.orelse and isinstance(st.orelse[-1], ast.Return)):
                # a return somewhere inside that does not end the branch: only the simple chain is handled
                if any(isinstance(n, ast.Return) for x in body + orelse for n in ast.walk(x)):
                    return None
            out.append(ast.If(test=st.test, body=body or [ast.Pass()], orelse=orelse))
            continue
        if any(isinstance(n, ast.Return) for n in ast.walk(st)):
            return None
        out.append(st)
    return out


def inline_methods(cls, fn):
    """N4: inside method `fn` of class `cls`, a statement `self._helper(plain args)` whose target is a method of the
    same class that returns nothing (after N5) is replaced by the helper's statements with the parameters replaced
    by the arguments.  In place; returns fn."""
    methods = {n.name: n for n in cls.body if isinstance(n, ast.FunctionDef)}

    def expand(stmts, depth):
        out = []
        for st in stmts:
            for field in ('body', 'orelse', 'finalbody'):
                b = getattr(st, field, None)
                if isinstance(b, list) and b and isinstance(b[0], ast.stmt):
                    setattr(st, field, expand(b, depth))
            for h in getattr(st, 'handlers', []) or []:
                h.body = expand(h.body, depth)
            call = st.value if isinstance(st, ast.Expr) and isinstance(st.value, ast.Call) else None
            f = call.func if call is not None else None
            if (depth < 3 and isinstance(f, ast.Attribute) and isinstance(f.value, ast.Name) and f.value.id == 'self'
                    and f.attr in methods and f.attr != fn.name and f.attr.startswith('_') and not f.attr.startswith('__')
                    and not call.keywords and all(_plain(a) for a in call.args)):
                m = methods[f.attr]
                a = m.args
                params = [x.arg for x in a.args][1:]
                if (not m.decorator_list and not (a.vararg or a.kwarg or a.kwonlyargs or a.defaults)
                        and len(params) == len(call.args) and _only_bare_returns(m)):
                    body = unreturn(copy.deepcopy(_body(m)))
                    if body is not None:
                        env = dict(zip(params, call.args))
                        body = [_Subst(env).visit(x) for x in body]
                        out.extend(expand(body, depth + 1))
                        continue
            out.append(st)
        return out
    fn.body = expand(fn.body, 0)
    return ast.fix_missing_locations(fn)


def normalise(mod):
    """normalises a parsed module in place and returns it"""
    helpers = _helpers(mod)
    for _ in range(8):
        changed = False
        inl = _Inline(helpers)
        for n in mod.body:
            if isinstance(n, ast.FunctionDef) and n.name in helpers:
                continue
            inl.visit(n)
        changed |= inl.changed
        for fn in [n for n in ast.walk(mod) if isinstance(n, ast.FunctionDef)]:
            changed |= _fold_function(fn)
        if not changed:
            break
    return ast.fix_missing_locations(mod)


def parse(path):
    return normalise(ast.parse(open(path).read()))
