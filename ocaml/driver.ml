(* Generic driver: one s-expression per input line -> Entry.run -> one per output line.
   Text syntax: decimal integers (optionally negative), ( ... ) lists,
   #hex.. = list of byte integers (shorthand). *)
open Model

let rec pos_of_int n =
  if n = 1 then XH else if n land 1 = 0 then XO (pos_of_int (n lsr 1)) else XI (pos_of_int (n lsr 1))
let z_of_int n = if n = 0 then Z0 else if n > 0 then Zpos (pos_of_int n) else Zneg (pos_of_int (-n))
let rec int_of_pos = function XH -> 1 | XO p -> 2 * int_of_pos p | XI p -> 2 * int_of_pos p + 1
let int_of_z = function Z0 -> 0 | Zpos p -> int_of_pos p | Zneg p -> - (int_of_pos p)

let hexval c = match c with
  | '0'..'9' -> Char.code c - 48 | 'a'..'f' -> Char.code c - 87 | 'A'..'F' -> Char.code c - 55
  | _ -> failwith "hex"

let parse (s : string) : sx =
  let n = String.length s in
  let i = ref 0 in
  let rec skip () = if !i < n && (s.[!i] = ' ' || s.[!i] = '\t' || s.[!i] = '\r') then (incr i; skip ()) in
  let rec item () : sx =
    skip ();
    if !i >= n then failwith "eof" else
    match s.[!i] with
    | '(' -> incr i; let acc = ref [] in
        let rec loop () = skip ();
          if !i >= n then failwith "unclosed"
          else if s.[!i] = ')' then incr i
          else (acc := item () :: !acc; loop ()) in
        loop (); L (List.rev !acc)
    | '#' -> incr i; let acc = ref [] in
        while !i + 1 < n && (match s.[!i] with '0'..'9'|'a'..'f'|'A'..'F' -> true | _ -> false) do
          acc := I (z_of_int (hexval s.[!i] * 16 + hexval s.[!i+1])) :: !acc; i := !i + 2
        done; L (List.rev !acc)
    | _ -> let j = !i in
        if s.[!i] = '-' then incr i;
        while !i < n && s.[!i] >= '0' && s.[!i] <= '9' do incr i done;
        if !i = j then failwith ("bad char at " ^ string_of_int j);
        I (z_of_int (int_of_string (String.sub s j (!i - j))))
  in item ()

let rec print (b : Buffer.t) (x : sx) : unit =
  match x with
  | I z -> Buffer.add_string b (string_of_int (int_of_z z))
  | L l ->
    let all_bytes = l <> [] && List.for_all (function I z -> let v = int_of_z z in v >= 0 && v < 256 | _ -> false) l in
    if all_bytes && List.length l >= 4 then begin
      Buffer.add_char b '#';
      List.iter (function I z -> Buffer.add_string b (Printf.sprintf "%02x" (int_of_z z)) | _ -> ()) l
    end else begin
      Buffer.add_char b '(';
      List.iteri (fun k y -> if k > 0 then Buffer.add_char b ' '; print b y) l;
      Buffer.add_char b ')'
    end

let () =
  try while true do
    let line = input_line stdin in
    if String.length line > 0 then begin
      let b = Buffer.create 256 in
      (try print b (Entry.run (parse line))
       with Stack_overflow -> Buffer.add_string b "STACKOVERFLOW"
          | Failure m -> Buffer.add_string b ("PARSEERROR " ^ m));
      print_endline (Buffer.contents b)
    end
  done with End_of_file -> ()
