#!/bin/sh
# build.sh C05 : compile the extracted model of a property with the generic driver
set -e
cd "$(dirname "$0")"
id="$1"; lc=$(echo "$id" | tr 'A-Z' 'a-z')
d=".build/$id"; mkdir -p "$d"
src="../coq/x_$lc.ml"
[ -f "$src" ] || { echo "missing $src (run make -C coq first)"; exit 2; }
if [ ! -x "$d/run" ] || [ "$src" -nt "$d/run" ] || [ driver.ml -nt "$d/run" ]; then
  cp "$src" "$d/model.ml"; cp "../coq/x_$lc.mli" "$d/model.mli"
  echo "let run = Model.run_$id" > "$d/entry.ml"
  cp driver.ml "$d/driver.ml"
  (cd "$d" && ocamlfind ocamlopt -O3 -w -a model.mli model.ml entry.ml driver.ml -o run 2>/dev/null || ocamlfind ocamlopt -w -a model.mli model.ml entry.ml driver.ml -o run)
fi
