(** C12 - client-controlled data cannot break out of headers, error pages or logs.
    Property theorems only; each is closed by [exact] of a lemma from Proof/.
    Strings are lists of code points, byte strings lists of integers; the
    theorems quantify over ALL lists of integers (no well-formedness of the
    text is assumed unless stated). *)
From Coq Require Import ZArith List Bool.
From CV Require Import Lib.Sx Lib.ListZ Model.M_headers
     Proof.P_headers Proof.P_headers_utf8 Proof.P_headers_html Proof.P_headers_log
     Proof.P_headers_ex.
Import ListNotations.
Open Scope Z_scope.

(** Whatever the header name or value (any code points; or any byte string when
    the application supplied bytes), what encode_header_item emits contains no
    byte < 32 and no 127 - for every delete table that covers the control
    characters (tie_deletechars shows that the table in httputil.py does). *)
Theorem c12_header_items_clean : forall del isbytes item out,
  ctl_covered del = true ->
  (isbytes = true -> Forall (fun b => 0 <= b) item) ->
  encode_header_item del isbytes item = Ok out ->
  Forall clean out.
Proof. exact header_item_clean. Qed.
Print Assumptions c12_header_items_clean.

(** HeaderMap.output: every emitted pair is clean. *)
Theorem c12_header_map_clean : forall del items out,
  ctl_covered del = true -> Forall item_wf items ->
  output del items = Ok out -> Forall pair_clean out.
Proof. exact output_clean. Qed.
Print Assumptions c12_header_map_clean.

(** Response.finalize, repaired variant: the status line and every header pair -
    those of the header map and the Set-Cookie lines - are free of control
    characters, and each cookie yields exactly one pair named Set-Cookie (a
    cookie attribute cannot start a header of its own).  For the code as it was
    written see Refuted/R_C12.v. *)
Theorem c12_status_and_cookies_clean : forall del code reason items morsels st hs,
  ctl_covered del = true -> 100 <= code <= 999 -> Forall item_wf items ->
  finalize true del code reason items morsels = Ok (st, hs) ->
  Forall clean st /\ Forall pair_clean hs /\
  exists hs1 cs, hs = hs1 ++ cs /\ output del items = Ok hs1
                 /\ map fst cs = map (fun _ => delete del set_cookie) morsels.
Proof. exact finalize_repaired_clean. Qed.
Print Assumptions c12_status_and_cookies_clean.

(** Text outside Latin-1 is emitted as the encoded word =?utf-8?b?...?= whose
    base64 payload decodes to the UTF-8 bytes of the text, which decode to the
    text; the only other outcome is UnicodeEncodeError for text UTF-8 cannot
    represent (a lone surrogate). *)
Theorem c12_rfc2047_roundtrip : forall v,
  is_latin1 v = false ->
  (exists bs, utf8 v = Some bs /\ encode true v = Ok (ew_prefix ++ b64enc bs ++ ew_suffix)
              /\ b64dec (b64enc bs) = Some bs /\ utf8_dec bs = Some v
              /\ decode_word (ew_prefix ++ b64enc bs ++ ew_suffix) = Some v)
  \/ (utf8 v = None /\ encode true v = EUnicode).
Proof. exact rfc2047_roundtrip. Qed.
Print Assumptions c12_rfc2047_roundtrip.

(** base64: the decoder inverts the encoder on every byte string. *)
Theorem c12_b64_roundtrip : forall bs, Forall byte bs -> b64dec (b64enc bs) = Some bs.
Proof. exact b64_roundtrip. Qed.
Print Assumptions c12_b64_roundtrip.

(** html.escape(quote=False): no angle bracket survives, every ampersand starts
    one of the three entities, and unescaping gives the text back. *)
Theorem c12_html_escaped : forall s,
  ~ In 60 (escape s) /\ ~ In 62 (escape s) /\ amps_ok (escape s) = true /\ unescape (escape s) = s.
Proof. exact html_escaped. Qed.
Print Assumptions c12_html_escaped.

(** get_error_page: whatever the template, every field it interpolates is the
    [escape] image of the value passed in (or of its default). *)
Theorem c12_error_page_fields : forall tmpl st dm ver os om ot ov,
  render tmpl (error_kwargs st dm ver os om ot ov) =
  flat_map (fun p => match p with
                     | Lit l => l
                     | Field k => escape (raw_field st dm ver os om ot ov k)
                     end) tmpl.
Proof. exact error_page_fields. Qed.
Print Assumptions c12_error_page_fields.

(** quoteattr (the href of the redirect page): the value sits between two equal
    quote characters, contains neither that character nor an angle bracket. *)
Theorem c12_quoteattr_delimited : forall s,
  exists q body, quoteattr s = q :: body ++ [q] /\ (q = 34 \/ q = 39)
                 /\ ~ In q body /\ ~ In 60 body /\ ~ In 62 body.
Proof. exact quoteattr_delimited. Qed.
Print Assumptions c12_quoteattr_delimited.

(** Access log: an escaped atom has no byte < 32, none >= 127, and every double
    quote in it is preceded by a backslash. *)
Theorem c12_log_single_line : forall atom out,
  log_atom atom = Some out ->
  Forall printable out /\
  forall pre post, out = pre ++ 34 :: post -> exists pre', pre = pre' ++ [92].
Proof. exact log_atom_spec. Qed.
Print Assumptions c12_log_single_line.

(** ... and the whole record built from the atoms is printable ASCII, hence one line. *)
Theorem c12_log_record_single_line : forall x line,
  access_line x = Some line -> Forall printable line.
Proof. exact access_line_printable. Qed.
Print Assumptions c12_log_record_single_line.

(** Non-vacuity: the table of the model satisfies the hypothesis; a header value
    with CR LF DEL is cleaned; a repaired finalize run with an injected reason
    phrase and a cookie attribute carrying CR LF succeeds; U+8200 is emitted
    as =?utf-8?b?6IiA?=; an atom with quote, newline, non-ASCII, backslash. *)
Example c12_nonvacuous :
  ctl_covered deletechars = true
  /\ encode_header_item deletechars false [97; 13; 10; 88; 58; 32; 121; 127] = Ok [97; 88; 58; 32; 121]
  /\ (exists st hs,
        finalize true deletechars 200 [79; 75; 13; 10; 88; 58; 32; 121]
                 [HItem false [88; 45; 65] false [118; 10; 119]]
                 [[97; 61; 118; 59; 32; 80; 97; 116; 104; 61; 47; 13; 10; 88; 45; 73; 110; 106; 58; 32; 49]]
        = Ok (st, hs)
        /\ st = [50; 48; 48; 32; 79; 75; 88; 58; 32; 121] /\ length hs = 2%nat
        /\ Forall item_wf [HItem false [88; 45; 65] false [118; 10; 119]])
  /\ is_latin1 [33280] = false
  /\ encode true [33280] = Ok [61; 63; 117; 116; 102; 45; 56; 63; 98; 63; 54; 73; 105; 65; 63; 61]
  /\ log_atom [97; 34; 10; 233; 92; 39]
     = Some [97; 92; 34; 92; 110; 92; 120; 99; 51; 92; 120; 97; 57; 92; 92; 39]
  /\ escape [60; 97; 38; 62] = [38; 108; 116; 59; 97; 38; 97; 109; 112; 59; 38; 103; 116; 59].
Proof. exact ex_nonvacuous. Qed.
Print Assumptions c12_nonvacuous.
