(** C18 - process bus: every listener runs, in order; state follows the lifecycle.
    Property theorems only; each is closed by [exact] of a lemma from Proof/.
    Model: Model/M_bus.v (publish, start, stop, exit, restart, graceful, (un)subscribe of
    cherrypy/process/wspbus.py; [c_fix_stop = true] is the code after fix 3447e6b).
    "Log listeners do not raise" is the hypothesis [log_quiet_or]/[LQ]: every listener on the log
    channel, and every listener a script may subscribe there, does nothing and returns (the
    recorded finding log-listener-raises is what happens otherwise, Refuted/R_C18.v). *)
From Coq Require Import ZArith List Bool Permutation Sorted.
From CV Require Import Lib.Sx Lib.ListZ Model.M_bus Proof.P_bus Proof.P_bus_thm.
Import ListNotations.
Open Scope Z_scope.

(** publish: for every snapshot of the channel and every subset of its listeners raising Exception
    (the others return; all of them may subscribe and unsubscribe anybody while they run, but do not
    publish), the listeners called at this nesting depth are the snapshot sorted by non-decreasing
    priority, ties in the set's order - each exactly once, all seeing one state - and the call returns
    all outputs, or raises ChannelFailures carrying exactly the raising listeners, in call order. *)
Theorem c18_publish_all : forall c fuel d ch w w' r,
  log_quiet_or c ch w ->
  Forall (fun it : item => simple c (snd it)) (snapshot ch w) ->
  publish c (S (S fuel)) d ch w = (w', r) ->
  let items := sort_prio (snapshot ch w) in
  Permutation items (snapshot ch w) /\
  StronglySorted le_prio items /\
  (forall p, filter (fun it => fst it =? p) items = filter (fun it => fst it =? p) (snapshot ch w)) /\
  (exists new, w_journal w' = new ++ w_journal w /\
               rev (filter (at_depth d) new) = map (entry d ch (w_state w)) items) /\
  r = (if is_nil (filter (raises c) items) then POk (map snd items)
       else PFail (map snd (filter (raises c) items))) /\
  w_state w' = w_state w /\ w_execv w' = w_execv w.
Proof. exact thm_publish_all. Qed.
Print Assumptions c18_publish_all.

Example c18_publish_all_ex :
  log_quiet_or ex_c 6 ex_w_pub /\
  Forall (fun it : item => simple ex_c (snd it)) (snapshot 6 ex_w_pub) /\
  snapshot 6 ex_w_pub = [(10, 0); (50, 1); (50, 2)] /\
  snd (publish ex_c FUEL 1 6 ex_w_pub) = PFail [0; 2] /\
  map j_id (filter (at_depth 1) (rev (w_journal (fst (publish ex_c FUEL 1 6 ex_w_pub))))) = [0; 1; 2] /\
  snapshot 6 (fst (publish ex_c FUEL 1 6 ex_w_pub)) = [(10, 0); (50, 1); (5, 3)].
Proof.
  split; [right; apply ex_LQ; repeat constructor; intros; discriminate|].
  split.
  { change (snapshot 6 ex_w_pub) with [(10, 0); (50, 1); (50, 2)].
    repeat (apply Forall_cons; [split; [reflexivity|(left; reflexivity) || (right; reflexivity)]|]).
    apply Forall_nil. }
  vm_compute. repeat split; reflexivity.
Qed.

(** the same journal clause with listeners that publish re-entrantly or raise anything: whenever the
    call returned or raised ChannelFailures, its own listeners ran exactly once each, sorted. *)
Theorem c18_publish_reentrant : forall c fuel d ch w w' r,
  log_quiet_or c ch w ->
  publish c (S fuel) d ch w = (w', r) -> completed r ->
  exists new, w_journal w' = new ++ w_journal w /\
    rev (filter (at_depth d) new) = map (entry d ch (w_state w)) (sort_prio (snapshot ch w)).
Proof. exact thm_publish_reentrant. Qed.
Print Assumptions c18_publish_reentrant.

(** no listener behaviour makes a publish change the state or the execv flag *)
Theorem c18_publish_keeps_state : forall c fuel d ch w w' r,
  publish c fuel d ch w = (w', r) -> w_state w' = w_state w /\ w_execv w' = w_execv w.
Proof. exact thm_publish_state. Qed.
Print Assumptions c18_publish_keeps_state.

(** start/stop/exit listeners called by start(), stop(), exit(), restart(), graceful() see the bus in
    STARTING / STOPPING / EXITING - for every listener behaviour, log listeners included. *)
Theorem c18_states_seen : forall c k w w' r,
  lifecycle_call k -> do_call c k w = (w', r) ->
  exists new, w_journal w' = new ++ w_journal w /\
    Forall (fun j => j_depth j = 1 ->
              (j_ch j = CH_START -> j_state j = STARTING) /\
              (j_ch j = CH_STOP -> j_state j = STOPPING) /\
              (j_ch j = CH_EXIT -> j_state j = EXITING)) new.
Proof. exact thm_states_seen. Qed.
Print Assumptions c18_states_seen.

(** exit() runs all its stop listeners before any of its exit listeners *)
Theorem c18_exit_order : forall c w w' r,
  do_exit c w = (w', r) ->
  exists n_exit n_stop, w_journal w' = n_exit ++ n_stop ++ w_journal w /\
    Forall (fun j => j_depth j = 1 -> j_ch j <> CH_EXIT) n_stop /\
    Forall (fun j => j_depth j = 1 -> j_ch j <> CH_STOP) n_exit.
Proof. exact thm_exit_order. Qed.
Print Assumptions c18_exit_order.

(** lifecycle, the rows of calls that return: STARTED after start, STOPPED after stop, EXITING after
    exit/restart (never when entered in STARTING; restart sets execv), unchanged otherwise - from
    every state before and for every listener behaviour.  The failure rows are c18_stop_failure_state,
    c18_start_failure and c18_exit_failure below. *)
Theorem c18_lifecycle : forall c k w w' o,
  do_call c k w = (w', CRet o) ->
  match k with
  | KStart => w_state w' = STARTED /\ w_execv w' = w_execv w
  | KStop => w_state w' = STOPPED /\ w_execv w' = w_execv w
  | KExit => w_state w' = EXITING /\ w_state w <> STARTING /\ w_execv w' = w_execv w
  | KRestart => w_state w' = EXITING /\ w_state w <> STARTING /\ w_execv w' = true
  | _ => w_state w' = w_state w /\ w_execv w' = w_execv w
  end.
Proof. exact thm_lifecycle_clean. Qed.
Print Assumptions c18_lifecycle.

(** stop() (repaired, fix 3447e6b): STOPPED afterwards whatever the stop listeners raise *)
Theorem c18_stop_failure_state : forall c w w' r,
  LQ c w -> c_fix_stop c = true -> do_stop c w = (w', r) -> w_state w' = STOPPED.
Proof. exact thm_stop_state. Qed.
Print Assumptions c18_stop_failure_state.

Example c18_stop_failure_state_ex :
  LQ ex_c ex_w_stop /\ c_fix_stop ex_c = true /\
  snd (do_stop ex_c ex_w_stop) = CFail [2] /\
  lifecycle_view (fst (do_stop ex_c ex_w_stop)) = [(CH_STOP, 2, STOPPING); (CH_STOP, 1, STOPPING)].
Proof.
  split; [apply ex_LQ; repeat constructor; intros; discriminate|]. vm_compute. repeat split; reflexivity.
Qed.

(** start(): either the start publish returned and the bus is STARTED, or the bus is never STARTED
    and the call does not return: a ChannelFailures of the start publish makes start() run exit()
    from STARTING (stop then exit listeners, c18_exit_failure) and the outcome is os._exit(70) unless
    a stop/exit listener raises SystemExit/KeyboardInterrupt; those two raised by a start listener
    pass through with the bus left in STARTING. *)
Theorem c18_start_failure : forall c w w' r,
  LQ c w -> do_start c w = (w', r) ->
  exists w1 w2 r2,
    ext w w1 /\ w_state w1 = STARTING /\ pub c CH_START w1 = (w2, r2) /\
    ( ((exists o, r2 = CRet o) /\ r = CRet [] /\ w_state w' = STARTED)
      \/ ((exists ids w3, r2 = CFail ids /\ ext w2 w3 /\ w_state w3 = STARTING /\ do_exit c w3 = (w', r))
          /\ w_state w' <> STARTED
          /\ (r = COsExit EX_SOFTWARE \/ (exists k, r = CSys k) \/ r = CKbd \/ r = CFuel))
      \/ (w' = w2 /\ r = r2 /\ w_state w' = STARTING /\ ((exists k, r = CSys k) \/ r = CKbd \/ r = CFuel)) ).
Proof. exact thm_start_failure. Qed.
Print Assumptions c18_start_failure.

Example c18_start_failure_ex :
  LQ ex_c ex_w_life /\
  snd (do_start ex_c ex_w_life) = COsExit 70 /\
  w_state (fst (do_start ex_c ex_w_life)) = EXITING /\
  lifecycle_view (fst (do_start ex_c ex_w_life)) =
    [(CH_START, 1, STARTING); (CH_START, 2, STARTING); (CH_STOP, 1, STOPPING); (CH_EXIT, 3, EXITING)].
Proof.
  split; [apply ex_LQ; repeat constructor; intros; discriminate|]. vm_compute. repeat split; reflexivity.
Qed.

(** exit(): no Exception ever leaves it; entered in STARTING it never returns (os._exit(70), or a
    listener's SystemExit/KeyboardInterrupt); when it returns the bus is EXITING - for every listener
    behaviour, log listeners included ... *)
Theorem c18_exit_failure : forall c w w' r,
  do_exit c w = (w', r) ->
  (forall ids, r <> CFail ids) /\
  (w_state w = STARTING -> r = COsExit EX_SOFTWARE \/ (exists k, r = CSys k) \/ r = CKbd \/ r = CFuel) /\
  (forall o, r = CRet o -> w_state w' = EXITING) /\
  (w_state w' = STOPPING \/ w_state w' = STOPPED \/ w_state w' = EXITING).
Proof. exact thm_exit_failure. Qed.
Print Assumptions c18_exit_failure.

(** ... and the whole table: the stop publish runs in STOPPING; a ChannelFailures there is
    os._exit(70) without the exit listeners; otherwise the exit publish runs in EXITING and a
    ChannelFailures there, or entry in STARTING, is os._exit(70). *)
Theorem c18_exit_table : forall c w w' r,
  LQ c w -> do_exit c w = (w', r) ->
  exists w1 w2 rs, ext w w1 /\ w_state w1 = STOPPING /\ pub c CH_STOP w1 = (w2, rs) /\
    match rs with
    | CRet _ =>
        exists w3 w4 rx, ext w2 w3 /\ w_state w3 = EXITING /\ pub c CH_EXIT w3 = (w4, rx) /\
          ext w4 w' /\ w_state w' = EXITING /\
          r = match rx with
              | CRet _ => if w_state w =? STARTING then COsExit EX_SOFTWARE else CRet []
              | CFail _ => COsExit EX_SOFTWARE
              | other => other
              end
    | CFail _ => r = COsExit EX_SOFTWARE /\ w' = (if c_fix_stop c then set_state STOPPED w2 else w2)
    | other => r = other /\ w' = (if c_fix_stop c then set_state STOPPED w2 else w2)
    end.
Proof. exact thm_exit_table. Qed.
Print Assumptions c18_exit_table.

Example c18_exit_failure_ex :
  LQ ex_c ex_w_stop /\
  snd (do_exit ex_c ex_w_stop) = COsExit 70 /\
  snd (do_exit ex_c (set_state STARTING ex_w_life)) = COsExit 70 /\
  snd (do_exit ex_c ex_w_life) = CRet [] /\
  lifecycle_view (fst (do_exit ex_c ex_w_life)) = [(CH_STOP, 1, STOPPING); (CH_EXIT, 3, EXITING)].
Proof.
  split; [apply ex_LQ; repeat constructor; intros; discriminate|]. vm_compute. repeat split; reflexivity.
Qed.
