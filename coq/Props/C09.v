(** C09 - hooks run in priority order, failsafe hooks always run, end hooks run once.
    Property theorems only. *)
From Coq Require Import ZArith List Bool Permutation Sorted.
Import ListNotations.
From CV Require Import Model.M_flow Model.M_hooks Model.M_pipeline Model.M_aflow Proof.P_hooks Proof.P_cnt Proof.P_endreq Proof.P_flow_thm Proof.P_flow_gen.
Open Scope Z_scope.

(** The hooks of a point run in ascending priority order with ties in attachment order:
    what runs is a subsequence of THE stable ascending sort of the attached hooks. *)
Theorem c09_order : forall hs,
  subseq (fst (run_point hs)) (map h_id (sort_hooks hs))
  /\ Permutation (sort_hooks hs) hs
  /\ StronglySorted prio_le (sort_hooks hs)
  /\ forall p, filter (same_prio p) (sort_hooks hs) = filter (same_prio p) hs.
Proof.
  intros hs. split; [apply run_hooks_subseq|]. split; [apply sort_perm|]. split; [apply sort_sorted|].
  intros p; apply sort_stable.
Qed.
Print Assumptions c09_order.

(** If hook h is the first to raise an Exception (HTTPError, HTTPRedirect, InternalRedirect included),
    exactly the remaining FAILSAFE hooks still run, each once, in order - whatever they do themselves -
    no remaining ordinary hook runs, and the point raises. *)
Theorem c09_failsafe : forall hs pre h post x,
  sort_hooks hs = pre ++ h :: post ->
  Forall (fun h => h_beh h = None) pre ->
  h_beh h = Some x -> is_base x = false -> Forall no_base post ->
  fst (run_point hs) = map h_id pre ++ h_id h :: map h_id (filter h_failsafe post)
  /\ exists e, snd (run_point hs) = Some e /\ is_base e = false.
Proof. intros hs pre h post x E. unfold run_point. rewrite E. apply failsafe_journal. Qed.
Print Assumptions c09_failsafe.

Theorem c09_all_run_when_ok : forall hs,
  Forall (fun h => h_beh h = None) hs -> run_point hs = (map h_id (sort_hooks hs), None).
Proof.
  intros hs H. unfold run_point. apply all_ok_runs_all.
  eapply Permutation_Forall; [apply Permutation_sym, sort_perm | exact H].
Qed.
Print Assumptions c09_all_run_when_ok.

(** However respond() ends - normal completion, HTTPError, redirect, unexpected exception, a failure
    inside error handling, KeyboardInterrupt - on_end_resource runs exactly once: for EVERY environment. *)
Theorem c09_end_resource_once : forall E fuel st o st',
  run_flow E fuel (Call F_respond) st = (o, st') -> o <> OutOfFuel ->
  count (RunHooks OnEndResource) (journal st') = S (count (RunHooks OnEndResource) (journal st)).
Proof. exact thm_end_resource_once. Qed.
Print Assumptions c09_end_resource_once.

(** The documented order: in one Request.run the main-line points run at most once each,
    before_finalize at most twice, the error points at most once, on_end_request not at all. *)
Theorem c09_hook_bounds : forall E fuel f st o st' p n lo hi,
  run_flow E fuel (Call f) st = (o, st') -> o <> OutOfFuel ->
  nth_error [OnStartResource; BeforeRequestBody; BeforeHandler; BeforeFinalize;
             OnEndResource; OnEndRequest; BeforeErrorResponse; AfterErrorResponse] n = Some p ->
  nth_error (hook_table f) n = Some (Some (lo, hi)) ->
  (count (RunHooks p) (journal st) + lo <= count (RunHooks p) (journal st')
   <= count (RunHooks p) (journal st) + hi)%nat.
Proof. exact thm_hook_bounds. Qed.
Print Assumptions c09_hook_bounds.

Theorem c09_hook_table :
  hook_table F_request_run =
  [Some (0, 1); Some (0, 1); Some (0, 1); Some (0, 2); Some (0, 1); Some (0, 0); Some (0, 1); Some (0, 1)]%nat
  /\ hook_table F_respond =
  [Some (0, 1); Some (0, 1); Some (0, 1); Some (0, 2); Some (1, 1); Some (0, 0); Some (0, 1); Some (0, 1)]%nat.
Proof. split; [exact chk_hook_table_run | exact chk_hook_table_respond]. Qed.
Print Assumptions c09_hook_table.

(** on_end_request: at most once per request object over a whole server session (call, iteration -
    completed, failing or abandoned -, any number of close() calls, internal redirects), for every
    environment; and never inside Request.run. *)
Theorem c09_end_request_at_most_once : forall E fuel o st' r,
  run_flow E fuel server_session init_state = (o, st') ->
  (countr r (journal st') <= 1)%nat.
Proof. exact thm_end_request_at_most_once. Qed.
Print Assumptions c09_end_request_at_most_once.

(** ... and in every TERMINATING session exactly once for every request object whose close() got past its
    `closed` guard, never for any other ([closed] = the request ids with closed = True; 0 is the class-default
    request that sits in the serving slot between requests, closed from the start). *)
Theorem c09_end_request_exactly_once_if_closed : forall E fuel o st' r,
  run_flow E fuel server_session init_state = (o, st') -> o <> OutOfFuel -> r <> 0 ->
  countr r (journal st') = if memZ r (closed (sid st')) then 1%nat else 0%nat.
Proof. exact (gthm_end_request_exactly_once_if_closed prog pparam sess_fuel handwritten_flow_checks). Qed.
Print Assumptions c09_end_request_exactly_once_if_closed.

(** The full clause: in every terminating server session - whatever the handler, hooks, tools, error pages, body
    iterator, the server's start_response and the number of close() calls do - every request object that was
    served (loaded into the serving slot: the original request and every internal-redirect successor) has had
    its on_end_request hooks run exactly once. *)
Theorem c09_end_request_exactly_once : forall E fuel o st' r,
  env_ok E -> p_throw E = false ->
  run_flow E fuel server_session init_state = (o, st') -> o <> OutOfFuel ->
  In r (served (sid st')) -> r <> 0 ->
  countr r (journal st') = 1%nat.
Proof. exact (gthm_end_request_exactly_once prog pparam sess_fuel handwritten_flow_checks). Qed.
Print Assumptions c09_end_request_exactly_once.

Theorem c09_end_request_only_in_close : forall E fuel st o st',
  run_flow E fuel (Call F_request_run) st = (o, st') -> o <> OutOfFuel ->
  count (RunHooks OnEndRequest) (journal st') = count (RunHooks OnEndRequest) (journal st).
Proof. exact thm_end_request_not_in_run. Qed.
Print Assumptions c09_end_request_only_in_close.

(* (request id 0 is the class-default request object that occupies the serving slot between requests; ids handed
   out by NewRequest start at 1, so [r <> 0] excludes nothing that was created for a client.) *)

(** Non-vacuity: a concrete hook list with ties, a failing ordinary hook, failsafe hooks behind it. *)
Example c09_nonvacuous :
  let hs := [Hook 1 50 false None; Hook 2 10 false (Some XException); Hook 3 50 true None;
             Hook 4 10 true (Some XHTTPError); Hook 5 70 false None; Hook 6 5 false None] in
  run_point hs = ([6; 2; 4; 3], Some XHTTPError).
Proof. vm_compute. reflexivity. Qed.
Print Assumptions c09_nonvacuous.
