(** C15 - cached responses are genuine, fresh and never cross Vary variants.
    Property theorems only; each is closed by [exact] of a lemma from Proof/.

    The statements quantify over ALL sequential histories [ops] of requests,
    clock steps and expiry sweeps (no bound on length, URIs, header values,
    directives, sizes, limits) from the empty cache: [s] is any reachable state
    and [r] any next request.  [s_log s] is the ghost log of handler calls
    (generation, time, request); a cached [variant] carries the generation
    number that the harness embeds in body and headers.  [V u] is the Vary
    list of URI [u]; [ops_ok V ops] is the documented assumption of
    MemoryCache that it is constant per URI.  [c_keyfix]/[c_agefix] select the
    repaired variant key / max-age rule (the code as written is refuted in
    Refuted/R_C15.v).  Concurrent schedules (AntiStampedeCache waiting between
    threads) are outside the model: sequential histories only.
    [served ou v age]: the outcome [ou] is the stored variant [v] itself
    ([OHit v age]) or a 304 answered on its behalf ([O304 v age]). *)
From Coq Require Import ZArith List Bool.
From CV Require Import Lib.Sx Lib.ListZ Model.M_cache Proof.P_cache Proof.P_cache_thm Proof.P_cache_ex.
Import ListNotations.
Open Scope Z_scope.

(** Genuine: a response served from the cache is one a logged handler call
    produced (same generation, status, body size) for the same URI (URL + query
    string) and for the same value of EACH header named in its Vary. *)
Theorem c15_genuine : forall V c ops outs s r ou v age fl s',
  c_keyfix c = true ->
  ops_ok V ops -> run c ops init = (outs, s) ->
  do_req c r s = (ou, fl, s') -> served ou v age ->
  exists cl, In cl (s_log s)
    /\ k_gen cl = v_gen v
    /\ p_status (r_plan (k_req cl)) = v_status v
    /\ p_size (r_plan (k_req cl)) = v_size v
    /\ r_uri (k_req cl) = r_uri r
    /\ forall h, In h (p_vary (r_plan (k_req cl))) -> hget (r_hdrs (k_req cl)) h = hget (r_hdrs r) h.
Proof. exact thm_genuine. Qed.
Print Assumptions c15_genuine.

(** Fresh: the (unique) handler call that produced the served generation happened
    no longer ago, in whole seconds, than the configured delay and than the
    request's max-age if it has one; the Age served is exactly the elapsed whole
    seconds ([c_tps] clock ticks per second). *)
Theorem c15_fresh : forall V c ops outs s r ou v age fl s',
  c_agefix c = true -> 0 < c_tps c ->
  ops_ok V ops -> run c ops init = (outs, s) ->
  do_req c r s = (ou, fl, s') -> served ou v age ->
  exists cl, In cl (s_log s) /\ k_gen cl = v_gen v
    /\ (forall cl', In cl' (s_log s) -> k_gen cl' = v_gen v -> cl' = cl)
    /\ 0 <= s_now s - k_time cl
    /\ age = (s_now s - k_time cl) / c_tps c
    /\ age <= c_delay c
    /\ (forall n, req_max_age r = Some n -> age <= n).
Proof. exact thm_fresh. Qed.
Print Assumptions c15_fresh.

(** Invalidation: after POST, PUT or DELETE on a URI - whatever happens to other
    URIs, the clock and the expiry thread in between - the next request to that
    URI reaches the handler (from any state, reachable or not). *)
Theorem c15_invalidation : forall c s r ou fl s1 mid outs s2 r2,
  is_invalidating (r_meth r) = true ->
  do_req c r s = (ou, fl, s1) ->
  others (r_uri r) mid -> run c mid s1 = (outs, s2) ->
  r_uri r2 = r_uri r ->
  exists fl2 s3, do_req c r2 s2 = (OMiss (s_gen s2 + 1), fl2, s3).
Proof. exact thm_invalidation. Qed.
Print Assumptions c15_invalidation.

(** no-cache: a request carrying Pragma: no-cache, or a Cache-Control element
    no-cache (wherever it stands among the other elements, malformed max-age
    included), reaches the handler, in every state. *)
Theorem c15_nocache : forall c r s,
  mem s_no_cache (r_pragma r) = true \/ mem s_no_cache (r_cc r) = true ->
  exists fl s', do_req c r s = (OMiss (s_gen s + 1), fl, s').
Proof. exact thm_nocache. Qed.
Print Assumptions c15_nocache.

(** no-store: whatever handler call produced the generation a hit serves, neither
    its request nor its response was marked Cache-Control: no-store ... *)
Theorem c15_nostore : forall V c ops outs s r ou v age fl s' cl,
  ops_ok V ops -> run c ops init = (outs, s) ->
  do_req c r s = (ou, fl, s') -> served ou v age ->
  In cl (s_log s) -> k_gen cl = v_gen v ->
  mem s_no_store (r_cc (k_req cl)) = false /\ mem s_no_store (p_rcc (r_plan (k_req cl))) = false.
Proof. exact thm_nostore. Qed.
Print Assumptions c15_nostore.

(** ... and no reachable store ever holds a response of such an exchange. *)
Theorem c15_nostore_never_stored : forall V c ops outs s u uc k v,
  ops_ok V ops -> run c ops init = (outs, s) ->
  In (u, uc) (s_store s) -> In (k, SVar v) (uc_ents uc) ->
  exists cl, In cl (s_log s) /\ k_gen cl = v_gen v
    /\ mem s_no_store (r_cc (k_req cl)) = false
    /\ mem s_no_store (p_rcc (r_plan (k_req cl))) = false.
Proof. exact thm_nostore_store. Qed.
Print Assumptions c15_nostore_never_stored.

(** Revalidation: a 304 is answered from the cache only to a GET/HEAD whose
    If-Modified-Since equals the stored Last-Modified (and whose If-Unmodified-Since,
    if present, does too); by c15_genuine/c15_fresh that variant is genuine and fresh. *)
Theorem c15_revalidation : forall c r s v age fl s',
  do_req c r s = (O304 v age, fl, s') ->
  v_lastmod v <> 0 /\ r_ims r = v_lastmod v /\ (r_ius r = 0 \/ r_ius r = v_lastmod v)
  /\ (r_meth r = 0 \/ r_meth r = 1).
Proof. exact thm_304_condition. Qed.
Print Assumptions c15_revalidation.

(* ---------- non-vacuity (definitions of cex, Vex, rq, ma3 in Proof/P_cache_ex.v) ---------- *)


(** Vary: X-A, X-B; (1,2) and (2,1) are produced separately (generations 1, 2);
    5 ticks (2.5 s) later a request (1,2) with Cache-Control: no-store, max-age=3
    is a hit on generation 1 with Age 2: the hypotheses of c15_genuine,
    c15_fresh and c15_nostore hold together on a non-trivial state. *)
Example c15_hit_nonvacuous :
  let ops := [OReq (rq 0 49 50 []); OReq (rq 0 50 49 []); OTick 5] in
  let r := rq 0 49 50 [s_no_store; ma3] in
  c_keyfix cex = true /\ c_agefix cex = true /\ 0 < c_tps cex /\ ops_ok Vex ops /\
  req_max_age r = Some 3 /\
  exists outs s v s',
    run cex ops init = (outs, s)
    /\ outs = [Some (OMiss 1, false); Some (OMiss 2, false); None]
    /\ do_req cex r s = (OHit v 2, true, s') /\ served (OHit v 2) v 2 /\ v_gen v = 1.
Proof. exact ex_hit_nonvacuous. Qed.
Print Assumptions c15_hit_nonvacuous.

(** GET (stored), POST on the same URI, a request elsewhere, a clock step and a
    sweep, then GET: the hypotheses of c15_invalidation hold and the state before
    the POST really had the response cached. *)
Example c15_invalidation_nonvacuous :
  let other := Req 0 [47;114;49] [] [] [] (Plan 200 3 [] [] [] 0) 0 0 in
  let mid := [OReq other; OTick 1; OSweep] in
  exists outs0 s fl s1 outs s2 v,
    run cex [OReq (rq 0 49 50 [])] init = (outs0, s)
    /\ do_req cex (rq 0 49 50 []) s = (OHit v 0, true, s)
    /\ is_invalidating (r_meth (rq 2 49 50 [])) = true
    /\ do_req cex (rq 2 49 50 []) s = (OMiss 2, fl, s1)
    /\ others u0 mid /\ run cex mid s1 = (outs, s2)
    /\ exists fl2 s3, do_req cex (rq 0 49 50 []) s2 = (OMiss 4, fl2, s3).
Proof. exact ex_invalidation_nonvacuous. Qed.
Print Assumptions c15_invalidation_nonvacuous.

(** Cache-Control: max-age=3, no-cache on a request that would otherwise hit. *)
Example c15_nocache_nonvacuous :
  exists outs s v fl s',
    run cex [OReq (rq 0 49 50 [])] init = (outs, s)
    /\ do_req cex (rq 0 49 50 [ma3]) s = (OHit v 0, true, s)
    /\ mem s_no_cache (r_cc (rq 0 49 50 [ma3; s_no_cache])) = true
    /\ do_req cex (rq 0 49 50 [ma3; s_no_cache]) s = (OMiss 2, fl, s').
Proof. exact ex_nocache_nonvacuous. Qed.
Print Assumptions c15_nocache_nonvacuous.

(** a stored response with Last-Modified; a matching If-Modified-Since gets a 304
    (covered by c15_genuine / c15_fresh through [served]), another date the response. *)
Example c15_revalidation_nonvacuous :
  exists outs s v,
    run cex [OReq (Req 0 u0 [] [] [] pll 0 0)] init = (outs, s)
    /\ do_req cex (Req 0 u0 [] [] [] pll 1 0) s = (O304 v 0, true, s)
    /\ served (O304 v 0) v 0 /\ v_gen v = 1
    /\ do_req cex (Req 0 u0 [] [] [] pll 2 0) s = (OHit v 0, true, s).
Proof. exact ex_revalidation_nonvacuous. Qed.
Print Assumptions c15_revalidation_nonvacuous.
