(** C17 - negotiated content and charset encodings are lossless and honoured.
    Property theorems only; each is closed by [exact] of a lemma from Proof/.
    zlib and the codecs are external: [inflate (deflate stream ++ rest) =
    (data, rest)] is a hypothesis of c17_gzip_valid, charset encodability is an
    arbitrary function [encodable].  The decision theorems are about the
    repaired variants (flags [rep], [c_rep_q0], [c_rep_mat] = true); the code as
    it was is refuted in Refuted/R_C17.v. *)
From Coq Require Import ZArith List Bool.
From CV Require Import Lib.Sx Lib.ListZ Model.M_gzipframe Model.M_negotiate
     Proof.P_gzipframe Proof.P_negotiate Proof.P_negotiate_cs Proof.P_negotiate_scale.
Import ListNotations.
Open Scope Z_scope.

(** For every chunking (empty chunks included), level and clock value, what the
    generator yields is one RFC 1952 member that the reader - checking magic,
    method, flags, CRC-32 and ISIZE mod 2^32 - turns back into the original bytes. *)
Theorem c17_gzip_valid :
  forall (zst : Type) (zinit : Z -> zst) (zcompress : zst -> list Z -> list Z * zst)
         (zflush : zst -> list Z) (inflate : list Z -> option (list Z * list Z)),
    (forall level body rest,
        inflate (zstream zst zcompress zflush (zinit level) body ++ rest) = Some (concat body, rest)) ->
    forall level now (chunks : list (list Z)),
      gunzip inflate (concat (compress zst zinit zcompress zflush level now chunks)) = GzOk (concat chunks).
Proof. exact thm_gzip_valid. Qed.
Print Assumptions c17_gzip_valid.

(** The CRC kept chunk by chunk is the CRC of the whole body, for any chunking. *)
Theorem c17_crc_incremental : forall c (body : list (list Z)),
  fold_left crc32_update body c = crc32_update c (concat body).
Proof. exact crc32_chunks. Qed.
Print Assumptions c17_crc_incremental.

(** The tool compresses only when gzip or x-gzip is listed with q > 0 and the
    media type matches mime_types (exact, type/*, type/*+suffix) - in the code
    as written and in the repaired code. *)
Theorem c17_gzip_decision_compress : forall rep falsy cached ae ctv mts,
  (forall els, ae = Some els -> WFq els) ->
  gzip_tool rep falsy cached ae ctv mts = GCompress ->
  falsy = false /\ cached = false /\
  exists els, ae = Some els /\ gzip_listed_pos els
              /\ mime_eligible (hd [] (split_on 59 ctv)) mts = TYes.
Proof. exact thm_gzip_compress. Qed.
Print Assumptions c17_gzip_decision_compress.

(** 406 exactly when nothing is acceptable: no gzip/x-gzip and no wildcard with
    q > 0, and identity refused by "identity;q=0" or "*;q=0" (repaired code). *)
Theorem c17_gzip_decision_406 : forall falsy cached els ctv mts,
  WFq els ->
  (gzip_tool true falsy cached (Some els) ctv mts = G406 <->
   falsy = false /\ cached = false /\
   ~ gzip_listed_pos els /\ ~ star_listed_pos els /\ ~ identity_listed_pos els /\ identity_refused_by els).
Proof. exact thm_gzip_406. Qed.
Print Assumptions c17_gzip_decision_406.

(** Otherwise the body is delivered untouched with status 200: whenever no gzip
    coding is listed with q > 0 and identity is not refused ... *)
Theorem c17_identity_untouched : forall falsy cached ae ctv mts d,
  (forall els, ae = Some els -> WFq els /\ ~ gzip_listed_pos els /\
                                (~ identity_refused_by els \/ star_listed_pos els \/ identity_listed_pos els)) ->
  gzip_tool true falsy cached ae ctv mts = d ->
  gz_status d = 200 /\ gz_compresses d = false.
Proof. exact thm_identity_untouched. Qed.
Print Assumptions c17_identity_untouched.

(** ... and whenever there is no Accept-Encoding header, no body, or a cached response. *)
Theorem c17_gzip_skip : forall rep falsy cached ae ctv mts,
  falsy = true \/ cached = true \/ ae = None \/ ae = Some [] ->
  let d := gzip_tool rep falsy cached ae ctv mts in gz_status d = 200 /\ gz_compresses d = false.
Proof. exact thm_skip. Qed.
Print Assumptions c17_gzip_skip.

(** Vary names Accept-Encoding afterwards and keeps what the handler had set. *)
Theorem c17_vary : forall tokens name,
  In name (set_vary tokens name) /\ (forall t, In t tokens -> In t (set_vary tokens name)).
Proof. exact set_vary_spec. Qed.
Print Assumptions c17_vary.

(** Charset negotiation, buffered body, no forced encoding (repaired code), for
    every encodability function: the charset announced can encode every text
    chunk, no chunk is lost, it was chosen through a header element with q > 0
    (a named charset, or "*" standing for a default_encoding that is not listed
    itself; or it is the implicit ISO-8859-1 of a header without "*"), and every
    element with a strictly larger q stands for a charset that cannot encode
    the text; 406 only when no element with q > 0 (nor the implicit ISO-8859-1)
    stands for a charset that can; never 500. *)
Theorem c17_charset : forall (T : Type) (encodable : list Z -> T -> bool) (usable : list Z -> bool)
                             c oneshot ct els b,
  buffered_repaired c oneshot -> els <> [] ->
  match encode_tool T encodable usable c oneshot ct (Some els) b with
  | CChosen cs dropped => dropped = 0 /\ chosen_ok T encodable c els b cs
  | C406 => none_ok T encodable c els b
  | C500 => False
  | CNoFind => True
  end.
Proof. exact thm_charset. Qed.
Print Assumptions c17_charset.
(* Not covered by a theorem (differential check and oracle only): a forced
   tools.encode.encoding; streamed bodies (known finding charset:stream-unencodable,
   witness c17_stream_refuted); the bytes produced by the codecs themselves. *)

(** The gzip decision depends on the weights only through comparisons: one positive
    factor applied to every qvalue of the header changes nothing.  (This is why the
    correspondence check may hand qvalues over in any fixed-point scale - millionths -
    and so reach weights such as 0.0004.) *)
Theorem c17_gzip_scale_free : forall k, 0 < k -> forall rep falsy cached ae ctv mts,
  gzip_tool rep falsy cached (option_map (map (scale k)) ae) ctv mts = gzip_tool rep falsy cached ae ctv mts.
Proof. exact gzip_tool_scale. Qed.
Print Assumptions c17_gzip_scale_free.

(** The same for charset negotiation, for every encodability function, body and
    configuration (code as written and repaired). *)
Theorem c17_charset_scale_free : forall k, 0 < k ->
  forall (T : Type) (encodable : list Z -> T -> bool) (usable : list Z -> bool) c oneshot ct ac b,
  encode_tool T encodable usable c oneshot ct (option_map (map (scale k)) ac) b
  = encode_tool T encodable usable c oneshot ct ac b.
Proof. exact encode_tool_scale. Qed.
Print Assumptions c17_charset_scale_free.

(** Non-vacuity. *)
Example c17_gzip_nonvacuous :
  (forall (level : Z) body rest,
     toy_inflate (zstream unit toy_compress toy_flush ((fun _ => tt) level) body ++ rest)
     = Some (concat body, rest))
  /\ gunzip toy_inflate
       (concat (compress unit (fun _ => tt) toy_compress toy_flush 9 5000000000 [[97; 98]; []; [99]; []]))
     = GzOk [97; 98; 99]
  /\ concat (compress unit (fun _ => tt) toy_compress toy_flush 9 5000000000 [[97; 98]; []; [99]; []])
     = [31; 139; 8; 0; 0; 242; 5; 42; 2; 255] ++ [1; 97; 1; 98; 1; 99; 0]
       ++ [194; 65; 36; 53] ++ [3; 0; 0; 0].
Proof. exact ex_gzip_nonvacuous. Qed.
Print Assumptions c17_gzip_nonvacuous.

Example c17_decision_nonvacuous :
  let els := [el s_identity 0; el s_deflate 500; el s_star 0] in
  WFq els /\ gzip_tool true false false (Some els) s_text_plain [s_text_plain] = G406
  /\ gzip_tool true false false (Some [el s_deflate 1000]) s_text_plain [s_text_plain] = GNotRefused
  /\ gzip_tool true false false (Some [el s_gzip 300; el s_identity 200]) s_text_plain [[116;101;120;116;47;42]] = GCompress.
Proof. exact ex_gzip_decision. Qed.
Print Assumptions c17_decision_nonvacuous.

Example c17_charset_nonvacuous :
  buffered_repaired (ex_cfg false true true) true
  /\ encode_tool Z ex_enc ex_usable (ex_cfg false true true) true (Some s_text_plain)
       (Some [el s_iso 1000; el s_utf8 500]) [CText 0; CBytes; CText 1] = CChosen s_utf8 0
  /\ encode_tool Z ex_enc ex_usable (ex_cfg false true true) true (Some s_text_plain)
       (Some [el s_utf8 0; el s_star 1000]) [CText 1] = C406
  /\ encode_tool Z ex_enc ex_usable (ex_cfg false true true) true (Some s_text_plain)
       (Some [el s_deflate 0]) [CText 0] = CChosen s_iso 0
  (* streamed: a name without a codec is skipped *)
  /\ encode_tool Z ex_enc ex_usable (ex_cfg true true true) true (Some s_text_plain)
       (Some [el s_deflate 1000; el s_utf8 500]) [CText 1] = CChosen s_utf8 0.
Proof. exact ex_charset. Qed.
Print Assumptions c17_charset_nonvacuous.
