(** C20 - background workers obey stop/graceful under every thread interleaving.
    Property theorems only; each is closed by [exact] of a lemma from Proof/.

    [reach cf p s]: s is reached from the initial state of controller program p by ANY
    sequence of steps of ANY threads (every schedule, any number of steps, every prefix).
    [c_fixed cf = true] selects the repaired BackgroundTask (running is set by the
    starting thread); for the task as written the statements are false
    (Refuted/R_C20.v). *)
From Coq Require Import ZArith List Bool.
From CV Require Import Lib.Sx Lib.ListZ Model.M_monitor Proof.P_monitor Proof.P_monitor_tm.
Import ListNotations.
Open Scope Z_scope.

(** The states D compares with the real threads are reachable states: the theorems below
    speak about every run of [run_C20]. *)
Theorem c20_schedules_are_executions : forall cf p sched ok s tr,
  run_monitor cf p sched = (ok, s, tr) -> reach cf p s.
Proof. exact run_monitor_reach. Qed.
Print Assumptions c20_schedules_are_executions.

(** In every execution: once a stop() that stopped worker w has returned, w invokes the
    callback at most once more ([invs_after] counts the invocations journalled after the
    return of that stop) - and since the statement holds in every reachable state, never
    again after that one; and at most one worker per monitor is active (started, not
    cancelled, not exited). *)
Theorem c20_stop_bounded : forall cf p s,
  c_fixed cf = true -> reach cf p s ->
  (forall w, invs_after w (jrn s) <= 1) /\
  (forall w1 w2 t1 t2, nthZ w1 (tasks s) = Some t1 -> nthZ w2 (tasks s) = Some t2 ->
                       active t1 -> active t2 -> w1 = w2).
Proof. exact thm_stop_bounded. Qed.
Print Assumptions c20_stop_bounded.

(** No lost cancel: the flag of a cancelled worker is down in every later state. *)
Theorem c20_cancel_sticks : forall cf p s w t,
  c_fixed cf = true -> reach cf p s -> nthZ w (tasks s) = Some t -> t_canc t = true -> t_run t = false.
Proof. exact thm_cancel_sticks. Qed.
Print Assumptions c20_cancel_sticks.

(** What the harness observes (threads that are alive with their flag set): at most one. *)
Theorem c20_live_one : forall cf p s w1 w2 t1 t2,
  c_fixed cf = true -> reach cf p s ->
  nthZ w1 (tasks s) = Some t1 -> nthZ w2 (tasks s) = Some t2 ->
  liveb t1 = true -> liveb t2 = true -> w1 = w2.
Proof. exact thm_live_one. Qed.
Print Assumptions c20_live_one.

(** graceful leaves exactly one worker running: in every state after graceful() has
    returned and before the controller begins its next operation, whatever the workers
    did meanwhile. *)
Theorem c20_graceful_one : forall cf p s,
  c_fixed cf = true -> reach cf p s ->
  lastop (ct s) = Some OGraceful -> (pc (ct s) = CIdle \/ pc (ct s) = CFin) ->
  exists w t, nthZ w (tasks s) = Some t /\ active t /\
              forall w' t', nthZ w' (tasks s) = Some t' -> active t' -> w' = w.
Proof. exact thm_graceful_one. Qed.
Print Assumptions c20_graceful_one.

(** Non-vacuity: the bound 1 is attained (the invocation in flight when stop() returned), on
    a run of the repaired model in which controller and worker interleave; and a state after
    graceful() with a worker of the old and of the new generation exists. *)
Example c20_nonvacuous :
  (exists ok s tr,
     run_monitor (Cfg true true 3 7) [OStart; OStop] [0;0;0;0;0;1;1;1;1;0;0;0;0;1;1] = (ok, s, tr)
     /\ reach (Cfg true true 3 7) [OStart; OStop] s
     /\ invs_after 0 (jrn s) = 1 /\ ok = true) /\
  (exists ok s tr,
     run_monitor (Cfg true false 2 7) [OStart; OGraceful] [0;0;0;0;0;1;1;1;0;0;0;1;1;0;0;0;0;0;0] = (ok, s, tr)
     /\ lastop (ct s) = Some OGraceful /\ pc (ct s) = CFin /\ lenZ (tasks s) = 2).
Proof. exact ex_nonvacuous. Qed.
Print Assumptions c20_nonvacuous.

(** ThreadManager (repaired stop()): [treach n progs s] - s is reached by any interleaving of
    n bus stops with request threads running the acquire/release programs [progs], dict
    operations atomic.  Every registration (ghost id g, one per `threads[ident] = i`) gets
    start_thread at most once and stop_thread at most once in every reachable state; when no
    notification for it is pending any more, start_thread was delivered exactly once and
    stop_thread exactly once - unless the thread is still registered (then not yet). *)
Theorem c20_thread_notifications : forall n progs s g,
  treach n progs s -> 0 <= g < nextg s ->
  nS g s <= 1 /\ nE g s <= 1 /\
  (settled g s -> nS g s = 1 /\ nE g s + nL g s = 1).
Proof. exact thm_thread_notifications. Qed.
Print Assumptions c20_thread_notifications.

(** ... and nothing is ever published for a registration that does not exist. *)
Theorem c20_no_spurious_notifications : forall n progs s g,
  treach n progs s -> (g < 0 \/ nextg s <= g) -> nS g s = 0 /\ nE g s = 0.
Proof. exact thm_no_spurious. Qed.
Print Assumptions c20_no_spurious_notifications.

Theorem c20_tm_schedules_are_executions : forall n progs sched ok s tr,
  run_tm true n progs sched = (ok, s, tr) -> treach n progs s.
Proof. exact run_tm_reach. Qed.
Print Assumptions c20_tm_schedules_are_executions.

Example c20_tm_nonvacuous :
  exists ok s tr,
    run_tm true 1 [[RAcq; RRel]; [RAcq]] [1;1;1;1;1;1;0;0;0;0;0;0;2;2;2;2;2;2;1;1;1] = (ok, s, tr)
    /\ treach 1 [[RAcq; RRel]; [RAcq]] s /\ nextg s = 2
    /\ settled 0 s /\ settled 1 s
    /\ nS 0 s = 1 /\ nE 0 s = 1 /\ nL 0 s = 0
    /\ nS 1 s = 1 /\ nE 1 s = 0 /\ nL 1 s = 1.
Proof. exact ex_tm_nonvacuous. Qed.
Print Assumptions c20_tm_nonvacuous.
