(** C03 - query-string and form parameters reach the handler exactly as sent.
    Property theorems only; each is closed by [exact] of a lemma from Proof/.

    Vocabulary (Model/M_params.v, Proof/P_params*.v):
      [quote ao st bs]          the sender's percent-encoder, for EVERY style [st]: any set of
                                bytes left literal ([st_safe], minimal ... full), upper/lower case
                                per hex digit, '+' or %20/literal for a space, blank values with or
                                without '='; [ao = true] is the query-string printer (ASCII only)
      [encode enc ao st sep m]  the multimap [m] (text pairs in wire order) on the wire, [enc] the
                                sender's charset
      [to_dict m]               keys in first-occurrence order, one value as a scalar, several as
                                the list in wire order, blank values kept
      [request_with c rc decq decs qs body]  status and kwargs the handler is called with;
                                [Cfg true true] is the code as repaired (fullmatch, flat merge)
      [enc_bytes], [roundtrips] [enc] yields bytes, and [dec (enc s) = Some s] on the pairs sent
      [rejects enc m d]         codec [d] fails on some key or value of [m]  *)
From Coq Require Import ZArith List Bool.
From CV Require Import Lib.Sx Lib.ListZ Model.M_params Proof.P_params Proof.P_params_dict
     Proof.P_params_thm Proof.P_params_imap.
Import ListNotations.
Open Scope Z_scope.

(** The core codec law: the byte-level unquote_plus of _cpreqbody inverts every
    percent-encoding style, for every byte string. *)
Theorem c03_unquote_quote : forall st bs, Forall byte bs ->
  unquote_plus_b (quote false st bs) = bs /\ unquote_plus_b (quote true st bs) = bs.
Proof. exact thm_unquote_quote. Qed.
Print Assumptions c03_unquote_quote.

(** The same for urllib's unquote_plus + decode as _parse_qs uses it, on the ASCII
    query strings a conforming client sends; the codec must be an ASCII superset
    (urllib hands a component without '%' over undecoded). *)
Theorem c03_unquote_quote_qs : forall dec, (forall l, Forall ascii l -> dec l = Some l) ->
  forall st bs, Forall byte bs -> unquote_plus_s dec (quote true st bs) = dec bs.
Proof. exact unquote_quote_s. Qed.
Print Assumptions c03_unquote_quote_qs.

(** Body round trip: every multimap, separator and style; the sender's charset is
    the first attempted one that does not fail (charsets tried before it each
    reject some component: declared-but-wrong, then a configured fallback). *)
Theorem c03_roundtrip_body : forall enc dec ds1 ds2 st sep m,
  is_sep sep = true ->
  Forall (enc_bytes enc) m -> Forall (roundtrips enc dec) m -> Forall (rejects enc m) ds1 ->
  attempt (ds1 ++ dec :: ds2) (encode enc false st sep m) = Some (to_dict m).
Proof. exact thm_roundtrip_body. Qed.
Print Assumptions c03_roundtrip_body.

(** Query-string round trip, with the designed exception stated explicitly: the
    printed query must not be taken for image-map coordinates by the variant [c]
    of the test (for the repaired code, [c_imap_full c = true]: it is not exactly
    digits,digits - see c03_imagemap_only). *)
Theorem c03_roundtrip_qs : forall enc dec rc,
  (forall l, Forall ascii l -> dec l = Some l) -> (forall l, Forall ascii l -> rc l = l) ->
  forall c decs st sep m,
  is_sep sep = true ->
  Forall (enc_bytes enc) m -> Forall (roundtrips enc dec) m ->
  (if c_imap_full c then imap_full (encode enc true st sep m)
   else imap_prefix (encode enc true st sep m)) = false ->
  request_with c rc dec decs (encode enc true st sep m) None = (200, to_dict m).
Proof. exact thm_roundtrip_qs. Qed.
Print Assumptions c03_roundtrip_qs.

(** The image-map exception: a query that is exactly N,M (each within CPython's
    4300-digit limit for int()) arrives as x = N, y = M ... *)
Theorem c03_imagemap : forall c dec d1 d2,
  d1 <> [] -> d2 <> [] -> Forall digit d1 -> Forall digit d2 ->
  lenZ d1 <= max_str_digits -> lenZ d2 <= max_str_digits ->
  parse_query_string c dec (d1 ++ 44 :: d2) = QOk [(key_x, PInt (decval d1)); (key_y, PInt (decval d2))].
Proof. exact thm_imagemap. Qed.
Print Assumptions c03_imagemap.

(** ... and the repaired test takes nothing else for an image map. *)
Theorem c03_imagemap_only : forall s, imap_full s = true ->
  exists d1 d2, s = d1 ++ 44 :: d2 /\ d1 <> [] /\ d2 <> [] /\ Forall digit d1 /\ Forall digit d2.
Proof. exact thm_imap_full_only. Qed.
Print Assumptions c03_imagemap_only.

(** Merge order: merging the body's dict into the query's gives, per key, the
    query values followed by the body values in wire order - a scalar when that
    is one value, a flat list otherwise, absent when there is none. *)
Theorem c03_merge_order : forall mq mb k,
  lookup k (merge promote_extend (to_dict mb) (to_dict mq))
  = match values_of k mq ++ values_of k mb with
    | [] => None
    | vs => Some (val_of vs)
    end.
Proof. exact thm_merge_order. Qed.
Print Assumptions c03_merge_order.

(** Query and body together (every split of the pairs, every style, separator and
    body charset incl. declared-but-wrong with a fallback): the handler is called
    with a dict of distinct keys that agrees key by key with [to_dict (mq ++ mb)].
    PARTIAL w.r.t. the full statement  request ... = (200, d) with d equal to
    [to_dict (mq ++ mb)] AS AN ORDERED association list: the order in which the
    keys appear in kwargs is not proved (the property text does not mention it). *)
Theorem c03_request_roundtrip_partial : forall enc dec rc,
  (forall l, Forall ascii l -> dec l = Some l) -> (forall l, Forall ascii l -> rc l = l) ->
  forall (encb : list Z -> list Z) (decb : list Z -> option (list Z)) ds1 ds2 stq stb sepq sepb mq mb (imf : bool),
  is_sep sepq = true -> is_sep sepb = true ->
  Forall (enc_bytes enc) mq -> Forall (roundtrips enc dec) mq ->
  Forall (enc_bytes encb) mb -> Forall (roundtrips encb decb) mb -> Forall (rejects encb mb) ds1 ->
  (if imf then imap_full (encode enc true stq sepq mq) else imap_prefix (encode enc true stq sepq mq)) = false ->
  exists d,
    request_with (Cfg imf true) rc dec (ds1 ++ decb :: ds2)
                 (encode enc true stq sepq mq) (Some (encode encb false stb sepb mb)) = (200, d)
    /\ NoDup (map fst d)
    /\ forall k, lookup k d = lookup k (to_dict (mq ++ mb)).
Proof. exact thm_request_roundtrip. Qed.
Print Assumptions c03_request_roundtrip_partial.

(** All or nothing, for ARBITRARY wire bytes (not only printed ones).
    [wire_pairs s] are the raw (key, value) components of the non-empty pairs.
    (a) a component no attempted charset decodes: no dict at all, and the request
        is answered 400 without calling the handler; *)
Theorem c03_all_or_nothing_body : forall c rc decq decs qs body qd,
  parse_query_string c decq (rc qs) = QOk qd ->
  Forall (fun d => Exists (undecodable (fun x => d (unquote_plus_b x))) (wire_pairs body)) decs ->
  attempt decs body = None /\ request_with c rc decq decs qs (Some body) = (400, []).
Proof. exact thm_all_or_nothing_body. Qed.
Print Assumptions c03_all_or_nothing_body.

(** (b) an undecodable component of the query string: 404, whatever the body; *)
Theorem c03_all_or_nothing_qs : forall c rc decq decs qs body,
  (if c_imap_full c then imap_full (rc qs) else imap_prefix (rc qs)) = false ->
  Exists (undecodable (unquote_plus_s decq)) (wire_pairs (rc qs)) ->
  request_with c rc decq decs qs body = (404, []).
Proof. exact thm_query_refused. Qed.
Print Assumptions c03_all_or_nothing_qs.

(** (c) when the handler IS called, its kwargs account for every pair of the query
    and every pair of the body, the body decoded under ONE of the attempted charsets
    (never a mixture, never a subset). *)
Theorem c03_delivered_complete : forall rc decq decs qs body imf d,
  imap_full (rc qs) = false -> imf = true ->
  request_with (Cfg imf true) rc decq decs qs (Some body) = (200, d) ->
  exists mq db mb,
    Forall2 (decodes (unquote_plus_s decq)) (wire_pairs (rc qs)) mq
    /\ In db decs /\ Forall2 (decodes (fun x => db (unquote_plus_b x))) (wire_pairs body) mb
    /\ forall k, lookup k d = lookup k (to_dict (mq ++ mb)).
Proof. exact thm_delivered_complete. Qed.
Print Assumptions c03_delivered_complete.

(** The promotion idiom itself: adding the pairs one by one (scalar, then list)
    builds exactly the declarative [to_dict]. *)
Theorem c03_promotion : forall m, build m [] = to_dict m.
Proof. exact build_to_dict. Qed.
Print Assumptions c03_promotion.

(** The codecs of the executable model (utf-8 for the query string,
    recode_path_qs) meet the hypotheses of the query theorems. *)
Theorem c03_codecs_instance :
  (forall l, Forall ascii l -> utf8_dec l = Some l) /\ (forall l, Forall ascii l -> recode l = l)
  /\ (forall l, latin1_dec l = Some l).
Proof. exact thm_codecs_instance. Qed.
Print Assumptions c03_codecs_instance.

(** Non-vacuity: the hypotheses are met by concrete multimaps with repeated keys,
    reserved characters and blank values, in two styles and both separators ... *)
Example c03_nonvacuous :
  let m := [([97], [49]); ([38;61], []); ([97], [32;43;37])] in
  Forall (enc_bytes (fun s => s)) m /\ Forall (roundtrips (fun s => s) utf8_dec) m
  /\ encode (fun s => s) true st_full 59 m
     = [37;54;49;61;37;51;49; 59; 37;50;54;37;51;68;61; 59; 37;54;49;61;43;37;50;66;37;50;53]
  /\ request (Cfg true true) (encode (fun s => s) true st_full 59 m)
             (Some (encode (fun s => s) false st_minimal 38 m)) None None
     = (200, [([97], PList [PStr [49]; PStr [32;43;37]; PStr [49]; PStr [32;43;37]]);
              ([38;61], PList [PStr []; PStr []])]).
Proof. exact ex_roundtrip. Qed.
Print Assumptions c03_nonvacuous.

(** ... a declared-but-wrong charset with a fallback ([rejects] holds of utf-8 on a
    Latin-1 body) ... *)
Example c03_fallback_nonvacuous :
  let m := [([97], [233]); ([97], [])] in
  let enc := fun s : list Z => s in
  Forall (enc_bytes enc) m /\ Forall (roundtrips enc latin1_dec) m /\ Forall (rejects enc m) [utf8_dec]
  /\ encode enc false st_minimal 38 m = [97;61;233;38;97]
  /\ attempt ([utf8_dec] ++ latin1_dec :: []) (encode enc false st_minimal 38 m)
     = Some [([97], PList [PStr [233]; PStr []])].
Proof. exact ex_fallback. Qed.
Print Assumptions c03_fallback_nonvacuous.

(** ... refusals (400 body, 404 query) and the image map next to a look-alike. *)
Example c03_refused_nonvacuous :
  request (Cfg true true) [97;61;49] (Some [97;61;50;38;98;61;37;102;102]) None None = (400, [])
  /\ request (Cfg true true) [97;61;37;102;102] (Some [97;61;50]) None None = (404, [])
  /\ request (Cfg true true) [49;50;44;51;52] None None None = (200, [(key_x, PInt 12); (key_y, PInt 34)])
  /\ request (Cfg true true) [49;50;44;51;52;120] None None None = (200, [([49;50;44;51;52;120], PStr [])]).
Proof. exact ex_refused. Qed.
Print Assumptions c03_refused_nonvacuous.

Example c03_imagemap_nonvacuous :
  parse_query_string (Cfg true true) utf8_dec ([49;50] ++ 44 :: [51;52])
  = QOk [(key_x, PInt 12); (key_y, PInt 34)]
  /\ decval [49;50] = 12 /\ imap_full [49;50;44;51;52;120] = false /\ imap_prefix [49;50;44;51;52;120] = true.
Proof. exact ex_imagemap. Qed.
Print Assumptions c03_imagemap_nonvacuous.
