(** C13 - session access is mutually exclusive and the lock is always released.
    Property theorems only; each is closed by [exact] of a lemma from Proof/.

    [reach cf s0 s]: s is reached from s0 by ANY sequence of steps of ANY threads (every
    schedule, any number of steps, every prefix).  [init kinds sweeps pre] is any number of
    request threads (each running init; acquire_lock; load; modify; [regenerate]; save; close
    according to its kind) plus a sweeper calling clean_up [sweeps] times, on a session that is
    new, live or expired.  [c_fixed cf = true] selects the repaired acquire_lock
    (fixes/C13-ramlock-sweep.diff: re-validate after acquire that the table still holds the same
    lock object, else release and retry); for acquire_lock as written the statements are false
    (Refuted/R_C13.v). *)
From Coq Require Import ZArith List Bool.
From CV Require Import Lib.Sx Lib.ListZ Model.M_locks
  Proof.P_locks Proof.P_locks_inv Proof.P_locks_step Proof.P_locks_thm Proof.P_locks_nlu Proof.P_locks_hooks.
Import ListNotations.
Open Scope Z_scope.

(** The states D compares with the real threads are reachable states: the theorems below speak
    about every run of [run_C13]. *)
Theorem c13_schedules_are_executions : forall cf s0 sched ok s tr,
  run_locks cf s0 sched = (ok, s, tr) -> reach cf s0 s.
Proof. exact run_locks_reach. Qed.
Print Assumptions c13_schedules_are_executions.

(** Mutual exclusion.  In EVERY reachable state - any number of request threads, any number of
    steps, any interleaving, the sweep included, session new / live / expired - at most one thread
    is between a completed acquire_lock and the release of its lock for a given session id. *)
Theorem c13_mutex : forall cf kinds sweeps pre s t1 t2 id,
  c_fixed cf = true -> reach cf (init kinds sweeps pre) s ->
  in_cs s t1 id -> in_cs s t2 id -> t1 = t2.
Proof. exact thm_mutex. Qed.
Print Assumptions c13_mutex.

(** The inductive invariant behind it, as a statement of its own: a thread in its critical
    section owns (exactly once) the lock object that the table holds under its id NOW - so
    release_lock finds that very object, and a newcomer's setdefault returns it. *)
Theorem c13_cs_owns_table_lock : forall cf kinds sweeps pre s tid id,
  c_fixed cf = true -> reach cf (init kinds sweeps pre) s -> in_cs s tid id ->
  exists l o, aget id (table s) = Some l /\ nthZ l (objs s) = Some o /\
              l_owner o = Some tid /\ l_count o = 1.
Proof. exact thm_holder. Qed.
Print Assumptions c13_cs_owns_table_lock.

(** No lost update (corollary).  [r_rd t = Some (id, v)]: thread t has loaded session id when it
    had been saved v times, and has not yet saved.  In every reachable state such a thread is in
    its critical section for id, is the only one, and id has still been saved exactly v times:
    no other request saves between a request's load and its save - read-modify-write under the
    lock is serialisable. *)
Theorem c13_no_lost_update : forall cf kinds sweeps pre s tid t id v,
  c_fixed cf = true -> reach cf (init kinds sweeps pre) s ->
  nthZ tid (reqs s) = Some t -> r_rd t = Some (id, v) ->
  in_cs s tid id /\ ver s id = v /\ (forall tid', in_cs s tid' id -> tid' = tid).
Proof. exact thm_no_lost_update. Qed.
Print Assumptions c13_no_lost_update.

(** The lock is always released, part 1 (one request through the hook pipeline): for every locking
    mode, every outcome (success, HTTPError, redirect, unexpected exception, streamed body completed
    or abandoned, regenerate mid-request, error while the request body is processed, internal
    redirect) and every placement of the modelled faults (a failing user hook at on_end_request, a
    failing user hook at before_finalize, Session._save raising), after close() the session is not
    locked and no acquisition is left on its lock or on the lock of an id it had before: the next
    request's acquire is enabled.  The hook table is [session_hooks], tied to
    SessionTool._setup on every run (tie_sessiontool_setup). *)
Theorem c13_released : forall m o fl, released (run_request session_hooks m o fl).
Proof. exact thm_released_pipeline. Qed.
Print Assumptions c13_released.

(** ... and unless the body is streamed the lock is already free when before_finalize is over. *)
Theorem c13_released_before_body : forall m o,
  is_stream o = false -> probe3_free (run_request session_hooks m o (FL false false false)) = true.
Proof. exact thm_released_before_body. Qed.
Print Assumptions c13_released_before_body.

(** The lock is always released, part 2 (the interleaving system): in every reachable state a
    request that is over has its `locked` flag down and owns no lock object - whatever the other
    threads and the sweep did meanwhile; a sweep that is over owns none either. *)
Theorem c13_released_concurrent : forall cf kinds sweeps pre s,
  c_fixed cf = true -> reach cf (init kinds sweeps pre) s ->
  (forall tid t, nthZ tid (reqs s) = Some t -> r_pc t = RDone ->
                 r_locked t = false /\ forall l o, nthZ l (objs s) = Some o -> l_owner o <> Some tid) /\
  (s_pc (sw s) = SDone -> forall l o, nthZ l (objs s) = Some o -> l_owner o <> Some (lenZ (reqs s))).
Proof. exact thm_released. Qed.
Print Assumptions c13_released_concurrent.

(** No request blocks for ever: while some thread is not over, some thread can take a step (a
    thread blocked in L.acquire() waits for a thread that is not blocked).
    PARTIAL: the last hypothesis (the lock object a blocked thread waits for exists) holds in every
    reachable state but is assumed here; the full statement is the same without it. *)
Theorem c13_progress_partial : forall cf kinds sweeps pre s,
  c_fixed cf = true -> reach cf (init kinds sweeps pre) s -> all_done s = false ->
  (forall tid t l, nthZ tid (reqs s) = Some t -> r_pc t = RAcquire l -> nthZ l (objs s) <> None) ->
  exists tid lab s', step cf tid s = Some (lab, s').
Proof. exact thm_progress_partial. Qed.
Print Assumptions c13_progress_partial.

(** Non-vacuity.  The schedule of the sweep race (Refuted/R_C13.v) on the REPAIRED model: request 1
    acquires the popped lock object, notices, releases it and retries; a state with request 0 in its
    critical section having loaded (so [r_rd] is set: the hypotheses of c13_mutex /
    c13_no_lost_update are met) is reachable, the run ends with every thread over, the counter of
    the (flushed) session equal to the number of increments, and every lock object free; in a blocked
    state (request 1 waiting for the lock request 0 holds) the hypotheses of c13_progress_partial hold. *)
Example c13_nonvacuous :
  let cf := Cfg true (Some 1) in
  let s0 := init [0; 0] 1 (Some (1, 5, true, true)) in
  (exists cur s tr t0,
     replay cf [0;0; 1;1;1; 2;2;2;2;2;2;2;2;2; 0;0;0; 1;1;1;1; 0] None s0 [] = (cur, s, tr)
     /\ reach cf s0 s /\ in_cs s 0 1 /\ nthZ 0 (reqs s) = Some t0 /\ r_rd t0 = Some (1, 0)
     /\ all_done s = false
     /\ (forall tid t l, nthZ tid (reqs s) = Some t -> r_pc t = RAcquire l -> nthZ l (objs s) <> None)
     /\ enabled cf s = [0]) /\
  (exists ok s tr,
     run_locks cf s0 [0;0; 1;1;1; 2;2;2;2;2;2;2;2;2; 0;0;0; 1;1] = (ok, s, tr)
     /\ reach cf s0 s /\ ok = true /\ all_done s = true /\ ver s 1 = 2
     /\ map (fun p => heap_get (c_data (snd p)) s) (cache s) = [2]
     /\ map l_owner (objs s) = [None; None]).
Proof. exact ex_nonvacuous. Qed.
Print Assumptions c13_nonvacuous.
