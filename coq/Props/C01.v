(** C01 - every request yields exactly one well-formed response; errors are contained.
    Statements about EVERY environment (behaviour of handler, hooks, tools, error pages, body iterator,
    dispatcher, namespace handlers: each action succeeds or raises anything of its raise-set at any
    occurrence) for a whole server session (application call, iteration, close), with throw_errors off.
    Decided by the verified symbolic executor of Proof/P_aflow.v run on the pipeline skeletons. *)
From Coq Require Import ZArith List Bool.
Import ListNotations.
From CV Require Import Model.M_flow Model.M_pipeline Model.M_aflow Proof.P_aflow Proof.P_flow_thm.
Open Scope Z_scope.

(** No exception escapes to the server except KeyboardInterrupt/SystemExit and what the server's own
    start_response raised. *)
Theorem c01_no_escape : forall E fuel o st',
  env_ok E -> p_throw E = false ->
  run_flow E fuel server_session init_state = (o, st') -> o <> OutOfFuel ->
  o = Normal \/ o = Raised XKeyboardInterrupt \/ o = Raised XSystemExit \/ o = Raised XFromServer.
Proof. exact thm_no_escape. Qed.
Print Assumptions c01_no_escape.

(** Exactly one response: start_response is never called a second time without exc_info; when nothing
    escaped it was called; the status class it received is 2xx..5xx. *)
Theorem c01_one_response : forall E fuel o st',
  env_ok E -> p_throw E = false ->
  run_flow E fuel server_session init_state = (o, st') -> o <> OutOfFuel ->
  let f := sfin st' in
  sr_plain f <= 1
  /\ (o = Normal -> 1 <= sr_plain f \/ sr_exc f = true)
  /\ (1 <= sr_plain f \/ sr_exc f = true -> 2 <= out_status f <= 5).
Proof. exact thm_one_response. Qed.
Print Assumptions c01_one_response.

(** An unexpected failure while processing the request that produced the response is reported as 5xx
    (unless a callback of the error phase itself answered with an HTTPRedirect, which handle_error honours). *)
Theorem c01_unexpected_is_5xx : forall E fuel st',
  env_ok E -> p_throw E = false ->
  run_flow E fuel server_session init_state = (Normal, st') ->
  unexp (sfin st') = true -> redir_in_error (sfin st') = false -> out_status (sfin st') = 5.
Proof. exact thm_unexpected_5xx. Qed.
Print Assumptions c01_unexpected_is_5xx.

(** With show_tracebacks off, traceback text can reach the client only through the exception trapper
    handling a failure while NO request is being served (the serving slot was already released). *)
Theorem c01_no_leak_partial : forall E fuel o st',
  env_ok E -> p_throw E = false -> p_showtb E = false ->
  run_flow E fuel server_session init_state = (o, st') -> o <> OutOfFuel ->
  out_taint (sfin st') = true -> trap_outside (sfin st') = true.
Proof. exact thm_no_leak. Qed.
Print Assumptions c01_no_leak_partial.
(* c01_no_leak (full statement): ... -> out_taint (sfin st') = false.  It is FALSE for the faithful model:
   see Refuted/R_C01.v (an InternalRedirect loop reaches the trapper after release_serving, where
   cherrypy.request.show_tracebacks is the class default True).  Recorded as a known finding. *)

(** Non-vacuity: the hypotheses are met by a concrete environment (handler raises an unexpected exception,
    everything else succeeds, show_tracebacks off): one start_response call, 5xx, no taint. *)
Example c01_nonvacuous :
  let E := Env (fun _ a => match a with Handler => Some XException
                                      | NextChunk | ServerCloseAgain => Some XStopIteration | _ => None end)
               (fun _ f => match f with
                           | FHandlerSet | FStatusIsBytes | FHeaderKeyIsBytes | FHeaderValIsBytes
                           => true | _ => false end) false false in
  exists st', run_flow E 200 server_session init_state = (Normal, st')
              /\ unexp (sfin st') = true /\ out_status (sfin st') = 5 /\ out_taint (sfin st') = false
              /\ sr_plain (sfin st') = 1.
Proof. eexists. split; [vm_compute; reflexivity|]. repeat split. Qed.
Print Assumptions c01_nonvacuous.
