(** C19 - HTTP authentication admits exactly the right credentials.
    Property theorems only; each is closed by [exact] of a lemma from Proof/.

    The model functions return (outcome, trace of external calls); [fst] is the
    outcome.  MD5 is the uninterpreted [H]; the credential store ([get_ha1],
    [checkpassword]), the codec of the configured accept_charset ([dec_accept]),
    urllib's parameter-list parser ([parse_params]), base64 ([b64]) and NFC
    ([nfc]) are universally quantified functions.

    Vocabulary (Proof/P_auth.v):
      header_parses dec parse h m a   the value h has scheme Digest, is Latin-1, has a parameter part
                                      which [parse] accepts, a holds its fields (a_method a = m) and the
                                      checks of HttpDigestAuthorization.__init__ pass
      nonce_genuine H c a ts          a_nonce a = ts ":" H(ts ":" realm ":" key), no colon in ts
      rfc_response H a ha1            H(HA1' ":" nonce [":" nc ":" cnonce ":" qop] ":" H(method ":" uri))  (RFC 2617 3.2.2)
      nonce_fresh ts now              int(ts) + 600 > now;   nonce_expired: int(ts) + 600 <= now, or ts unreadable
      credentials_verify ... a ts login   all of the above except the age of the nonce, see c19_digest_sound
      digest_challenge H c now stale  Digest realm=.., nonce="now:H(now:realm:key)", algorithm="MD5", qop="auth"[, stale="true"][, charset=..] *)
From Coq Require Import ZArith List Bool.
From CV Require Import Lib.Sx Lib.ListZ Model.M_auth Proof.P_auth Proof.P_auth_thm Proof.P_auth_fields.
Import ListNotations.
Open Scope Z_scope.

(** The handler is reached (the tool returns, request.login = login) only if the
    header parses, its nonce is the one this realm and key produce for its own
    timestamp, the store knows the user, the response is the RFC 2617 digest
    recomputed from the stored HA1, the request method and the header's uri,
    nonce, nc, cnonce, qop, and the nonce has not expired; the login is the
    header's username. *)
Theorem c19_digest_sound :
  forall H get_ha1 dec_accept parse_params c header m now login,
  fst (digest_auth H get_ha1 dec_accept parse_params c header m now) = Reached login ->
  exists a ts,
    (exists h ha1,
       header = Some h /\ header_parses dec_accept parse_params h m a /\
       nonce_genuine H c a ts /\
       a_username a = Some login /\ get_ha1 (c_realm c) login = Some ha1 /\
       (a_qop a = None \/ a_qop a = Some s_auth) /\ a_algorithm a = s_MD5 /\
       a_response a = Some (rfc_response H a ha1))
    /\ nonce_fresh ts now.
Proof. exact thm_digest_sound. Qed.
Print Assumptions c19_digest_sound.

(** Conversely, for algorithm MD5 and qop absent or auth, such a header is
    admitted.  (MD5-sess and auth-int headers never satisfy the hypothesis: the
    code answers both with 400 - see c19_digest_reject_partial.) *)
Theorem c19_digest_complete :
  forall H get_ha1 dec_accept parse_params c header m now a ts login,
  credentials_verify H get_ha1 dec_accept parse_params c header m a ts login ->
  nonce_fresh ts now ->
  fst (digest_auth H get_ha1 dec_accept parse_params c header m now) = Reached login.
Proof. exact thm_digest_complete. Qed.
Print Assumptions c19_digest_complete.

(** Every other header: 400 when it does not parse, or when it parses with
    qop=auth-int (which this server never offers); or 401 with the challenge
    for the configured realm over a fresh nonce, carrying stale="true" exactly
    when everything verified over a genuine nonce that has expired; or 500 when
    urllib's parser raises something other than ValueError/IndexError (no such
    input is known; the harness has never observed it); or a nonce timestamp
    outside the modelled domain of int().  None of them reaches the handler.

    PARTIAL with respect to the full statement, which is
      c19_digest_reject: ... 401 with a challenge that RE-PARSES (under an RFC 7235
      auth-param reader) to realm = c_realm c, nonce = the fresh nonce, algorithm = MD5,
      qop = auth, stale = true exactly for a genuine expired nonce.
    Proved here: the exact text of the challenge ([digest_challenge]) and the
    stale condition.  Not proved: that this text re-parses - no reader is modelled,
    and it does not hold for a realm containing a double quote or a backslash
    (the realm is inserted unescaped); the harness checks the re-parse on every
    401 with its own reader. *)
Theorem c19_digest_reject_partial :
  forall H get_ha1 dec_accept parse_params c header m now o,
  fst (digest_auth H get_ha1 dec_accept parse_params c header m now) = o ->
  (forall login, o <> Reached login) ->
  (o = R400 /\ ((forall a, ~ header_parses dec_accept parse_params (oval header) m a)
                \/ exists a, header_parses dec_accept parse_params (oval header) m a
                             /\ a_qop a = Some s_auth_int))
  \/ (exists stale, o = R401 (digest_challenge H c now stale)
        /\ (stale = true <->
            exists a ts login,
              credentials_verify H get_ha1 dec_accept parse_params c header m a ts login
              /\ nonce_expired ts now))
  \/ (o = R500 3 /\ forall a, ~ header_parses dec_accept parse_params (oval header) m a)
  \/ o = Unsupported 1.
Proof. exact thm_digest_reject. Qed.
Print Assumptions c19_digest_reject_partial.

(** Basic: the handler is reached with login = user exactly when the header has
    the Basic scheme, an ASCII payload that base64 decodes, the bytes decode
    under accept_charset or else ISO-8859-1, the NFC form splits at its first
    colon into (user, password), and checkpassword accepts them. *)
Theorem c19_basic :
  forall dec_accept b64 nfc checkpassword c header login,
  existsb (Z.eqb 34) (c_realm c) = false ->
  (fst (basic_auth dec_accept b64 nfc checkpassword c header) = Reached login <->
   exists h pw, header = Some h /\ basic_credentials dec_accept b64 nfc h login pw
                /\ checkpassword (c_realm c) login pw = true).
Proof. exact thm_basic. Qed.
Print Assumptions c19_basic.

(** Everything else is 401 with the Basic challenge, or 400. *)
Theorem c19_basic_reject :
  forall dec_accept b64 nfc checkpassword c header o,
  existsb (Z.eqb 34) (c_realm c) = false ->
  fst (basic_auth dec_accept b64 nfc checkpassword c header) = o ->
  (forall login, o <> Reached login) ->
  o = R401 (basic_challenge c) \/ o = R400.
Proof. exact thm_basic_reject. Qed.
Print Assumptions c19_basic_reject.

(** checkpassword_dict accepts exactly the stored, non-empty password *)
Theorem c19_checkpassword_dict :
  forall d realm user pw,
  checkpassword_dict d realm user pw = true <-> assoc user d = Some pw /\ pw <> [].
Proof. exact checkpassword_dict_true. Qed.
Print Assumptions c19_checkpassword_dict.

(** Non-vacuity (H = string reversal): a header that is admitted at time 200,
    the same header answered 401 stale="true" at time 700 ... *)
Example c19_nonvacuous_digest :
  (exists a ts, credentials_verify ex_H ex_ha1 ex_dec ex_parse ex_cfg ex_header ex_GET a ts [117]
                /\ nonce_fresh ts 200)
  /\ fst (digest_auth ex_H ex_ha1 ex_dec ex_parse ex_cfg ex_header ex_GET 200) = Reached [117]
  /\ fst (digest_auth ex_H ex_ha1 ex_dec ex_parse ex_cfg ex_header ex_GET 700)
     = R401 (digest_challenge ex_H ex_cfg 700 true)
  /\ (forall login, R401 (digest_challenge ex_H ex_cfg 700 true) <> Reached login).
Proof. exact ex_digest. Qed.
Print Assumptions c19_nonvacuous_digest.

(** ... and Basic: admitted, and refused with the challenge. *)
Example c19_nonvacuous_basic :
  existsb (Z.eqb 34) (c_realm ex_cfg) = false
  /\ fst (basic_auth ex_dec ex_b64 (fun s => s) ex_check ex_cfg ex_bheader) = Reached [117]
  /\ fst (basic_auth ex_dec ex_b64 (fun s => s) ex_check ex_cfg None) = R401 (basic_challenge ex_cfg)
  /\ (forall login, R401 (basic_challenge ex_cfg) <> Reached login).
Proof. exact ex_basic. Qed.
Print Assumptions c19_nonvacuous_basic.

(** What the Authorization header can contribute is nine named parameters and nothing
    else: two parsers of the parameter list that fail alike and agree on those nine
    keys give the same authorization object - carrying the request's own method -,
    the same error and the same trace ... *)
Theorem c19_digest_reads_nine_fields : forall dec_accept pp pp',
  (forall s, pr_agree (pp s) (pp' s)) ->
  forall header http_method,
    parse_header dec_accept pp header http_method = parse_header dec_accept pp' header http_method.
Proof. exact parse_header_fields. Qed.
Print Assumptions c19_digest_reads_nine_fields.

(** ... so a parameter under any other name (method=, http_method=, ha1=, key= ...),
    anywhere in the list and whatever it holds, changes nothing. *)
Theorem c19_extra_field_ignored : forall name value kv,
  ~ In name digest_keys -> forall pre, agree (pre ++ (name, value) :: kv) (pre ++ kv).
Proof. exact agree_extra. Qed.
Print Assumptions c19_extra_field_ignored.

(** Non-vacuity: `method`, which the code stores as self.method, is such a name. *)
Example c19_method_is_extra : ~ In k_method digest_keys.
Proof. exact method_is_extra. Qed.
Print Assumptions c19_method_is_extra.
