(** C06 - response framing is self-consistent for every handler and tool mix.
    Property theorems only; each is closed by [exact] of a lemma from Proof/.

    Vocabulary (Model/M_framing.v, Proof/P_framing.v):
    [Inv r]         the Content-Length header is absent or equals the body's length;
    [builtin_tx t]  t is any transformer except the two only user code performs
                    (plain body assignment, arbitrary Content-Length); a regrouping keeps the bytes;
    [handler_exact] a page handler that returns normally left the header alone or set the exact length;
    [framing_spec]  the property's demand on what the server receives. *)
From Coq Require Import ZArith List Bool.
From CV Require Import Lib.Sx Lib.ListZ Model.M_framing Proof.P_framing Proof.P_framing_thm.
Import ListNotations.
Open Scope Z_scope.

(** A transformer of kind "Rewrite f o DropCL" or "SetCL_exact" establishes the
    invariant from any state whatsoever, for ANY rewrite function f ... *)
Theorem c06_inv_rewriters : forall (f : list chunk -> list chunk) u r,
  Inv (rewrite_drop f u r) /\ Inv (rewrite_set_exact f u r).
Proof. exact thm_inv_rewriters. Qed.
Print Assumptions c06_inv_rewriters.

(** ... and every built-in transformer (gzip, encode, pages, _be_ie_unfriendly,
    static bodies, flatten, tee, collapse, a cache hit, an inline 406, ...)
    preserves it, whatever functions it carries. *)
Theorem c06_inv : forall e cache m t r r',
  builtin_tx t -> cache_ok cache -> Inv r ->
  apply_tx e cache m t r = (r', ENone) -> Inv r'.
Proof. exact thm_inv. Qed.
Print Assumptions c06_inv.

(** After finalize, a non-streamed response with a status below 200 or in
    {204, 205, 304} has no body bytes and no Content-Length; any other has a
    Content-Length equal to its total body bytes. *)
Theorem c06_finalize : forall r r',
  Inv r -> finalize r = (r', ENone) -> stream r' = false ->
  ((code r' < 200 \/ code r' = 204 \/ code r' = 205 \/ code r' = 304) ->
     total (body r') = 0 /\ cl r' = None) /\
  (~ (code r' < 200 \/ code r' = 204 \/ code r' = 205 \/ code r' = 304) ->
     cl r' = Some (total (body r'))).
Proof. exact thm_finalize. Qed.
Print Assumptions c06_finalize.

(** HEAD yields the GET's status, Content-Length (and stream flag) with zero body
    bytes - for every pipeline, including all error paths and bare_error. *)
Theorem c06_head : forall e cache bh h bf r0,
  let g := run_request cache GET e bh h bf r0 in
  let hd := run_request cache HEAD e bh h bf r0 in
  code hd = code g /\ cl hd = cl g /\ stream hd = stream g /\ total (body hd) = 0.
Proof. exact thm_head. Qed.
Print Assumptions c06_head.

(** Where a streamed response's Content-Length comes from.
    Full statement wanted: "if a streamed response carries a Content-Length, a
    transformer of kind SetCL_exact (RewriteSetExact / Handled / _be_ie_unfriendly /
    bare_error / a cache hit) or the handler put it there", on every path.
    Proved here for the path on which nothing raises: if no hook and not the
    handler contains a Content-Length-setting transformer, the streamed response
    has none (finalize's stream branch never adds one).  On the raising paths the
    header is set by set_error's RewriteSetExact or bare_error only - covered by
    c06_all_compositions as "present => exact", not as provenance. *)
Theorem c06_stream_partial : forall e cache m bh h bf r r',
  forallb hook_nocl bh = true -> hook_nocl h = true -> forallb hook_nocl bf = true ->
  cl r = None ->
  do_respond e cache m bh h bf r = (r', ENone) -> stream r' = true -> cl r' = None.
Proof. exact thm_stream_partial. Qed.
Print Assumptions c06_stream_partial.

(** finalize leaves a streamed response's header and body alone. *)
Theorem c06_stream_finalize : forall r r',
  stream r = true -> finalize r = (r', ENone) -> cl r' = cl r /\ body r' = body r /\ code r' = code r.
Proof. exact thm_finalize_stream. Qed.
Print Assumptions c06_stream_finalize.

(** For EVERY list of before_handler hooks and EVERY list of before_finalize hooks
    (any subset of the tools, any order, any rewrite functions, raising or not,
    first and second pass), every handler, every error-page environment, every
    method and every consistent cache content, what Request.run hands to the
    server satisfies the property: non-streamed => no-body statuses carry
    neither bytes nor Content-Length, all others a Content-Length equal to the
    bytes (HEAD: the same header, zero bytes); streamed => a Content-Length, if
    present, equals the bytes produced. *)
Theorem c06_all_compositions : forall e cache m bh bf h r0,
  cache_ok cache -> Forall bh_hook_ok bh -> Forall hook_ok bf -> handler_exact e cache m h ->
  PreInv r0 ->
  framing_spec m (run_request cache m e bh h bf r0).
Proof. exact thm_all_compositions. Qed.
Print Assumptions c06_all_compositions.

(** The same for a request as run_C06 executes it: the hooks of the enabled
    tools, ordered by hook point and priority by the model. *)
Theorem c06_serve : forall e cache m st hooks h,
  cache_ok cache -> Forall (fun k => bh_hook_ok k /\ hook_ok k) hooks -> handler_exact e cache m h ->
  framing_spec m (serve cache m e st hooks h).
Proof. exact thm_serve. Qed.
Print Assumptions c06_serve.

(** G: the boolean checker run on the regenerated tool_effects table is sound -
    a unit that passes is of a kind whose transformer preserves the invariant
    for any rewrite function. *)
Theorem c06_checker_sound : forall tbl : list effect_row,
  forallb rewrites_body_implies_resets_length tbl = true ->
  forall row, In row tbl ->
  exists k, kind_of_row row = Some k /\
    forall f e cache m r r',
      (k = KPreserving -> forall b, total (f b) = total b) -> cache_ok cache -> Inv r ->
      apply_tx e cache m (tx_of_kind k f) r = (r', ENone) -> Inv r'.
Proof. exact thm_checker_sound. Qed.
Print Assumptions c06_checker_sound.

(* ---------- the hypotheses are satisfiable on non-trivial states ---------- *)

(** gzip + etags + flatten + caching (a hit) + tee around a handler that sets
    its own exact length: hypotheses hold, and the run goes through a cache hit. *)
Example c06_example_hypotheses :
  cache_ok ex_cache /\ Forall (fun k => bh_hook_ok k /\ hook_ok k) ex_hooks /\
  (forall e cache m, handler_exact e cache m ex_handler) /\
  delivered (serve ex_cache GET ex_env false ex_hooks ex_handler) = (200, Some 3, 3) /\
  delivered (serve None GET ex_env false ex_hooks ex_handler) = (201, Some 6, 6) /\
  delivered (serve None HEAD ex_env false ex_hooks ex_handler) = (201, Some 6, 0) /\
  delivered (serve None GET ex_env true ex_hooks ex_handler) = (201, None, 6).
Proof.
  split; [exact ex_cache_ok|]. split; [exact ex_hooks_ok|]. split; [exact ex_handler_exact|].
  repeat split; vm_compute; reflexivity.
Qed.
Print Assumptions c06_example_hypotheses.

(** a stale handler-set length followed by HTTPError(404): the 5-byte page is
    padded to 513 and the length set by _be_ie_unfriendly, gzip then rewrites and
    drops it, finalize recomputes *)
Example c06_example_error_path :
  (forall e cache m, handler_exact e cache m ex_handler_404) /\
  delivered (serve None GET ex_env false ex_hooks ex_handler_404) = (404, Some 516, 516) /\
  delivered (serve None GET ex_env true ex_hooks ex_handler_404) = (404, None, 516).
Proof.
  split; [exact ex_handler_404_exact|]. split; vm_compute; reflexivity.
Qed.
Print Assumptions c06_example_error_path.

(** the hypothesis about user code is needed: a handler that sets a wrong
    Content-Length keeps it (finalize "allows user code to set Content-Length") *)
Example c06_example_user_length_kept :
  delivered (serve None GET ex_env false []
             (mkH 99 [SetCL 99; HandlerBody (fun _ => [[1;2;3]]) 0] ENone [] ENone)) = (200, Some 99, 3).
Proof. vm_compute. reflexivity. Qed.
Print Assumptions c06_example_user_length_kept.

(** the rows of the tool_effects table the model relies on pass the checker *)
Example c06_example_tool_effects : forallb rewrites_body_implies_resets_length tool_effects = true.
Proof. exact thm_tool_effects_ok. Qed.
Print Assumptions c06_example_tool_effects.
