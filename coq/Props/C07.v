(** C07 - malformed client input is answered with 4xx, never with 5xx.
    Property theorems only; each is closed by [exact] of a lemma from Proof/P_malformed.v.

    One theorem per framework parser of client data, about the REPAIRED code ([cfg_fixed]:
    fixes/C07-*.diff, one flag each); Refuted/R_C07.v has a witness for every parser that
    crashes as written.  A parser answers [Ok], [Reject c] (an HTTPError), [Answer c] (the
    tool set the error response itself) or [Crash cls point]; [total4xx r] says: Ok, or
    Reject/Answer with 400 <= c <= 499.  The library calls (decode_header, bytes.decode,
    SimpleCookie.load, json, base64, parse_keqv_list, str.encode) are universally quantified
    oracle answers restricted to their declared raise-sets ([in_set o raises]); the check
    samples those raise-sets on every run.  Where the model abstains ([Unmodelled]: a codec
    outside the modelled kinds, a multipart part with a registered content type) the theorem
    is stated with [safe] (never a crash, never a 5xx rejection) and says so. *)
From Coq Require Import ZArith List Bool.
From CV Require Import Lib.Sx Lib.ListZ Model.M_malformed Proof.P_malformed.
From CV Require Model.M_params Model.M_ranges.
Import ListNotations.
Open Scope Z_scope.

(** Request.process_headers, one header: decode_TEXT_maybe (RFC 2047 words: unknown charset,
    undecodable bytes, broken base64, text mixed with encoded words) and SimpleCookie.load. *)
Theorem c07_process_headers_total : forall is_cookie value dh ck,
  dh_declared dh -> in_set ck [ECookie] = true ->
  total4xx (process_header cfg_fixed is_cookie value dh ck) = true.
Proof. exact process_header_total. Qed.
Print Assumptions c07_process_headers_total.

Theorem c07_decode_text_total : forall value dh,
  dh_declared dh -> total4xx (decode_text cfg_fixed value dh) = true.
Proof. exact decode_text_total. Qed.
Print Assumptions c07_decode_text_total.

(** a missing Host on HTTP/1.1 is a 400 *)
Theorem c07_host_total : forall has_host proto11 split,
  in_set split [EValue] = true -> total4xx (host_check has_host proto11 split) = true.
Proof. exact host_check_total. Qed.
Print Assumptions c07_host_total.

(** process_query_string / parse_query_string for every query string (text-level parser:
    M_params'): undecodable -> 404, an image map beyond int()'s digit limit is an ordinary query *)
Theorem c07_query_total : forall qs, total4xx (query cfg_fixed qs) = true.
Proof. exact query_total. Qed.
Print Assumptions c07_query_total.

(** header_elements / AcceptElement.qvalue, wherever the tool that asks runs: 400, and in a
    before_finalize hook (gzip) it is answered in place rather than raised *)
Theorem c07_qvalue_total : forall stage qs, total4xx (accept_q cfg_fixed stage qs) = true.
Proof. exact accept_q_total. Qed.
Print Assumptions c07_qvalue_total.

Theorem c07_qvalue_stage : forall stage qs,
  stage_total (negb (stage =? 0), accept_q cfg_fixed stage qs) = true.
Proof. exact accept_q_stage. Qed.
Print Assumptions c07_qvalue_stage.

(** get_ranges never fails on a Range header: int() on an over-long position is guarded, and
    M_ranges' repaired parser raises nowhere else *)
Theorem c07_get_ranges_total : forall h cl, ranges cfg_fixed h cl = Ok.
Proof. exact ranges_total. Qed.
Print Assumptions c07_get_ranges_total.

Theorem c07_get_ranges_no_crash : forall h cl w,
  M_ranges.get_ranges M_ranges.cfg_fixed h cl <> M_ranges.GrCrash w.
Proof. exact ranges_no_int_failure. Qed.
Print Assumptions c07_get_ranges_no_crash.

(** caching.get: Cache-Control max-age on a cache hit *)
Theorem c07_max_age_total : forall vals, total4xx (max_age cfg_fixed vals) = true.
Proof. exact max_age_total. Qed.
Print Assumptions c07_max_age_total.

(** Content-Length / Transfer-Encoding: 411, 413 *)
Theorem c07_body_length_total : forall has_cl has_te maxbytes sent reads_all,
  total4xx (body_length has_cl has_te maxbytes sent reads_all) = true.
Proof. exact body_length_total. Qed.
Print Assumptions c07_body_length_total.

(** process_urlencoded / decode_entity over any list of charset names whose codecs are of the
    modelled kinds (ascii, utf-8, latin-1, LookupError, UnicodeError, ValueError): 400 when no
    attempt fits; with other codecs the model abstains and [c07_*_safe] still excludes a crash *)
Theorem c07_process_urlencoded_total : forall t cs body,
  Forall (fun n => 0 <= codec_kind t n <= 5) cs ->
  total4xx (urlencoded_attempts cfg_fixed t cs body) = true.
Proof. exact urlencoded_total. Qed.
Print Assumptions c07_process_urlencoded_total.

Theorem c07_process_urlencoded_safe : forall t ctype body, safe (form_body cfg_fixed t ctype body) = true.
Proof. exact form_body_safe. Qed.
Print Assumptions c07_process_urlencoded_safe.

Theorem c07_decode_entity_total : forall t cs v,
  Forall (fun n => 0 <= codec_kind t n <= 5) cs ->
  total4xx (decode_entity cfg_fixed t cs v) = true.
Proof. exact decode_entity_total. Qed.
Print Assumptions c07_decode_entity_total.

(** ResponseEncoder with the client's charset name (Accept-Charset) *)
Theorem c07_encode_charset_total : forall stream k, total4xx (encode_charset cfg_fixed stream k) = true.
Proof. exact encode_charset_total. Qed.
Print Assumptions c07_encode_charset_total.

(** Entity.__init__ on any Content-Disposition header (filename* with the wrong number of
    quotes, an unusable charset): never a failure *)
Theorem c07_entity_init_total : forall t cd,
  disposition cfg_fixed t cd = Ok \/ disposition cfg_fixed t cd = Unmodelled.
Proof. exact disposition_safe. Qed.
Print Assumptions c07_entity_init_total.

(** process_multipart / read_headers / read_lines_to_boundary / part decoding on ANY list of
    lines, any Content-Type header, truncated or not: tolerated or 400, never a crash
    (abstains for a part with a registered content type - C04's known finding - and for
    unmodelled codecs) *)
Theorem c07_process_multipart_safe : forall t ctype lines early_done,
  safe (multipart cfg_fixed t ctype lines early_done) = true.
Proof. exact multipart_safe. Qed.
Print Assumptions c07_process_multipart_safe.

Theorem c07_read_headers_total : forall lines k acc,
  ok_or_400 (fst (fst (read_headers cfg_fixed lines k acc))).
Proof. exact read_headers_ok. Qed.
Print Assumptions c07_read_headers_total.

Theorem c07_read_lines_to_boundary_total : forall b lines p acc d,
  ok_or_400 (fst (fst (fst (read_to_boundary cfg_fixed b lines p acc d)))).
Proof. exact read_to_boundary_ok. Qed.
Print Assumptions c07_read_lines_to_boundary_total.

(** json_in *)
Theorem c07_json_total : forall cl o,
  in_set o json_raises = true -> total4xx (json_body cfg_fixed cl o) = true.
Proof. exact json_body_total. Qed.
Print Assumptions c07_json_total.

(** basic_auth and digest_auth: 400 / 401 for every header *)
Theorem c07_basic_auth_total : forall sp sb ascii b64 colon pw,
  in_set ascii [EUnicode] = true -> in_set b64 [EBinascii; EValue] = true ->
  total4xx (basic_auth sp sb ascii b64 colon pw) = true.
Proof. exact basic_auth_total. Qed.
Print Assumptions c07_basic_auth_total.

Theorem c07_digest_auth_total : forall sd dec sp keqv f nonce_ok user digest_ok stale,
  in_set dec digest_decode_raises = true -> in_set keqv keqv_raises = true ->
  total4xx (digest_auth cfg_fixed sd dec sp keqv f nonce_ok user digest_ok stale) = true.
Proof. exact digest_auth_total. Qed.
Print Assumptions c07_digest_auth_total.

(** FileSession: the id of the cookie as a path *)
Theorem c07_session_id_total : forall esc lock kind, total4xx (session_id cfg_fixed esc lock kind) = true.
Proof. exact session_id_total. Qed.
Print Assumptions c07_session_id_total.

(** test_callable_spec: whenever Python's argument binding of the handler call fails (missing,
    multiple, too many positional, unexpected keyword, a keyword named like the bound first
    argument) the failure is classified as 404 or 400; for every signature
    (self, a1..an with defaults, *args?, **kwargs?) and every set of parameters *)
Theorem c07_callable_spec_total : forall h npos kws,
  total4xx (callable_spec cfg_fixed h npos kws) = true.
Proof. exact callable_spec_total. Qed.
Print Assumptions c07_callable_spec_total.

(** The pipeline: the stages of Request.respond in order, each with the result of its parser;
    if every parser is total (and none raises out of a before_finalize hook) and the handler
    and tools themselves answer below 500, the status class is not 5.  The last step - an
    exception other than HTTPError/HTTPRedirect becomes a 500, an HTTPError its own status -
    is the definition of [pipeline] here (stated, not derived from the C01 flow model). *)
Theorem c07_pipeline : forall stages handler,
  Forall (fun s => stage_total s = true) stages -> 100 <= handler < 500 ->
  100 <= pipeline stages handler < 500.
Proof. exact pipeline_no_5xx. Qed.
Print Assumptions c07_pipeline.

(** Non-vacuity on concrete requests.
    X-Custom: =?nope?q?x?= (decode_header gives one bytes atom with charset "nope", decoding
    raises LookupError) -> 400;  a cut-off multipart body -> 400;  a field with charset=nope and
    UTF-8 content is decoded by the next attempt;  GET /strict?self=1 -> 404;  and a pipeline made
    of real parser runs: a good header, Accept-Encoding: gzip;q=x in the gzip hook -> 400. *)
Example c07_example_text :
  dh_declared (DHAtoms [(true, 2, OExn ELookup)] OOk)
  /\ process_header cfg_fixed false [61;63;110;111;112;101;63;113;63;120;63;61] (DHAtoms [(true, 2, OExn ELookup)] OOk) OOk = Reject 400.
Proof. split; [repeat constructor|vm_compute; reflexivity]. Qed.

Example c07_example_multipart :
  multipart cfg_fixed [([110;111;112;101], 3); ([117;116;102;45;56], 1); ([117;115;45;97;115;99;105;105], 0); ([117;110;100;101;102;105;110;101;100], 4)] [109;117;108;116;105;112;97;114;116;47;102;111;114;109;45;100;97;116;97;59;32;98;111;117;110;100;97;114;121;61;98] [[45;45;98;13;10]; [67;111;110;116;101;110;116;45;68;105;115;112;111;115;105;116;105;111;110;58;32;102;111;114;109;45;100;97;116;97;59;32;110;97;109;101;61;34;97;34;13;10]; [13;10]; [49]] false = Reject 400
  /\ multipart cfg_fixed [([110;111;112;101], 3); ([117;116;102;45;56], 1); ([117;115;45;97;115;99;105;105], 0); ([117;110;100;101;102;105;110;101;100], 4)] [109;117;108;116;105;112;97;114;116;47;102;111;114;109;45;100;97;116;97;59;32;98;111;117;110;100;97;114;121;61;98] [[45;45;98;13;10]; [67;111;110;116;101;110;116;45;68;105;115;112;111;115;105;116;105;111;110;58;32;102;111;114;109;45;100;97;116;97;59;32;110;97;109;101;61;34;97;34;13;10]; [67;111;110;116;101;110;116;45;84;121;112;101;58;32;116;101;120;116;47;112;108;97;105;110;59;32;99;104;97;114;115;101;116;61;110;111;112;101;13;10]; [13;10]; [195;169;13;10]; [45;45;98;45;45;13;10]] false = Ok
  /\ Forall (fun n => 0 <= codec_kind [([110;111;112;101], 3); ([117;116;102;45;56], 1); ([117;115;45;97;115;99;105;105], 0); ([117;110;100;101;102;105;110;101;100], 4)] n <= 5) [[110;111;112;101]; [117;115;45;97;115;99;105;105]; [117;116;102;45;56]]
  /\ decode_entity cfg_fixed [([110;111;112;101], 3); ([117;116;102;45;56], 1); ([117;115;45;97;115;99;105;105], 0); ([117;110;100;101;102;105;110;101;100], 4)] [[110;111;112;101]; [117;115;45;97;115;99;105;105]; [117;116;102;45;56]] [195;169] = Ok.
Proof. repeat split; try (vm_compute; reflexivity). repeat constructor; vm_compute; discriminate. Qed.

Example c07_example_callable :
  callable_spec cfg_fixed (HSpec [115;101;108;102] [[97]; [98]] 1 false false) 0 [([115;101;108;102], false)] = Reject 404
  /\ callable_spec cfg_fixed (HSpec [115;101;108;102] [] 0 true true) 0 [([115;101;108;102], true)] = Reject 400.
Proof. split; vm_compute; reflexivity. Qed.

Example c07_example_pipeline :
  let stages := [(false, process_header cfg_fixed false [97] (DHAtoms [] OOk) OOk);
                 (false, query cfg_fixed [97;61;49]);
                 (true, accept_q cfg_fixed 1 [false])] in
  Forall (fun s => stage_total s = true) stages /\ pipeline stages 200 = 400.
Proof. split; [repeat constructor|vm_compute; reflexivity]. Qed.
