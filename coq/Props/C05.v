From CV Require Import Model.M_reader.
