(** C05 - the request-body stream is exact, ordered and bounded.
    Property theorems only; each is closed by [exact] of a lemma from Proof/. *)
From Coq Require Import ZArith List Bool.
From CV Require Import Lib.Sx Lib.ListZ Model.M_reader Proof.P_reader Proof.P_reader_thm.
Import ListNotations.
Open Scope Z_scope.

(** Every status of every operation list is OK or 413 (no fuel exhaustion, no
    other failure), a 413 ends the run. *)
Theorem c05_statuses : forall c body fr ops outs s,
  WF c -> forallb op_nonneg ops = true ->
  run c ops (init body fr) = (outs, s) ->
  all_ok outs \/ exists pre last, outs = pre ++ [(S413, last)] /\ all_ok pre.
Proof. exact thm_statuses. Qed.
Print Assumptions c05_statuses.

(** Exact and ordered: what any interleaving of read/readline/readlines/next
    returned so far is a prefix of the (length-limited) body ... *)
Theorem c05_exact_ordered : forall c body fr ops outs s,
  WF c -> forallb op_nonneg ops = true ->
  run c ops (init body fr) = (outs, s) -> all_ok outs ->
  exists rest, delivered outs ++ rest = body_eff c body.
Proof. exact thm_exact_ordered. Qed.
Print Assumptions c05_exact_ordered.

(** ... and is the whole body once an unbounded read() has returned. *)
Theorem c05_complete : forall c body fr ops outs s st ou s',
  WF c -> forallb op_nonneg ops = true ->
  run c ops (init body fr) = (outs, s) -> all_ok outs ->
  step c (ORead None) s = (st, ou, s') -> st = SOk ->
  delivered outs ++ out_bytes ou = body_eff c body.
Proof. exact thm_complete. Qed.
Print Assumptions c05_complete.

(** read(n) is the exact slice at the cursor: min(n, remaining) bytes, for
    every fragmentation of the socket and every buffer size. *)
Theorem c05_read_refines : forall c body fr ops outs s size data s',
  WF c -> forallb op_nonneg ops = true ->
  run c ops (init body fr) = (outs, s) -> all_ok outs ->
  neg_size size = false ->
  read c size s = (SOk, data, s') ->
  data = takeR (read_rem c size s) (dropZ (lenZ (delivered outs)) body)
  /\ bread s = lenZ (delivered outs).
Proof. exact thm_read_refines. Qed.
Print Assumptions c05_read_refines.

(** Bounded: never more than Content-Length is taken from the connection,
    whatever happens (including a run that ends in 413). *)
Theorem c05_no_overread : forall c body fr ops outs s cl,
  WF c -> forallb op_nonneg ops = true ->
  run c ops (init body fr) = (outs, s) ->
  c_len c = Some cl -> taken s <= cl.
Proof. exact thm_no_overread. Qed.
Print Assumptions c05_no_overread.

(** maxbytes: the application never receives more than the limit (bytes written
    to fp_out before a 413 included) ... *)
Theorem c05_maxbytes : forall c body fr ops outs s,
  WF c -> forallb op_nonneg ops = true ->
  run c ops (init body fr) = (outs, s) ->
  0 < c_maxb c -> lenZ (delivered outs) <= c_maxb c.
Proof. exact thm_maxbytes. Qed.
Print Assumptions c05_maxbytes.

(** ... a 413 is only raised for a body that really exceeds the limit ... *)
Theorem c05_413_justified : forall c body fr ops outs s last,
  WF c -> forallb op_nonneg ops = true ->
  run c ops (init body fr) = (outs, s) ->
  In (S413, last) outs -> 0 < c_maxb c /\ c_maxb c < lenZ (body_eff c body).
Proof. exact thm_413_justified. Qed.
Print Assumptions c05_413_justified.

(** ... and a longer body cannot be read to the end without it. *)
Theorem c05_too_long_refused : forall c body fr ops outs s st ou s',
  WF c -> forallb op_nonneg ops = true ->
  run c ops (init body fr) = (outs, s) -> all_ok outs ->
  0 < c_maxb c -> c_maxb c < lenZ (body_eff c body) ->
  step c (ORead None) s = (st, ou, s') -> st = S413.
Proof. exact thm_too_long_refused. Qed.
Print Assumptions c05_too_long_refused.

(** Non-vacuity: a well-formed configuration and a run that exercises the
    push-back path (readline; readline(5); read() on "abc\ndef\nghi", buffer 8,
    1-byte socket fragments). *)
Example c05_nonvacuous :
  let c := Cfg (Some 11) 0 8 true in
  WF c /\
  exists outs s,
    run c [OReadline None; OReadline (Some 5); ORead None]
        (init [97;98;99;10;100;101;102;10;103;104;105] [1;1;3]) = (outs, s)
    /\ all_ok outs /\ delivered outs = [97;98;99;10;100;101;102;10;103;104;105]
    /\ length outs = 3%nat.
Proof. exact ex_nonvacuous. Qed.
Print Assumptions c05_nonvacuous.
