(** C14 - session ids are never adopted from clients; data persists until expiry.
    Property theorems only; each is closed by [exact] of a lemma from Proof/.
    [c] ranges over both backends, every timeout and (unless stated) both
    variants of FileSession._load; [w] over every store, clock value and
    candidate stream; [ops] over every history. *)
From Coq Require Import ZArith List Bool.
From CV Require Import Lib.Sx Lib.ListZ Model.M_session Proof.P_session Proof.P_session_hist Proof.P_session_ni.
Import ListNotations.
Open Scope Z_scope.

(** The id a request starts with (Session.__init__): the presented id only if
    the store held it when the request began; otherwise the first candidate of
    the RNG stream that is not a key of the store - so it is not a key of the
    store, and store and clock are untouched. *)
Theorem c14_no_adoption : forall w cookie w1 i,
  begin_req w cookie = (SOk, w1, i) ->
  (exists p, cookie = Some p /\ mem p (w_store w) = true /\ i = p /\ w1 = w)
  \/ ((forall p, cookie = Some p -> mem p (w_store w) = false)
      /\ mem i (w_store w) = false
      /\ (exists pre, w_rng w = pre ++ i :: w_rng w1
                      /\ forall x, In x pre -> mem x (w_store w) = true)
      /\ w_store w1 = w_store w /\ w_now w1 = w_now w).
Proof. exact begin_spec. Qed.
Print Assumptions c14_no_adoption.

(** The value a client presents cannot influence anything when the store does
    not hold it: the whole request (answer, id issued, store afterwards) is the
    same for any two absent values, and the same as with no cookie at all. *)
Theorem c14_no_adoption_independent : forall c w p1 p2 acts,
  mem p1 (w_store w) = false -> mem p2 (w_store w) = false ->
  do_req c w (Some p1) acts = do_req c w (Some p2) acts
  /\ do_req c w (Some p1) acts = do_req c w None acts.
Proof. exact req_indep. Qed.
Print Assumptions c14_no_adoption_independent.

(** The id in the response cookie of a whole request (regenerations by the
    handler included) is the presented one only if the store held it when the
    request began; every other id was drawn from the RNG stream. *)
Theorem c14_no_adoption_response : forall c w cookie acts rp w',
  do_req c w cookie acts = (rp, w') -> r_status rp = SOk ->
  (exists p, cookie = Some p /\ r_id rp = p /\ mem p (w_store w) = true)
  \/ In (r_id rp) (w_rng w).
Proof. exact resp_id. Qed.
Print Assumptions c14_no_adoption_response.

(** Persistence: after ANY history that neither presents id i nor damages its
    file (requests of other clients with any cookies, clock advances, sweeps,
    damage to other files), as long as the entry is alive at the end (now <=
    expiry; for the RAM backend now < expiry, its sweep deletes at equality),
    the entry is unchanged and a request presenting i reads exactly the saved
    data. *)
Theorem c14_persist : forall c ops w rs w' i d e,
  run c ops w = (rs, w') -> quiet i ops ->
  lookup i (w_store w) = Some (Good d e) -> alive c (w_now w') e ->
  lookup i (w_store w') = Some (Good d e)
  /\ forall acts rp w'', do_req c w' (Some i) (ARead :: acts) = (rp, w'') ->
       exists rest, r_reads rp = d :: rest.
Proof. exact persist. Qed.
Print Assumptions c14_persist.

(** No resurrection: the clock is monotone over every history, so an entry
    that is expired stays expired, and any later load that still finds it
    flushes the data (the session starts empty). *)
Theorem c14_no_resurrection : forall c ops w rs w' i d e,
  run c ops w = (rs, w') ->
  lookup i (w_store w) = Some (Good d e) -> e < w_now w ->
  e < w_now w'
  /\ (lookup i (w_store w') = Some (Good d e) ->
      forall ex, ensure_loaded c w' (Sess i [] false ex) = (SOk, Sess i [] true ex)).
Proof. exact no_resurrection. Qed.
Print Assumptions c14_no_resurrection.

(** ... in the strong form: worlds that differ only in the DATA of entries whose
    expiry already lies in the past ([wsim]) give the same answers (status,
    cookie, everything read) to every history, and stay so related.  Hence the
    data of an expired entry can be replaced by anything without any later
    request, of any client, ever noticing: it is never returned again, whether
    or not a sweep has removed it. *)
Theorem c14_no_resurrection_ni : forall c ops w1 w2 rs w1',
  wsim w1 w2 -> run c ops w1 = (rs, w1') ->
  exists w2', run c ops w2 = (rs, w2') /\ wsim w1' w2'.
Proof. exact sim_run. Qed.
Print Assumptions c14_no_resurrection_ni.

Theorem c14_expired_data_irrelevant : forall c ops w i d' rs w',
  (forall d e, In (i, Good d e) (w_store w) -> e < w_now w) ->
  run c ops w = (rs, w') ->
  exists w2', run c ops (W (replace_data i d' (w_store w)) (w_now w) (w_rng w)) = (rs, w2')
              /\ wsim w' w2'.
Proof. exact expired_data_irrelevant. Qed.
Print Assumptions c14_expired_data_irrelevant.

(** The sweep (either backend) that completes leaves no entry with expiry < now,
    keeps every entry with expiry > now (and every unreadable file) unchanged,
    creates nothing and does not touch the clock.  The instant expiry = now is
    left open (RAM deletes it, the file backend keeps it). *)
Theorem c14_sweep_exact : forall c w w',
  sweep c w = (SOk, w') ->
  (forall i d e, In (i, Good d e) (w_store w') -> w_now w <= e)
  /\ (forall i ct, lookup i (w_store w) = Some ct ->
        (forall d e, ct = Good d e -> w_now w < e) -> lookup i (w_store w') = Some ct)
  /\ (forall en, In en (w_store w') -> In en (w_store w))
  /\ w_now w' = w_now w /\ w_rng w' = w_rng w.
Proof. exact sweep_exact. Qed.
Print Assumptions c14_sweep_exact.

(** Unreadable files, repaired _load, under the assumed raise-set of
    pickle.load ([raise_set_ok]: it raises a subclass of Exception): _load
    answers None, a request presenting the id is served with an empty session,
    the sweep completes (so by c14_sweep_exact it removes every expired
    neighbour). *)
Theorem c14_torn_is_absent : forall c w i cls,
  c_repaired c = true -> raise_set_ok (w_store w) -> lookup i (w_store w) = Some (Bad cls) ->
  load_raw c i (w_store w) = LNone
  /\ (forall acts rp w', do_req c w (Some i) (ARead :: acts) = (rp, w') ->
        not_raised (r_status rp) /\ exists rest, r_reads rp = [] :: rest)
  /\ fst (sweep c w) = SOk.
Proof. exact torn_is_absent. Qed.
Print Assumptions c14_torn_is_absent.

(** ... and over every history whose damage stays inside the raise-set no
    request and no sweep ever fails with an escaped exception. *)
Theorem c14_torn_never_raises : forall c ops w rs w',
  c_repaired c = true -> raise_set_ok (w_store w) -> tears_ok ops ->
  run c ops w = (rs, w') ->
  Forall (fun rp => not_raised (r_status rp)) rs /\ raise_set_ok (w_store w').
Proof. exact run_no_raise. Qed.
Print Assumptions c14_torn_never_raises.

(** Non-vacuity: a history on the file backend (two sessions created, one file
    truncated so that pickle.load raises UnpicklingError, an unknown id 5
    refused and answered with the fresh id 9 although the candidate 7 came
    first, the clock at the expiry instant) meeting all the hypotheses above. *)
Example c14_nonvacuous :
  let c := Cfg true 60 true in
  let ops := [OReq None [AWrite 1 2]; OReq None [AWrite 0 5]; OTear 8 2; OReq (Some 5) [ARead]; OAdvance 60] in
  exists rs w',
    run c ops (W [] 0 [7; 8; 7; 9; 10]) = (rs, w')
    /\ c_repaired c = true /\ tears_ok ops /\ quiet 7 ops
    /\ lookup 7 (w_store w') = Some (Good [(1, 2)] 60) /\ alive c (w_now w') 60
    /\ lookup 8 (w_store w') = Some (Bad 2) /\ raise_set_ok (w_store w')
    /\ map r_id rs = [7; 8; 0; 9; 0]
    /\ fst (sweep c (W (w_store w') 61 [])) = SOk
    /\ lookup 7 (w_store (snd (sweep c (W (w_store w') 61 [])))) = None
    /\ r_reads (fst (do_req c w' (Some 7) [ARead])) = [[(1, 2)]]
    /\ r_reads (fst (do_req c w' (Some 8) [ARead])) = [[]].
Proof. exact ex_nonvacuous. Qed.
Print Assumptions c14_nonvacuous.

(** Non-vacuity of the expiry hypotheses: an expired entry that is still stored
    (RAM backend, not swept), presented again at expiry + 1: the id is reused,
    the session starts empty, what is saved is only what this request wrote. *)
Example c14_nonvacuous_expired :
  let w := W [(8, Good [(0, 5)] 200); (7, Good [(1, 2)] 60)] 61 [9; 10] in
  (forall d e, In (7, Good d e) (w_store w) -> e < w_now w)
  /\ lookup 7 (w_store w) = Some (Good [(1, 2)] 60)
  /\ fst (do_req (Cfg false 60 true) w (Some 7) [ARead; AWrite 0 1]) = Resp SOk 7 false [[]]
  /\ lookup 7 (w_store (snd (do_req (Cfg false 60 true) w (Some 7) [ARead; AWrite 0 1])))
     = Some (Good [(0, 1)] 121).
Proof. exact ex_expired. Qed.
Print Assumptions c14_nonvacuous_expired.
