(** C02 - only exposed handlers are reachable, and the most specific one is chosen.
    Property theorems only; each is closed by [exact] of a lemma from Proof/.

    Vocabulary (definitions in Model/M_dispatch.v and Proof/P_dispatch*.v):
    - [trail_of]   object_trail after the walk: root entry, then one entry per loop
                   iteration [Entry name node nodeconf segleft] ([_cp_dispatch] is an oracle table);
    - [offer o]    the handler an object offers: its exposed [default] first ([Some (d, true)]),
                   else itself when exposed ([Some (o, false)]), else nothing;
                   [pick e = offer (e_node e)];
    - [deepest]    the LAST trail entry that offers something;
    - [segments p] the non-empty "/"-separated segments of the path;
    - [restore]    x.replace('%2F', '/'). *)
From Coq Require Import ZArith List Bool Sorted.
From CV Require Import Lib.Sx Lib.ListZ Model.M_dispatch Proof.P_dispatch Proof.P_dispatch_thm.
Import ListNotations.
Open Scope Z_scope.

(** Whatever the tree, the oracle tables and the path: the callable the default
    dispatcher hands to the page handler carries a true [exposed] mark (for
    index/default it is the method's own mark: the node returned IS the method). *)
Theorem c02_only_exposed : forall na root aconf gconf path f args ii cfg allow,
  dispatch_default na root aconf gconf path = DRes (HPage f args) ii cfg allow ->
  n_exposed f = true.
Proof. exact thm_only_exposed. Qed.
Print Assumptions c02_only_exposed.

(** ... and when nothing on the trail offers a handler the answer is NotFound (404). *)
Theorem c02_unexposed_404 : forall na root aconf gconf path trail,
  trail_of na root aconf path = WOk trail ->
  (forall e, In e trail -> pick e = None) ->
  exists cfg, dispatch_default na root aconf gconf path = DRes HNotFound None cfg None.
Proof. exact thm_404. Qed.
Print Assumptions c02_unexposed_404.

(** Most specific: the handler comes from trail index i, no deeper entry offers
    anything; at index i an exposed [default] wins over the node ([pick]); the hidden
    index entry (the last one) is only used with no positional arguments and marks
    is_index; a default handler gets is_index = "path ends with /".  With no result,
    no entry offers anything.  The error results are excluded for a well-formed trail. *)
Theorem c02_most_specific : forall na root aconf path trail,
  trail_of na root aconf path = WOk trail ->
  match find_handler na root aconf path with
  | FHFound h v ii i vd _ =>
    exists e, nthZ i trail = Some e /\ pick e = Some (h, vd)
      /\ (forall j e', i < j -> nthZ j trail = Some e' -> pick e' = None)
      /\ (vd = true -> ii = ends_slash path)
      /\ (vd = false -> ii = (i =? lenZ trail - 1))
      /\ (vd = false -> i = lenZ trail - 1 -> v = [])
  | FHNone t => t = trail /\ forall e, In e trail -> pick e = None
  | _ => False
  end.
Proof. exact thm_most_specific. Qed.
Print Assumptions c02_most_specific.

(** Positional arguments: the trailing [segleft - 1] segments of the path, in order,
    each with %2F restored; the hidden index token (the +1) is never among them. *)
Theorem c02_vpath : forall na root aconf gconf path f args ii cfg allow,
  dispatch_default na root aconf gconf path = DRes (HPage f args) ii cfg allow ->
  exists trail i e vd,
    trail_of na root aconf path = WOk trail /\ nthZ i trail = Some e /\ pick e = Some (f, vd) /\
    0 <= e_segleft e <= lenZ (segments path) + 1 /\
    args = map restore (dropZ (lenZ (segments path) + 1 - e_segleft e) (segments path)).
Proof. exact thm_vpath_args. Qed.
Print Assumptions c02_vpath.

(** find_handler (index loop over object_trail, as written) is the declarative
    resolver: deepest offering entry of the trail. *)
Theorem c02_spec : forall na root aconf path,
  find_handler na root aconf path = resolve_spec na root aconf path.
Proof. exact thm_spec. Qed.
Print Assumptions c02_spec.

(** When no object along the path provides a usable _cp_dispatch, the whole
    dispatcher is the reference resolver over the getattr chain: take the objects
    named by the prefixes of the path (names translated), plus the [index] attribute
    of the last; the deepest one that offers a handler wins and receives exactly
    the segments after its prefix, %2F restored ([resolve_static], 6 lines). *)
Theorem c02_spec_static : forall na root aconf gconf path,
  static_path na root path ->
  exists ii cfg,
    dispatch_default na root aconf gconf path
    = DRes (match resolve_static na root path with
            | Some (h, args) => if n_truthy h then HPage h args else HNotFound
            | None => HNotFound
            end) ii cfg None.
Proof. exact thm_spec_static. Qed.
Print Assumptions c02_spec_static.

(** The explicit out-of-fuel result of the model is unreachable. *)
Theorem c02_total : forall na root aconf path, find_handler na root aconf path <> FHFuel.
Proof. exact thm_total. Qed.
Print Assumptions c02_total.

(** Method dispatcher: the resource is exposed; the verb attribute (upper-cased
    method) is called with the restored vpath, 405 exactly when the resource has no
    (truthy) verb attribute, 404 when there is no (truthy) resource; Allow is set
    whenever the resource exists.
    "Verb methods" are what the code takes them to be: the upper-case names of
    dir(resource) ([n_verbs]), callable or not (DESIGN 7; not claimed as a defect). *)
Theorem c02_method : forall na root aconf gconf path method,
  match find_handler na root aconf path with
  | FHFound r v ii _ _ _ =>
    n_exposed r = true /\
    exists cfg,
      dispatch_method na root aconf gconf path method =
      if n_truthy r then
        DRes (match verb_handler r (upper method) with
              | Some f => HPage f (map restore v)
              | None => H405
              end) (Some ii) cfg (Some (join [44;32] (allow_of r)))
      else DRes HNotFound (Some ii) cfg None
  | FHNone _ => exists cfg, dispatch_method na root aconf gconf path method = DRes HNotFound None cfg None
  | _ => True
  end.
Proof. exact thm_method. Qed.
Print Assumptions c02_method.

(** HEAD falls back to GET exactly when there is no HEAD attribute; no other verb falls back. *)
Theorem c02_head_fallback : forall r,
  verb_lookup r s_HEAD = match getattr r s_HEAD with
                         | Some f => Some f
                         | None => getattr r s_GET
                         end.
Proof. exact verb_lookup_head. Qed.
Print Assumptions c02_head_fallback.

Theorem c02_no_other_fallback : forall r m, m <> s_HEAD -> verb_lookup r m = getattr r m.
Proof. exact verb_lookup_other. Qed.
Print Assumptions c02_no_other_fallback.

(** Allow: sorted, and its members are the verb names plus HEAD when GET exists. *)
Theorem c02_allow_sorted : forall r, Sorted sle (allow_of r).
Proof. exact allow_sorted. Qed.
Print Assumptions c02_allow_sorted.

Theorem c02_allow_members : forall r m,
  In m (allow_of r) <-> In m (n_verbs r) \/ (m = s_HEAD /\ In s_GET (n_verbs r)).
Proof. exact allow_members. Qed.
Print Assumptions c02_allow_members.

(** Non-vacuity: a static tree (un-exposed object /a with an exposed default and an
    un-exposed method s; exposed root index) on "/a/x%2Fy/z", "/a/s", "/", "/zz"; a
    tree whose _cp_dispatch pops two segments; a REST resource under HEAD / post. *)
Example c02_nonvacuous_static :
  static_path [] ex_root ex_path /\
  (exists trail, trail_of [] ex_root [] ex_path = WOk trail /\ length trail = 5%nat) /\
  dispatch_default [] ex_root [] [] ex_path
  = DRes (HPage (ex_fn 4 true) [[120;47;121]; [122]]) (Some false) [] None /\
  dispatch_default [] ex_root [] [] [47;97;47;115]
  = DRes (HPage (ex_fn 4 true) [[115]]) (Some false) [] None /\
  dispatch_default [] ex_root [] [] [47]
  = DRes (HPage (ex_fn 2 true) []) (Some true) [] None /\
  dispatch_default [] ex_root [] [] [47;122;122]
  = DRes HNotFound None [] None.
Proof. exact ex_static. Qed.
Print Assumptions c02_nonvacuous_static.

Example c02_nonvacuous_dynamic :
  dispatch_default [] ex_dynroot [] [] [47;120;47;121;47;122]
  = DRes (HPage ex_target [[122]]) (Some false) [] None.
Proof. exact ex_dynamic. Qed.
Print Assumptions c02_nonvacuous_dynamic.

Example c02_nonvacuous_method :
  dispatch_method [] ex_res [] [] [47] s_HEAD
  = DRes (HPage (ex_fn 2 false) []) (Some false) []
         (Some [71;69;84;44;32;72;69;65;68;44;32;80;85;84]) /\
  dispatch_method [] ex_res [] [] [47] [112;111;115;116]
  = DRes H405 (Some false) [] (Some [71;69;84;44;32;72;69;65;68;44;32;80;85;84]) /\
  (exists ii cfg, dispatch_method [] (ex_fn 9 false) [] [] [47] s_GET = DRes HNotFound ii cfg None).
Proof. exact ex_method. Qed.
Print Assumptions c02_nonvacuous_method.
