(** C11 - static serving and file sessions never touch files outside their
    root.  Property theorems only, for the guards that compare on a path
    separator boundary (strict = true; fixes/C11-staticdir.diff and
    fixes/C11-filesession.diff).  The guards as the code had them
    (string prefix, strict = false) are refuted in Refuted/R_C11.v.

    A result is (branch tag, HTTP status, calls); a call is (kind, path string
    handed to the OS): 0 stat/exists, 1 open for reading, 2 open for writing,
    3 unlink, 4 FileLock, 5 listdir.  [resolve p] is the lexical resolution of
    p (list of directory entries from the root); [SegPrefix a b] says b
    extends a by whole segments. *)
From Coq Require Import ZArith List Bool.
From CV Require Import Lib.Sx Lib.ListZ Model.M_paths Proof.P_paths Proof.P_paths_thm.
Import ListNotations.
Open Scope Z_scope.

(** staticdir: for every section, every path_info (hence every URL branch,
    whatever it unquotes to: "..", "%2e%2e", "..%2f", "%252e", a leading "/",
    backslashes, NUL, doubled slashes), every dir/root spelling and every file
    system, each stat/open the tool makes is on a path that resolves inside
    normpath(dir) - the index file included (index being a relative name
    without ".."). *)
Theorem c11_static_contained :
  forall section path_info dir root index fs tag st ops d,
    safe_rel index = true ->
    staticdir true section path_info dir root index fs = (tag, st, ops) ->
    eff_dir dir root = Some d ->
    forall k p, In (k, p) ops -> SegPrefix (segments (normpath d)) (resolve p).
Proof. exact thm_static_contained. Qed.
Print Assumptions c11_static_contained.

(** ... and a request whose file name resolves outside is refused with 403
    without any file-system call. *)
Theorem c11_static_refuses :
  forall section path_info dir root index fs d,
    eff_dir dir root = Some d ->
    isabs (join2 d (branch_of section path_info)) = true ->
    ~ SegPrefix (segments (normpath d)) (resolve (join2 d (branch_of section path_info))) ->
    staticdir true section path_info dir root index fs = (4, 403, []).
Proof. exact thm_static_refuses. Qed.
Print Assumptions c11_static_refuses.

(** staticfile touches the configured file and nothing else, whatever the URL. *)
Theorem c11_staticfile_fixed : forall filename root fs tag st ops f,
  staticfile filename root fs = (tag, st, ops) ->
  (if isabs filename then Some filename
   else if is_nil root then None else Some (join2 root filename)) = Some f ->
  forall k p, In (k, p) ops -> p = f.
Proof. exact thm_staticfile_fixed. Qed.
Print Assumptions c11_staticfile_fixed.

(** FileSession: for every cookie value (or none), every storage_path
    spelling, every handler action, every sequence of generated ids and every
    file system, each path handed to exists/open/unlink/FileLock resolves
    inside abspath(storage_path). *)
Theorem c11_session_contained :
  forall cwd sp_cfg id action gens fs tag st ops,
    isabs cwd = true ->
    sess_request true cwd sp_cfg id action gens fs = (tag, st, ops) ->
    forall k p, In (k, p) ops -> SegPrefix (segments (abspath cwd sp_cfg)) (resolve p).
Proof. exact thm_session_contained. Qed.
Print Assumptions c11_session_contained.

(** ... and an id whose session file would resolve outside the storage
    directory is answered 400 with nothing touched. *)
Theorem c11_session_refuses :
  forall cwd sp_cfg i action gens fs,
    isabs cwd = true ->
    ~ SegPrefix (segments (abspath cwd sp_cfg)) (resolve (sess_file (abspath cwd sp_cfg) i)) ->
    sess_request true cwd sp_cfg (Some i) action gens fs = (13, 400, []).
Proof. exact thm_session_refuses. Qed.
Print Assumptions c11_session_refuses.

(** clean_up: for every directory listing (names without a separator, as
    listdir returns them) the sweep lists the storage directory and locks,
    reads and removes only files inside it. *)
Theorem c11_cleanup_contained : forall cwd sp_cfg names tag st ops,
  isabs cwd = true ->
  Forall (fun nf : str * bool => slashfree (fst nf)) names ->
  cleanup cwd sp_cfg names = (tag, st, ops) ->
  forall k p, In (k, p) ops -> SegPrefix (segments (abspath cwd sp_cfg)) (resolve p).
Proof. exact thm_cleanup_contained. Qed.
Print Assumptions c11_cleanup_contained.

(** What the code compares (normpath) is lexical resolution: for an absolute
    path the segments of normpath(p) are exactly resolve(p) ... *)
Theorem c11_normpath_is_resolve : forall p,
  isabs p = true -> segments (normpath p) = resolve p.
Proof. exact segments_normpath_abs. Qed.
Print Assumptions c11_normpath_is_resolve.

(** ... and on a symlink-free tree a successful stat reaches exactly the
    lexically resolved location (assumption A_fs, proved for the model kernel). *)
Theorem c11_kernel_follows_resolve : forall fs p loc,
  (kstat fs p = KFile loc \/ kstat fs p = KDir loc) -> rev loc = resolve p.
Proof. exact kstat_resolve. Qed.
Print Assumptions c11_kernel_follows_resolve.

(** Non-vacuity.  dir "/r/s" mounted at "/static", index "i": "/static/a" is
    served, "/static/d" serves the index "d/i", "/static/../sx/f" is refused and
    satisfies the hypotheses of c11_static_refuses. *)
Example c11_static_nonvacuous :
  safe_rel [105] = true /\
  eff_dir s_rs [] = Some s_rs /\
  staticdir true s_static (s_static ++ [47; 97]) s_rs [] [105] ex_fs
    = (1, 200, [(0, s_rs ++ [47; 97]); (1, s_rs ++ [47; 97])]) /\
  staticdir true s_static (s_static ++ [47; 100]) s_rs [] [105] ex_fs
    = (2, 200, [(0, s_rs ++ [47; 100]); (0, s_rs ++ [47; 100; 47; 105]); (1, s_rs ++ [47; 100; 47; 105])]) /\
  staticdir true s_static (s_static ++ [47; 46; 46; 47; 115; 120; 47; 102]) s_rs [] [105] ex_fs = (4, 403, []) /\
  isabs (join2 s_rs (branch_of s_static (s_static ++ [47; 46; 46; 47; 115; 120; 47; 102]))) = true /\
  ~ SegPrefix (segments (normpath s_rs))
      (resolve (join2 s_rs (branch_of s_static (s_static ++ [47; 46; 46; 47; 115; 120; 47; 102])))).
Proof. exact ex_static_nonvacuous. Qed.
Print Assumptions c11_static_nonvacuous.

(** storage "/p": cookie "a" is adopted, locked, read and saved inside "/p";
    cookie "d/../../px/x" is answered 400 and satisfies the hypotheses of
    c11_session_refuses. *)
Example c11_session_nonvacuous :
  isabs s_p = true /\
  sess_request true s_p s_p (Some [97]) 1 [[103]] ex_fs
    = (10, 200, [(0, s_p ++ 47 :: s_prefix ++ [97]); (4, s_p ++ 47 :: s_prefix ++ [97] ++ s_lock);
                 (1, s_p ++ 47 :: s_prefix ++ [97]); (2, s_p ++ 47 :: s_prefix ++ [97])]) /\
  sess_request true s_p s_p (Some id_evil) 1 [[103]] ex_fs = (13, 400, []) /\
  ~ SegPrefix (segments (abspath s_p s_p)) (resolve (sess_file (abspath s_p s_p) id_evil)).
Proof. exact ex_session_nonvacuous. Qed.
Print Assumptions c11_session_nonvacuous.

Example c11_cleanup_nonvacuous :
  isabs s_p = true /\
  Forall (fun nf : str * bool => slashfree (fst nf)) [(s_prefix ++ [97], true); ([120], false)] /\
  cleanup s_p s_p [(s_prefix ++ [97], true); ([120], false)]
  = (20, 0, [(5, s_p); (4, s_p ++ 47 :: s_prefix ++ [97] ++ s_lock);
             (1, s_p ++ 47 :: s_prefix ++ [97]); (3, s_p ++ 47 :: s_prefix ++ [97])]).
Proof. exact ex_cleanup_nonvacuous. Qed.
Print Assumptions c11_cleanup_nonvacuous.
