(** C04 - multipart bodies are parsed byte-exactly for every content and chunking.
    Property theorems only; each is closed by [exact] of a lemma from Proof/. *)
From Coq Require Import ZArith List Bool.
From CV Require Import Lib.Sx Lib.ListZ Model.M_reader Proof.P_reader Proof.P_multipart_line
  Model.M_multipart Proof.P_multipart Proof.P_multipart_bound Proof.P_multipart_group.
Import ListNotations.
Open Scope Z_scope.

(** Byte-exact content.  In every state [s] the SizedReader can be in after
    delivering [d] (invariant [Inv] of C05: any buffer size >= 1, any
    fragmentation oracle, any buffered/pushed-back data), if what is left of the
    body is [content CRLF delimiter-line R] and no line of [content] is
    delimiter-like (starts with "--" and strips to the boundary or the close
    delimiter), then Part.read_lines_to_boundary returns exactly [content] -
    whether it ends in CR, LF, CRLF, dashes, is empty or longer than any buffer -
    tagged as spooled to a file iff a filename was given or more than
    [maxram] bytes were seen; the reader is left just after the delimiter line,
    and fp.finish() was called iff it was the close delimiter. *)
Theorem c04_lines_roundtrip : forall c body b maxram isfile d s content close dline R fuel,
  WF c -> nolimit c body -> Inv c body d s -> b_ok b ->
  no_delim_line b content ->
  delim_line b close dline R ->
  body_eff c body = d ++ (content ++ [13; 10]) ++ dline ++ R ->
  (length content + 2 <= fuel)%nat ->
  exists s', read_lines_to_boundary fuel c b maxram isfile s
             = (MOk, content, isfile || (maxram <? lenZ content), s')
             /\ Inv c body (d ++ (content ++ [13; 10]) ++ dline) s'
             /\ (close = true -> done s' = true).
Proof. exact rlb_roundtrip. Qed.
Print Assumptions c04_lines_roundtrip.

(** The cursor view used above: readline returns exactly the next line of the
    declared body for every buffer size and fragmentation (C05's refinement,
    sharpened to the value returned). *)
Theorem c04_readline_exact : forall c body d rest size s st out s',
  WF c -> nolimit c body -> Inv c body d s -> size_ok size ->
  body_eff c body = d ++ rest ->
  readline c size s = (st, out, s') ->
  st = SOk /\ out = first_line rest /\ Inv c body (d ++ first_line rest) s'.
Proof. exact readline_line. Qed.
Print Assumptions c04_readline_exact.

(** Bounded (corollary of C05): whatever the body (well-formed or not), the
    fragmentation, the buffer size and the outcome (parts delivered or HTTPError 400), process_multipart_form_data /
    _old_process_multipart have taken at most Content-Length bytes from the
    connection when they return or raise. *)
Theorem c04_bounded : forall fuel old c body fr ib maxram st m kept s' cl,
  WF c -> nolimit c body -> c_len c = Some cl ->
  process_body fuel old c ib maxram (init body fr) = (st, m, kept, s') ->
  taken s' <= cl.
Proof. exact thm_bounded. Qed.
Print Assumptions c04_bounded.

(** ... and what they consumed is a prefix of the declared body. *)
Theorem c04_consumed_prefix : forall fuel old c body fr ib maxram st m kept s',
  WF c -> nolimit c body ->
  process_body fuel old c ib maxram (init body fr) = (st, m, kept, s') ->
  exists d rest, d ++ rest = body_eff c body /\ bread s' = lenZ d.
Proof. exact thm_prefix. Qed.
Print Assumptions c04_consumed_prefix.

(** Same-name parts: after process_multipart_form_data ([old = false]) or
    _old_process_multipart ([old = true]) every name maps to the values of the
    parts sent under it, in wire order; it is a list exactly when there are
    several; nameless parts stay in request.body.parts (form-data) or are filed
    under 'parts' (old), and request.body.parts keeps its wire order. *)
Theorem c04_grouping : forall old ps m kept,
  collect old ps [] [] = (MOk, m, kept) ->
  (forall k, vals k m = wire_vals old k ps)
  /\ (forall k il vs, aget k m = Some (il, vs) -> vs <> [] /\ il = (1 <? lenZ vs))
  /\ kept = kept_of old ps.
Proof. exact thm_grouping. Qed.
Print Assumptions c04_grouping.

(** what a single part contributes: the part itself for an upload, the
    decoded bytes for a field (ISO-8859-1 declared, or ASCII content) *)
Theorem c04_value_file : forall p f, p_fname p = Some f -> part_value p = (MOk, VPart p).
Proof. exact part_value_file. Qed.
Print Assumptions c04_value_file.

Theorem c04_value_field_ascii : forall p,
  p_fname p = None -> aget s_charset (p_ctparams p) = None ->
  forallb (fun z => z <? 128) (p_body p) = true ->
  part_value p = (MOk, VField (p_body p)).
Proof. exact part_value_ascii. Qed.
Print Assumptions c04_value_field_ascii.

Example c04_grouping_nonvacuous :
  let p1 := Part (Some [97]) (Some [102]) s_text_plain [] [1; 2] true in
  let p2 := Part (Some [98]) None s_text_plain [] [120] false in
  let p3 := Part (Some [97]) None s_text_plain [] [121; 10] false in
  let p4 := Part None None s_text_plain [] [] false in
  exists m, collect false [p1; p2; p3; p4] [] [] = (MOk, m, [p4])
            /\ aget [97] m = Some (true, [VPart p1; VField [121; 10]])
            /\ aget [98] m = Some (false, [VField [120]]).
Proof. cbv zeta. eexists. split; [vm_compute; reflexivity|]. split; reflexivity. Qed.

(* c04_roundtrip - NOT PROVED in this round (checked by the differential tie only: the extracted
   [process_body] against the real code on the generator's part lists, and [encode_mp] against the
   generator's printer).  Full statement:

   forall c ib pre parts tail fr old (WF c, nolimit, c_len c = Some (lenZ body) or a larger socket content),
     valid_boundary ib = true ->
     (every line of pre is complete and none strips to "--" ++ ib) ->
     (forall p in parts, no_delim_line ("--" ++ ib) (sp_body p)
                         /\ header-safe (sp_name p) (sp_fname p) (sp_ct p)       (no dquote, backslash, CR, LF)
                         /\ is_processor (content type value of p) = false) ->
     let body := encode_mp ib pre parts tail in
     process_multipart (S (length body)) c ib maxram (init body fr)
       = (MOk, map (fun p => Part (sp_name p) (sp_fname p) (ct value) (ct params) (sp_body p)
                                  (nonempty filename || maxram <? lenZ (sp_body p))) parts, s')
   (the second half - [collect] maps the parts to name -> values in wire order - is c04_grouping above).

   The RFC form of the precondition (content does not contain CRLF "--" boundary) is FALSE for the
   faithful model: Refuted/R_C04.v c04_rfc_precondition_refuted. *)

(** Non-vacuity: the hypotheses of c04_lines_roundtrip hold on a concrete state
    (buffer of 3 bytes, fragmented socket, content with CR, LF, CRLF, a
    near-miss delimiter line and a trailing CR), and the result is the content. *)
Example c04_nonvacuous :
  let body := [97;98;13;10;45;45;98;120;10;13;  13;10; 45;45;98;13;10; 114;101;115;116] in
  let content := [97;98;13;10;45;45;98;120;10;13] in
  let b := [45;45;98] in
  let c := Cfg (Some 21) 0 3 true in
  WF c /\ nolimit c body /\ Inv c body [] (init body [1;2;1]) /\ b_ok b
  /\ no_delim_line b content /\ delim_line b false (b ++ [13;10]) [114;101;115;116]
  /\ body_eff c body = [] ++ (content ++ [13;10]) ++ (b ++ [13;10]) ++ [114;101;115;116]
  /\ exists s', read_lines_to_boundary 12 c b 1000 false (init body [1;2;1]) = (MOk, content, false, s')
                /\ taken s' <= 21.
Proof.
  cbv zeta.
  assert (W : WF (Cfg (Some 21) 0 3 true)).
  { constructor; cbn; try reflexivity; try discriminate. intros cl E. inversion E. discriminate. }
  split; [exact W|]. split; [now left|]. split; [now apply Inv_init|].
  split; [exists [98]; split; reflexivity|].
  split; [reflexivity|].
  split.
  { apply DlNext. split; [reflexivity|]. left. exists [13]. split; reflexivity. }
  split; [reflexivity|].
  eexists. split; [vm_compute; reflexivity|]. vm_compute. discriminate.
Qed.
