(** C08 - placeholder while the harness is brought up *)
From Coq Require Import ZArith List Bool.
From CV Require Import Lib.Sx Lib.ListZ Model.M_dispatch Model.M_unrepr Model.M_config.
Import ListNotations.
Open Scope Z_scope.
Example c08_stub : rcut [47;97;47;98] = Some [47;97].
Proof. reflexivity. Qed.
Print Assumptions c08_stub.
