(** C08 - the effective request config is the most-specific-wins merge, scoped by path;
    tools run exactly when the merged config turns them on; unrepr reads literals back.
    Property theorems only; each is closed by [exact] of a lemma from Proof/
    (P_config.v, P_config_tools.v, P_unrepr.v, composed in P_config_thm.v).

    Vocabulary (definitions in Model/M_dispatch.v, Model/M_config.v, Model/M_unrepr.v, Proof/P_config*.v):
    - [conf]            a Python dict key |-> value (text tokens); [uniq c]: every key once (a dict);
                        [assoc k c] = c.get(k); [overlay base c] = base.update(c);
                        [same_dict a b]: equal under every lookup;
                        [lookup_levels k levels g]: the value of k in the LAST of g :: levels that sets it.
    - [request_conf mode na root aconf gconf path method]  request.config after get_resource
                        (mode 0 = Dispatcher, else MethodDispatcher; None = the dispatcher raised);
                        [aconf] = app.config (section path |-> dict), [gconf] = cherrypy.config.
    - [find_handler], [fh_trail]  the dispatcher of C02 and the object_trail it hands to set_conf;
                        an [entry] is [name, node, nodeconf, segleft]; [root_entry] is the first one.
    - [segments path]   the non-empty "/"-separated segments; the dispatcher walks
                        [fullpath_of path = segments path ++ ["index"]]; [path_of segs] = "/s1/s2...".
    - [entry_sections aconf fp flen prev segleft]  the sections of [aconf] named by the path
                        prefixes fp[:j], flen-prev < j <= flen-segleft (the segments one trail entry
                        consumed), shallowest first, those that exist.
    - [marker fp flen e]  the dict {tools.staticdir.section: prefix} set_conf adds after a level that
                        sets tools.staticdir.dir (else nothing).
    - [trail_levels aconf fp flen prev t]  per trail entry e, in order:
                        [node_conf (e_node e)] (the object's _cp_config), then [entry_sections] for the
                        segments it consumed, then [marker];  [last_segleft prev r1]: segleft of the
                        entry before.
    - [req_levels aconf root fp rest] = [n_conf root; section "/" if any] ++ marker ++ trail_levels rest.
    - [handler_levels]  MethodDispatcher only: the verb handler's _cp_config, merged last.
    - [all_levels mode ... rest] = req_levels ++ handler_levels: every dict of the request, in merge order.
    - [remove_section p aconf]  app.config without the section named p;
      [seg_ok s]: a segment (non-empty, no "/").
    - [find_config aconf path key]  Application.find_config; [cands r]: the section names it tries for
                        the path "/" ++ r, longest first (the path, cut at each "/" from the right, "/");
                        [first_hit aconf key l]: the value of key in the first section of l that sets it.
    - [run_toolbox truthy is_none ns known config] = (request.toolmaps[ns], the tools set up
                        (Tool._setup: name, hook priority, kwargs), no exception);  [truthy v] = bool(v),
                        [is_none v] = (v is None) are inputs;  [tool_key ns t a] = "ns.t.a";
                        [tool_on] = bool(config.get("ns.t.on", False));  [lookup2 t a m] = m[t][a].
    - [build c E a]     _Builder.build over the AST forms it has a build_ method for ([c_sub c]: there is a
                        build_Sub - the repaired code; Refuted/R_C08.v has the witness for the code as
                        found);  [to_ast v] = ast.parse(repr v);  [wf_lit v]: a Python literal the model
                        represents (no opaque objects, integral float magnitudes < 10^16, dict keys None /
                        int / str / bytes / tuples of such, pairwise different);  [canon v]: v with the sign
                        of a zero component of a complex dropped (Python's own evaluation of the repr loses
                        it);  [py_eq]: Python == between values of identical nested types;
                        [zero_free v]: no complex number in v has a zero component. *)
From Coq Require Import ZArith List Bool.
From CV Require Import Lib.Sx Lib.ListZ Model.M_dispatch Model.M_unrepr Model.M_config
     Proof.P_dispatch Proof.P_dispatch_thm Proof.P_config Proof.P_config_tools Proof.P_unrepr
     Proof.P_config_thm.
Import ListNotations.
Open Scope Z_scope.

(** Whatever the tree, the sections, the global config and the path, for both dispatchers:
    request.config is the global config overlaid, in order, with the root's _cp_config, the
    section "/", then per trail entry the object's _cp_config followed by the sections for the
    path prefixes it consumed (and last the verb handler's _cp_config under MethodDispatcher). *)
Theorem c08_merge : forall mode na root aconf gconf path method cfg,
  request_conf mode na root aconf gconf path method = Some cfg ->
  exists rest,
    fh_trail (find_handler na root aconf path)
    = Some (root_entry root aconf (lenZ (fullpath_of path)) :: rest) /\
    (Forall uniq (all_levels mode na root aconf path method rest) ->
     same_dict cfg (fold_left overlay (all_levels mode na root aconf path method rest) gconf)).
Proof. exact thm_request_merge. Qed.
Print Assumptions c08_merge.

(** A default handler contributes its own _cp_config at the level of the object that owns it:
    its trail entry is inserted right after the owner's (trail index i), with the owner's segleft,
    so it contributes [n_conf d] (and the staticdir marker) and no section a second time; nothing
    deeper on the trail offered a handler. *)
Theorem c08_default_level : forall na root aconf path d v ii i T,
  find_handler na root aconf path = FHFound d v ii i true T ->
  exists trail e owner,
    trail_of na root aconf path = WOk trail /\ nthZ i trail = Some e /\
    e_node e = Some owner /\ getattr owner s_default = Some d /\
    (forall j e', i < j -> nthZ j trail = Some e' -> pick e' = None) /\
    T = insert_at (i + 1) (Entry s_default (Some d) (n_conf d) (e_segleft e)) trail /\
    (forall r, trail_levels aconf (fullpath_of path) (lenZ (fullpath_of path)) (e_segleft e)
                            (Entry s_default (Some d) (n_conf d) (e_segleft e) :: r)
               = n_conf d :: marker (fullpath_of path) (lenZ (fullpath_of path))
                                    (Entry s_default (Some d) (n_conf d) (e_segleft e))
                         ++ trail_levels aconf (fullpath_of path) (lenZ (fullpath_of path)) (e_segleft e) r).
Proof. exact thm_default_level. Qed.
Print Assumptions c08_default_level.

(** The value of every key is the one given by the last dict (in merge order) that sets it,
    else the global one ... *)
Theorem c08_value : forall mode na root aconf gconf path method cfg,
  request_conf mode na root aconf gconf path method = Some cfg ->
  exists rest,
    fh_trail (find_handler na root aconf path)
    = Some (root_entry root aconf (lenZ (fullpath_of path)) :: rest) /\
    (Forall uniq (all_levels mode na root aconf path method rest) ->
     forall k, assoc k cfg = lookup_levels k (all_levels mode na root aconf path method rest) gconf).
Proof. exact thm_request_value. Qed.
Print Assumptions c08_value.

(** ... so an entry deeper on the path always overrides a shallower one: if the dict [c] sets k
    and no dict after it does, request.config[k] is c's value - whatever the dicts before say. *)
Theorem c08_deeper_wins : forall mode na root aconf gconf path method cfg,
  request_conf mode na root aconf gconf path method = Some cfg ->
  exists rest,
    fh_trail (find_handler na root aconf path)
    = Some (root_entry root aconf (lenZ (fullpath_of path)) :: rest) /\
    forall k l1 c l2 v,
      all_levels mode na root aconf path method rest = l1 ++ c :: l2 ->
      Forall uniq (all_levels mode na root aconf path method rest) ->
      assoc k c = Some v -> Forall (fun c' => assoc k c' = None) l2 ->
      assoc k cfg = Some v.
Proof. exact thm_deeper_wins. Qed.
Print Assumptions c08_deeper_wins.

(** A key nobody on the path sets keeps its global value. *)
Theorem c08_global_kept : forall mode na root aconf gconf path method cfg,
  request_conf mode na root aconf gconf path method = Some cfg ->
  exists rest,
    fh_trail (find_handler na root aconf path)
    = Some (root_entry root aconf (lenZ (fullpath_of path)) :: rest) /\
    forall k,
      Forall uniq (all_levels mode na root aconf path method rest) ->
      Forall (fun c => assoc k c = None) (all_levels mode na root aconf path method rest) ->
      assoc k cfg = assoc k gconf.
Proof. exact thm_nobody_sets_request. Qed.
Print Assumptions c08_global_kept.

(** An application section overrides _cp_config at the same level: for the trail entry e (after
    r1), a section [sec] among the sections of e's level that sets k, with nothing after it setting
    k (later sections of the level, the marker, deeper levels, the verb handler), decides
    request.config[k] - whatever e's object says in its _cp_config. *)
Theorem c08_section_beats_cp_config : forall mode na root aconf gconf path method cfg,
  request_conf mode na root aconf gconf path method = Some cfg ->
  exists rest,
    fh_trail (find_handler na root aconf path)
    = Some (root_entry root aconf (lenZ (fullpath_of path)) :: rest) /\
    forall r1 e r2 s1 sec s2 k v,
      rest = r1 ++ e :: r2 ->
      entry_sections aconf (fullpath_of path) (lenZ (fullpath_of path))
                     (last_segleft (lenZ (fullpath_of path)) r1) (e_segleft e) = s1 ++ sec :: s2 ->
      Forall uniq (all_levels mode na root aconf path method rest) ->
      assoc k sec = Some v ->
      Forall (fun c => assoc k c = None)
             (s2 ++ marker (fullpath_of path) (lenZ (fullpath_of path)) e
                 ++ trail_levels aconf (fullpath_of path) (lenZ (fullpath_of path)) (e_segleft e) r2
                 ++ handler_levels mode na root aconf path method) ->
      assoc k cfg = Some v.
Proof. exact thm_section_beats. Qed.
Print Assumptions c08_section_beats_cp_config.

(** The same at the root: the section "/" beats the root object's _cp_config. *)
Theorem c08_root_section_beats_cp_config : forall mode na root aconf gconf path method cfg,
  request_conf mode na root aconf gconf path method = Some cfg ->
  exists rest,
    fh_trail (find_handler na root aconf path)
    = Some (root_entry root aconf (lenZ (fullpath_of path)) :: rest) /\
    forall sec k v,
      assoc s_slash aconf = Some sec ->
      Forall uniq (all_levels mode na root aconf path method rest) ->
      assoc k sec = Some v ->
      Forall (fun c => assoc k c = None)
             (marker (fullpath_of path) (lenZ (fullpath_of path))
                     (root_entry root aconf (lenZ (fullpath_of path)))
                 ++ trail_levels aconf (fullpath_of path) (lenZ (fullpath_of path))
                                 (lenZ (fullpath_of path)) rest
                 ++ handler_levels mode na root aconf path method) ->
      assoc k cfg = Some v.
Proof. exact thm_root_section_beats. Qed.
Print Assumptions c08_root_section_beats_cp_config.

(** An entry for one path never affects requests outside that path's subtree: a section named
    by the segment list q contributes nothing to a request whose segments (+ the hidden index
    token) do not have q as a prefix - whatever STRING prefix the two paths share (the section
    "/ab" and the request "/abc"); removing the section changes nothing ... *)
Theorem c08_scoped : forall q mode na root aconf gconf path method,
  q <> [] -> Forall seg_ok q ->
  (forall suf, segments path ++ [s_index] <> q ++ suf) ->
  request_conf mode na root (remove_section (path_of q) aconf) gconf path method
  = request_conf mode na root aconf gconf path method.
Proof. exact thm_scoped_segments. Qed.
Print Assumptions c08_scoped.

(** ... and neither does adding it or changing its content in any way. *)
Theorem c08_scoped_any_change : forall q mode na root aconf aconf' gconf path method,
  q <> [] -> Forall seg_ok q ->
  (forall suf, segments path ++ [s_index] <> q ++ suf) ->
  remove_section (path_of q) aconf = remove_section (path_of q) aconf' ->
  request_conf mode na root aconf gconf path method
  = request_conf mode na root aconf' gconf path method.
Proof. exact thm_scoped_change. Qed.
Print Assumptions c08_scoped_any_change.

(** Application.find_config, for every path "/..." (empty segments and a trailing slash
    included; "" is looked up as "/"): the value from the longest section prefix that sets the
    key, else the default; the explicit out-of-fuel result of the model is unreachable. *)
Theorem c08_find_config : forall aconf r key,
  find_config aconf (47 :: r) key = first_hit aconf key (cands r).
Proof. exact thm_find_config_gen. Qed.
Print Assumptions c08_find_config.

Theorem c08_find_config_total : forall aconf path key, find_config aconf path key <> FCFuel.
Proof. exact thm_find_config_total. Qed.
Print Assumptions c08_find_config_total.

(** A tool runs exactly when the effective config turns it on, once, with the merged arguments:
    when the toolbox namespace ns raises nothing, the tools set up are pairwise different; tool t
    is set up iff bool(config.get("ns.t.on", False)) (t is the text between the first two dots); it is a
    tool of the toolbox; its kwargs are exactly the merged "ns.t.*" entries minus [on] and
    [priority]; [priority], unless absent or None, becomes the hook priority. *)
Theorem c08_tools : forall truthy is_none ns known config m l,
  ~ In 46 ns -> uniq config ->
  run_toolbox truthy is_none ns known config = (m, l, true) ->
  NoDup (map s_tool l) /\
  forall t,
    ((exists s, In s l /\ s_tool s = t) <-> (~ In 46 t /\ tool_on truthy ns t config = true)) /\
    (forall s, In s l -> s_tool s = t ->
       mem_str t known = true /\
       (forall a, a <> s_on -> a <> s_priority ->
                  assoc a (s_kwargs s) = assoc (tool_key ns t a) config) /\
       assoc s_on (s_kwargs s) = None /\
       assoc s_priority (s_kwargs s) = None /\
       s_prio s = match assoc (tool_key ns t s_priority) config with
                  | Some v => if is_none v then None else Some v
                  | None => None
                  end).
Proof. exact thm_tools. Qed.
Print Assumptions c08_tools.

(** request.toolmaps as the handler sees it: a probe toolmaps[ns][t][a] is the probe
    config["ns.t.a"] of the merged config. *)
Theorem c08_toolmaps : forall truthy is_none ns known config m l t a,
  ~ In 46 ns -> ~ In 46 t -> uniq config ->
  run_toolbox truthy is_none ns known config = (m, l, true) ->
  lookup2 t a m = assoc (ns ++ 46 :: t ++ 46 :: a) config.
Proof. exact thm_toolmap_of_config. Qed.
Print Assumptions c08_toolmaps.

(** An INI value evaluates to the same Python object as the literal it is the repr of (repaired
    builder: [c_sub c]; as found: only when the repr has no binary minus, see Refuted/R_C08.v):
    by induction over nested lists / tuples / dicts of None, bools, ints, floats, complex numbers
    (negative parts included), strings and bytes, build (ast.parse (repr v)) is [canon v], which is
    == v with identical nested types, and is v itself when no complex number in v has a zero component.

    PARTIAL in one respect.  Full statement:  the same for every Python literal, i.e. with [wf_lit]
    not restricting dict keys.  Missing: dict literals whose keys are (or contain) bools, floats or
    complex numbers - which keys collide is decided by Python's cross-type numeric equality
    (1 == 1.0 == True), which the model does not have ([mk_dict] answers EUnknown there; the check
    compares those INI values with the dict values directly, without the model). *)
Theorem c08_unrepr_partial : forall c E v,
  wf_lit v = true -> c_sub c = true \/ sub_free v = true ->
  build c E (to_ast v) = Ok (canon v) /\ py_eq (canon v) v = true /\
  (zero_free v = true -> canon v = v).
Proof. exact thm_unrepr_full. Qed.
Print Assumptions c08_unrepr_partial.

(** Non-vacuity.  A tree  root{k:r} - /a{k:a, l:a2} (un-exposed, exposed default{n:d}) - /a/b{k:b}
    (exposed), sections "/"{k:S/} "/a"{k:Sa, l:Sa2} "/a/b"{m:Sab} "/ab"{k:LEAK}, global {k:g, o:g5}:
    "/a/b" and "/a/x" (served by the default handler) meet the hypotheses of c08_merge / c08_value /
    c08_deeper_wins / c08_global_kept / c08_default_level, with the levels spelled out. *)
Example c08_nonvacuous_merge :
  request_conf 0 [] c8_root c8_aconf c8_g c8_p_ab []
  = Some [([107], [98]); ([111], [103;53]); ([108], [83;97;50]); ([109], [83;97;98])] /\
  (let rest := rest_of (find_handler [] c8_root c8_aconf c8_p_ab) in
   fh_trail (find_handler [] c8_root c8_aconf c8_p_ab)
   = Some (root_entry c8_root c8_aconf (lenZ (fullpath_of c8_p_ab)) :: rest) /\
   all_levels 0 [] c8_root c8_aconf c8_p_ab [] rest
   = [[([107], [114])]; [([107], [83;47])];
      [([107], [97]); ([108], [97;50])]; [([107], [83;97]); ([108], [83;97;50])];
      [([107], [98])]; [([109], [83;97;98])]; []] /\
   Forall uniq (all_levels 0 [] c8_root c8_aconf c8_p_ab [] rest)) /\
  request_conf 0 [] c8_root c8_aconf c8_g c8_p_ax []
  = Some [([107], [83;97]); ([111], [103;53]); ([108], [83;97;50]); ([110], [100])] /\
  (let rest := rest_of (find_handler [] c8_root c8_aconf c8_p_ax) in
   fh_trail (find_handler [] c8_root c8_aconf c8_p_ax)
   = Some (root_entry c8_root c8_aconf (lenZ (fullpath_of c8_p_ax)) :: rest) /\
   all_levels 0 [] c8_root c8_aconf c8_p_ax [] rest
   = [[([107], [114])]; [([107], [83;47])];
      [([107], [97]); ([108], [97;50])]; [([107], [83;97]); ([108], [83;97;50])];
      [([110], [100])]; []; []] /\
   Forall uniq (all_levels 0 [] c8_root c8_aconf c8_p_ax [] rest)) /\
  (exists v ii T, find_handler [] c8_root c8_aconf c8_p_ax = FHFound c8_d v ii 1 true T).
Proof. exact ex8_merge. Qed.
Print Assumptions c08_nonvacuous_merge.

(** The hypotheses of c08_section_beats_cp_config on "/a/b": at the level of /a the object says
    l = a2, the section "/a" says l = Sa2, nothing deeper sets l. *)
Example c08_nonvacuous_section_beats :
  let fp := fullpath_of c8_p_ab in
  let rest := rest_of (find_handler [] c8_root c8_aconf c8_p_ab) in
  exists e r2 sec,
    rest = [] ++ e :: r2 /\
    entry_sections c8_aconf fp (lenZ fp) (last_segleft (lenZ fp) []) (e_segleft e) = [] ++ sec :: [] /\
    assoc [108] (node_conf (e_node e)) = Some [97;50] /\
    assoc [108] sec = Some [83;97;50] /\
    Forall (fun c => assoc [108] c = None)
           ([] ++ marker fp (lenZ fp) e ++ trail_levels c8_aconf fp (lenZ fp) (e_segleft e) r2
               ++ handler_levels 0 [] c8_root c8_aconf c8_p_ab []).
Proof. exact ex8_section_beats. Qed.
Print Assumptions c08_nonvacuous_section_beats.

(** The hypotheses of c08_scoped for the section "/ab" and the request "/abc" (k stays S/); on
    "/ab" itself the section applies (k = LEAK). *)
Example c08_nonvacuous_scoped :
  [[97;98]] <> [] /\ Forall seg_ok [[97;98]] /\
  (forall suf, segments c8_p_abc ++ [s_index] <> [[97;98]] ++ suf) /\
  path_of [[97;98]] = [47;97;98] /\
  request_conf 0 [] c8_root c8_aconf c8_g c8_p_abc [] = Some [([107], [83;47]); ([111], [103;53])] /\
  request_conf 0 [] c8_root c8_aconf c8_g [47;97;98] []
  = Some [([107], [76;69;65;75]); ([111], [103;53])].
Proof. exact ex8_scoped. Qed.
Print Assumptions c08_nonvacuous_scoped.

(** find_config: the candidates of "/a/b/"; k for "/a/b/c" comes from "/a", for "/abc" from "/". *)
Example c08_nonvacuous_find_config :
  cands [97;47;98;47] = [[47;97;47;98;47]; [47;97;47;98]; [47;97]; [47]] /\
  find_config c8_aconf [47;97;47;98;47;99] [107] = FCFound [83;97] /\
  find_config c8_aconf c8_p_abc [107] = FCFound [83;47] /\
  find_config c8_aconf c8_p_ab [109] = FCFound [83;97;98] /\
  find_config c8_aconf c8_p_ab [122] = FCDefault.
Proof. exact ex8_find_config. Qed.
Print Assumptions c08_nonvacuous_find_config.

(** tools.gz.on = True, level = 9, priority = 70; tools.off.on = False, x = 1; other.key = z;
    tools.np.on = 1, priority = None: gz is set up with priority 70 and kwargs {level: 9}, np with
    the default priority and no kwargs, off is not. *)
Example c08_nonvacuous_tools :
  ~ In 46 c8_s_tools /\ uniq c8_tconf /\
  run_toolbox c8_truthy c8_is_none c8_s_tools [[103;122]; [110;112]] c8_tconf
  = ([([103;122], [(s_on, [84;114;117;101]); ([108;101;118;101;108], [57]); (s_priority, [55;48])]);
      ([111;102;102], [(s_on, [70;97;108;115;101]); ([120], [49])]);
      ([110;112], [(s_on, [49]); (s_priority, [78;111;110;101])])],
     [Setup [103;122] (Some [55;48]) [([108;101;118;101;108], [57])];
      Setup [110;112] None []],
     true).
Proof. exact ex8_tools. Qed.
Print Assumptions c08_nonvacuous_tools.

(** {'a': [(1-2j), -1.5, (-7, None)], 3: (-0-2j)} (a zero component: canonicalised) and
    [(1-2j), -3] (read back unchanged); both need build_Sub. *)
Example c08_nonvacuous_unrepr :
  wf_lit ex_lit = true /\ sub_free ex_lit = false /\ zero_free ex_lit = false /\
  build (Cfg true) (Env [] [] []) (to_ast ex_lit) = Ok (canon ex_lit) /\
  wf_lit ex_lit2 = true /\ sub_free ex_lit2 = false /\ zero_free ex_lit2 = true /\
  build (Cfg true) (Env [] [] []) (to_ast ex_lit2) = Ok ex_lit2 /\
  build (Cfg false) (Env [] [] []) (to_ast ex_lit2) = Err ENoBuilder.
Proof. exact ex8_unrepr. Qed.
Print Assumptions c08_nonvacuous_unrepr.
