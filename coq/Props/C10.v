(** C10 - requests are isolated from one another across time and threads.
    Property theorems only; each is closed by [exact] of a lemma from Proof/.

    The model (Model/M_isolation.v) is a heap with an allocator: class-level root
    objects, a [serving] map owner -> slot, and per-owner steps OBegin (create
    the per-request / per-application attributes according to the table of
    initialisation kinds) / OMut (a per-request mutation through the owner's own
    attribute) / OObserve (the probe handler's snapshot) / OEnd.  An owner is a
    thread's slot of [cherrypy.serving] or an application instance.  The table is
    universally quantified; vcheck/props/c10.py regenerates it from the sources on
    every run and checks the two hypotheses [forallb is_fresh_entry] and [covers]
    for it by vm_compute (tie_isolation_fields, tie_isolation_covers). *)
From Coq Require Import ZArith List Bool.
From CV Require Import Lib.Sx Lib.ListZ Model.M_isolation Proof.P_isolation Proof.P_isolation_thm.
Import ListNotations.
Open Scope Z_scope.

(** Frame.  If every attribute in the table has kind FreshCopy or FreshEmpty
    (and every field has a row), then in every state reachable by ANY schedule:
    no object a step writes is a class-level root; [writes] is honest (every
    object outside it keeps its content); so every class-level root still has
    the content it had before the first request. *)
Theorem c10_frame : forall tbl,
  forallb is_fresh_entry tbl = true -> covers tbl = true ->
  forall h0 pre e,
  let st := fst (run tbl (init h0) pre) in
  (forall o, In o (writes tbl st e) -> is_root o = false)
  /\ (forall o, ~ In o (writes tbl st e) -> hget (heap_of (fst (step tbl st e))) o = hget (heap_of st) o)
  /\ (forall f, In f all_fields -> hget (heap_of st) (root f) = hget h0 (root f)).
Proof. exact thm_frame. Qed.
Print Assumptions c10_frame.

(** History independence.  For all histories [hist] (sequences of requests of
    any owners with any operations) and every request [r = (t, ops)]: the
    outputs of [hist ++ [r]] are the outputs of [hist] followed by exactly what
    [r] outputs as the only request the process ever served. *)
Theorem c10_history_independent : forall tbl,
  forallb is_fresh_entry tbl = true -> covers tbl = true ->
  forall h0 hist t ops,
  outputs tbl h0 (hist ++ [(t, ops)]) = outputs tbl h0 hist ++ outputs tbl h0 [(t, ops)].
Proof. exact thm_history_independent. Qed.
Print Assumptions c10_history_independent.

(** ... hence every request of every history observes its first-request baseline. *)
Theorem c10_every_request_alone : forall tbl,
  forallb is_fresh_entry tbl = true -> covers tbl = true ->
  forall h0 hist,
  outputs tbl h0 hist = flat_map (fun r => outputs tbl h0 [r]) hist.
Proof. exact thm_every_request_alone. Qed.
Print Assumptions c10_every_request_alone.

(** Thread locality.  For EVERY interleaving [sched] of the steps of any number
    of owners (no scheduler: any list of (owner, op)), the outputs of owner [t]
    are those of its own steps run alone in their order. *)
Theorem c10_thread_local : forall tbl,
  forallb is_fresh_entry tbl = true -> covers tbl = true ->
  forall h0 sched t,
  outs_of t (snd (run tbl (init h0) sched)) = snd (run tbl (init h0) (proj t sched)).
Proof. exact thm_thread_local. Qed.
Print Assumptions c10_thread_local.

(** Non-vacuity: a table with both fresh kinds satisfies the hypotheses, and on
    it two threads whose requests overlap (thread 2 mutates its hooks and params
    and observes while thread 1 is between its mutation and its observation, the
    class-level hooks hold mark 7) observe: thread 1 the class hooks + its own
    mark, thread 2 the class hooks + its own marks, nothing of each other. *)
Definition ex_table : table :=
  [(0, FreshCopy); (1, FreshCopy); (2, FreshCopy); (3, FreshEmpty); (4, FreshEmpty); (5, FreshEmpty);
   (6, FreshEmpty); (7, FreshEmpty); (8, FreshCopy); (9, FreshEmpty); (10, FreshEmpty); (11, FreshEmpty);
   (12, FreshCopy); (13, FreshCopy); (14, FreshCopy); (15, FreshEmpty); (16, FreshEmpty); (17, FreshCopy);
   (18, FreshCopy); (19, FreshCopy); (20, FreshCopy); (21, FreshCopy)].
Definition ex_sched : list (Z * op) :=
  [(1, OBegin); (1, OMut 0 100); (2, OBegin); (2, OMut 0 200); (2, OMut 4 201); (2, OObserve);
   (1, OObserve); (2, OEnd); (1, OEnd)].

Example c10_hypotheses_satisfiable :
  forallb is_fresh_entry ex_table = true /\ covers ex_table = true
  /\ let outs := snd (run ex_table (init [(0, [7])]) ex_sched) in
     map (fun o => (fst o, option_map (fun s => (hget s 0, hget s 4)) (snd o))) outs
     = [(2, Some ([7; 200], [201])); (1, Some ([7; 100], []))]
  /\ outs_of 1 outs = snd (run ex_table (init [(0, [7])]) (proj 1 ex_sched))
  /\ hget (heap_of (fst (run ex_table (init [(0, [7])]) ex_sched))) (root 0) = [7].
Proof. vm_compute. repeat split; reflexivity. Qed.
Print Assumptions c10_hypotheses_satisfiable.
