(** C16 - conditional and range requests obey their validators and byte ranges.
    Property theorems only; each is closed by [exact] of a lemma from Proof/.
    The range theorems are about the repaired code ([cfg_fixed]: fixes/C16-getranges-invalid.diff
    and fixes/C16-contentrange.diff); Refuted/R_C16.v has the witnesses for the code as written. *)
From Coq Require Import ZArith List Bool.
From CV Require Import Lib.Sx Lib.ListZ Model.M_ranges Model.M_validators
  Proof.P_ranges Proof.P_ranges_thm Proof.P_validators.
Import ListNotations.
Open Scope Z_scope.

(** For every header produced by the byte-range grammar - the unit "bytes" in any letter case,
    "=", a non-empty comma-separated list of specs  OWS [first] OWS "-" OWS [last] OWS  (digit
    strings of any length, leading zeros allowed, not both empty) - and every length,
    get_ranges is the declarative slice list: first-last clamped to EOF, open-ended, suffix,
    specs starting at/after EOF and empty suffixes dropped, None when some last < first. *)
Theorem c16_ranges_spec : forall u ts len,
  unit_is_bytes u = true -> ts <> [] -> forallb wf_tspec ts = true -> 0 <= len ->
  get_ranges cfg_fixed (Some (render_header u ts)) len = ranges_spec len (map abs_spec ts).
Proof. exact thm_ranges_spec. Qed.
Print Assumptions c16_ranges_spec.

(** Whatever the Range header (grammatical or not): a single-range 206 announces
    "bytes a-(b-1)/len" with 0 <= a < b <= len and carries exactly content[a:b]. *)
Theorem c16_206_single : forall h content ctype boundary cr n body,
  serve cfg_fixed true h content ctype boundary = SvSingle cr n body ->
  exists a b,
    get_ranges cfg_fixed h (lenZ content) = GrList [(a, b)]
    /\ 0 <= a /\ a < b /\ b <= lenZ content
    /\ cr = s_bytes_sp ++ content_range_text a b (lenZ content)
    /\ n = b - a
    /\ body = sliceZ a b content
    /\ lenZ body = b - a.
Proof. exact thm_206_single. Qed.
Print Assumptions c16_206_single.

(** ... and every part of a multipart/byteranges 206 does ([part_text] spells the part out:
    "--" boundary CRLF "Content-type: " ctype CRLF "Content-range: bytes a-(b-1)/len" CRLF CRLF
    content[a:b] CRLF). *)
Theorem c16_206_multi : forall h content ctype boundary ct body,
  serve cfg_fixed true h content ctype boundary = SvMulti ct body ->
  exists parts,
    get_ranges cfg_fixed h (lenZ content) = GrList parts
    /\ (2 <= length parts)%nat
    /\ Forall (fun r => 0 <= fst r /\ fst r < snd r /\ snd r <= lenZ content
                        /\ lenZ (sliceZ (fst r) (snd r) content) = snd r - fst r) parts
    /\ ct = s_mp_ct ++ boundary
    /\ body = s_crlf ++ concat (map (part_text boundary ctype content) parts)
              ++ s_dd ++ boundary ++ s_dd ++ s_crlf.
Proof. exact thm_206_multi. Qed.
Print Assumptions c16_206_multi.

(** The numbers in those header texts are the decimal numerals of a, b-1, len: reading the
    digits back ([dval], what int() does on ASCII digits) gives the number. *)
Theorem c16_decimal_faithful : forall n, 0 <= n -> all_digits (dec_Z n) = true /\ dval (dec_Z n) 0 = n.
Proof. exact dec_Z_faithful. Qed.
Print Assumptions c16_decimal_faithful.

(** A 416 carries "bytes */len" ... *)
Theorem c16_416 : forall h content ctype boundary cr,
  serve cfg_fixed true h content ctype boundary = Sv416 cr ->
  get_ranges cfg_fixed h (lenZ content) = GrList [] /\ cr = s_bytes_star ++ dec_Z (lenZ content).
Proof. exact thm_416. Qed.
Print Assumptions c16_416.

(** ... and a header of the grammar is answered 416 exactly when it is unsatisfiable (no spec
    invalid, no spec selecting a byte). *)
Theorem c16_416_iff_unsatisfiable : forall u ts content ctype boundary,
  unit_is_bytes u = true -> ts <> [] -> forallb wf_tspec ts = true ->
  (serve cfg_fixed true (Some (render_header u ts)) content ctype boundary
   = Sv416 (s_bytes_star ++ dec_Z (lenZ content))
   <-> existsb (spec_invalid (lenZ content)) (map abs_spec ts) = false
       /\ Forall (fun s => spec_slice (lenZ content) s = None) (map abs_spec ts)).
Proof. exact thm_416_grammar. Qed.
Print Assumptions c16_416_iff_unsatisfiable.

(** A syntactically invalid Range header (no "=", a unit other than bytes, a list element that
    is not a spec) is ignored: the whole entity goes out ... *)
Theorem c16_invalid_ignored : forall h content ctype boundary,
  header_invalid h = true ->
  serve cfg_fixed true (Some h) content ctype boundary = SvWhole content.
Proof. exact thm_invalid_ignored. Qed.
Print Assumptions c16_invalid_ignored.

(** ... [header_invalid] leaves out nothing: a header it does not reject is one of the grammar,
    to which [c16_ranges_spec] applies ... *)
Theorem c16_invalid_or_grammar : forall h,
  header_invalid h = false ->
  exists u ts, unit_is_bytes u = true /\ ts <> [] /\ forallb wf_tspec ts = true /\ h = render_header u ts.
Proof. exact thm_grammar_complete. Qed.
Print Assumptions c16_invalid_or_grammar.

(** ... a grammatical header with last < first is ignored as well ... *)
Theorem c16_invalid_spec_ignored : forall u ts content ctype boundary,
  unit_is_bytes u = true -> ts <> [] -> forallb wf_tspec ts = true ->
  existsb (spec_invalid (lenZ content)) (map abs_spec ts) = true ->
  serve cfg_fixed true (Some (render_header u ts)) content ctype boundary = SvWhole content.
Proof. exact thm_grammar_invalid_whole. Qed.
Print Assumptions c16_invalid_spec_ignored.

(** ... and no header value at all makes get_ranges raise (no 500). *)
Theorem c16_no_crash : forall clamp p h content ctype boundary w,
  serve (RCfg true clamp) p h content ctype boundary <> SvCrash w.
Proof. exact thm_no_crash. Qed.
Print Assumptions c16_no_crash.

(** HTTP/1.0 requests always get the whole entity, whatever the Range header (either variant). *)
Theorem c16_http10_whole : forall c range content ctype boundary,
  serve c false range content ctype boundary = SvWhole content.
Proof. exact thm_http10_whole. Qed.
Print Assumptions c16_http10_whole.

(** The decision computed by validate_since followed by validate_etags is the decision table
    of the property text over four conditions with their stated meaning: 412 on a failed
    If-Unmodified-Since / If-Match, 304 (GET/HEAD) or 412 (other methods) on a matching
    If-Modified-Since / If-None-Match, "*" and lists included, comparison by equality. *)
Theorem c16_validators : forall m etag lastmod im inm ims ius,
  no_semicolon im -> no_semicolon inm ->
  exists f_ius m_ims f_im m_inm,
    (f_ius = true <-> failed_ius lastmod ius) /\
    (m_ims = true <-> matched_ims lastmod ims) /\
    (f_im = true <-> failed_im etag im) /\
    (m_inm = true <-> matched_inm etag inm) /\
    decide m etag lastmod im inm ims ius = decision_table (safe_method m) f_ius m_ims f_im m_inm.
Proof. exact thm_validators. Qed.
Print Assumptions c16_validators.

(** The same, read row by row: 304 only for GET/HEAD and only on a match; 412 only on a failed
    precondition or a match with another method; the full response exactly when nothing fires;
    only-412 conditions give 412, only-304 conditions give 304 (412 for other methods). *)
Theorem c16_validators_rows : forall m etag lastmod im inm ims ius,
  no_semicolon im -> no_semicolon inm ->
  let d := decide m etag lastmod im inm ims ius in
  (d = D304 -> safe_method m = true /\ (matched_ims lastmod ims \/ matched_inm etag inm)) /\
  (d = D412 -> failed_ius lastmod ius \/ failed_im etag im
               \/ (safe_method m = false /\ (matched_ims lastmod ims \/ matched_inm etag inm))) /\
  (d = DPass <-> ~ failed_ius lastmod ius /\ ~ matched_ims lastmod ims
                 /\ ~ failed_im etag im /\ ~ matched_inm etag inm) /\
  (failed_ius lastmod ius \/ failed_im etag im ->
   ~ matched_ims lastmod ims -> ~ matched_inm etag inm -> d = D412) /\
  (~ failed_ius lastmod ius -> ~ failed_im etag im ->
   matched_ims lastmod ims \/ matched_inm etag inm ->
   d = if safe_method m then D304 else D412) /\
  d <> DUnsupported.
Proof. exact thm_304_412_pass. Qed.
Print Assumptions c16_validators_rows.

(** For a handler-generated body under tools.etags the status sent is that decision. *)
Theorem c16_status_is_decision : forall c q r,
  r_is_file r = false -> r_etags_on r = true ->
  o_status (respond c q r)
  = match decide (q_method q) (etag_effective (r_etag_set r) (r_autotags r) 200 (r_auto_etag r))
                 (r_lastmod r) (q_im q) (q_inm q) (q_ims q) (q_ius q) with
    | DPass => 200 | D304 => 304 | D412 => 412 | DUnsupported => 0
    end.
Proof. exact thm_respond_decide. Qed.
Print Assumptions c16_status_is_decision.

(** A 304 carries no body and none of Content-Range / Content-Length / Content-Type, and is
    only ever sent to GET or HEAD - for every resource, request and variant of the code. *)
Theorem c16_304_empty : forall c q r,
  o_status (respond c q r) = 304 ->
  o_body (respond c q r) = Some [] /\ o_cr (respond c q r) = None
  /\ o_cl (respond c q r) = None /\ o_ct (respond c q r) = None
  /\ safe_method (q_method q) = true.
Proof. exact thm_304_empty. Qed.
Print Assumptions c16_304_empty.

(* ------------------------------------------------------------------ *)
(** Non-vacuity. *)

(** "Bytes=4-6, 2-5 ,-1,0-100,20-30,-0" on 14 bytes: well-formed, and get_ranges gives
    [(4,7); (2,6); (13,14); (0,14)] - clamped, the spec beyond EOF and the empty suffix dropped. *)
Example c16_grammar_nonvacuous :
  let u := [66;121;116;101;115] in
  let ts := [TSpec [] [52] [] [] [54] []; TSpec [32] [50] [] [] [53] [32]; TSpec [] [] [] [] [49] [];
             TSpec [] [48] [] [] [49;48;48] []; TSpec [] [50;48] [] [] [51;48] []; TSpec [] [] [] [] [48] []] in
  unit_is_bytes u = true /\ ts <> [] /\ forallb wf_tspec ts = true
  /\ render_header u ts = [66;121;116;101;115;61;52;45;54;44;32;50;45;53;32;44;45;49;44;48;45;49;48;48;44;
                           50;48;45;51;48;44;45;48]
  /\ get_ranges cfg_fixed (Some (render_header u ts)) 14 = GrList [(4,7); (2,6); (13,14); (0,14)].
Proof. exact ex_grammar_nonvacuous. Qed.
Print Assumptions c16_grammar_nonvacuous.

(** the three response shapes and the invalid class are all inhabited:
    "bytes=2-5" -> 206 "bytes 2-5/14" "llo,";  "bytes=0-100,2-3" -> multipart;
    "bytes=20-" -> 416 "bytes */14";  "bytes=abc", "bytes", "bytes=1-2x", "items=0-3" invalid *)
Example c16_serve_nonvacuous :
  serve cfg_fixed true (Some [98;121;116;101;115;61;50;45;53]) ex_hello [116] [66]
  = SvSingle [98;121;116;101;115;32;50;45;53;47;49;52] 4 [108;108;111;44]
  /\ (exists ct body, serve cfg_fixed true (Some [98;121;116;101;115;61;48;45;49;48;48;44;50;45;51])
                            ex_hello [116] [66] = SvMulti ct body)
  /\ serve cfg_fixed true (Some [98;121;116;101;115;61;50;48;45]) ex_hello [116] [66]
     = Sv416 [98;121;116;101;115;32;42;47;49;52]
  /\ header_invalid [98;121;116;101;115;61;97;98;99] = true
  /\ header_invalid [98;121;116;101;115] = true
  /\ header_invalid [98;121;116;101;115;61;49;45;50;120] = true
  /\ header_invalid [105;116;101;109;115;61;48;45;51] = true
  /\ header_invalid [98;121;116;101;115;61;50;45;53] = false.
Proof. exact ex_serve_nonvacuous. Qed.
Print Assumptions c16_serve_nonvacuous.

(** If-None-Match: "x", "v1" against ETag "v1" with a non-matching If-Modified-Since:
    304 for GET, 412 for POST; a failing If-Match gives 412; no condition, 200. *)
Example c16_validators_nonvacuous :
  let etag := Some [34;118;49;34] in
  let lm := Some [83;117;110] in
  let inm := Some [34;120;34;44;32;34;118;49;34] in
  no_semicolon inm /\ no_semicolon None
  /\ matched_inm etag inm /\ ~ matched_ims lm (Some [77;111;110])
  /\ decide 0 etag lm None inm (Some [77;111;110]) None = D304
  /\ decide 2 etag lm None inm (Some [77;111;110]) None = D412
  /\ decide 0 etag lm (Some [34;120;34]) None None None = D412
  /\ decide 0 etag lm None None None None = DPass
  /\ o_status (respond cfg_fixed (PReq 0 true None None inm None None)
                 (PRes false true false ex_hello [116] [66] None etag [])) = 304.
Proof. exact ex_validators_nonvacuous. Qed.
Print Assumptions c16_validators_nonvacuous.
