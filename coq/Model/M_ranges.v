(** Model of cherrypy.lib.httputil.get_ranges and cherrypy.lib.static._serve_fileobj.
    Strings are [list Z] (code points), file contents [list Z] (bytes).
    Every place where the Python code can raise (tuple unpacking of a split,
    int()) is an explicit [GrCrash].  Two independent flags select the code as
    written (both false) or the repaired code:
      [f_strict]  fixes/C16-getranges-invalid.diff  (syntax checked by a regular expression,
                  unit must be "bytes"; anything else => None, i.e. header ignored)
      [f_clamp]   fixes/C16-contentrange.diff       (last-byte-pos clamped to EOF inside
                  get_ranges; a suffix that selects no byte is dropped)
    Definitions only; proofs live in Proof/P_ranges*.v. *)
From Coq Require Import ZArith List Bool.
From CV Require Import Lib.Sx Lib.ListZ.
Import ListNotations.
Open Scope Z_scope.

Record rcfg := RCfg { f_strict : bool; f_clamp : bool }.
Definition cfg_written : rcfg := RCfg false false.
Definition cfg_fixed : rcfg := RCfg true true.

(* ------------------------------------------------------------------ *)
(** * Python string primitives used by the anchored code *)

Definition ch_eq : Z := 61.     (* '=' *)
Definition ch_comma : Z := 44.  (* ',' *)
Definition ch_dash : Z := 45.   (* '-' *)
Definition ch_plus : Z := 43.   (* '+' *)
Definition ch_us : Z := 95.     (* '_' *)

Definition is_digit (c : Z) : bool := (48 <=? c) && (c <=? 57).

(** str.isspace() for one code point (what str.strip() and int() skip). *)
Definition is_pyspace (c : Z) : bool :=
  ((9 <=? c) && (c <=? 13)) || ((28 <=? c) && (c <=? 32)) || (c =? 133) || (c =? 160)
  || (c =? 5760) || ((8192 <=? c) && (c <=? 8202)) || (c =? 8232) || (c =? 8233)
  || (c =? 8239) || (c =? 8287) || (c =? 12288).

(** optional whitespace of RFC 7230: SP / HTAB *)
Definition is_ows (c : Z) : bool := (c =? 32) || (c =? 9).

(** s.split(sep) for a one-character separator: never empty. *)
Fixpoint split_on (sep : Z) (s : list Z) : list (list Z) :=
  match s with
  | [] => [[]]
  | c :: r =>
    if c =? sep then [] :: split_on sep r
    else match split_on sep r with
         | p :: ps => (c :: p) :: ps
         | [] => [[c]]
         end
  end.

(** s.split(sep, 1) when it has two fields; [None] = only one field (the
    two-target assignment raises ValueError). *)
Fixpoint split1 (sep : Z) (s : list Z) : option (list Z * list Z) :=
  match s with
  | [] => None
  | c :: r =>
    if c =? sep then Some ([], r)
    else match split1 sep r with
         | Some (a, b) => Some (c :: a, b)
         | None => None
         end
  end.

Fixpoint lstrip (s : list Z) : list Z :=
  match s with
  | c :: r => if is_pyspace c then lstrip r else s
  | [] => []
  end.

Fixpoint rstrip (s : list Z) : list Z :=
  match s with
  | [] => []
  | c :: r => match rstrip r with
              | [] => if is_pyspace c then [] else [c]
              | r' => c :: r'
              end
  end.

Definition strip (s : list Z) : list Z := lstrip (rstrip s).

(** digits with single underscores between them (PEP 515), value accumulated *)
Fixpoint int_digits (s : list Z) (acc : Z) (after_us : bool) : option Z :=
  match s with
  | [] => if after_us then None else Some acc
  | c :: r =>
    if is_digit c then int_digits r (acc * 10 + (c - 48)) false
    else if (c =? ch_us) && negb after_us then int_digits r acc true
    else None
  end.

(** int(s) for a str of code points < 256: surrounding whitespace, an optional
    sign, decimal digits.  [None] = ValueError. *)
Definition py_int (s : list Z) : option Z :=
  match strip s with
  | [] => None
  | c :: r =>
    if (c =? ch_dash) || (c =? ch_plus) then
      match r with
      | d :: _ => if is_digit d
                  then match int_digits r 0 false with
                       | Some v => Some (if c =? ch_dash then - v else v)
                       | None => None
                       end
                  else None
      | [] => None
      end
    else if is_digit c then int_digits (c :: r) 0 false else None
  end.

(** '%s' % n *)
Fixpoint dec_fuel (fuel : positive) (n : Z) (acc : list Z) : list Z :=
  if n <? 10 then (48 + n) :: acc
  else match fuel with
       | xH => (48 + n mod 10) :: acc      (* not reached when fuel = n, see P_ranges.dec_Z_val *)
       | xO f | xI f => dec_fuel f (n / 10) ((48 + n mod 10) :: acc)
       end.

Definition dec_Z (n : Z) : list Z :=
  match n with
  | Z0 => [48]
  | Zpos p => dec_fuel p n []
  | Zneg p => ch_dash :: dec_fuel p (Zpos p) []
  end.

(** value of a string of ASCII digits (int() cannot fail on it) *)
Fixpoint dval (ds : list Z) (acc : Z) : Z :=
  match ds with
  | [] => acc
  | c :: r => dval r (acc * 10 + (c - 48))
  end.

Definition lower_ascii (c : Z) : Z := if (65 <=? c) && (c <=? 90) then c + 32 else c.

Definition s_bytes : list Z := [98;121;116;101;115].  (* 'bytes' *)

(* ------------------------------------------------------------------ *)
(** * get_ranges *)

Inductive gr_result :=
| GrNone                               (* return None: the header is ignored *)
| GrCrash (why : Z)                    (* ValueError escapes: 1 no '=', 2 no '-', 3/4 int() *)
| GrList (l : list (Z * Z)).           (* (start, stop) slices *)

Inductive spec_res :=
| SSkip                                (* continue *)
| SNone                                (* return None *)
| SCrash (why : Z)
| SAdd (a b : Z).                      (* result.append((a, b)) *)

(** the arithmetic of one byte-range-spec once its two fields are known
    ([None] = the field is empty) *)
Definition spec_core (clamp : bool) (cl : Z) (start stop : option Z) : spec_res :=
  match start with
  | Some s =>
    let e := match stop with Some e => e | None => cl - 1 end in
    if cl <=? s then SSkip
    else if e <? s then SNone
    else SAdd s (if clamp then Z.min (e + 1) cl else e + 1)
  | None =>
    match stop with
    | None => SNone
    | Some n =>
      if clamp then
        let k := Z.min n cl in
        if k =? 0 then SSkip else SAdd (cl - k) cl
      else if cl <? n then SAdd 0 cl else SAdd (cl - n) cl
    end
  end.

(** as written: brange.split('-', 1), strip(), int() *)
Definition spec_written (clamp : bool) (cl : Z) (piece : list Z) : spec_res :=
  match split1 ch_dash piece with
  | None => SCrash 2
  | Some (a, b) =>
    let start := strip a in
    let stop := strip b in
    match start with
    | _ :: _ =>
      match py_int start with
      | None => SCrash 3
      | Some s =>
        match stop with
        | [] => spec_core clamp cl (Some s) None
        | _ :: _ => match py_int stop with
                    | None => SCrash 3
                    | Some e => spec_core clamp cl (Some s) (Some e)
                    end
        end
      end
    | [] =>
      match stop with
      | [] => SNone
      | _ :: _ => match py_int stop with
                  | None => SCrash 4
                  | Some n => spec_core clamp cl None (Some n)
                  end
      end
    end
  end.

(** repaired: the piece must fully match  OWS digits OWS '-' OWS digits OWS  (OWS = SP/HTAB,
    either digit field may be empty); the classes are disjoint, so a left-to-right scan is the
    regular-expression match *)
Fixpoint skip_ows (s : list Z) : list Z :=
  match s with
  | c :: r => if is_ows c then skip_ows r else s
  | [] => []
  end.

Fixpoint span_digits (s : list Z) : list Z * list Z :=
  match s with
  | c :: r => if is_digit c then let '(d, t) := span_digits r in (c :: d, t) else ([], s)
  | [] => ([], [])
  end.

Definition scan_spec (piece : list Z) : option (list Z * list Z) :=
  let '(d1, s2) := span_digits (skip_ows piece) in
  match skip_ows s2 with
  | c :: s3 =>
    if c =? ch_dash then
      let '(d2, s4) := span_digits (skip_ows s3) in
      match skip_ows s4 with
      | [] => Some (d1, d2)
      | _ :: _ => None
      end
    else None
  | [] => None
  end.

Definition field_val (ds : list Z) : option Z :=
  match ds with [] => None | _ :: _ => Some (dval ds 0) end.

Definition spec_strict (clamp : bool) (cl : Z) (piece : list Z) : spec_res :=
  match scan_spec piece with
  | None => SNone
  | Some (d1, d2) => spec_core clamp cl (field_val d1) (field_val d2)
  end.

(** the [for brange in byteranges.split(',')] loop *)
Fixpoint gr_loop (f : list Z -> spec_res) (pieces : list (list Z)) : gr_result :=
  match pieces with
  | [] => GrList []
  | p :: r =>
    match f p with
    | SSkip => gr_loop f r
    | SNone => GrNone
    | SCrash w => GrCrash w
    | SAdd a b => match gr_loop f r with
                  | GrList l => GrList ((a, b) :: l)
                  | other => other
                  end
    end
  end.

Definition unit_is_bytes (u : list Z) : bool := eqbZs (map lower_ascii u) s_bytes.

(** get_ranges(headervalue, content_length); [None] = header absent *)
Definition get_ranges (c : rcfg) (h : option (list Z)) (cl : Z) : gr_result :=
  match h with
  | None | Some [] => GrNone
  | Some hv =>
    match split1 ch_eq hv with
    | None => if f_strict c then GrNone else GrCrash 1
    | Some (u, rest) =>
      if f_strict c then
        if unit_is_bytes u then gr_loop (spec_strict (f_clamp c) cl) (split_on ch_comma rest)
        else GrNone
      else gr_loop (spec_written (f_clamp c) cl) (split_on ch_comma rest)
    end
  end.

(* ------------------------------------------------------------------ *)
(** * _serve_fileobj *)

Definition s_bytes_sp : list Z := [98;121;116;101;115;32].          (* 'bytes ' *)
Definition s_bytes_star : list Z := [98;121;116;101;115;32;42;47].  (* 'bytes */' *)
Definition s_crlf : list Z := [13;10].
Definition s_dd : list Z := [45;45].                                (* '--' *)
Definition s_ctype_hdr : list Z :=                                  (* '\r\nContent-type: ' *)
  [13;10;67;111;110;116;101;110;116;45;116;121;112;101;58;32].
Definition s_crange_hdr : list Z :=                                 (* '\r\nContent-range: bytes ' *)
  [13;10;67;111;110;116;101;110;116;45;114;97;110;103;101;58;32;98;121;116;101;115;32].
Definition s_crlf2 : list Z := [13;10;13;10].
Definition s_mp_ct : list Z :=                                      (* 'multipart/byteranges; boundary=' *)
  [109;117;108;116;105;112;97;114;116;47;98;121;116;101;114;97;110;103;101;115;59;32;
   98;111;117;110;100;97;114;121;61].

(** 'start-(stop-1)/length' *)
Definition range_text (start stop cl : Z) : list Z :=
  dec_Z start ++ [ch_dash] ++ dec_Z (stop - 1) ++ [47] ++ dec_Z cl.

(** fileobj.seek(start); file_generator_limited(fileobj, count) *)
Definition read_at (content : list Z) (start count : Z) : list Z :=
  takeZ count (dropZ start content).

Inductive serve_res :=
| SvCrash (why : Z)                                   (* exception from get_ranges: 500 *)
| Sv416 (content_range : list Z)
| SvWhole (body : list Z)                             (* 200, Content-Length = len *)
| SvSingle (content_range : list Z) (clen : Z) (body : list Z)   (* 206 *)
| SvMulti (ctype : list Z) (body : list Z).           (* 206 multipart/byteranges *)

Definition part_bytes (boundary ctype content : list Z) (cl : Z) (r : Z * Z) : list Z :=
  let '(start, stop) := r in
  s_dd ++ boundary ++ s_ctype_hdr ++ ctype ++ s_crange_hdr ++ range_text start stop cl ++ s_crlf2
  ++ read_at content start (stop - start) ++ s_crlf.

Definition multipart_body (boundary ctype content : list Z) (cl : Z) (rs : list (Z * Z)) : list Z :=
  s_crlf ++ concat (map (part_bytes boundary ctype content cl) rs)
  ++ s_dd ++ boundary ++ s_dd ++ s_crlf.

Definition serve (c : rcfg) (proto11 : bool) (range : option (list Z))
           (content ctype boundary : list Z) : serve_res :=
  let cl := lenZ content in
  if proto11 then
    match get_ranges c range cl with
    | GrCrash w => SvCrash w
    | GrNone => SvWhole content
    | GrList [] => Sv416 (s_bytes_star ++ dec_Z cl)
    | GrList [(start, stop)] =>
      let stop := if cl <? stop then cl else stop in
      SvSingle (s_bytes_sp ++ range_text start stop cl) (stop - start)
               (read_at content start (stop - start))
    | GrList rs =>
      SvMulti (s_mp_ct ++ boundary) (multipart_body boundary ctype content cl rs)
    end
  else SvWhole content.
