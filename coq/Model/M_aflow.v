(** A symbolic executor for the skeleton language: it explores EVERY behaviour of
    the environment at once (each action succeeds or raises any exception of its
    raise-set, each environment-determined condition goes both ways) over the
    finite part of the state.  Proof/P_aflow.v proves it sound w.r.t. [exec];
    property theorems are then decided by computation on the skeleton - the
    hand-written one and, on every run, the one regenerated from /repo. *)
From Coq Require Import ZArith List Bool.
Import ListNotations.
From CV Require Import Model.M_flow.
Open Scope Z_scope.

(** descriptor, serving = dummy?, pending_req = 0?, and the request-identity bits:
    (the serving slot holds an unclosed request?, the receiver of the running method is KNOWN to be the serving
     request?, a request was dropped from the slot unclosed?) *)
Definition xstate := (bool * bool * bool)%type.
Definition astate := (fin * bool * bool * xstate)%type.

Definition alpha (st : state) : astate :=
  (sfin st, serving (sid st) =? 0, pending_req (sid st) =? 0,
   (is_open (sid st), rsk (sid st), lost_req (sid st))).

(** what a callback may raise.  A callback raising StopIteration is not distinguished from one raising
    an arbitrary Exception (inside Request.run both are handled by the same clauses); only the body
    iterator's next() raises StopIteration, legitimately. *)
Definition all_exn : list exn :=
  [XHTTPError; XHTTPRedirect; XInternalRedirect; XException;
   XKeyboardInterrupt; XSystemExit].

(** what each action may raise: user callbacks and everything that handles
    client data may raise anything; the server's start_response raises only
    "its own" exception; pure bookkeeping of the framework cannot fail. *)
Definition may (a : action) : list exn :=
  match a with
  | StartResponse | StartResponseExc => [XFromServer]
  | FormatExcBody | ClearBody | BareError | InstallBareError | DropBody
  | NewRequest | NewResponse | LoadServing | PublishEngine | ClearServing | SetClosed
  | FormatExcTb | ClearTb | BareErrorTrap | EmptyIter | ErrorIter | BindIr | RecordUri
  | SetDefaultErrorResponse | CopyHooks => []
  (* framework code that runs outside Request.run (environ parsing, iter() of the finalized body,
     string operations in the redirector): an ordinary Exception at worst *)
  | Other | IterBody | ReadIterResponse => [XException]
  | NextChunk => XStopIteration :: all_exn
  | ServerNext | ServerCloseAgain => [XStopIteration]
  | _ => all_exn
  end.

Definition env_ok (E : env) : Prop :=
  forall t a e, e_act E t a = Some e -> In e (may a).

Section A.
  Variable prog : fname -> stmt.
  Variable pparam : fname -> stmt.
  Variable showtb : bool.
  Variable throw : bool.

  (** the identity bits after a completed action; what cannot be known abstractly goes both ways *)
  Definition x_effect (a : action) (xs : xstate) : list xstate :=
    let '(op, rs, lost) := xs in
    match a with
    | LoadServing => [(true, false, lost || op); (false, false, lost || op)]
    | ClearServing => [(false, false, lost || op)]
    | SetClosed => if rs then [(false, rs, lost)] else [(false, rs, lost); (op, rs, lost)]
    | _ => [xs]
    end.

  Definition a_effect (a : action) (x : astate) : list astate :=
    let '(f, sz, pz, xs) := x in
    let sz' := match a with LoadServing => pz | ClearServing => true | _ => sz end in
    let pz' := match a with NewRequest => false | _ => pz end in
    flat_map (fun xs' =>
      match a with
      | SetResponseOfExc => [(fin_effect showtb sz true a f, sz', pz', xs'); (fin_effect showtb sz false a f, sz', pz', xs')]
      | _ => [(fin_effect showtb sz false a f, sz', pz', xs')]
      end) (x_effect a xs).

  Definition a_raise (a : action) (e : exn) (x : astate) : astate :=
    let '(f, sz, pz, xs) := x in (fin_raise a e f, sz, pz, xs).

  Definition a_cur (e : option exn) (x : astate) : astate :=
    let '(f, sz, pz, xs) := x in (fin_with_cur e f, sz, pz, xs).

  (** the receiver changes at a call and is restored afterwards *)
  Definition a_enter (g : fname) (x : astate) : astate :=
    let '(f, sz, pz, (op, rs, lost)) := x in (f, sz, pz, (op, recv_known g rs, lost)).
  Definition a_leave (x : astate) : astate :=
    let '(f, sz, pz, (op, rs, lost)) := x in (f, sz, pz, (op, false, lost)).

  Definition a_eval_flag (x : astate) (f : flag) : list bool :=
    let '(fi, sz, _, (op, rs, _)) := x in
    match f with
    | FClosed => if rs then (if sz then [true] else [negb op]) else [true; false]
    | FStartedResponse => [iterating fi]
    | FResponseHasClose => [negb (init_trapped fi)]
    | FThrowErrors => [throw]
    | FShowTracebacksReq => [showtb]
    | FShowTracebacksServing => [if sz then true else showtb]
    | FErrorResponseSet => [true]
    | _ => [true; false]
    end.

  Fixpoint a_eval_cond (x : astate) (c : cond) : list bool :=
    match c with
    | CTrue => [true]
    | CFlag f => a_eval_flag x f
    | CNot c' => map negb (a_eval_cond x c')
    | COther => [true; false]
    end.

  Definition exn_dec : forall a b : exn, {a = b} + {a <> b}.
  Proof. decide equality. Defined.
  Definition fin_dec : forall a b : fin, {a = b} + {a <> b}.
  Proof.
    decide equality; try apply bool_dec; try apply Z.eq_dec.
    decide equality. apply exn_dec.
  Defined.
  Definition xstate_dec : forall a b : xstate, {a = b} + {a <> b}.
  Proof. decide equality; try apply bool_dec. decide equality; apply bool_dec. Defined.
  Definition astate_dec : forall a b : astate, {a = b} + {a <> b}.
  Proof.
    decide equality; try apply xstate_dec. decide equality; try apply bool_dec.
    decide equality; try apply bool_dec. apply fin_dec.
  Defined.
  Definition outcome_dec : forall a b : outcome, {a = b} + {a <> b}.
  Proof. decide equality. apply exn_dec. Defined.
  Definition res_dec : forall a b : outcome * astate, {a = b} + {a <> b}.
  Proof. decide equality; [apply astate_dec | apply outcome_dec]. Defined.

  Definition dedupe (l : list (outcome * astate)) : list (outcome * astate) := nodup res_dec l.
  Definition mem_a (x : astate) (l : list astate) : bool := if in_dec astate_dec x l then true else false.
  Definition mem_r (x : outcome * astate) (l : list (outcome * astate)) : bool :=
    if in_dec res_dec x l then true else false.

  Fixpoint bindL {X Y} (l : list X) (k : X -> option (list Y)) : option (list Y) :=
    match l with
    | [] => Some []
    | x :: r =>
      match k x, bindL r k with
      | Some a, Some b => Some (a ++ b)
      | _, _ => None
      end
    end.

  Definition normals (R : list (outcome * astate)) : list astate :=
    flat_map (fun r => match fst r with Normal => [snd r] | _ => [] end) R.
  Definition abrupt (R : list (outcome * astate)) : list (outcome * astate) :=
    filter (fun r => match fst r with Normal => false | _ => true end) R.

  (** (unverified) worklist search for the set of states at a loop head and the abrupt results *)
  Fixpoint close_loop (n : nat) (step : astate -> option (list (outcome * astate)))
           (seen todo : list astate) (acc : list (outcome * astate))
    : option (list astate * list (outcome * astate)) :=
    match n with
    | O => None
    | S n' =>
      match todo with
      | [] => Some (seen, acc)
      | x :: r =>
        if mem_a x seen then close_loop n' step seen r acc
        else match step x with
             | None => None
             | Some R => close_loop n' step (x :: seen) (r ++ normals R) (dedupe (acc ++ abrupt R))
             end
      end
    end.

  (** the closure condition the soundness proof relies on *)
  Definition check_closed (step : astate -> option (list (outcome * astate)))
             (C : list astate) (Racc : list (outcome * astate)) : bool :=
    forallb (fun c => match step c with
                      | None => false
                      | Some R => forallb (fun r => match fst r with
                                                    | Normal => mem_a (snd r) C
                                                    | _ => mem_r r Racc
                                                    end) R
                      end) C.

  Fixpoint aexec (fuel : nat) (param : stmt) (s : stmt) (x : astate)
    : option (list (outcome * astate)) :=
    match fuel with
    | O => None
    | S af =>
      match s with
      | Skip => Some [(Normal, x)]
      | Act a =>
        Some (map (fun y => (Normal, y)) (a_effect a x)
              ++ match a with
                 | SetClosed => []
                 | _ => map (fun e => (Raised e, a_raise a e x)) (may a)
                 end)
      | Seq s1 s2 =>
        match aexec af param s1 x with
        | None => None
        | Some R1 =>
          option_map dedupe
            (bindL R1 (fun r => match fst r with
                                | Normal => aexec af param s2 (snd r)
                                | _ => Some [r]
                                end))
        end
      | Try body hs orelse fin =>
        match aexec af param body x with
        | None => None
        | Some R1 =>
          match bindL R1 (fun r =>
                  match fst r with
                  | Normal => aexec af param orelse (snd r)
                  | Raised e =>
                    match find_handler hs e with
                    | Some h =>
                      let saved := cur_exn (fst (fst (fst (snd r)))) in
                      option_map (map (fun rh => (fst rh, a_cur saved (snd rh))))
                                 (aexec af param h (a_cur (Some e) (snd r)))
                    | None => Some [r]
                    end
                  | _ => Some [r]
                  end) with
          | None => None
          | Some R2 =>
            option_map dedupe
              (bindL (dedupe R2) (fun r2 =>
                 match fst r2 with
                 | OutOfFuel => Some [r2]
                 | _ => option_map (map (fun r3 => (match fst r3 with Normal => fst r2 | o3 => o3 end, snd r3)))
                                   (aexec af param fin (snd r2))
                 end))
          end
        end
      | If c s1 s2 =>
        option_map dedupe
          (bindL (a_eval_cond x c) (fun b => aexec af param (if b then s1 else s2) x))
      | Assign _ => Some [(Normal, x)]
      | Raise (Some e) => Some [(Raised e, x)]
      | Raise None =>
        Some [(Raised (match cur_exn (fst (fst (fst x))) with Some e => e | None => XException end), x)]
      | Return => Some [(Returned, x)]
      | Loop body =>
        let step := aexec af param body in
        match close_loop af step [] [x] [] with
        | Some (C, Racc) =>
          if mem_a x C && check_closed step C Racc then Some Racc else None
        | None => None
        end
      | ForLoop body =>
        let step := aexec af param body in
        match close_loop af step [] [x] [] with
        | Some (C, Racc) =>
          if mem_a x C && check_closed step C Racc
          then Some (Racc ++ map (fun c => (Normal, c)) C) else None
        | None => None
        end
      | Call g =>
        option_map (fun R => dedupe (map (fun r => (match fst r with Returned => Normal | o => o end, a_leave (snd r))) R))
                   (aexec af (pparam g) (prog g) (a_enter g x))
      | CallParam => aexec af Skip param x
      end
    end.
End A.
