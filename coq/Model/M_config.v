(** Model of the request-config machinery on top of the dispatcher model:
    - _cpconfig.merge / Application.merge          (section-wise merge of app config layers)
    - Dispatcher.find_handler + set_conf           (from M_dispatch: per-level nodeconf, merge)
    - Application.find_config                      (upward walk over the path string)
    - reprconf.NamespaceSet.__call__, Toolbox.__enter__/__exit__, Tool._merged_args/_setup
    - reprconf.unrepr                              (from M_unrepr)
    Definitions only; proofs live in Proof/P_config*.v.

    Config values are opaque tokens (the harness uses repr(value)); the two facts the
    code asks of a value - bool(v) for [tools.t.on], [v is None] for [priority] - are
    inputs ([truthy], [is_none]). *)
From Coq Require Import ZArith List Bool.
From CV Require Import Lib.Sx Lib.ListZ Model.M_dispatch Model.M_unrepr.
Import ListNotations.
Open Scope Z_scope.

(** base.update(c): later wins per key *)
Definition overlay (base c : conf) : conf := conf_update base c.

(* ---------- _cpconfig.merge ---------- *)

(** base.setdefault(section, {}).update(value_map) *)
Fixpoint merge_section (base : appconf) (sec : str) (vm : conf) : appconf :=
  match base with
  | [] => [(sec, overlay [] vm)]
  | (s, c) :: r => if eqbZs sec s then (s, overlay c vm) :: r else (s, c) :: merge_section r sec vm
  end.

Definition merge_app (base other : appconf) : appconf :=
  fold_left (fun b sv => merge_section b (fst sv) (snd sv)) other base.

(* ---------- Application.find_config ---------- *)

(** trail[:trail.rfind('/')]; None when there is no '/' *)
Fixpoint rcut (s : str) : option str :=
  match s with
  | [] => None
  | c :: r =>
    match rcut r with
    | Some p => Some (c :: p)
    | None => if c =? 47 then Some [] else None
    end
  end.

Inductive fc := FCFound (v : str) | FCDefault | FCFuel.

Fixpoint find_config_loop (fuel : nat) (aconf : appconf) (trail key : str) : fc :=
  match trail with
  | [] => FCDefault                                   (* while trail: *)
  | _ :: _ =>
    match fuel with
    | O => FCFuel
    | S f =>
      let nodeconf := match assoc trail aconf with Some c => c | None => [] end in
      match assoc key nodeconf with
      | Some v => FCFound v
      | None =>
        match rcut trail with
        | None => FCDefault                           (* lastslash == -1: break *)
        | Some [] => if eqbZs trail s_slash then FCDefault     (* trail = '' *)
                     else find_config_loop f aconf s_slash key (* lastslash == 0: trail = '/' *)
        | Some p => find_config_loop f aconf p key
        end
      end
    end
  end.

Definition find_config (aconf : appconf) (path key : str) : fc :=
  let trail := match path with [] => s_slash | _ => path end in
  find_config_loop (S (S (length trail))) aconf trail key.

(* ---------- NamespaceSet.__call__ / Toolbox ---------- *)

Definition s_on : str := [111;110].
Definition s_priority : str := [112;114;105;111;114;105;116;121].
Definition s_NoneTok : str := [78;111;110;101].

(** k.split('.', 1) when '.' in k *)
Fixpoint split_dot (k : str) : option (str * str) :=
  match k with
  | [] => None
  | c :: r =>
    if c =? 46 then Some ([], r)
    else match split_dot r with
         | Some (a, b) => Some (c :: a, b)
         | None => None
         end
  end.

(** ns_confs[ns]: name |-> value for the keys "ns.name" of the merged config, in order *)
Definition ns_bucket (ns : str) (config : conf) : conf :=
  fold_left (fun b kv =>
               match split_dot (fst kv) with
               | Some (n, name) => if eqbZs n ns then conf_set name (snd kv) b else b
               | None => b
               end) config [].

Definition toolmap := list (str * conf).

(** bucket = map.setdefault(toolname, {}); bucket[arg] = v *)
Fixpoint tm_set (tool arg v : str) (m : toolmap) : toolmap :=
  match m with
  | [] => [(tool, [(arg, v)])]
  | (t, c) :: r => if eqbZs tool t then (t, conf_set arg v c) :: r else (t, c) :: tm_set tool arg v r
  end.

(** Toolbox.__enter__'s populate over the bucket; false = "toolname, arg = k.split('.', 1)"
    raised ValueError (a key "tools.x" without an argument part) *)
Fixpoint populate (bucket : conf) (m : toolmap) : toolmap * bool :=
  match bucket with
  | [] => (m, true)
  | (k, v) :: r =>
    match split_dot k with
    | Some (t, a) => populate r (tm_set t a v m)
    | None => (m, false)
    end
  end.

Fixpoint conf_del (k : str) (c : conf) : conf :=
  match c with
  | [] => []
  | (k', v) :: r => if eqbZs k k' then r else (k', v) :: conf_del k r
  end.

(** what Tool._setup attaches: hooks.attach(point, callable, priority=p, **conf);
    [s_prio = None]: the default (callable.priority, else the tool's) *)
Record setup := Setup { s_tool : str; s_prio : option str; s_kwargs : conf }.

Section Tools.
Variable truthy : str -> bool.      (* bool(v) *)
Variable is_none : str -> bool.     (* v is None *)

(** settings.get('on', False) *)
Definition is_on (settings : conf) : bool :=
  match assoc s_on settings with Some v => truthy v | None => false end.

(** Tool._merged_args() then conf.pop('priority', None) *)
Definition setup_of (name : str) (settings : conf) : setup :=
  let conf := conf_del s_on settings in
  let p := match assoc s_priority conf with
           | Some v => if is_none v then None else Some v
           | None => None
           end in
  Setup name p (conf_del s_priority conf).

(** Toolbox.__exit__: tool._setup() for every tool whose settings turn it on, in map
    order; false = getattr(toolbox, name)._setup failed (no such tool) - the loop stops *)
Fixpoint exit_toolbox (known : list str) (m : toolmap) : list setup * bool :=
  match m with
  | [] => ([], true)
  | (name, settings) :: r =>
    if is_on settings then
      if mem_str name known then
        let '(l, ok) := exit_toolbox known r in (setup_of name settings :: l, ok)
      else ([], false)
    else exit_toolbox known r
  end.

(** one toolbox namespace over the merged request config:
    (request.toolmaps[ns], tools set up, no exception) *)
Definition run_toolbox (ns : str) (known : list str) (config : conf) : toolmap * list setup * bool :=
  let '(m, ok1) := populate (ns_bucket ns config) [] in
  let '(l, ok2) := exit_toolbox known m in
  (m, l, ok1 && ok2).

End Tools.

(* ---------- the request config ---------- *)

(** request.config after get_resource (None: the dispatcher raised) *)
Definition request_conf (mode : Z) (na : attrs) (root : node) (aconf : appconf) (gconf : conf)
           (path method : str) : option conf :=
  match (if mode =? 0 then dispatch_default na root aconf gconf path
         else dispatch_method na root aconf gconf path method) with
  | DRes _ _ cfg _ => Some cfg
  | _ => None
  end.

(* ---------- s-expression boundary ---------- *)

Definition enc_conf (c : conf) : sx := L (map (fun kv => L [of_Zs (fst kv); of_Zs (snd kv)]) c).

Definition enc_fc (r : fc) : sx :=
  match r with FCFound v => L [of_Zs v] | FCDefault => L [] | FCFuel => I 0 end.

Definition enc_setup (s : setup) : sx :=
  L [of_Zs (s_tool s);
     match s_prio s with Some p => L [of_Zs p] | None => L [] end;
     enc_conf (s_kwargs s)].

(** scope case = (0 mode method path root none_attrs (layer ...) global keys falsy
                    ((ns (known-tool ...)) ...) ((path key) ...))
    result     = (kind ([value]? ...) ((ok toolmap setups) ...) (find_config answers))
                 kind 0 NotFound | 1 page handler | 2 405 | 3 segment added | 4 oracle miss | 5 fuel
                      | 6 _cp_dispatch raised   (for 3..6 the config part is empty) *)
Definition run_scope (x : sx) : sx :=
  let mode := sx_Z (nth_sx 1 x) in
  let method := sx_Zs (nth_sx 2 x) in
  let path := sx_Zs (nth_sx 3 x) in
  let root := dec_node (nth_sx 4 x) in
  let na := dec_attrs (nth_sx 5 x) in
  let aconf := fold_left merge_app (map dec_appconf (sx_list (nth_sx 6 x))) [] in
  let gconf := dec_conf (nth_sx 7 x) in
  let keys := dec_strs (nth_sx 8 x) in
  let falsy := dec_strs (nth_sx 9 x) in
  let nss := map (fun p => (sx_Zs (nth_sx 0 p), dec_strs (nth_sx 1 p))) (sx_list (nth_sx 10 x)) in
  let fcq := map (fun p => (sx_Zs (nth_sx 0 p), sx_Zs (nth_sx 1 p))) (sx_list (nth_sx 11 x)) in
  let truthy := fun v => negb (mem_str v falsy) in
  let is_none := fun v => eqbZs v s_NoneTok in
  let fcs := L (map (fun pk => enc_fc (find_config aconf (fst pk) (snd pk))) fcq) in
  let r := if mode =? 0 then dispatch_default na root aconf gconf path
           else dispatch_method na root aconf gconf path method in
  match r with
  | DRes h _ cfg _ =>
    L [I (match h with HNotFound => 0 | HPage _ _ => 1 | H405 => 2 end);
       L (map (fun k => match assoc k cfg with Some v => L [of_Zs v] | None => L [] end) keys);
       L (map (fun nk =>
                 let '(m, l, ok) := run_toolbox truthy is_none (fst nk) (snd nk) cfg in
                 L [of_bool ok;
                    L (map (fun tc => L [of_Zs (fst tc); enc_conf (snd tc)]) m);
                    L (map enc_setup l)]) nss);
       fcs]
  | DErrAdded => L [I 3; L []; L []; fcs]
  | DErrMiss => L [I 4; L []; L []; fcs]
  | DErrFuel => L [I 5; L []; L []; fcs]
  | DErrRaise => L [I 6; L []; L []; fcs]
  end.

(** case = (0 ...) scope | (1 sub value) literal | (2 sub ast env) expression
           | (3 sub (value ...)) the values of one INI file *)
Definition run_C08 (x : sx) : sx :=
  let k := sx_Z (nth_sx 0 x) in
  if k =? 0 then run_scope x
  else if k =? 1 then run_literal (L (tl (sx_list x)))
  else if k =? 2 then run_expr (L (tl (sx_list x)))
  else L (map (fun v => run_literal (L [nth_sx 1 x; v])) (sx_list (nth_sx 2 x))).
