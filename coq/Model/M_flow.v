(** Skeleton language for the request pipeline (Request.run/respond/_do_respond/
    handle_error/close, Application.get_serving/release_serving, AppResponse,
    InternalRedirector, _TrappedResponse) and its big-step semantics with
    Python's try/except/else/finally rules.  The skeletons themselves are
    regenerated from /repo's source on every run (vcheck/translate/pyflow.py);
    the hand-written copies the theorems talk about are in M_pipeline.v and are
    tied to the generated ones by reflexivity.  Definitions only. *)
From Coq Require Import ZArith List Bool.
Import ListNotations.
Open Scope Z_scope.

Inductive hookpoint :=
| OnStartResource | BeforeRequestBody | BeforeHandler | BeforeFinalize
| OnEndResource | OnEndRequest | BeforeErrorResponse | AfterErrorResponse.

Inductive flag :=
| FClosed | FThrowErrors | FShowTracebacksReq | FShowTracebacksServing
| FStartedResponse | FMethodHead | FProcessBody | FHandlerSet | FErrorResponseSet
| FAppNone | FRecursive | FVisitedBefore | FStreaming
| FStatusIsBytes | FHeaderKeyIsBytes | FHeaderValIsBytes
| FResponseHasClose | FLoopMore | FHTTPError5xx | FOther.

Inductive cond := CTrue | CFlag (f : flag) | CNot (c : cond) | COther.

Inductive exn :=
| XHTTPError | XHTTPRedirect | XInternalRedirect
| XException            (* any other Exception subclass: the "unexpected failure" *)
| XStopIteration
| XKeyboardInterrupt | XSystemExit
| XFromServer.          (* raised by the server's start_response (an Exception) *)

Inductive pat :=
| PThrows               (* Request.throws = (KeyboardInterrupt, SystemExit, InternalRedirect) *)
| PTrapThrows           (* ExceptionTrapper throws = (KeyboardInterrupt, SystemExit) *)
| PHTTPRedirectOrError | PHTTPRedirect | PInternalRedirect
| PException | PBaseException | PStopIteration.

Inductive action :=
| RunHooks (p : hookpoint)
| FindDispatch | Dispatch | SetDefaultErrorResponse
| CopyHooks | ProcessHeaders | GetResource | MakeBody | Namespaces
| ProcessQueryString | BodyProcess | Handler | Finalize
| SetResponseOfExc | ErrorResponse
| FormatExcBody | ClearBody | BareError | InstallBareError | DropBody | LogAccess
| NewRequest | NewResponse | LoadServing | PublishEngine | ClearServing | SetClosed
| IterBody | StartResponse | StartResponseExc | IterClose | NextChunk
| FormatExcTb | ClearTb | BareErrorTrap | EmptyIter | ErrorIter
| BindIr | RecordUri
| ReadIterResponse      (* `self.iter_response` read by AppResponse.close() while __init__ is still running:
                           AttributeError when the failure came before the attribute was assigned *)
| ServerNext            (* the server asks for the next chunk; "raises" StopIteration when it loses interest *)
| ServerCloseAgain      (* the server calls close() once more; "raises" StopIteration when it does not *)
| Other.

Inductive fname :=
| F_request_run | F_respond | F_do_respond | F_handle_error
| F_request_close | F_ir_request_close
| F_get_serving | F_release_serving
| F_appresponse_init | F_appresponse_close | F_appresponse_close_init | F_appresponse_run
| F_redirector_call
| F_trap_init | F_trap_next | F_trapped_init | F_trapped_next | F_trapped_close.

Inductive stmt :=
| Skip
| Act (a : action)
| Seq (s1 s2 : stmt)
| Try (body : stmt) (handlers : list (pat * stmt)) (orelse fin : stmt)
| If (c : cond) (s1 s2 : stmt)
| Assign (f : flag)            (* a local := value read from the environment *)
| Raise (e : option exn)       (* None = bare `raise` *)
| Return
| Loop (body : stmt)           (* while True *)
| ForLoop (body : stmt)        (* for x in <response data>: the environment decides the length *)
| Call (f : fname)
| CallParam.                   (* the callee passed to _TrappedResponse.trap *)

Inductive outcome := Normal | Returned | Raised (e : exn) | OutOfFuel.

(** isinstance(e, pattern) with Python's class hierarchy *)
Definition is_base (e : exn) : bool :=
  match e with XKeyboardInterrupt | XSystemExit => true | _ => false end.

Definition matches (p : pat) (e : exn) : bool :=
  match p, e with
  | PThrows, (XKeyboardInterrupt | XSystemExit | XInternalRedirect) => true
  | PTrapThrows, (XKeyboardInterrupt | XSystemExit) => true
  | PHTTPRedirectOrError, (XHTTPError | XHTTPRedirect) => true
  | PHTTPRedirect, XHTTPRedirect => true
  | PInternalRedirect, XInternalRedirect => true
  | PException, _ => negb (is_base e)
  | PBaseException, _ => true
  | PStopIteration, XStopIteration => true
  | _, _ => false
  end.

Fixpoint find_handler (hs : list (pat * stmt)) (e : exn) : option stmt :=
  match hs with
  | [] => None
  | (p, h) :: r => if matches p e then Some h else find_handler r e
  end.

(** The environment: everything the skeleton abstracts from.  [e_act n a] is
    what the [n]-th execution (counting from 0) of action [a] does (None = succeeds);
    [e_cond t f] the value of an environment-determined condition. *)
Record env := Env {
  e_act : nat -> action -> option exn;
  e_cond : nat -> flag -> bool;
  p_showtb : bool;        (* request.show_tracebacks of the application's requests *)
  p_throw : bool;         (* request.throw_errors *)
}.

(** finite part of the state: the response descriptor and what the theorems observe.
    status class 0 (unset) 2 3 4 5; taint = traceback / exception text present *)
Record fin := Fin {
  resp_status : Z; resp_taint : bool;
  v_body_taint : bool; v_r_taint : bool;          (* locals body, r of Request.run *)
  v_tb_taint : bool; v_b_taint : bool;            (* locals tb, b of trap *)
  cur_exn : option exn;                           (* exception being handled *)
  out_status : Z; out_taint : bool;               (* what start_response received last *)
  sr_plain : Z;                                   (* start_response calls without exc_info, saturating at 2 *)
  sr_exc : bool;                                  (* a call with exc_info happened *)
  unexp : bool;                                   (* an unexpected Exception was raised while processing *)
  trap_outside : bool;                            (* the trapper formatted a traceback while no request was being served *)
  redir_in_error : bool;                          (* a callback answered the unexpected failure with an HTTPRedirect (handle_error honours it) *)
  iterating : bool;                               (* _TrappedResponse.started_response: __iter__ was called *)
  init_trapped : bool;                            (* trap() replaced the application's result by the bare error list *)
}.

(** identities: request objects, serving slot, closed flags *)
Record ids := Ids {
  next_req : Z;                     (* ids handed out by NewRequest; 0 is the class-default dummy *)
  pending_req : Z;                  (* created, not yet loaded *)
  serving : Z;                      (* cherrypy.serving.request *)
  self_req : Z;                     (* receiver of the Request method being executed *)
  last_ir_req : Z;                  (* .request of the InternalRedirect raised last *)
  ir_req : Z;                       (* ir.request after BindIr *)
  closed : list Z;                  (* request ids with closed = True *)
  served : list Z;                  (* ghost: every request id that was ever loaded into the serving slot *)
  lost_req : bool;                  (* ghost: a request left the serving slot (cleared / replaced) while not closed *)
  rsk : bool;                       (* ghost: the receiver of the running method is KNOWN to be the serving request
                                       (set when Request.run / Request.close is called on cherrypy.serving.request) *)
}.

Record state := St {
  tick : nat;
  journal : list (Z * action);            (* newest first; tagged with the receiver request id *)
  raised_log : list (Z * action * exn);   (* which action raised what *)
  sr_calls : list bool;                   (* start_response calls, exc_info given?  newest first *)
  sid : ids;
  sfin : fin;
}.

Definition init_fin : fin := Fin 0 false false false false false None 0 false 0 false false false false false false.
(** Request id 0 is the class-default request object that occupies the serving slot while no request is
    being served; it is modelled in its steady state: already closed (its first close() in a process runs
    the empty class-level hook map, after which [closed] stays set for the life of the process). *)
Definition init_ids : ids := Ids 1 0 0 0 0 0 [0] [] false false.
Definition init_state : state := St 0 [] [] [] init_ids init_fin.

Definition memZ (x : Z) (l : list Z) : bool := existsb (Z.eqb x) l.

Definition action_eq_dec : forall a b : action, {a = b} + {a <> b}.
Proof. decide equality. decide equality. Defined.

(** how often action [a] was executed so far *)
Fixpoint occ (a : action) (j : list (Z * action)) : nat :=
  match j with
  | [] => O
  | (_, b) :: r => (if action_eq_dec a b then 1 else 0) + occ a r
  end.

Definition upd_tick (st : state) : state :=
  St (S (tick st)) (journal st) (raised_log st) (sr_calls st) (sid st) (sfin st).

Definition ids_with_self (r : Z) (k : bool) (i : ids) : ids :=
  Ids (next_req i) (pending_req i) (serving i) r (last_ir_req i) (ir_req i) (closed i) (served i) (lost_req i) k.
Definition with_self (r : Z) (k : bool) (st : state) : state :=
  St (tick st) (journal st) (raised_log st) (sr_calls st) (ids_with_self r k (sid st)) (sfin st).

Definition fin_with_cur (e : option exn) (f : fin) : fin :=
  Fin (resp_status f) (resp_taint f) (v_body_taint f) (v_r_taint f) (v_tb_taint f) (v_b_taint f) e
      (out_status f) (out_taint f) (sr_plain f) (sr_exc f) (unexp f) (trap_outside f) (redir_in_error f)
      (iterating f) (init_trapped f).
Definition with_cur (e : option exn) (st : state) : state :=
  St (tick st) (journal st) (raised_log st) (sr_calls st) (sid st) (fin_with_cur e (sfin st)).

Definition log_action (a : action) (st : state) : state :=
  St (S (tick st)) ((self_req (sid st), a) :: journal st) (raised_log st) (sr_calls st) (sid st) (sfin st).

(** an unexpected failure "while processing": an Exception that is neither an HTTPError/HTTPRedirect/
    InternalRedirect nor StopIteration, raised by anything but access logging, closing the body
    iterator and the on_end_request hooks (which run after the response was produced) *)
Definition processing (a : action) : bool :=
  match a with
  | LogAccess | IterClose | RunHooks OnEndRequest | StartResponse | StartResponseExc
  | ServerNext | ServerCloseAgain => false
  | _ => true
  end.
Definition is_unexpected (a : action) (e : exn) : bool :=
  processing a && match e with XException => true | _ => false end.

Definition fin_raise (a : action) (e : exn) (f : fin) : fin :=
  Fin (resp_status f) (resp_taint f) (v_body_taint f) (v_r_taint f) (v_tb_taint f) (v_b_taint f) (cur_exn f)
      (out_status f) (out_taint f) (sr_plain f) (sr_exc f) (unexp f || is_unexpected a e) (trap_outside f)
      (redir_in_error f) (iterating f) (init_trapped f).
Definition ids_raise (e : exn) (i : ids) : ids :=
  Ids (next_req i) (pending_req i) (serving i) (self_req i)
      (match e with XInternalRedirect => serving i | _ => last_ir_req i end) (ir_req i) (closed i) (served i) (lost_req i) (rsk i).
Definition log_raise (a : action) (e : exn) (st : state) : state :=
  St (tick st) (journal st) ((self_req (sid st), a, e) :: raised_log st) (sr_calls st)
     (ids_raise e (sid st)) (fin_raise a e (sfin st)).

(** the serving slot holds a request object that has not been closed *)
Definition is_open (i : ids) : bool := negb (serving i =? 0) && negb (memZ (serving i) (closed i)).

(** effect of a completed action on the identities *)
Definition ids_effect (a : action) (i : ids) : ids :=
  match a with
  | NewRequest => Ids (next_req i + 1) (next_req i) (serving i) (self_req i) (last_ir_req i) (ir_req i) (closed i)
                      (served i) (lost_req i) (rsk i)
  | LoadServing => Ids (next_req i) (pending_req i) (pending_req i) (self_req i) (last_ir_req i) (ir_req i) (closed i)
                       (pending_req i :: served i) (lost_req i || is_open i) false
  | ClearServing => Ids (next_req i) (pending_req i) 0 (self_req i) (last_ir_req i) (ir_req i) (closed i)
                        (served i) (lost_req i || is_open i) false
  | SetClosed => Ids (next_req i) (pending_req i) (serving i) (self_req i) (last_ir_req i) (ir_req i)
                     (self_req i :: closed i) (served i) (lost_req i) (rsk i)
  | BindIr => Ids (next_req i) (pending_req i) (serving i) (self_req i) (last_ir_req i) (last_ir_req i) (closed i)
                  (served i) (lost_req i) (rsk i)
  | _ => i
  end.

Definition sat2 (z : Z) : Z := if z <? 2 then z + 1 else 2.

(** ... and on the response descriptor.  [sz]: no request is being served (serving slot holds
    the class default); [showtb]: request.show_tracebacks; [e5]: the HTTPError being handled has a 5xx code *)
Definition fin_effect (showtb sz e5 : bool) (a : action) (f : fin) : fin :=
  let mk rs rt vb vr vt vbb os ot sp se to :=
      Fin rs rt vb vr vt vbb (cur_exn f) os ot sp se
          (match a with LoadServing => false | _ => unexp f end)      (* a new request object starts clean *)
          to
          (match a with
           | LoadServing => false
           | SetResponseOfExc => redir_in_error f || (unexp f && match cur_exn f with Some XHTTPRedirect => true | _ => false end)
           | _ => redir_in_error f
           end)
          (match a with ServerNext => true | _ => iterating f end)
          (match a with ErrorIter => true | _ => init_trapped f end) in
  let resp rs rt := mk rs rt (v_body_taint f) (v_r_taint f) (v_tb_taint f) (v_b_taint f)
                       (out_status f) (out_taint f) (sr_plain f) (sr_exc f) (trap_outside f) in
  let vars vb vr vt vbb to := mk (resp_status f) (resp_taint f) vb vr vt vbb
                               (out_status f) (out_taint f) (sr_plain f) (sr_exc f) to in
  match a with
  | LoadServing => resp 0 false                        (* a fresh Response object *)
  | Handler => resp (if resp_status f =? 0 then 2 else resp_status f) false
  | SetResponseOfExc =>
    resp (match cur_exn f with
          | Some XHTTPRedirect => 3
          | Some XHTTPError => if e5 then 5 else 4
          | _ => resp_status f
          end)
         (* HTTPError.set_response puts format_exc() on the page when show_tracebacks is on; redirect pages carry none *)
         (match cur_exn f with Some XHTTPError => showtb | _ => false end)
  | ErrorResponse => resp 5 showtb     (* HTTPError(500).set_response: traceback only if show_tracebacks *)
  | FormatExcBody => vars true (v_r_taint f) (v_tb_taint f) (v_b_taint f) (trap_outside f)
  | ClearBody => vars false (v_r_taint f) (v_tb_taint f) (v_b_taint f) (trap_outside f)
  | BareError => vars (v_body_taint f) (v_body_taint f) (v_tb_taint f) (v_b_taint f) (trap_outside f)
  | InstallBareError => resp 5 (v_r_taint f)
  | DropBody => resp (resp_status f) false
  | FormatExcTb => vars (v_body_taint f) (v_r_taint f) true (v_b_taint f) (trap_outside f || sz)
  | ClearTb => vars (v_body_taint f) (v_r_taint f) false (v_b_taint f) (trap_outside f)
  | BareErrorTrap => vars (v_body_taint f) (v_r_taint f) (v_tb_taint f) (v_tb_taint f) (trap_outside f)
  | StartResponse =>
    mk (resp_status f) (resp_taint f) (v_body_taint f) (v_r_taint f) (v_tb_taint f) (v_b_taint f)
       (if resp_status f =? 0 then 2 else resp_status f) (resp_taint f) (sat2 (sr_plain f)) (sr_exc f)
       (trap_outside f)
  | StartResponseExc =>
    mk (resp_status f) (resp_taint f) (v_body_taint f) (v_r_taint f) (v_tb_taint f) (v_b_taint f)
       5 (v_b_taint f) (sr_plain f) true (trap_outside f)
  | _ => resp (resp_status f) (resp_taint f)     (* ServerNext / ErrorIter: only the bookkeeping bits in [mk] *)
  end.

Definition effect (E : env) (a : action) (st : state) : state :=
  St (tick st) (journal st) (raised_log st)
     (match a with StartResponse => false :: sr_calls st | StartResponseExc => true :: sr_calls st
              | _ => sr_calls st end)
     (ids_effect a (sid st))
     (fin_effect (p_showtb E) (serving (sid st) =? 0) (e_cond E (tick st) FHTTPError5xx) a (sfin st)).

Definition eval_flag (E : env) (st : state) (f : flag) : bool :=
  match f with
  | FClosed => memZ (self_req (sid st)) (closed (sid st))
  | FThrowErrors => p_throw E
  | FShowTracebacksReq => p_showtb E
  | FShowTracebacksServing => if serving (sid st) =? 0 then true else p_showtb E
  | FStartedResponse => iterating (sfin st)
  | FResponseHasClose => negb (init_trapped (sfin st))
  | FErrorResponseSet => true       (* request.error_response keeps a callable (by default HTTPError(500).set_response) *)
  (* decided per internal redirect (indexed by the length of `redirections`): the redirector rewrites the
     method to GET and empties the body, and `new_uri in redirections` depends on the URIs seen so far *)
  | FVisitedBefore | FProcessBody | FMethodHead => e_cond E (occ RecordUri (journal st)) f
  (* response.stream as AppResponse.close() read it before releasing the request (it is set by the request's
     config namespace, so it depends on how far that request got): decided per close() call, indexed by the
     number of serving.clear() calls so far - one per completed release_serving *)
  | FStreaming => e_cond E (occ ClearServing (journal st)) f
  | _ => e_cond E (tick st) f
  end.

Fixpoint eval_cond (E : env) (st : state) (c : cond) : bool :=
  match c with
  | CTrue => true
  | CFlag f => eval_flag E st f
  | CNot c' => negb (eval_cond E st c')
  | COther => e_cond E (tick st) FOther
  end.

(** is the receiver of the call known to be the serving request?  ([old]: what was known of the caller's) *)
Definition recv_known (f : fname) (old : bool) : bool :=
  match f with
  | F_request_run | F_request_close => true
  | F_ir_request_close => false
  | _ => old
  end.

(** which request a method call runs on *)
Definition receiver (f : fname) (st : state) : Z :=
  match f with
  | F_request_run | F_request_close => serving (sid st)
  | F_ir_request_close => ir_req (sid st)
  | _ => self_req (sid st)
  end.

Section Exec.
  Variable prog : fname -> stmt.
  Variable pparam : fname -> stmt.   (* what CallParam stands for in an activation of f *)
  Variable E : env.

  (** [param] is what CallParam stands for in the current activation *)
  Fixpoint exec (fuel : nat) (param : stmt) (s : stmt) (st : state) : outcome * state :=
    match fuel with
    | O => (OutOfFuel, st)
    | S f =>
      match s with
      | Skip => (Normal, st)
      | Act a =>
        match a with
        | SetClosed => (Normal, effect E a (log_action a st))     (* an attribute store: cannot fail *)
        | _ =>
          let st1 := log_action a st in
          match e_act E (occ a (journal st)) a with
          | None => (Normal, effect E a st1)
          | Some e => (Raised e, log_raise a e st1)
          end
        end
      | Seq s1 s2 =>
        match exec f param s1 st with
        | (Normal, st1) => exec f param s2 st1
        | r => r
        end
      | Try body hs orelse fin =>
        let '(o1, st1) := exec f param body st in
        let '(o2, st2) :=
            match o1 with
            | Normal => exec f param orelse st1
            | Raised e =>
              match find_handler hs e with
              | Some h =>
                let saved := cur_exn (sfin st1) in
                let '(oh, sth) := exec f param h (with_cur (Some e) st1) in
                (oh, with_cur saved sth)
              | None => (o1, st1)
              end
            | _ => (o1, st1)
            end in
        match o2 with
        | OutOfFuel => (OutOfFuel, st2)
        | _ =>
          let '(o3, st3) := exec f param fin st2 in
          match o3 with
          | Normal => (o2, st3)
          | _ => (o3, st3)
          end
        end
      | If c s1 s2 =>
        let b := eval_cond E st c in
        exec f param (if b then s1 else s2) (upd_tick st)
      | Assign _ => (Normal, upd_tick st)
      | Raise (Some e) => (Raised e, st)
      | Raise None =>
        match cur_exn (sfin st) with
        | Some e => (Raised e, st)
        | None => (Raised XException, st)       (* RuntimeError: no active exception *)
        end
      | Return => (Returned, st)
      | Loop body =>
        match exec f param body st with
        | (Normal, st1) => exec f param (Loop body) st1
        | r => r
        end
      | ForLoop body =>
        if e_cond E (tick st) FLoopMore then
          match exec f param body (upd_tick st) with
          | (Normal, st1) => exec f param (ForLoop body) st1
          | r => r
          end
        else (Normal, upd_tick st)
      | Call g =>
        let saved := self_req (sid st) in
        let '(o, st1) := exec f (pparam g) (prog g) (with_self (receiver g st) (recv_known g (rsk (sid st))) st) in
        (match o with Returned => Normal | _ => o end, with_self saved false st1)
      | CallParam => exec f Skip param st
      end
    end.
End Exec.
