(** Model of cherrypy._cpreqbody.SizedReader (read / readline / readlines /
    line iteration) over a socket that may fragment reads arbitrarily.
    Definitions only; proofs live in Proof/P_reader.v. *)
From Coq Require Import ZArith List Bool.
From CV Require Import Lib.Sx Lib.ListZ.
Import ListNotations.
Open Scope Z_scope.

(** Static parameters of a reader. *)
Record cfg := Cfg {
  c_len : option Z;      (* Content-Length, None when absent *)
  c_maxb : Z;            (* maxbytes; 0 (falsy) = no limit *)
  c_bufsize : Z;         (* >= 1 *)
  c_front : bool;        (* push-back variant: true = remainder goes in FRONT of
                            the unread buffer (the repaired code), false = appended
                            behind it (the code before the fix) *)
}.

(** Mutable state.  [src] is what the socket still holds, [frags] the
    fragmentation oracle (an upper bound for what each successive fp.read
    returns; exhausted = the socket returns all that was asked for). *)
Record rd := Rd {
  src : list Z;
  frags : list Z;
  buf : list Z;
  bread : Z;
  done : bool;
  taken : Z;             (* ghost: bytes obtained from the socket so far *)
}.

Inductive status := SOk | S413 | STypeError | SUnsupported | SFuel.

(** fp.read(n) of the underlying socket file. *)
Definition fp_read (n : Z) (s : rd) : list Z * rd :=
  let k := match frags s with
           | f :: _ => Z.min n (Z.max 1 f)
           | [] => n
           end in
  let data := takeZ k (src s) in
  (data, Rd (dropZ k (src s)) (tl (frags s)) (buf s) (bread s) (done s)
            (taken s + lenZ data)).

Definition set_done (s : rd) : rd :=
  Rd (src s) (frags s) (buf s) (bread s) true (taken s).
Definition add_bread (n : Z) (s : rd) : rd :=
  Rd (src s) (frags s) (buf s) (bread s + n) (done s) (taken s).
Definition set_buf (b : list Z) (s : rd) : rd :=
  Rd (src s) (frags s) b (bread s) (done s) (taken s).

Definition over (c : cfg) (s : rd) : bool :=
  negb (c_maxb c =? 0) && (c_maxb c <? bread s).

(** remaining > 0 where None is +inf *)
Definition rem_pos (r : option Z) : bool :=
  match r with None => true | Some z => 0 <? z end.
Definition rem_sub (r : option Z) (n : Z) : option Z :=
  match r with None => None | Some z => Some (z - n) end.

(** the [while remaining > 0] socket loop of SizedReader.read *)
Fixpoint sock_loop (fuel : nat) (c : cfg) (rem : option Z) (acc : list Z) (s : rd)
  : status * list Z * rd :=
  match fuel with
  | O => (SFuel, acc, s)
  | S f =>
    if rem_pos rem then
      let chunksize := match rem with
                       | None => c_bufsize c
                       | Some r => Z.min r (c_bufsize c)
                       end in
      let '(data, s1) := fp_read chunksize s in
      match data with
      | [] => (SOk, acc, set_done s1)
      | _ =>
        let s2 := add_bread (lenZ data) s1 in
        if over c s2 then (S413, acc, s2)
        else sock_loop f c (rem_sub rem (lenZ data)) (acc ++ data) s2
      end
    else (SOk, acc, s)
  end.

(** SizedReader.read(size).  [size = None] is Python's None.  The data
    component is what was returned (status SOk) or, for a read into fp_out,
    what had been written before the error. *)
Definition read_rem (c : cfg) (size : option Z) (s : rd) : option Z :=
  match c_len c with
  | None => size
  | Some cl =>
    let r := cl - bread s in
    match size with
    | Some n => if negb (n =? 0) && (n <? r) then Some n else Some r
    | None => Some r
    end
  end.

Definition neg_size (size : option Z) : bool :=
  match size with Some n => n <? 0 | None => false end.

Definition read (c : cfg) (size : option Z) (s : rd) : status * list Z * rd :=
  if neg_size size then (SUnsupported, [], s) else
  let rem := read_rem c size s in
  if match rem with Some 0 => true | _ => false end then (SOk, [], set_done s)
  else
    match buf s with
    | [] => sock_loop (S (length (src s))) c rem [] s
    | _ =>
      let data := match rem with None => buf s | Some r => takeZ r (buf s) end in
      let rest := match rem with None => [] | Some r => dropZ r (buf s) end in
      let s1 := add_bread (lenZ data) (set_buf rest s) in
      if over c s1 then (S413, [], s1)
      else sock_loop (S (length (src s1))) c (rem_sub rem (lenZ data)) data s1
    end.

(** index just after the first LF (10), if any *)
Fixpoint find_nl (l : list Z) : option nat :=
  match l with
  | [] => None
  | x :: r => if x =? 10 then Some 1%nat
              else match find_nl r with Some k => Some (S k) | None => None end
  end.

Fixpoint rl_loop (fuel : nat) (c : cfg) (size : option Z) (acc : list Z) (s : rd)
  : status * list Z * rd :=
  match fuel with
  | O => (SFuel, acc, s)
  | S f =>
    if match size with None => true | Some n => 0 <? n end then
      let chunksize := match size with
                       | None => c_bufsize c
                       | Some n => if n <? c_bufsize c then n else c_bufsize c
                       end in
      match read c (Some chunksize) s with
      | (SOk, [], s1) => (SOk, acc, s1)
      | (SOk, data, s1) =>
        match find_nl data with
        | Some pos =>
          let line := firstn pos data in
          let remainder := skipn pos data in
          let nb := if c_front c then remainder ++ buf s1 else buf s1 ++ remainder in
          (SOk, acc ++ line, add_bread (- lenZ remainder) (set_buf nb s1))
        | None => rl_loop f c size (acc ++ data) s1
        end
      | (st, _, s1) => (st, acc, s1)
      end
    else (SOk, acc, s)
  end.

Definition rl_fuel (s : rd) : nat := S (length (buf s) + length (src s)).

Definition readline (c : cfg) (size : option Z) (s : rd) : status * list Z * rd :=
  rl_loop (rl_fuel s) c size [] s.

Fixpoint rls_loop (fuel : nat) (c : cfg) (hint : option Z) (seen : Z)
         (acc : list (list Z)) (s : rd) : status * list (list Z) * rd :=
  match fuel with
  | O => (SFuel, acc, s)
  | S f =>
    match readline c None s with
    | (SOk, [], s1) => (SOk, acc, s1)
    | (SOk, line, s1) =>
      let seen1 := seen + lenZ line in
      match hint with
      | None => rls_loop f c hint seen1 (acc ++ [line]) s1
      | Some h => if h <=? seen1 then (SOk, acc ++ [line], s1)
                  else rls_loop f c hint seen1 (acc ++ [line]) s1
      end
    | (st, _, s1) => (st, acc, s1)
    end
  end.

Definition readlines (c : cfg) (hint : option Z) (s : rd)
  : status * list (list Z) * rd :=
  let sizehint :=
    match c_len c with
    | Some cl => Some (match hint with
                      | None => cl - bread s
                      | Some h => Z.min h (cl - bread s)
                      end)
    | None => hint
    end in
  rls_loop (rl_fuel s) c sizehint 0 [] s.

(** Operations a caller can interleave. *)
Inductive op :=
| ORead (size : option Z)
| OReadline (size : option Z)
| OReadlines (hint : option Z)
| ONext
| OReadInto (size : option Z).   (* read(size, fp_out) *)

Inductive out :=
| OutBytes (b : list Z)
| OutLines (ls : list (list Z))
| OutStop.                       (* StopIteration *)

Definition out_bytes (o : out) : list Z :=
  match o with OutBytes b => b | OutLines ls => concat ls | OutStop => [] end.

Definition step (c : cfg) (o : op) (s : rd) : status * out * rd :=
  match o with
  | ORead sz | OReadInto sz =>
    let '(st, b, s1) := read c sz s in (st, OutBytes b, s1)
  | OReadline sz =>
    let '(st, b, s1) := readline c sz s in (st, OutBytes b, s1)
  | OReadlines h =>
    let '(st, ls, s1) := readlines c h s in (st, OutLines ls, s1)
  | ONext =>
    let '(st, b, s1) := readline c None s in
    match st, b with
    | SOk, [] => (SOk, OutStop, s1)
    | _, _ => (st, OutBytes b, s1)
    end
  end.

(** Run an operation list, stopping at the first non-OK status. *)
Fixpoint run (c : cfg) (ops : list op) (s : rd) : list (status * out) * rd :=
  match ops with
  | [] => ([], s)
  | o :: r =>
    let '(st, ou, s1) := step c o s in
    match st with
    | SOk => let '(outs, s2) := run c r s1 in ((st, ou) :: outs, s2)
    | _ => ([(st, ou)], s1)
    end
  end.

Definition init (body : list Z) (fr : list Z) : rd := Rd body fr [] 0 false 0.

(* ---------- s-expression boundary ---------- *)

Definition dec_op (x : sx) : op :=
  match sx_list x with
  | I 0 :: r => ORead (sx_optZ (L r))
  | I 1 :: r => OReadline (sx_optZ (L r))
  | I 2 :: r => OReadlines (sx_optZ (L r))
  | I 4 :: r => OReadInto (sx_optZ (L r))
  | _ => ONext
  end.

Definition enc_status (st : status) : sx :=
  I match st with SOk => 0 | S413 => 413 | STypeError => 1 | SUnsupported => 2 | SFuel => 3 end.

Definition enc_out (o : out) : sx :=
  match o with
  | OutBytes b => L [I 0; of_Zs b]
  | OutLines ls => L [I 1; L (map of_Zs ls)]
  | OutStop => L [I 2]
  end.

(** case = (body frags (len?) maxb bufsize front ops)
    result = ((status out)* taken bread |buf| done) *)
Definition run_C05 (x : sx) : sx :=
  let body := sx_Zs (nth_sx 0 x) in
  let fr := sx_Zs (nth_sx 1 x) in
  let c := Cfg (sx_optZ (nth_sx 2 x)) (sx_Z (nth_sx 3 x)) (sx_Z (nth_sx 4 x))
               (sx_bool (nth_sx 5 x)) in
  let ops := map dec_op (sx_list (nth_sx 6 x)) in
  let '(outs, s) := run c ops (init body fr) in
  L [ L (map (fun '(st, o) => L [enc_status st; enc_out o]) outs);
      I (taken s); I (bread s); I (lenZ (buf s)); of_bool (done s) ].
