(** Executable entry points of the pipeline model for the correspondence check (C01, C09): decode a
    scenario into an environment, run a server session, encode what is observable.  Definitions only.
    The code tables below are generated from the Inductive definitions of M_flow.v (the harness parses
    the same definitions, so the numbering cannot drift). *)
From Coq Require Import ZArith List Bool.
Import ListNotations.
From CV Require Import Lib.Sx Model.M_flow Model.M_hooks Model.M_pipeline.
Open Scope Z_scope.

Definition all_actions : list action :=
  [RunHooks OnStartResource; RunHooks BeforeRequestBody; RunHooks BeforeHandler; RunHooks BeforeFinalize; RunHooks OnEndResource; RunHooks OnEndRequest; RunHooks BeforeErrorResponse; RunHooks AfterErrorResponse; FindDispatch; Dispatch; SetDefaultErrorResponse; CopyHooks; ProcessHeaders; GetResource; MakeBody; Namespaces; ProcessQueryString; BodyProcess; Handler; Finalize; SetResponseOfExc; ErrorResponse; FormatExcBody; ClearBody; BareError; InstallBareError; DropBody; LogAccess; NewRequest; NewResponse; LoadServing; PublishEngine; ClearServing; SetClosed; IterBody; StartResponse; StartResponseExc; IterClose; NextChunk; FormatExcTb; ClearTb; BareErrorTrap; EmptyIter; ErrorIter; BindIr; RecordUri; ReadIterResponse; ServerNext; ServerCloseAgain; Other].
Definition all_flags : list flag :=
  [FClosed; FThrowErrors; FShowTracebacksReq; FShowTracebacksServing; FStartedResponse; FMethodHead; FProcessBody; FHandlerSet; FErrorResponseSet; FAppNone; FRecursive; FVisitedBefore; FStreaming; FStatusIsBytes; FHeaderKeyIsBytes; FHeaderValIsBytes; FResponseHasClose; FLoopMore; FHTTPError5xx; FOther].
Definition all_points : list hookpoint := [OnStartResource; BeforeRequestBody; BeforeHandler; BeforeFinalize; OnEndResource; OnEndRequest; BeforeErrorResponse; AfterErrorResponse].

Definition all_fnames : list fname :=
  [F_request_run; F_respond; F_do_respond; F_handle_error; F_request_close; F_ir_request_close;
   F_get_serving; F_release_serving; F_appresponse_init; F_appresponse_close; F_appresponse_close_init;
   F_appresponse_run; F_redirector_call; F_trap_init; F_trap_next; F_trapped_init; F_trapped_next; F_trapped_close].
Definition all_pats : list pat :=
  [PThrows; PTrapThrows; PHTTPRedirectOrError; PHTTPRedirect; PInternalRedirect; PException; PBaseException; PStopIteration].

Definition flag_eq_dec : forall a b : flag, {a = b} + {a <> b}.
Proof. decide equality. Defined.
Definition hookpoint_eq_dec : forall a b : hookpoint, {a = b} + {a <> b}.
Proof. decide equality. Defined.

Fixpoint index_of {A} (dec : forall a b : A, {a = b} + {a <> b}) (x : A) (l : list A) (n : Z) : Z :=
  match l with
  | [] => -1
  | y :: r => if dec x y then n else index_of dec x r (n + 1)
  end.

Definition action_code (a : action) : Z := index_of action_eq_dec a all_actions 0.
Definition flag_code (f : flag) : Z := index_of flag_eq_dec f all_flags 0.
Definition point_code (p : hookpoint) : Z := index_of hookpoint_eq_dec p all_points 0.

Definition exn_of_code (z : Z) : option exn :=
  match z with
  | 1 => Some XHTTPError | 2 => Some XHTTPRedirect | 3 => Some XInternalRedirect | 4 => Some XException
  | 5 => Some XStopIteration | 6 => Some XKeyboardInterrupt | 7 => Some XSystemExit | 8 => Some XFromServer
  | _ => None
  end.
Definition exn_code (e : exn) : Z :=
  match e with
  | XHTTPError => 1 | XHTTPRedirect => 2 | XInternalRedirect => 3 | XException => 4
  | XStopIteration => 5 | XKeyboardInterrupt => 6 | XSystemExit => 7 | XFromServer => 8
  end.
Definition outcome_code (o : outcome) : Z :=
  match o with Normal => 0 | Returned => -1 | Raised e => exn_code e | OutOfFuel => -2 end.

(** ---- a skeleton program as data: the skeletons regenerated from /repo are handed to the model with every
    case, so that the correspondence check runs the semantics on what the source says now ----
      stmt: (0) Skip  (1 a) Act  (2 s1 s2) Seq  (3 body ((pat h) ...) orelse fin) Try  (4 c s1 s2) If  (5 f) Assign
            (6) bare raise  (6 e) Raise  (7) Return  (8 b) Loop  (9 b) ForLoop  (10 g) Call  (11) CallParam
      cond: (0) CTrue  (1 f) CFlag  (2 c) CNot  (3) COther *)
Definition nthZ {A} (z : Z) (l : list A) (d : A) : A := nth (Z.to_nat z) l d.
Definition action_of_code (z : Z) : action := nthZ z all_actions Other.
Definition flag_of_code (z : Z) : flag := nthZ z all_flags FOther.
Definition fname_of_code (z : Z) : fname := nthZ z all_fnames F_request_run.
Definition pat_of_code (z : Z) : pat := nthZ z all_pats PBaseException.
Definition fname_eq_dec : forall a b : fname, {a = b} + {a <> b}.
Proof. decide equality. Defined.
Definition fname_code (f : fname) : Z := index_of fname_eq_dec f all_fnames 0.

Fixpoint dec_cond (x : sx) : cond :=
  match x with
  | L (I k :: args) =>
    if k =? 0 then CTrue
    else if k =? 1 then match args with [I f] => CFlag (flag_of_code f) | _ => COther end
    else if k =? 2 then match args with [c] => CNot (dec_cond c) | _ => COther end
    else COther
  | _ => COther
  end.

Fixpoint dec_stmt (x : sx) : stmt :=
  match x with
  | L (I k :: args) =>
    if k =? 1 then match args with [I a] => Act (action_of_code a) | _ => Skip end
    else if k =? 2 then match args with [s1; s2] => Seq (dec_stmt s1) (dec_stmt s2) | _ => Skip end
    else if k =? 3 then
      match args with
      | [b; L hs; o; f] =>
        Try (dec_stmt b)
            (map (fun h => match h with
                           | L [I p; s] => (pat_of_code p, dec_stmt s)
                           | _ => (PBaseException, Skip)
                           end) hs)
            (dec_stmt o) (dec_stmt f)
      | _ => Skip
      end
    else if k =? 4 then match args with [c; s1; s2] => If (dec_cond c) (dec_stmt s1) (dec_stmt s2) | _ => Skip end
    else if k =? 5 then match args with [I f] => Assign (flag_of_code f) | _ => Skip end
    else if k =? 6 then match args with [I e] => Raise (exn_of_code e) | _ => Raise None end
    else if k =? 7 then Return
    else if k =? 8 then match args with [b] => Loop (dec_stmt b) | _ => Skip end
    else if k =? 9 then match args with [b] => ForLoop (dec_stmt b) | _ => Skip end
    else if k =? 10 then match args with [I g] => Call (fname_of_code g) | _ => Skip end
    else if k =? 11 then CallParam
    else Skip
  | _ => Skip
  end.

Definition pat_eq_dec : forall a b : pat, {a = b} + {a <> b}.
Proof. decide equality. Defined.
Definition pat_code (p : pat) : Z := index_of pat_eq_dec p all_pats 0.

Fixpoint enc_cond (c : cond) : sx :=
  match c with
  | CTrue => L [I 0]
  | CFlag f => L [I 1; I (flag_code f)]
  | CNot c' => L [I 2; enc_cond c']
  | COther => L [I 3]
  end.

Fixpoint enc_stmt (s : stmt) : sx :=
  match s with
  | Skip => L [I 0]
  | Act a => L [I 1; I (action_code a)]
  | Seq s1 s2 => L [I 2; enc_stmt s1; enc_stmt s2]
  | Try b hs o f =>
    L [I 3; enc_stmt b; L (map (fun h => L [I (pat_code (fst h)); enc_stmt (snd h)]) hs); enc_stmt o; enc_stmt f]
  | If c s1 s2 => L [I 4; enc_cond c; enc_stmt s1; enc_stmt s2]
  | Assign f => L [I 5; I (flag_code f)]
  | Raise None => L [I 6]
  | Raise (Some e) => L [I 6; I (exn_code e)]
  | Return => L [I 7]
  | Loop b => L [I 8; enc_stmt b]
  | ForLoop b => L [I 9; enc_stmt b]
  | Call g => L [I 10; I (fname_code g)]
  | CallParam => L [I 11]
  end.

(** program = ((fname_code stmt) ...); a function that is not listed keeps the hand-written skeleton *)
Definition dec_prog (x : sx) (f : fname) : stmt :=
  match find (fun e => sx_Z (nth_sx 0 e) =? fname_code f) (sx_list x) with
  | Some e => dec_stmt (nth_sx 1 e)
  | None => prog f
  end.

(** scenario = (showtb  act_rules  true_flags  hooks  visited_from  streaming_closes  program)
      streaming_closes: the AppResponse.close() calls (1-based) that found response.stream set
      visited_from: `new_uri in redirections` holds from the visited_from-th internal redirect on
      act_rules : ((action_code occurrence exn_code) ...)       an action without a rule succeeds
      true_flags: (flag_code ...)                               environment conditions that hold (constant in time)
      hooks     : ((point_code ((id prio failsafe beh_code) ...)) ...)   beh_code 0 = returns
    An attached hook list decides what `hooks.run(point)` does (M_hooks.run_point), unless an explicit
    rule for that RunHooks action overrides it. *)
Definition dec_hook (x : sx) : hook :=
  Hook (sx_Z (nth_sx 0 x)) (sx_Z (nth_sx 1 x)) (sx_bool (nth_sx 2 x)) (exn_of_code (sx_Z (nth_sx 3 x))).

Definition hooks_at (hs : list (Z * list hook)) (p : hookpoint) : list hook :=
  match find (fun e => fst e =? point_code p) hs with Some e => snd e | None => [] end.

Definition rule_for (rules : list (Z * Z * Z)) (a : action) (n : nat) : option exn :=
  match find (fun r => (fst (fst r) =? action_code a) && (snd (fst r) =? Z.of_nat n)) rules with
  | Some r => exn_of_code (snd r)
  | None => None
  end.

Definition scenario_env (x : sx) : env :=
  let showtb := sx_bool (nth_sx 0 x) in
  let rules := map (fun r => (sx_Z (nth_sx 0 r), sx_Z (nth_sx 1 r), sx_Z (nth_sx 2 r))) (sx_list (nth_sx 1 x)) in
  let trues := sx_Zs (nth_sx 2 x) in
  let hs := map (fun e => (sx_Z (nth_sx 0 e), map dec_hook (sx_list (nth_sx 1 e)))) (sx_list (nth_sx 3 x)) in
  let vfrom := sx_Z (nth_sx 4 x) in
  let sclose := sx_Zs (nth_sx 5 x) in
  Env (fun n a =>
         match rule_for rules a n with
         | Some e => Some e
         | None => match a with
                   | RunHooks p => snd (run_point (hooks_at hs p))
                   | _ => None
                   end
         end)
      (fun n f => match f with
                  | FVisitedBefore => vfrom <=? Z.of_nat n     (* n = number of entries in `redirections` *)
                  | FStreaming => existsb (Z.eqb (Z.of_nat n)) sclose   (* n-th close(): 1-based *)
                  | FProcessBody | FMethodHead =>              (* the original request only: a redirected one is a GET *)
                    existsb (Z.eqb (flag_code f)) trues && (Z.of_nat n =? 0)
                  | _ => existsb (Z.eqb (flag_code f)) trues
                  end)
      showtb false.

Definition enc_journal (hs : list (Z * list hook)) (j : list (Z * action)) : sx :=
  L (map (fun e => match snd e with
                   | RunHooks p => L [I (fst e); I (action_code (snd e)); of_Zs (fst (run_point (hooks_at hs p)))]
                   | a => L [I (fst e); I (action_code a)]
                   end) (rev j)).

(** result = (outcome  journal  out_status  out_taint  sr_calls(oldest first)  unexp  trap_outside
              raised((req action exn) ...)) *)
Definition run_session (x : sx) : sx :=
  let E := scenario_env x in
  let hs := map (fun e => (sx_Z (nth_sx 0 e), map dec_hook (sx_list (nth_sx 1 e)))) (sx_list (nth_sx 3 x)) in
  let '(o, st) := exec (dec_prog (nth_sx 6 x)) pparam E 600 Skip server_session init_state in
  L [ I (outcome_code o);
      enc_journal hs (journal st);
      I (out_status (sfin st)); of_bool (out_taint (sfin st));
      L (map of_bool (rev (sr_calls st)));
      of_bool (unexp (sfin st)); of_bool (trap_outside (sfin st));
      L (map (fun r => L [I (fst (fst r)); I (action_code (snd (fst r))); I (exn_code (snd r))]) (rev (raised_log st))) ].

Definition run_C01 : sx -> sx := run_session.
Definition run_C09 : sx -> sx := run_session.
