(** C06 - response framing.

    Executable model of what the response pipeline does to (status code,
    Content-Length header, body, stream flag):

    - every built-in tool is a *transformer* [tx] described by what it does to
      the body and to Content-Length ([RewriteDrop f] = rewrite the body and
      delete the header, [RewriteSetExact f] = rewrite and set the header to the
      new length, [Regroup g] = byte-preserving regrouping, [Keep], and, for
      user code only, [SetCL n]);
    - [finalize] as written in cherrypy/_cprequest.py Response.finalize (stream
      branch / no-body statuses / collapse and set Content-Length);
    - HTTPError.set_response (clean_headers, pop Content-Length, page,
      _be_ie_unfriendly), HTTPRedirect.set_response, bare_error;
    - Request.respond / handle_error / run: which of them runs when a hook, the
      handler or finalize raises, the second before_finalize pass, the HEAD rule;
    - tools.caching as far as framing is concerned (what is stored, what a hit
      restores).

    The bytes a rewriting tool produces (gzip, encode, pages) are opaque
    functions here; which branch a tool takes for given request headers
    (negotiation, validators, range arithmetic) is the business of C15/C16/C17
    and enters as the tool's descriptor.  Definitions only. *)
From Coq Require Import ZArith List Bool.
From CV Require Import Lib.Sx Lib.ListZ.
Import ListNotations.
Open Scope Z_scope.

Definition chunk := list Z.

Fixpoint total (b : list chunk) : Z :=
  match b with [] => 0 | c :: r => lenZ c + total r end.

Inductive meth := GET | HEAD | POST.

Definition meth_eqb (a b : meth) : bool :=
  match a, b with GET, GET | HEAD, HEAD | POST, POST => true | _, _ => false end.

(** Bookkeeping that does not belong to the framing triple.
    [a_bad]: 0 = the body is an iterable of byte strings; 1 = it holds nested
    iterators (joining fails, iterating works; tools.flatten repairs it);
    2 = it holds items that are not byte strings (joining fails);
    3 = iterating it raises. *)
Record auxst := mkA {
  a_bad : Z;
  a_skip : bool;                      (* request.handler is None *)
  a_tee_attached : bool;              (* caching attached tee_output *)
  a_teed : bool;                      (* the body is wrapped by the tee *)
  a_nostore : bool;                   (* response says Pragma: no-cache / no-store *)
  a_cached : bool;                    (* request.cached *)
  a_stored : option (list chunk);     (* what the tee saw when it was run to its end *)
  a_cdel : bool;                      (* the cache entry of the URI was deleted *)
  a_tags : list Z                     (* branch tags, newest first *)
}.

Record resp := mkR {
  code : Z;
  cl : option Z;                      (* the Content-Length header *)
  body : list chunk;
  stream : bool;
  aux : auxst
}.

Definition with_aux (r : resp) (a : auxst) : resp := mkR (code r) (cl r) (body r) (stream r) a.
Definition with_body (r : resp) (b : list chunk) : resp := mkR (code r) (cl r) b (stream r) (aux r).
Definition with_cl (r : resp) (c : option Z) : resp := mkR (code r) c (body r) (stream r) (aux r).
Definition with_code (r : resp) (c : Z) : resp := mkR c (cl r) (body r) (stream r) (aux r).
Definition with_stream (r : resp) (s : bool) : resp := mkR (code r) (cl r) (body r) s (aux r).

Definition set_bad (a : auxst) (b : Z) : auxst :=
  mkA b (a_skip a) (a_tee_attached a) (a_teed a) (a_nostore a) (a_cached a) (a_stored a) (a_cdel a) (a_tags a).
Definition set_skip (a : auxst) (b : bool) : auxst :=
  mkA (a_bad a) b (a_tee_attached a) (a_teed a) (a_nostore a) (a_cached a) (a_stored a) (a_cdel a) (a_tags a).
Definition set_tee_attached (a : auxst) (b : bool) : auxst :=
  mkA (a_bad a) (a_skip a) b (a_teed a) (a_nostore a) (a_cached a) (a_stored a) (a_cdel a) (a_tags a).
Definition set_teed (a : auxst) (b : bool) : auxst :=
  mkA (a_bad a) (a_skip a) (a_tee_attached a) b (a_nostore a) (a_cached a) (a_stored a) (a_cdel a) (a_tags a).
Definition set_nostore (a : auxst) (b : bool) : auxst :=
  mkA (a_bad a) (a_skip a) (a_tee_attached a) (a_teed a) b (a_cached a) (a_stored a) (a_cdel a) (a_tags a).
Definition set_cached (a : auxst) (b : bool) : auxst :=
  mkA (a_bad a) (a_skip a) (a_tee_attached a) (a_teed a) (a_nostore a) b (a_stored a) (a_cdel a) (a_tags a).
Definition set_stored (a : auxst) (s : option (list chunk)) : auxst :=
  mkA (a_bad a) (a_skip a) (a_tee_attached a) (a_teed a) (a_nostore a) (a_cached a) s (a_cdel a) (a_tags a).
Definition set_cdel (a : auxst) (b : bool) : auxst :=
  mkA (a_bad a) (a_skip a) (a_tee_attached a) (a_teed a) (a_nostore a) (a_cached a) (a_stored a) b (a_tags a).
Definition add_tag (a : auxst) (t : Z) : auxst :=
  mkA (a_bad a) (a_skip a) (a_tee_attached a) (a_teed a) (a_nostore a) (a_cached a) (a_stored a) (a_cdel a)
      (t :: a_tags a).

Definition tag (r : resp) (t : Z) : resp := with_aux r (add_tag (aux r) t).

(** How a rewriting tool relates to the iterable it replaces or wraps. *)
Inductive auxop :=
| UNone                 (* leaves the bookkeeping alone *)
| UFlat                 (* tools.flatten: nested iterators are gone *)
| UWrap                 (* a generator that reads the old body when it is run (gzip) *)
| UFresh (b : Z).       (* a new body: the old iterable (and a tee around it) is dropped *)

Definition apply_auxop (u : auxop) (a : auxst) : auxst :=
  match u with
  | UNone => a
  | UFlat => if a_bad a =? 1 then set_bad a 0 else a
  | UWrap => if a_bad a =? 0 then a else set_bad a 3
  | UFresh b => set_teed (set_bad a b) false
  end.

Inductive exit :=
| ENone
| EErr (c : Z)          (* raise HTTPError(c) *)
| ERedir (c : Z)        (* raise HTTPRedirect(..., c) *)
| ECrash.               (* any other exception *)

(** A stored cache variant: status, Content-Length header, body. *)
Definition centry := (Z * option Z * list chunk)%type.

(* ---------- error and redirect pages ---------- *)

(** What the request's error-page machinery yields for a status: the page's
    chunks and whether they can be joined ([a_bad] coding). *)
Record env := mkE {
  e_pages : list (Z * (list chunk * Z))      (* status -> page; key 0 = any other status *)
}.

Fixpoint assocZ {A} (k : Z) (l : list (Z * A)) : option A :=
  match l with
  | [] => None
  | (k', v) :: r => if k =? k' then Some v else assocZ k r
  end.

Definition page_of (e : env) (c : Z) : list chunk * Z :=
  match assocZ c (e_pages e) with
  | Some p => p
  | None => match assocZ 0 (e_pages e) with Some p => p | None => ([], 0) end
  end.

Definition ie_sizes : list (Z * Z) :=
  [(400, 512); (403, 256); (404, 512); (405, 256); (406, 512); (408, 512); (409, 512); (410, 256);
   (500, 512); (501, 512); (505, 512)].

Definition ie_size (c : Z) : Z := match assocZ c ie_sizes with Some s => s | None => 0 end.

Definition spaces (k : Z) : list Z := Z.iter k (cons 32) [].

(** _be_ie_unfriendly's body function: collapse, pad a non-empty short body to s + 1. *)
Definition ie_pad (s : Z) (b : list chunk) : list chunk :=
  let content := concat b in
  let n := lenZ content in
  if (0 <? n) && (n <? s + 1) then [content ++ spaces (s + 1 - n)] else [content].

(** The two shapes every body-replacing piece of code has (see [tx] below):
    replace and delete the header / replace and set the header to the new length. *)
Definition rewrite_drop (f : list chunk -> list chunk) (u : auxop) (r : resp) : resp :=
  with_aux (with_cl (with_body r (f (body r))) None) (apply_auxop u (aux r)).

Definition rewrite_set_exact (f : list chunk -> list chunk) (u : auxop) (r : resp) : resp :=
  let b := f (body r) in
  with_aux (with_cl (with_body r b) (Some (total b))) (apply_auxop u (aux r)).

Definition joinable (r : resp) : bool := a_bad (aux r) =? 0.

(** HTTPError.set_response: clean_headers and pop drop Content-Length, the page
    becomes the body, then _be_ie_unfriendly (collapse, pad, set the length). *)
Definition set_error (e : env) (c : Z) (r : resp) : resp * exit :=
  let '(pg, pbad) := page_of e c in
  let r1 := rewrite_drop (fun _ => pg) (UFresh pbad) (with_code r c) in
  let s := ie_size c in
  if s =? 0 then (tag r1 20, ENone)
  else if joinable r1 then (tag (rewrite_set_exact (ie_pad s) UNone r1) 21, ENone)
  else (r1, ECrash).

Definition redirect_with_page : list Z := [300; 301; 302; 303; 307; 308].

Definition set_redirect (e : env) (c : Z) (r : resp) : resp * exit :=
  if existsb (Z.eqb c) redirect_with_page then
    let '(pg, pbad) := page_of e c in
    (tag (rewrite_drop (fun _ => pg) (UFresh pbad) (with_code r c)) 22, ENone)
  else if (c =? 304) || (c =? 305) then
    (tag (rewrite_drop (fun _ => []) (UFresh 0) (with_code r c)) 23, ENone)
  else (r, ECrash).

Definition bare_body : list Z :=
  (* b'Unrecoverable error in the server.' + b'\n' + b'' *)
  [85;110;114;101;99;111;118;101;114;97;98;108;101;32;101;114;114;111;114;32;105;110;32;116;104;101;32;
   115;101;114;118;101;114;46;10].

(** bare_error: status, header list and body are replaced wholesale. *)
Definition bare (r : resp) : resp :=
  tag (rewrite_set_exact (fun _ => [bare_body]) (UFresh 0) (with_code r 500)) 32.

(** Transformers.  [f], [g] are arbitrary functions on bodies: the model never
    looks inside what gzip, a codec or a page template produce. *)
Inductive tx :=
| Keep
| Regroup (g : list chunk -> list chunk) (u : auxop)
      (* byte-preserving (the theorems assume total (g b) = total b): flatten, collapse_body *)
| RewriteDrop (f : list chunk -> list chunk) (u : auxop)
      (* Rewrite f o DropCL: gzip, encode, pages, multipart ranges *)
| RewriteSetExact (f : list chunk -> list chunk) (u : auxop)
      (* body := f body; Content-Length := its length: _be_ie_unfriendly, whole file, one range *)
| Handled (f : list chunk -> list chunk)
      (* a HandlerTool (staticfile/staticdir): RewriteSetExact, and the page handler is skipped *)
| HandledDrop (f : list chunk -> list chunk)
      (* a HandlerTool answering multipart/byteranges: RewriteDrop, handler skipped *)
| HandlerBody (f : list chunk -> list chunk) (b : Z)
      (* response.body = request.handler(): plain assignment, the header is not touched *)
| SetExact                    (* user code that sets Content-Length to the length of its body *)
| SetCL (n : Z)               (* user code that sets an arbitrary Content-Length *)
| DropCL
| SetCode (c : Z)
| SetStream (s : bool)
| Collapse                    (* response.collapse_body() by a tool (etags autotags) *)
| NoStore                     (* tools.expires made the response uncacheable *)
| UnlessCached (t : tx)       (* tools.gzip does nothing when request.cached *)
| SetError (c : Z)            (* HTTPError(c).set_response() called, not raised (gzip's 406) *)
| RaiseIf2xx (ex : exit)      (* validate_etags: the conditions count when the status is 2xx *)
| CacheGet (hit_exit : exit)  (* tools.caching at before_handler *)
| Tee.                        (* caching.tee_output at before_finalize *)

Definition invalidating (m : meth) : bool := match m with POST => true | _ => false end.

(** One transformer.  [cache] is the stored variant for this URI (None = none). *)
Fixpoint apply_tx (e : env) (cache : option centry) (m : meth) (t : tx) (r : resp) : resp * exit :=
  match t with
  | Keep => (r, ENone)
  | Regroup g u => (with_aux (with_body r (g (body r))) (apply_auxop u (aux r)), ENone)
  | RewriteDrop f u => (rewrite_drop f u r, ENone)
  | RewriteSetExact f u => (rewrite_set_exact f u r, ENone)
  | Handled f =>
      let r1 := rewrite_set_exact f (UFresh 0) r in (with_aux r1 (set_skip (aux r1) true), ENone)
  | HandledDrop f =>
      let r1 := rewrite_drop f (UFresh 0) r in (with_aux r1 (set_skip (aux r1) true), ENone)
  | HandlerBody f b => (with_aux (with_body r (f (body r))) (apply_auxop (UFresh b) (aux r)), ENone)
  | SetExact => (with_cl r (Some (total (body r))), ENone)
  | SetCL n => (with_cl r (Some n), ENone)
  | DropCL => (with_cl r None, ENone)
  | SetCode c => (with_code r c, ENone)
  | SetStream s => (with_stream r s, ENone)
  | Collapse =>
      if joinable r then (with_body r [concat (body r)], ENone) else (r, ECrash)
  | NoStore => (with_aux r (set_nostore (aux r) true), ENone)
  | UnlessCached t' => if a_cached (aux r) then (r, ENone) else apply_tx e cache m t' r
  | SetError c => set_error e c r
  | RaiseIf2xx ex => if (200 <=? code r) && (code r <=? 299) then (r, ex) else (r, ENone)
  | CacheGet hit_exit =>
      if invalidating m then (with_aux r (set_cdel (aux r) true), ENone)
      else match cache with
           | None => (with_aux r (set_tee_attached (aux r) true), ENone)
           | Some (c, l, b) =>
               (* the stored headers replace the response headers ... *)
               let r1 := tag (with_cl r l) 40 in
               match hit_exit with
               | ENone =>
                   (* ... then status and body; the handler is skipped *)
                   (with_aux (with_code (with_body r1 b) c)
                             (set_cached (set_skip (apply_auxop (UFresh 0) (aux r1)) true) true), ENone)
               | ex => (with_aux r1 (set_cached (aux r1) true), ex)
                   (* validate_since raised on the cached Last-Modified; request.cached is already set *)
               end
           end
  | Tee => if a_tee_attached (aux r) then (with_aux r (set_teed (aux r) true), ENone) else (r, ENone)
  end.

Fixpoint run_txs (e : env) (cache : option centry) (m : meth) (ts : list tx) (r : resp) : resp * exit :=
  match ts with
  | [] => (r, ENone)
  | t :: rest =>
      match apply_tx e cache m t r with
      | (r', ENone) => run_txs e cache m rest r'
      | re => re
      end
  end.

(** A hook callback: what it does, how it ends; and the same for the second
    before_finalize pass that follows an HTTPError/HTTPRedirect. *)
Record hook := mkH {
  h_tool : Z;
  h_tx : list tx; h_exit : exit;
  h_tx2 : list tx; h_exit2 : exit
}.

Definition run_hook (e : env) (cache : option centry) (m : meth) (second : bool) (h : hook) (r : resp) : resp * exit :=
  let ts := if second then h_tx2 h else h_tx h in
  let ex := if second then h_exit2 h else h_exit h in
  match run_txs e cache m ts r with
  | (r', ENone) => (r', ex)
  | re => re
  end.

Fixpoint run_hooks (e : env) (cache : option centry) (m : meth) (second : bool) (hs : list hook) (r : resp) : resp * exit :=
  match hs with
  | [] => (r, ENone)
  | h :: rest =>
      match run_hook e cache m second h r with
      | (r', ENone) => run_hooks e cache m second rest r'
      | re => re
      end
  end.

(* ---------- Response.finalize ---------- *)

Definition nobody_codes : list Z := [204; 205; 304].

Definition nobody_below : Z := 200.

Definition nobody (c : Z) : bool := (c <? nobody_below) || existsb (Z.eqb c) nobody_codes.

Definition note_stored (r : resp) : auxst :=
  if a_teed (aux r) then set_stored (aux r) (Some (body r)) else aux r.

Definition finalize (r : resp) : resp * exit :=
  if stream r then (tag r 10, ENone)
  else if nobody (code r) then
    (* pop Content-Length; _flush_body(); body = b'' *)
    if a_bad (aux r) =? 3 then (r, ECrash)
    else if a_teed (aux r) && negb (joinable r) then (r, ECrash)   (* the tee joins what it saw *)
    else (tag (with_aux (with_cl (with_body r []) None) (note_stored r)) 11, ENone)
  else match cl r with
       | Some _ => (tag r 12, ENone)
       | None =>
           if joinable r then
             let content := concat (body r) in
             (tag (with_aux (with_cl (with_body r [content]) (Some (lenZ content))) (note_stored r)) 13, ENone)
           else (r, ECrash)
       end.

(* ---------- Request.respond / handle_error / run ---------- *)

Definition do_respond (e : env) (cache : option centry) (m : meth) (bh : list hook) (h : hook) (bf : list hook)
           (r : resp) : resp * exit :=
  match run_hooks e cache m false bh r with
  | (r1, ENone) =>
      match (if a_skip (aux r1) then (r1, ENone) else run_hook e cache m false h r1) with
      | (r2, ENone) =>
          match run_hooks e cache m false bf r2 with
          | (r3, ENone) => finalize r3
          | re => re
          end
      | re => re
      end
  | re => re
  end.

Definition handle_error (e : env) (r : resp) : resp * exit :=
  match set_error e 500 (tag r 31) with
  | (r1, ENone) => finalize r1
  | (r1, _) => (r1, ECrash)
  end.

Definition respond (cache : option centry) (m : meth) (e : env) (bh : list hook) (h : hook) (bf : list hook)
           (r : resp) : resp * exit :=
  match do_respond e cache m bh h bf r with
  | (r', ENone) => (r', ENone)
  | (r', ECrash) => handle_error e r'
  | (r', ex) =>
      match (match ex with EErr c => set_error e c r' | ERedir c => set_redirect e c r' | _ => (r', ECrash) end) with
      | (r1, ENone) =>
          match run_hooks e cache m true bf (tag r1 30) with
          | (r2, ENone) =>
              match finalize r2 with
              | (r3, ENone) => (r3, ENone)
              | (r3, _) => handle_error e r3
              end
          | (r2, _) => handle_error e r2
          end
      | (r1, _) => handle_error e r1
      end
  end.

(** Request.run: anything escaping respond gives bare_error; then the HEAD rule. *)
Definition head_rule (m : meth) (r : resp) : resp :=
  match m with HEAD => with_body r [] | _ => r end.

Definition run_request (cache : option centry) (m : meth) (e : env) (bh : list hook) (h : hook) (bf : list hook)
           (r0 : resp) : resp :=
  let r := match respond cache m e bh h bf r0 with
           | (r, ENone) => r
           | (r, _) => bare r
           end in
  head_rule m r.

(** What the WSGI server receives. *)
Definition delivered (r : resp) : Z * option Z * Z := (code r, cl r, total (body r)).

(** The cache after the server has drained the body. *)
Definition cache_after (cache : option centry) (m : meth) (r : resp) : option centry :=
  let a := aux r in
  let seen :=
      match a_stored a with
      | Some b => Some b
      | None => if a_teed a && negb (meth_eqb m HEAD) && (a_bad a =? 0) then Some (body r) else None
      end in
  let cache1 := if a_cdel a then None else cache in
  match seen with
  | None => cache1
  | Some b =>
      if a_nostore a then cache1
      else if total b =? 0 then None
      else Some (code r, cl r, b)
  end.

(* ---------- G: who assigns the response body, and what happens to Content-Length there ---------- *)

(** One row per code unit (top-level function or class) of cherrypy/lib/*.py and
    cherrypy/_cperror.py that assigns response.body / self.body, read off the
    sources by vcheck/props/c06.py on every run:
    (file:unit, (assigns the body, (deletes/pops Content-Length, sets Content-Length))). *)
Definition effect_row := (list Z * (bool * (bool * bool)))%type.

Inductive ekind := KNone | KDrop | KSetExact | KPreserving | KRestore.

(** units that regroup the body without changing its bytes (they need no reset) *)
Definition preserving_units : list (list Z) :=
  [[99;104;101;114;114;121;112;121;47;108;105;98;47;99;97;99;104;105;110;103;46;112;121;58;116;101;101;95;111;117;116;112;117;116];     (* cherrypy/lib/caching.py:tee_output *)
   [99;104;101;114;114;121;112;121;47;108;105;98;47;99;112;116;111;111;108;115;46;112;121;58;102;108;97;116;116;101;110]].    (* cherrypy/lib/cptools.py:flatten *)

(** units that replace body and header map together by a stored response *)
Definition restoring_units : list (list Z) :=
  [[99;104;101;114;114;121;112;121;47;108;105;98;47;99;97;99;104;105;110;103;46;112;121;58;103;101;116]].    (* cherrypy/lib/caching.py:get *)

Definition kind_of_row (row : effect_row) : option ekind :=
  let '(name, (assigns, (deletes, sets))) := row in
  if negb assigns then Some KNone
  else if deletes then Some KDrop
  else if sets then Some KSetExact
  else if existsb (eqbZs name) preserving_units then Some KPreserving
  else if existsb (eqbZs name) restoring_units then Some KRestore
  else None.

Definition rewrites_body_implies_resets_length (row : effect_row) : bool :=
  match kind_of_row row with Some _ => true | None => false end.

(** the transformer shape the model uses for a unit of that kind *)
Definition tx_of_kind (k : ekind) (f : list chunk -> list chunk) : tx :=
  match k with
  | KNone => Keep
  | KDrop => RewriteDrop f UNone
  | KSetExact => RewriteSetExact f UNone
  | KPreserving => Regroup f UNone
  | KRestore => CacheGet ENone
  end.

(** the rows this model relies on (each must be found in the regenerated table) *)
Definition tool_effects : list effect_row :=
  [(* cherrypy/_cperror.py:HTTPError *)
   ([99;104;101;114;114;121;112;121;47;95;99;112;101;114;114;111;114;46;112;121;58;72;84;84;80;69;114;114;111;114],
     (true, (true, false)));
   (* cherrypy/_cperror.py:HTTPRedirect *)
   ([99;104;101;114;114;121;112;121;47;95;99;112;101;114;114;111;114;46;112;121;58;72;84;84;80;82;101;100;105;114;101;99;116],
     (true, (true, false)));
   (* cherrypy/_cperror.py:_be_ie_unfriendly *)
   ([99;104;101;114;114;121;112;121;47;95;99;112;101;114;114;111;114;46;112;121;58;95;98;101;95;105;101;95;117;110;102;114;105;101;110;100;108;121],
     (true, (false, true)));
   (* cherrypy/lib/caching.py:get *)
   ([99;104;101;114;114;121;112;121;47;108;105;98;47;99;97;99;104;105;110;103;46;112;121;58;103;101;116],
     (true, (false, false)));
   (* cherrypy/lib/caching.py:tee_output *)
   ([99;104;101;114;114;121;112;121;47;108;105;98;47;99;97;99;104;105;110;103;46;112;121;58;116;101;101;95;111;117;116;112;117;116],
     (true, (false, false)));
   (* cherrypy/lib/cptools.py:flatten *)
   ([99;104;101;114;114;121;112;121;47;108;105;98;47;99;112;116;111;111;108;115;46;112;121;58;102;108;97;116;116;101;110],
     (true, (false, false)));
   (* cherrypy/lib/encoding.py:ResponseEncoder *)
   ([99;104;101;114;114;121;112;121;47;108;105;98;47;101;110;99;111;100;105;110;103;46;112;121;58;82;101;115;112;111;110;115;101;69;110;99;111;100;101;114],
     (true, (true, false)));
   (* cherrypy/lib/encoding.py:gzip *)
   ([99;104;101;114;114;121;112;121;47;108;105;98;47;101;110;99;111;100;105;110;103;46;112;121;58;103;122;105;112],
     (true, (true, false)));
   (* cherrypy/lib/static.py:_serve_fileobj *)
   ([99;104;101;114;114;121;112;121;47;108;105;98;47;115;116;97;116;105;99;46;112;121;58;95;115;101;114;118;101;95;102;105;108;101;111;98;106],
     (true, (true, true)))].

Definition eqb_row (a b : effect_row) : bool :=
  let '(n1, (a1, (d1, s1))) := a in
  let '(n2, (a2, (d2, s2))) := b in
  eqbZs n1 n2 && Bool.eqb a1 a2 && Bool.eqb d1 d2 && Bool.eqb s1 s2.

Definition rows_present (need have : list effect_row) : bool :=
  forallb (fun r => existsb (eqb_row r) have) need.

(* ---------- hook points and priorities (tied to cherrypy/_cptools.py by G) ---------- *)

(** tool id -> (hook point: 0 before_handler, 2 before_finalize; priority) *)
Definition tool_table : list (Z * (Z * Z)) :=
  [(0, (0, 30));    (* json_out *)
   (1, (0, 50));    (* staticfile *)
   (2, (0, 50));    (* staticdir *)
   (3, (0, 70));    (* encode *)
   (4, (0, 90));    (* caching *)
   (5, (2, 50));    (* expires *)
   (6, (2, 50));    (* flatten *)
   (7, (2, 75));    (* etags *)
   (8, (2, 80));    (* gzip *)
   (9, (2, 100))].  (* caching.tee_output, attached on the fly *)

Definition tool_point (t : Z) : Z := match assocZ t tool_table with Some (p, _) => p | None => 2 end.
Definition tool_prio (t : Z) : Z := match assocZ t tool_table with Some (_, p) => p | None => 50 end.

(** sorted(hooks) - stable, by priority *)
Fixpoint insert_hook (h : hook) (l : list hook) : list hook :=
  match l with
  | [] => [h]
  | x :: r => if tool_prio (h_tool h) <? tool_prio (h_tool x) then h :: l else x :: insert_hook h r
  end.

Definition sort_hooks (l : list hook) : list hook := fold_left (fun acc h => insert_hook h acc) l [].

Definition hooks_at (p : Z) (l : list hook) : list hook :=
  sort_hooks (filter (fun h => tool_point (h_tool h) =? p) l).

Definition aux0 : auxst := mkA 0 false false false false false None false [].
Definition resp0 (st : bool) : resp := mkR 200 None [] st aux0.

Definition serve (cache : option centry) (m : meth) (e : env) (st : bool) (hooks : list hook) (h : hook) : resp :=
  run_request cache m e (hooks_at 0 hooks) h (hooks_at 2 hooks) (resp0 st).

(* ---------- s-expression boundary ---------- *)

Definition dec_chunks (x : sx) : list chunk := map sx_Zs (sx_list x).

Definition dec_exit (x : sx) : exit :=
  match sx_list x with
  | I 1 :: c :: _ => EErr (sx_Z c)
  | I 2 :: c :: _ => ERedir (sx_Z c)
  | I 3 :: _ => ECrash
  | _ => ENone
  end.

Definition dec_auxop (x : sx) : auxop :=
  match sx_list x with
  | I 1 :: _ => UFlat
  | I 2 :: _ => UWrap
  | I 3 :: b :: _ => UFresh (sx_Z b)
  | _ => UNone
  end.

(** gzip's opaque function, given by its graph on the bodies that can reach it:
    ((input length, output chunks) ...) *)
Definition dec_table (x : sx) : list (Z * list chunk) :=
  map (fun p => (sx_Z (nth_sx 0 p), dec_chunks (nth_sx 1 p))) (sx_list x).

Definition table_fun (t : list (Z * list chunk)) (b : list chunk) : list chunk :=
  match assocZ (total b) t with Some o => o | None => [] end.

Definition dec_tx (x : sx) : tx :=
  match sx_list x with
  | I 1 :: u :: _ => Regroup (fun b => b) (dec_auxop u)
  | I 2 :: out :: u :: _ => let o := dec_chunks out in RewriteDrop (fun _ => o) (dec_auxop u)
  | I 3 :: out :: _ => let o := dec_chunks out in Handled (fun _ => o)
  | I 4 :: out :: b :: _ => let o := dec_chunks out in HandlerBody (fun _ => o) (sx_Z b)
  | I 5 :: _ => SetExact
  | I 6 :: n :: _ => SetCL (sx_Z n)
  | I 7 :: c :: _ => SetCode (sx_Z c)
  | I 8 :: s :: _ => SetStream (sx_bool s)
  | I 9 :: _ => Collapse
  | I 10 :: _ => NoStore
  | I 11 :: t :: _ => let tb := dec_table t in UnlessCached (RewriteDrop (table_fun tb) UWrap)
  | I 12 :: e :: _ => CacheGet (dec_exit e)
  | I 13 :: _ => Tee
  | I 14 :: _ => DropCL
  | I 15 :: out :: u :: _ => let o := dec_chunks out in RewriteSetExact (fun _ => o) (dec_auxop u)
  | I 16 :: out :: _ => let o := dec_chunks out in HandledDrop (fun _ => o)
  | I 17 :: c :: _ => UnlessCached (SetError (sx_Z c))
  | I 18 :: c :: _ => SetError (sx_Z c)
  | I 19 :: ex :: _ => RaiseIf2xx (dec_exit ex)
  | _ => Keep
  end.

(** hook = (tool txs exit txs2 exit2) *)
Definition dec_hook (x : sx) : hook :=
  mkH (sx_Z (nth_sx 0 x)) (map dec_tx (sx_list (nth_sx 1 x))) (dec_exit (nth_sx 2 x))
      (map dec_tx (sx_list (nth_sx 3 x))) (dec_exit (nth_sx 4 x)).

Definition dec_meth (x : sx) : meth :=
  match sx_Z x with 1 => HEAD | 2 => POST | _ => GET end.

(** page = (status chunks bad) *)
Definition dec_page (x : sx) : Z * (list chunk * Z) :=
  (sx_Z (nth_sx 0 x), (dec_chunks (nth_sx 1 x), sx_Z (nth_sx 2 x))).

(** request = (method stream hooks handler pages) *)
Definition run_one (cache : option centry) (x : sx) : resp * option centry :=
  let m := dec_meth (nth_sx 0 x) in
  let st := sx_bool (nth_sx 1 x) in
  let hooks := map dec_hook (sx_list (nth_sx 2 x)) in
  let h := dec_hook (nth_sx 3 x) in
  let e := mkE (map dec_page (sx_list (nth_sx 4 x))) in
  let r := serve cache m e st hooks h in
  (r, cache_after cache m r).

Definition enc_resp (r : resp) : sx :=
  let '(c, l, n) := delivered r in
  L [I c; of_optZ l; I n; of_bool (stream r); of_Zs (rev (a_tags (aux r)))].

Fixpoint run_history (cache : option centry) (reqs : list sx) : list sx :=
  match reqs with
  | [] => []
  | x :: rest =>
      let '(r, cache') := run_one cache x in
      enc_resp r :: run_history cache' rest
  end.

(** case = (request ...) sharing one URI, in order, starting from an empty cache;
    result = ((status (cl?) bytes stream tags) ...) *)
Definition run_C06 (x : sx) : sx := L (run_history None (sx_list x)).
