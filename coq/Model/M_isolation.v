(** C10 - a small heap model of what CherryPy creates per request and per
    application, and of what requests can do to it.

    Objects have identities (Z).  The heap maps an identity to the object's
    content, abstracted to the list of MARKS (keys / entries / attached hooks /
    ad-hoc attributes) it holds.  Every modelled attribute ("field") has a
    class-level root object: [Request.hooks], [Request.error_page],
    [Request.namespaces], [Request.toolmaps], [Request.params], ...,
    [Response.headers], [Entity.processors], [Entity.attempt_charsets],
    [CPWSGIApp.pipeline], [CPWSGIApp.config], [Application.config],
    [cherrypy.config] (root of [request.config]), the class-level default
    request/response of [_Serving] (roots of the request/response objects
    themselves, i.e. of their ad-hoc attributes).  The root of field [f] has
    identity [f].

    What [get_serving], [Request.__init__/run/_do_respond], [Response.__init__],
    [Entity.__init__] (per request) and [Application.__init__],
    [CPWSGIApp.__init__] (per application) do is ONE step [OBegin] of an owner
    (a thread's slot in [cherrypy.serving], or an application instance): every
    field gets its object according to its INITIALISATION KIND, supplied as a
    table (generated from the sources by vcheck/props/c10.py):
      FreshCopy        a new object holding a copy of the root's content
      FreshEmpty       a new empty object
      AliasOfClassAttr the root object itself (a bare read of the class
                       attribute, or no per-instance assignment at all: Python's
                       attribute lookup then falls through to the class).
    A field that has no row in the table is an alias, as in Python.

    [OMut f m] is a per-request operation (attach a hook, add a processor, set
    an error page, add a namespace, set a response header, set an ad-hoc
    attribute, set a param ...): it adds mark [m] to the object reachable from
    the owner's OWN attribute [f].  [OObserve] is the snapshot a probe handler
    returns: the content of the object behind each of its attributes.  [OEnd]
    is [release_serving] ([serving.clear()]).

    [serving] maps owner -> slot.  A schedule is a list of (owner, op): there
    is no scheduler, every interleaving is a schedule.

    Definitions only; proofs are in Proof/P_isolation*.v. *)
From Coq Require Import ZArith List Bool.
From CV Require Import Lib.Sx Lib.ListZ.
Import ListNotations.
Open Scope Z_scope.

Inductive kind := FreshCopy | FreshEmpty | AliasOfClassAttr.

Definition table := list (Z * kind).

(** The fields (the names are in vcheck/props/c10.py FIELDS):
    0 request.hooks  1 request.error_page  2 request.namespaces
    3 request.toolmaps  4 request.params  5 request.headers  6 request.cookie
    7 request.header_list  8 request.config  9 response.headers
    10 response.cookie  11 response.header_list  12 body.processors
    13 body.attempt_charsets  14 part.attempt_charsets  15 the request object
    16 the response object  17 the per-point lists inside request.hooks
    18 wsgiapp.pipeline  19 wsgiapp.config  20 app.config  21 app.namespaces *)
Definition all_fields : list Z :=
  [0; 1; 2; 3; 4; 5; 6; 7; 8; 9; 10; 11; 12; 13; 14; 15; 16; 17; 18; 19; 20; 21].
Definition nroots : Z := 22.
Definition valid_field (f : Z) : bool := existsb (Z.eqb f) all_fields.
Definition root (f : Z) : Z := f.
Definition is_root (o : Z) : bool := (0 <=? o) && (o <? nroots).

Fixpoint kind_of (tbl : table) (f : Z) : kind :=
  match tbl with
  | [] => AliasOfClassAttr
  | (g, k) :: r => if g =? f then k else kind_of r f
  end.

Definition is_fresh (k : kind) : bool :=
  match k with AliasOfClassAttr => false | _ => true end.
Definition is_fresh_entry (e : Z * kind) : bool := is_fresh (snd e).
(** the generated obligations *)
Definition all_fresh (tbl : table) : bool := forallb is_fresh_entry tbl.
Definition covers (tbl : table) : bool :=
  forallb (fun f => existsb (fun e => fst e =? f) tbl) all_fields.
Definition table_ok (tbl : table) : bool :=
  forallb (fun f => is_fresh (kind_of tbl f)) all_fields.

(** ** Heap, slots, state *)
Definition heap := list (Z * list Z).
Fixpoint hget (h : heap) (o : Z) : list Z :=
  match h with
  | [] => []
  | (k, v) :: r => if k =? o then v else hget r o
  end.
Definition hset (h : heap) (o : Z) (v : list Z) : heap := (o, v) :: h.

Definition slot := list (Z * Z).            (* field -> object *)
(** attribute lookup: the instance's own object, else the class attribute *)
Fixpoint slot_obj (sl : slot) (f : Z) : Z :=
  match sl with
  | [] => root f
  | (g, o) :: r => if g =? f then o else slot_obj r f
  end.

Definition smap := list (Z * option slot).  (* owner -> slot *)
Fixpoint sget (s : smap) (t : Z) : option slot :=
  match s with
  | [] => None
  | (k, v) :: r => if k =? t then v else sget r t
  end.

Record state := St { heap_of : heap; next : Z; serving : smap }.

(** initial state: only the class-level roots exist, with arbitrary content *)
Definition init (h0 : heap) : state := St h0 nroots [].

Inductive op :=
| OBegin
| OMut (f m : Z)
| OObserve
| OEnd.

(** ** Initialisation of the attributes of a new request / application *)
Fixpoint alloc_fields (tbl : table) (fs : list Z) (h : heap) (n : Z)
  : heap * Z * slot :=
  match fs with
  | [] => (h, n, [])
  | f :: r =>
    match kind_of tbl f with
    | AliasOfClassAttr =>
        let '(h', n', sl) := alloc_fields tbl r h n in (h', n', (f, root f) :: sl)
    | FreshCopy =>
        let '(h', n', sl) := alloc_fields tbl r (hset h n (hget h (root f))) (n + 1) in
        (h', n', (f, n) :: sl)
    | FreshEmpty =>
        let '(h', n', sl) := alloc_fields tbl r (hset h n []) (n + 1) in
        (h', n', (f, n) :: sl)
    end
  end.

Definition snapshot (h : heap) (sl : slot) : list (Z * list Z) :=
  map (fun f => (f, hget h (slot_obj sl f))) all_fields.

(** an output: (owner, Some snapshot), or (owner, None) for an operation
    attempted outside a request (explicit: such operations are outside the
    property's quantifier and are ignored by the model) *)
Definition output := (Z * option (list (Z * list Z)))%type.

Definition step (tbl : table) (st : state) (e : Z * op) : state * list output :=
  let t := fst e in
  match snd e with
  | OBegin =>
      let '(h', n', sl) := alloc_fields tbl all_fields (heap_of st) (next st) in
      (St h' n' ((t, Some sl) :: serving st), [])
  | OMut f m =>
      match sget (serving st) t with
      | Some sl =>
          if valid_field f then
            let o := slot_obj sl f in
            (St (hset (heap_of st) o (hget (heap_of st) o ++ [m])) (next st) (serving st), [])
          else (st, [(t, None)])
      | None => (st, [(t, None)])
      end
  | OObserve =>
      match sget (serving st) t with
      | Some sl => (st, [(t, Some (snapshot (heap_of st) sl))])
      | None => (st, [(t, None)])
      end
  | OEnd => (St (heap_of st) (next st) ((t, None) :: serving st), [])
  end.

Fixpoint run (tbl : table) (st : state) (sched : list (Z * op)) : state * list output :=
  match sched with
  | [] => (st, [])
  | e :: r =>
      let '(st1, o1) := step tbl st e in
      let '(st2, o2) := run tbl st1 r in
      (st2, o1 ++ o2)
  end.

(** the objects whose heap cell a step assigns (shown complete in
    P_isolation.step_frame) *)
Fixpoint alloc_ids (tbl : table) (fs : list Z) (n : Z) : list Z :=
  match fs with
  | [] => []
  | f :: r =>
    match kind_of tbl f with
    | AliasOfClassAttr => alloc_ids tbl r n
    | _ => n :: alloc_ids tbl r (n + 1)
    end
  end.
Definition writes (tbl : table) (st : state) (e : Z * op) : list Z :=
  match snd e with
  | OBegin => alloc_ids tbl all_fields (next st)
  | OMut f m =>
      match sget (serving st) (fst e) with
      | Some sl => if valid_field f then [slot_obj sl f] else []
      | None => []
      end
  | _ => []
  end.

(** ** Requests, histories, projections *)
(** one request of owner [t]: its initialisation, then its operations *)
Definition request (t : Z) (ops : list op) : list (Z * op) :=
  (t, OBegin) :: map (fun o => (t, o)) ops.
(** a sequential history of requests *)
Definition sched_of (reqs : list (Z * list op)) : list (Z * op) :=
  flat_map (fun r => request (fst r) (snd r)) reqs.
Definition outputs (tbl : table) (h0 : heap) (reqs : list (Z * list op)) : list output :=
  snd (run tbl (init h0) (sched_of reqs)).
(** the steps / the outputs of one owner *)
Definition proj (t : Z) (sched : list (Z * op)) : list (Z * op) :=
  filter (fun e => fst e =? t) sched.
Definition outs_of (t : Z) (outs : list output) : list output :=
  filter (fun o => fst o =? t) outs.

(** ** s-expression interface
    case   = (table roots sched)
      table = ((f kind) ...)   kind: 0 FreshCopy 1 FreshEmpty 2 AliasOfClassAttr
      roots = ((f (marks)) ...) initial content of the class-level roots
      sched = ((t opcode f m) ...)  opcode: 0 OBegin 1 OMut 2 OObserve 3 OEnd
    result = (outs roots_after)
      outs  = ((t 1 ((f (marks)) ...)) | (t 0 ()) ...)
      roots_after = ((f (marks)) ...) for all fields *)
Definition dec_kind (z : Z) : kind :=
  if z =? 0 then FreshCopy else if z =? 1 then FreshEmpty else AliasOfClassAttr.
Definition dec_table (s : sx) : table :=
  map (fun e => (sx_Z (nth_sx 0 e), dec_kind (sx_Z (nth_sx 1 e)))) (sx_list s).
Definition dec_roots (s : sx) : heap :=
  map (fun e => (root (sx_Z (nth_sx 0 e)), sx_Zs (nth_sx 1 e))) (sx_list s).
Definition dec_op (e : sx) : Z * op :=
  let t := sx_Z (nth_sx 0 e) in
  let c := sx_Z (nth_sx 1 e) in
  (t, if c =? 0 then OBegin
      else if c =? 1 then OMut (sx_Z (nth_sx 2 e)) (sx_Z (nth_sx 3 e))
      else if c =? 2 then OObserve else OEnd).
Definition enc_snap (s : list (Z * list Z)) : sx :=
  L (map (fun p => L [I (fst p); of_Zs (snd p)]) s).
Definition enc_out (o : output) : sx :=
  match snd o with
  | Some s => L [I (fst o); I 1; enc_snap s]
  | None => L [I (fst o); I 0; L []]
  end.
Definition run_C10 (s : sx) : sx :=
  let tbl := dec_table (nth_sx 0 s) in
  let h0 := dec_roots (nth_sx 1 s) in
  let sched := map dec_op (sx_list (nth_sx 2 s)) in
  let '(st, outs) := run tbl (init h0) sched in
  L [L (map enc_out outs);
     enc_snap (map (fun f => (f, hget (heap_of st) (root f))) all_fields)].
