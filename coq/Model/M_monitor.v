(** C20 - background workers under every thread interleaving.

    Two interleaving transition systems, both at the granularity of the *visible*
    instructions of the anchored code (the park points of vcheck/impl/scheduler.py):

    1. Monitor / BackgroundTask (cherrypy/process/plugins.py): one controller thread
       issuing start / stop / graceful, and the worker threads it creates.
         worker  run:    [begin] ; running := True (as written) ; test ; sleep ; test ; call ; test ...
         Monitor.start:  guard (thread is None) ; create (thread := task) ;
                         [running := True in the starting thread - repaired] ; Thread.start
         Monitor.stop:   guard ; cancel (running := False) ; join if not daemon ; thread := None ; return
         graceful:       stop ; start
       [c_fixed = false] is the code as written (the worker sets [running] itself),
       [c_fixed = true] the repaired task (fixes/C20-lostcancel.diff).
    2. ThreadManager acquire_thread / release_thread against stop, every dict
       operation atomic, the dict modelled with CPython's entry array (tombstones,
       size check of the iterator).  [fixed = false]: stop iterates [threads.items()]
       and clears; [fixed = true]: stop pops entries one at a time.

    Definitions only.  A schedule is a list of thread ids; entries naming a thread
    that is not enabled are skipped; when it is exhausted the run continues without
    pre-emption (current thread while enabled, else the lowest enabled tid). *)
From Coq Require Import ZArith List Bool.
From CV Require Import Lib.Sx Lib.ListZ.
Import ListNotations.
Open Scope Z_scope.

Fixpoint updZ {A} (n : Z) (f : A -> A) (l : list A) : list A :=
  match l with
  | [] => []
  | x :: r => if n =? 0 then f x :: r else x :: updZ (n - 1) f r
  end.

Fixpoint seqZ {A} (start : Z) (l : list A) : list Z :=
  match l with [] => [] | _ :: r => start :: seqZ (start + 1) r end.

(* ------------------------------------------------------------------ *)
(** * 1. Monitor / BackgroundTask *)

Inductive wpc := WBegin | WSet | WTest | WSleep | WTest2 | WCall | WDone.

Record task := Task {
  t_pc : wpc;
  t_run : bool;          (* BackgroundTask.running *)
  t_spawned : bool;      (* Thread.start() has been executed *)
  t_canc : bool;         (* ghost: cancel() has been called *)
  t_sleeps : Z;
  t_wake : Z }.

Inductive cpc := CStart | CIdle | CCreate | CSetRun | CSpawn | CCancel | CJoin | CClear | CStopRet | CFin.
Inductive op := OStart | OStop | OGraceful.

Inductive event :=
| EInv (w : Z) (t : Z)              (* worker w invoked the callback at logical time t *)
| EStopRet (w : option Z) (t : Z)   (* Monitor.stop returned; w = the worker it stopped *)
| EOpBegin (k : Z)
| EOpRet (k : Z) (t : Z).

Record cfg := Cfg { c_fixed : bool; c_daemon : bool; c_budget : Z; c_interval : Z }.

Record ctl := Ctl {
  mthread : option Z;    (* Monitor.thread *)
  pc : cpc;
  prog : list op;        (* operations not yet begun *)
  opidx : Z;
  target : option Z;     (* the thread stop() is working on *)
  thenstart : bool;      (* graceful: start() follows the stop() *)
  curop : option op;
  lastop : option op }.  (* ghost: the operation that returned last *)

Record st := St { tasks : list task; ct : ctl; now : Z; jrn : list event (* newest first *) }.

Definition init (p : list op) : st :=
  St [] (Ctl None CStart p 0 None false None None) 0 [].

Definition new_task : task := Task WBegin false false false 0 0.

Definition set_pc (p : wpc) (t : task) : task :=
  Task p (t_run t) (t_spawned t) (t_canc t) (t_sleeps t) (t_wake t).
Definition set_run (b : bool) (t : task) : task :=
  Task (t_pc t) b (t_spawned t) (t_canc t) (t_sleeps t) (t_wake t).
Definition set_spawned (t : task) : task :=
  Task (t_pc t) (t_run t) true (t_canc t) (t_sleeps t) (t_wake t).
Definition do_cancel (t : task) : task :=
  Task (t_pc t) false (t_spawned t) true (t_sleeps t) (t_wake t).
Definition go_sleep (wake : Z) (t : task) : task :=
  Task WSleep (t_run t) (t_spawned t) (t_canc t) (t_sleeps t) wake.
Definition woke (t : task) : task :=
  Task WTest2 (t_run t) (t_spawned t) (t_canc t) (t_sleeps t + 1) (t_wake t).

Definition c_pc (p : cpc) (c : ctl) : ctl :=
  Ctl (mthread c) p (prog c) (opidx c) (target c) (thenstart c) (curop c) (lastop c).

(** the current operation returns to the harness *)
Definition op_return (s : st) : st :=
  let c := ct s in
  St (tasks s)
     (Ctl (mthread c) (match prog c with [] => CFin | _ => CIdle end) (prog c) (opidx c + 1)
          (target c) (thenstart c) None (curop c))
     (now s) (EOpRet (opidx c) (now s) :: jrn s).

(** Monitor.start up to its first visible instruction *)
Definition begin_start (s : st) : st :=
  match mthread (ct s) with
  | None => St (tasks s) (c_pc CCreate (ct s)) (now s) (jrn s)
  | Some _ => op_return s            (* 'already started' *)
  end.

(** Monitor.stop up to its first visible instruction *)
Definition begin_stop (g : bool) (s : st) : st :=
  let c := ct s in
  match mthread c with
  | None => St (tasks s) (Ctl None CStopRet (prog c) (opidx c) None g (curop c) (lastop c)) (now s) (jrn s)
  | Some w => St (tasks s) (Ctl (Some w) CCancel (prog c) (opidx c) (Some w) g (curop c) (lastop c)) (now s) (jrn s)
  end.

Definition task_done (l : list task) (w : Z) : bool :=
  match nthZ w l with Some t => match t_pc t with WDone => true | _ => false end | None => false end.

(** one step of the controller: label code and new state; None = not enabled *)
Definition cstep (cf : cfg) (s : st) : option (Z * st) :=
  let c := ct s in
  match pc c with
  | CStart => Some (0, St (tasks s) (c_pc (match prog c with [] => CFin | _ => CIdle end) c) (now s) (jrn s))
  | CIdle =>
    match prog c with
    | [] => None
    | o :: r =>
      let s1 := St (tasks s) (Ctl (mthread c) CIdle r (opidx c) (target c) (thenstart c) (Some o) (lastop c))
                   (now s) (EOpBegin (opidx c) :: jrn s) in
      Some (10, match o with
                | OStart => begin_start s1
                | OStop => begin_stop false s1
                | OGraceful => begin_stop true s1
                end)
    end
  | CCreate =>
    Some (11, St (tasks s ++ [new_task])
                 (Ctl (Some (lenZ (tasks s))) (if c_fixed cf then CSetRun else CSpawn) (prog c) (opidx c)
                      (target c) (thenstart c) (curop c) (lastop c))
                 (now s) (jrn s))
  | CSetRun =>
    match mthread c with
    | Some w => Some (17, St (updZ w (set_run true) (tasks s)) (c_pc CSpawn c) (now s) (jrn s))
    | None => None
    end
  | CSpawn =>
    match mthread c with
    | Some w => Some (12, op_return (St (updZ w set_spawned (tasks s)) c (now s) (jrn s)))
    | None => None
    end
  | CCancel =>
    match target c with
    | Some w => Some (13, St (updZ w do_cancel (tasks s)) (c_pc (if c_daemon cf then CClear else CJoin) c)
                             (now s) (jrn s))
    | None => None
    end
  | CJoin =>
    match target c with
    | Some w => if task_done (tasks s) w then Some (14, St (tasks s) (c_pc CClear c) (now s) (jrn s)) else None
    | None => None
    end
  | CClear =>
    Some (15, St (tasks s) (Ctl None CStopRet (prog c) (opidx c) (target c) (thenstart c) (curop c) (lastop c))
                 (now s) (jrn s))
  | CStopRet =>
    let s1 := St (tasks s) (Ctl (mthread c) CStopRet (prog c) (opidx c) None false (curop c) (lastop c))
                 (now s) (EStopRet (target c) (now s) :: jrn s) in
    Some (16, if thenstart c then begin_start s1 else op_return s1)
  | CFin => None
  end.

(** one step of worker w (thread id w + 1) *)
Definition wstep (cf : cfg) (w : Z) (s : st) : option (Z * st) :=
  match nthZ w (tasks s) with
  | None => None
  | Some t =>
    if negb (t_spawned t) then None else
    let upd f := St (updZ w f (tasks s)) (ct s) (now s) (jrn s) in
    match t_pc t with
    | WBegin => Some (0, upd (set_pc (if c_fixed cf then WTest else WSet)))
    | WSet => Some (1, upd (fun t => set_pc WTest (set_run true t)))
    | WTest => Some (2, if t_run t then upd (go_sleep (now s + c_interval cf)) else upd (set_pc WDone))
    | WSleep =>
      if t_sleeps t <? c_budget cf
      then Some (3, St (updZ w woke (tasks s)) (ct s) (Z.max (now s) (t_wake t)) (jrn s))
      else None
    | WTest2 => Some (2, upd (set_pc (if t_run t then WCall else WDone)))
    | WCall => Some (4, St (updZ w (set_pc WTest) (tasks s)) (ct s) (now s) (EInv w (now s) :: jrn s))
    | WDone => None
    end
  end.

Definition step (cf : cfg) (tid : Z) (s : st) : option (Z * st) :=
  if tid =? 0 then cstep cf s else wstep cf (tid - 1) s.

Definition is_enabled (cf : cfg) (s : st) (tid : Z) : bool :=
  match step cf tid s with Some _ => true | None => false end.
Definition all_tids (s : st) : list Z := 0 :: seqZ 1 (tasks s).
Definition enabled (cf : cfg) (s : st) : list Z := filter (is_enabled cf s) (all_tids s).

Definition trace := list (Z * Z).    (* (tid, label), newest first *)

Fixpoint replay (cf : cfg) (sched : list Z) (cur : option Z) (s : st) (tr : trace)
  : option Z * st * trace :=
  match sched with
  | [] => (cur, s, tr)
  | x :: r =>
    match step cf x s with
    | Some (lab, s') => replay cf r (Some x) s' ((x, lab) :: tr)
    | None => replay cf r cur s tr
    end
  end.

Fixpoint tail (cf : cfg) (fuel : nat) (cur : option Z) (s : st) (tr : trace) : bool * st * trace :=
  match fuel with
  | O => (false, s, tr)
  | S f =>
    match enabled cf s with
    | [] => (true, s, tr)
    | e0 :: _ =>
      let x := match cur with
               | Some c => if existsb (Z.eqb c) (enabled cf s) then c else e0
               | None => e0
               end in
      match step cf x s with
      | Some (lab, s') => tail cf f (Some x) s' ((x, lab) :: tr)
      | None => (true, s, tr)
      end
    end
  end.

Definition run_monitor (cf : cfg) (p : list op) (sched : list Z) : bool * st * trace :=
  let '(cur, s, tr) := replay cf sched None (init p) [] in
  tail cf 1000 cur s tr.

(** ghost observers used by the theorems *)
Definition is_stopret (w : Z) (e : event) : bool :=
  match e with EStopRet (Some w') _ => w' =? w | _ => false end.
Definition is_inv (w : Z) (e : event) : bool :=
  match e with EInv w' _ => w' =? w | _ => false end.
Definition stopped_in (w : Z) (j : list event) : bool := existsb (is_stopret w) j.
(** callback invocations by worker w that come after a [stop] that stopped w has returned
    (the journal is newest first: the tail of the list is the past) *)
Fixpoint invs_after (w : Z) (j : list event) : Z :=
  match j with
  | [] => 0
  | e :: r => (if is_inv w e && stopped_in w r then 1 else 0) + invs_after w r
  end.

Definition active (t : task) : Prop :=
  t_spawned t = true /\ t_canc t = false /\ t_pc t <> WDone.
Definition activeb (t : task) : bool :=
  t_spawned t && negb (t_canc t) && match t_pc t with WDone => false | _ => true end.
(** what the harness can observe: a started thread that has not ended and whose flag is set *)
Definition liveb (t : task) : bool :=
  t_spawned t && t_run t && match t_pc t with WDone => false | _ => true end.

(* ------------------------------------------------------------------ *)
(** * 2. ThreadManager *)

Inductive rop := RAcq | RRel.
Inductive rpc :=
| RStart | RIdle | RContains | RLen | RStore (i : Z) | RPubStart (i g : Z) | RPop | RPubStop (i g : Z) | RFin.
Record rthread := RT { r_pc : rpc; r_prog : list rop }.
Inductive kpc :=
| KStart | KIdle | KItems | KNext | KPub (i g : Z) | KClear | KTest | KPopitem | KPubP (i g : Z) | KFin.
Inductive tevent := TStart (tid i g : Z) | TStop (tid i g : Z) | TExc (tid : Z).

(** dict entry array: (key, value, ghost registration id); None = deleted entry *)
Definition entry := (Z * Z * Z)%type.

Record tm := TM {
  ents : list (option entry);
  nextg : Z;
  rts : list rthread;
  k_pc : kpc;
  k_n : Z;               (* stop() calls not yet begun *)
  it_size : Z;           (* dict iterator of stop(): size when created, *)
  it_pos : Z;            (* position in the entry array, *)
  it_len : Z;            (* entries still expected *)
  tj : list tevent }.

Definition tm_init (n : Z) (progs : list (list rop)) : tm :=
  TM [] 0 (map (RT RStart) progs) KStart n 0 0 0 [].

Fixpoint dsize (l : list (option entry)) : Z :=
  match l with [] => 0 | Some _ :: r => 1 + dsize r | None :: r => dsize r end.
Fixpoint dfind (k : Z) (l : list (option entry)) : option entry :=
  match l with
  | [] => None
  | Some (k', i, g) :: r => if k' =? k then Some (k', i, g) else dfind k r
  | None :: r => dfind k r
  end.
Fixpoint ddel (k : Z) (l : list (option entry)) : list (option entry) :=
  match l with
  | [] => []
  | Some (k', i, g) :: r => if k' =? k then None :: r else Some (k', i, g) :: ddel k r
  | None :: r => None :: ddel k r
  end.
(** d[k] = (i, g): in place when the key is present, else appended *)
Fixpoint dset (k i g : Z) (l : list (option entry)) : list (option entry) :=
  match l with
  | [] => [Some (k, i, g)]
  | Some (k', i', g') :: r => if k' =? k then Some (k, i, g) :: r else Some (k', i', g') :: dset k i g r
  | None :: r => None :: dset k i g r
  end.
(** first live entry at index >= pos: (index + 1, entry) *)
Fixpoint dnext (pos : Z) (idx : Z) (l : list (option entry)) : option (Z * entry) :=
  match l with
  | [] => None
  | x :: r =>
    match x with
    | Some e => if pos <=? idx then Some (idx + 1, e) else dnext pos (idx + 1) r
    | None => dnext pos (idx + 1) r
    end
  end.
(** popitem: the last live entry; the array is truncated there *)
Fixpoint dpoplast (l : list (option entry)) : option (entry * list (option entry)) :=
  match l with
  | [] => None
  | x :: r =>
    match dpoplast r with
    | Some (e, r') => Some (e, x :: r')
    | None => match x with Some e => Some (e, []) | None => None end
    end
  end.

Definition r_next (t : rthread) : rthread :=
  RT (match r_prog t with [] => RFin | _ => RIdle end) (r_prog t).

Definition set_rts (l : list rthread) (s : tm) : tm :=
  TM (ents s) (nextg s) l (k_pc s) (k_n s) (it_size s) (it_pos s) (it_len s) (tj s).

Definition rstep (w : Z) (s : tm) : option (Z * tm) :=
  let tid := w + 1 in
  match nthZ w (rts s) with
  | None => None
  | Some t =>
    let upd f := updZ w f (rts s) in
    match r_pc t with
    | RStart => Some (0, set_rts (upd r_next) s)
    | RIdle =>
      match r_prog t with
      | [] => None
      | RAcq :: p => Some (10, set_rts (upd (fun _ => RT RContains p)) s)
      | RRel :: p => Some (10, set_rts (upd (fun _ => RT RPop p)) s)
      end
    | RContains =>
      Some (20, match dfind tid (ents s) with
                | Some _ => set_rts (upd r_next) s
                | None => set_rts (upd (fun t => RT RLen (r_prog t))) s
                end)
    | RLen => Some (20, set_rts (upd (fun t => RT (RStore (dsize (ents s) + 1)) (r_prog t))) s)
    | RStore i =>
      Some (20, TM (dset tid i (nextg s) (ents s)) (nextg s + 1)
                   (upd (fun t => RT (RPubStart i (nextg s)) (r_prog t)))
                   (k_pc s) (k_n s) (it_size s) (it_pos s) (it_len s) (tj s))
    | RPubStart i g =>
      Some (22, TM (ents s) (nextg s) (upd r_next) (k_pc s) (k_n s) (it_size s) (it_pos s) (it_len s)
                   (TStart tid i g :: tj s))
    | RPop =>
      Some (20, match dfind tid (ents s) with
                | Some (_, i, g) =>
                  TM (ddel tid (ents s)) (nextg s) (upd (fun t => RT (RPubStop i g) (r_prog t)))
                     (k_pc s) (k_n s) (it_size s) (it_pos s) (it_len s) (tj s)
                | None => set_rts (upd r_next) s
                end)
    | RPubStop i g =>
      Some (22, TM (ents s) (nextg s) (upd r_next) (k_pc s) (k_n s) (it_size s) (it_pos s) (it_len s)
                   (TStop tid i g :: tj s))
    | RFin => None
    end
  end.

Definition k_set (p : kpc) (s : tm) : tm :=
  TM (ents s) (nextg s) (rts s) p (k_n s) (it_size s) (it_pos s) (it_len s) (tj s).
Definition k_end (s : tm) : tm := k_set (if k_n s =? 0 then KFin else KIdle) s.

Definition kstep (fixed : bool) (s : tm) : option (Z * tm) :=
  match k_pc s with
  | KStart => Some (0, k_end s)
  | KIdle =>
    if k_n s <=? 0 then None else
    Some (10, TM (ents s) (nextg s) (rts s) (if fixed then KTest else KItems) (k_n s - 1)
                 (it_size s) (it_pos s) (it_len s) (tj s))
  | KItems => Some (20, TM (ents s) (nextg s) (rts s) KNext (k_n s) (dsize (ents s)) 0 (dsize (ents s)) (tj s))
  | KNext =>
    Some (21,
      if negb (it_size s =? dsize (ents s))
      then k_end (TM (ents s) (nextg s) (rts s) (k_pc s) (k_n s) (it_size s) (it_pos s) (it_len s) (TExc 0 :: tj s))
      else match dnext (it_pos s) 0 (ents s) with
           | Some (p, (_, i, g)) =>
             if it_len s =? 0    (* 'dictionary keys changed during iteration' *)
             then k_end (TM (ents s) (nextg s) (rts s) (k_pc s) (k_n s) (it_size s) (it_pos s) (it_len s)
                            (TExc 0 :: tj s))
             else TM (ents s) (nextg s) (rts s) (KPub i g) (k_n s) (it_size s) p (it_len s - 1) (tj s)
           | None => k_set KClear s
           end)
  | KPub i g => Some (22, TM (ents s) (nextg s) (rts s) KNext (k_n s) (it_size s) (it_pos s) (it_len s) (TStop 0 i g :: tj s))
  | KClear => Some (20, k_end (TM [] (nextg s) (rts s) (k_pc s) (k_n s) (it_size s) (it_pos s) (it_len s) (tj s)))
  | KTest => Some (20, if dsize (ents s) =? 0 then k_end s else k_set KPopitem s)
  | KPopitem =>
    Some (20, match dpoplast (ents s) with
              | Some ((_, i, g), l) => TM l (nextg s) (rts s) (KPubP i g) (k_n s) (it_size s) (it_pos s) (it_len s) (tj s)
              | None => k_end s
              end)
  | KPubP i g => Some (22, TM (ents s) (nextg s) (rts s) KTest (k_n s) (it_size s) (it_pos s) (it_len s) (TStop 0 i g :: tj s))
  | KFin => None
  end.

Definition tstep (fixed : bool) (tid : Z) (s : tm) : option (Z * tm) :=
  if tid =? 0 then kstep fixed s else rstep (tid - 1) s.

Definition t_enabled (fixed : bool) (s : tm) : list Z :=
  filter (fun tid => match tstep fixed tid s with Some _ => true | None => false end) (0 :: seqZ 1 (rts s)).

Fixpoint treplay (fixed : bool) (sched : list Z) (cur : option Z) (s : tm) (tr : trace) : option Z * tm * trace :=
  match sched with
  | [] => (cur, s, tr)
  | x :: r =>
    match tstep fixed x s with
    | Some (lab, s') => treplay fixed r (Some x) s' ((x, lab) :: tr)
    | None => treplay fixed r cur s tr
    end
  end.

Fixpoint ttail (fixed : bool) (fuel : nat) (cur : option Z) (s : tm) (tr : trace) : bool * tm * trace :=
  match fuel with
  | O => (false, s, tr)
  | S f =>
    match t_enabled fixed s with
    | [] => (true, s, tr)
    | e0 :: _ =>
      let x := match cur with
               | Some c => if existsb (Z.eqb c) (t_enabled fixed s) then c else e0
               | None => e0
               end in
      match tstep fixed x s with
      | Some (lab, s') => ttail fixed f (Some x) s' ((x, lab) :: tr)
      | None => (true, s, tr)
      end
    end
  end.

Definition run_tm (fixed : bool) (n : Z) (progs : list (list rop)) (sched : list Z) : bool * tm * trace :=
  let '(cur, s, tr) := treplay fixed sched None (tm_init n progs) [] in
  ttail fixed 1000 cur s tr.

(** ghost counters for the conservation law *)
Definition is_tstart (g : Z) (e : tevent) : bool := match e with TStart _ _ g' => g' =? g | _ => false end.
Definition is_tstop (g : Z) (e : tevent) : bool := match e with TStop _ _ g' => g' =? g | _ => false end.
Fixpoint cnt {A} (f : A -> bool) (l : list A) : Z :=
  match l with [] => 0 | x :: r => (if f x then 1 else 0) + cnt f r end.
Definition live_g (g : Z) (e : option entry) : bool :=
  match e with Some (_, _, g') => g' =? g | None => false end.
Definition pstart_g (g : Z) (t : rthread) : bool :=
  match r_pc t with RPubStart _ g' => g' =? g | _ => false end.
Definition pstop_g (g : Z) (t : rthread) : bool :=
  match r_pc t with RPubStop _ g' => g' =? g | _ => false end.
Definition kstop_g (g : Z) (p : kpc) : Z :=
  match p with KPubP _ g' => if g' =? g then 1 else 0 | _ => 0 end.

(* ------------------------------------------------------------------ *)
(** * s-expression boundary *)

Definition dec_op (x : sx) : op :=
  match sx_Z x with 0 => OStart | 1 => OStop | _ => OGraceful end.
Definition dec_rop (x : sx) : rop := match sx_Z x with 0 => RAcq | _ => RRel end.

Definition enc_event (e : event) : sx :=
  match e with
  | EInv w t => L [I 0; I (w + 1); I t]
  | EStopRet (Some w) t => L [I 1; I (w + 1); I t]
  | EStopRet None t => L [I 1; I (-1); I t]
  | EOpBegin k => L [I 2; I k]
  | EOpRet k t => L [I 3; I k; I t]
  end.
Definition enc_trace (tr : trace) : sx := L (map (fun p => L [I (fst p); I (snd p)]) (rev tr)).
Definition enc_task (t : task) : sx :=
  L [of_bool (t_run t); of_bool (t_spawned t); of_bool (match t_pc t with WDone => true | _ => false end);
     I (t_sleeps t)].

Definition mon_status (cf : cfg) (fuel_ok : bool) (s : st) : Z :=
  if negb fuel_ok then 3 else
  let live t := t_spawned t && match t_pc t with WDone => false | _ => true end in
  let athorizon t := live t && match t_pc t with WSleep => c_budget cf <=? t_sleeps t | _ => false end in
  if match pc (ct s) with CFin => true | _ => false end && negb (existsb live (tasks s)) then 0
  else if existsb athorizon (tasks s) then 1 else 2.

Definition enc_tevent (e : tevent) : sx :=
  match e with
  | TStart tid i _ => L [I 0; I tid; I i]
  | TStop tid i _ => L [I 1; I tid; I i]
  | TExc tid => L [I 2; I tid]
  end.
Fixpoint live_entries (l : list (option entry)) : list sx :=
  match l with
  | [] => []
  | Some (k, i, _) :: r => L [I k; I i] :: live_entries r
  | None :: r => live_entries r
  end.
Definition tm_status (fuel_ok : bool) (s : tm) : Z :=
  if negb fuel_ok then 3 else
  if match k_pc s with KFin => true | _ => false end
     && forallb (fun t => match r_pc t with RFin => true | _ => false end) (rts s) then 0 else 2.

(** case   = (0 fixed daemon budget interval (op ...) (tid ...))      monitor
           | (1 fixed nstops ((rop ...) ...) (tid ...))                thread manager
    result = (status trace journal final)
      monitor final = (thread-is-None ((running spawned done sleeps) ...) now)
      tm      final = ((key value) ...)                                           *)
Definition run_C20 (x : sx) : sx :=
  match sx_Z (nth_sx 0 x) with
  | 0 =>
    let cf := Cfg (sx_bool (nth_sx 1 x)) (sx_bool (nth_sx 2 x)) (sx_Z (nth_sx 3 x)) (sx_Z (nth_sx 4 x)) in
    let p := map dec_op (sx_list (nth_sx 5 x)) in
    let '(ok, s, tr) := run_monitor cf p (sx_Zs (nth_sx 6 x)) in
    L [I (mon_status cf ok s); enc_trace tr; L (map enc_event (rev (jrn s)));
       L [of_bool (match mthread (ct s) with None => true | Some _ => false end);
          L (map enc_task (tasks s)); I (now s)]]
  | _ =>
    let fixed := sx_bool (nth_sx 1 x) in
    let progs := map (fun p => map dec_rop (sx_list p)) (sx_list (nth_sx 3 x)) in
    let '(ok, s, tr) := run_tm fixed (sx_Z (nth_sx 2 x)) progs (sx_Zs (nth_sx 4 x)) in
    L [I (tm_status ok s); enc_trace tr; L (map enc_tevent (rev (tj s))); L (live_entries (ents s))]
  end.
