(** Model of cherrypy._cpdispatch: Dispatcher.find_handler / Dispatcher.__call__ /
    MethodDispatcher.__call__ (object-trail walk, reverse scan, vpath, per-level
    config) over an object tree whose attribute semantics are inputs.
    Definitions only; proofs live in Proof/P_dispatch*.v.

    Python's attribute lookup is NOT modelled: the harness materialises, for every
    object that can be reached, the result of [getattr(obj, name, None)] for exactly
    the names the dispatcher can ask for.  User code ([_cp_dispatch], [popargs]) is
    an oracle: a finite table  vpath-in |-> (returned object, vpath-out). *)
From Coq Require Import ZArith List Bool.
From CV Require Import Lib.Sx Lib.ListZ.
Import ListNotations.
Open Scope Z_scope.

Definition str := list Z.                 (* code points *)
Definition conf := list (str * str).      (* a config dict: key |-> value (both text) *)
Definition appconf := list (str * conf).  (* app.config: section path |-> dict *)

(** A Python object as the dispatcher sees it.
    - [n_id]       harness identity of the object (0 = not a generated one)
    - [n_exposed]  bool(getattr(o, 'exposed', False))
    - [n_callable] hasattr(o, '__call__')
    - [n_truthy]   bool(o)
    - [n_conf]     o._cp_config ([] when absent)
    - [n_verbs]    [m for m in dir(o) if m.isupper()]
    - [n_attrs]    getattr(o, name, None) for the names that can be asked; absent = None
    - [n_dyn]      behaviour of o(vpath=v) when o is used as a _cp_dispatch:
                   v |-> Some (returned object or None, v after the call),
                   or None when the call raised *)
Inductive node : Type :=
| Node (n_id : Z) (n_exposed n_callable n_truthy : bool) (n_conf : conf)
       (n_verbs : list str) (n_attrs : list (str * node))
       (n_dyn : list (list str * option (option node * list str))).

Definition n_id (n : node) := let 'Node i _ _ _ _ _ _ _ := n in i.
Definition n_exposed (n : node) := let 'Node _ e _ _ _ _ _ _ := n in e.
Definition n_callable (n : node) := let 'Node _ _ c _ _ _ _ _ := n in c.
Definition n_truthy (n : node) := let 'Node _ _ _ t _ _ _ _ := n in t.
Definition n_conf (n : node) := let 'Node _ _ _ _ c _ _ _ := n in c.
Definition n_verbs (n : node) := let 'Node _ _ _ _ _ v _ _ := n in v.
Definition n_attrs (n : node) := let 'Node _ _ _ _ _ _ a _ := n in a.
Definition n_dyn (n : node) := let 'Node _ _ _ _ _ _ _ d := n in d.

Definition attrs := list (str * node).

(* ---------- strings ---------- *)

Definition s_index : str := [105;110;100;101;120].
Definition s_default : str := [100;101;102;97;117;108;116].
Definition s_cp_dispatch : str := [95;99;112;95;100;105;115;112;97;116;99;104].
Definition s_root : str := [114;111;111;116].
Definition s_GET : str := [71;69;84].
Definition s_HEAD : str := [72;69;65;68].
Definition s_slash : str := [47].
Definition s_staticdir_dir : str :=
  [116;111;111;108;115;46;115;116;97;116;105;99;100;105;114;46;100;105;114].
Definition s_staticdir_section : str :=
  [116;111;111;108;115;46;115;116;97;116;105;99;100;105;114;46;115;101;99;116;105;111;110].

Fixpoint eqb_strs (a b : list str) : bool :=
  match a, b with
  | [], [] => true
  | x :: a', y :: b' => eqbZs x y && eqb_strs a' b'
  | _, _ => false
  end.

Fixpoint assoc {A} (k : str) (l : list (str * A)) : option A :=
  match l with
  | [] => None
  | (k', v) :: r => if eqbZs k k' then Some v else assoc k r
  end.

Fixpoint assoc_strs {A} (k : list str) (l : list (list str * A)) : option A :=
  match l with
  | [] => None
  | (k', v) :: r => if eqb_strs k k' then Some v else assoc_strs k r
  end.

(** string.punctuation; every member is mapped to "_" by
    punctuation_to_underscores (tied to the source by a generated obligation). *)
Definition punct : list Z :=
  [33;34;35;36;37;38;39;40;41;42;43;44;45;46;47;58;59;60;61;62;63;64;
   91;92;93;94;95;96;123;124;125;126].
Definition translate_char (c : Z) : Z := if existsb (Z.eqb c) punct then 95 else c.
Definition translate (s : str) : str := map translate_char s.

(** str.split(sep) *)
Fixpoint split_on (sep : Z) (s : str) : list str :=
  match s with
  | [] => [[]]
  | c :: r =>
    if c =? sep then [] :: split_on sep r
    else match split_on sep r with
         | w :: ws => (c :: w) :: ws
         | [] => [[c]]
         end
  end.

Fixpoint lstrip (ch : Z) (s : str) : str :=
  match s with
  | c :: r => if c =? ch then lstrip ch r else s
  | [] => []
  end.
Definition strip (ch : Z) (s : str) : str := rev (lstrip ch (rev (lstrip ch s))).

Definition nonempty (s : str) : bool := match s with [] => false | _ => true end.

Definition ends_slash (s : str) : bool :=
  match rev s with c :: _ => c =? 47 | [] => false end.

(** x.replace('%2F', '/') *)
Fixpoint restore (s : str) : str :=
  match s with
  | [] => []
  | c1 :: r1 =>
    match r1 with
    | c2 :: c3 :: r3 =>
      if (c1 =? 37) && (c2 =? 50) && (c3 =? 70) then 47 :: restore r3
      else c1 :: restore r1
    | _ => c1 :: restore r1
    end
  end.

(** '/'.join(l) *)
Fixpoint join (sep : str) (l : list str) : str :=
  match l with
  | [] => []
  | [x] => x
  | x :: r => x ++ sep ++ join sep r
  end.

(** str.upper() on ASCII (request methods are ASCII tokens) *)
Definition upper_char (c : Z) : Z := if (97 <=? c) && (c <=? 122) then c - 32 else c.
Definition upper (s : str) : str := map upper_char s.

(** list.sort() on strings: code-point lexicographic order, insertion sort *)
Fixpoint str_leb (a b : str) : bool :=
  match a, b with
  | [], _ => true
  | _ :: _, [] => false
  | x :: a', y :: b' => if x <? y then true else if y <? x then false else str_leb a' b'
  end.
Fixpoint insert_sorted (x : str) (l : list str) : list str :=
  match l with
  | [] => [x]
  | y :: r => if str_leb x y then x :: l else y :: insert_sorted x r
  end.
Definition sort_strs (l : list str) : list str := fold_right insert_sorted [] l.

Definition mem_str (x : str) (l : list str) : bool := existsb (eqbZs x) l.

(* ---------- config dicts ---------- *)

Fixpoint conf_set (k v : str) (c : conf) : conf :=
  match c with
  | [] => [(k, v)]
  | (k', v') :: r => if eqbZs k k' then (k, v) :: r else (k', v') :: conf_set k v r
  end.
(** base.update(c) *)
Definition conf_update (base c : conf) : conf :=
  fold_left (fun b kv => conf_set (fst kv) (snd kv) b) c base.
Definition has_key (k : str) (c : conf) : bool :=
  match assoc k c with Some _ => true | None => false end.

(* ---------- attribute access ---------- *)

Definition getattr (n : node) (name : str) : option node := assoc name (n_attrs n).

(** getattr(o, name, None) where o may be None: None has attributes too
    (__class__, __init__, ...), given by [na]. *)
Definition getattr_o (na : attrs) (o : option node) (name : str) : option node :=
  match o with
  | Some n => getattr n name
  | None => assoc name na
  end.

(* ---------- find_handler: the object-trail walk ---------- *)

(** one element of object_trail: [name, node, nodeconf, segleft] *)
Record entry := Entry {
  e_name : str;
  e_node : option node;
  e_conf : conf;
  e_segleft : Z
}.

Definition node_conf (o : option node) : conf :=
  match o with Some n => n_conf n | None => [] end.

(** for seg in new_segs: curpath += '/' + seg; if curpath in app.config: update *)
Fixpoint mix_sections (aconf : appconf) (curpath : str) (segs : list str) (nc : conf) : conf :=
  match segs with
  | [] => nc
  | seg :: r =>
    let cp := curpath ++ 47 :: seg in
    mix_sections aconf cp r
      (match assoc cp aconf with Some c => conf_update nc c | None => nc end)
  end.

(** nodeconf of the trail entry appended by one loop iteration *)
Definition step_conf (aconf : appconf) (fullpath : list str) (flen pre_len segleft : Z)
           (sub : option node) : conf :=
  let existing_len := flen - pre_len in
  let curpath := if existing_len =? 0 then []
                 else 47 :: join s_slash (sliceZ 0 existing_len fullpath) in
  let new_segs := sliceZ (flen - pre_len) (flen - segleft) fullpath in
  mix_sections aconf curpath new_segs (node_conf sub).

(** the [if subnode is None: ... else: ...] part of one iteration:
    the sub-node and what is left of iternames *)
Inductive dstep :=
| DOk (sub : option node) (iter : list str)
| DRaise                       (* the user's _cp_dispatch raised *)
| DMiss.                       (* the oracle table has no entry for this vpath *)

Definition usable_dispatch (d : node) (pre_len : Z) : bool :=
  n_truthy d && n_callable d && negb (n_exposed d) && (1 <? pre_len).

Definition step_sub (na : attrs) (nd : option node) (iter : list str) : dstep :=
  match iter with
  | [] => DOk None []
  | name :: rest =>
    match getattr_o na nd (translate name) with
    | Some sub => DOk (Some sub) rest
    | None =>
      match getattr_o na nd s_cp_dispatch with
      | Some d =>
        if usable_dispatch d (lenZ iter) then
          (* index_name = iternames.pop(); subnode = dispatch(vpath=iternames);
             iternames.append(index_name) *)
          let index_name := last iter [] in
          let vp := removelast iter in
          match assoc_strs vp (n_dyn d) with
          | Some (Some (res, vout)) => DOk res (vout ++ [index_name])
          | Some None => DRaise
          | None => DMiss
          end
        else DOk None rest
      | None => DOk None rest
      end
    end
  end.

Inductive wres :=
| WOk (trail : list entry)
| WAdded           (* CherryPyException: a vpath segment was added *)
| WRaise
| WMiss
| WFuel.

Fixpoint walk (fuel : nat) (na : attrs) (aconf : appconf) (fullpath : list str) (flen : Z)
         (nd : option node) (iter : list str) : wres :=
  match iter with
  | [] => WOk []
  | name :: _ =>
    match fuel with
    | O => WFuel
    | S f =>
      let pre_len := lenZ iter in
      match step_sub na nd iter with
      | DMiss => WMiss
      | DRaise => WRaise
      | DOk sub iter1 =>
        let segleft := lenZ iter1 in
        if pre_len <? segleft then WAdded
        else
          let same := segleft =? pre_len in
          let iter2 := if same then tl iter1 else iter1 in
          let segleft2 := if same then segleft - 1 else segleft in
          let nc := step_conf aconf fullpath flen pre_len segleft2 sub in
          match walk f na aconf fullpath flen sub iter2 with
          | WOk t => WOk (Entry name sub nc segleft2 :: t)
          | r => r
          end
      end
    end
  end.

(* ---------- find_handler: the reverse scan ---------- *)

Inductive fh :=
| FHFound (h : node) (vpath : list str) (is_index : bool)
          (idx : Z) (via_default : bool)     (* ghost: trail index and which test hit *)
          (trail : list entry)               (* object_trail as passed to set_conf *)
| FHNone (trail : list entry)
| FHAdded | FHRaise | FHMiss | FHFuel.

Fixpoint insert_at {A} (i : Z) (x : A) (l : list A) : list A :=
  if i <=? 0 then x :: l
  else match l with
       | [] => [x]
       | y :: r => y :: insert_at (i - 1) x r
       end.

Definition exposed_default (c : node) : option node :=
  match getattr c s_default with
  | Some d => if n_exposed d then Some d else None
  | None => None
  end.

(** for i in range(num_candidates, -1, -1): ...   with k = i + 1 *)
Fixpoint scan (trail : list entry) (fullpath : list str) (flen : Z) (slash : bool)
         (numc : Z) (k : nat) : fh :=
  match k with
  | O => FHNone trail
  | S k' =>
    let i := Z.of_nat k' in
    match nthZ i trail with
    | None => FHFuel
    | Some e =>
      match e_node e with
      | None => scan trail fullpath flen slash numc k'
      | Some cand =>
        let v := sliceZ (flen - e_segleft e) (flen - 1) fullpath in
        match exposed_default cand with
        | Some d =>
          FHFound d v slash i true
                  (insert_at (i + 1) (Entry s_default (Some d) (n_conf d) (e_segleft e)) trail)
        | None =>
          if n_exposed cand then FHFound cand v (i =? numc) i false trail
          else scan trail fullpath flen slash numc k'
        end
      end
    end
  end.

Definition fullpath_of (path : str) : list str :=
  filter nonempty (split_on 47 (strip 47 path)) ++ [s_index].

Definition root_conf (root : node) (aconf : appconf) : conf :=
  match assoc s_slash aconf with
  | Some c => conf_update (n_conf root) c
  | None => n_conf root
  end.

(** object_trail after the while loop (root entry first) *)
Definition trail_of (na : attrs) (root : node) (aconf : appconf) (path : str) : wres :=
  let fullpath := fullpath_of path in
  let flen := lenZ fullpath in
  match walk (S (length fullpath)) na aconf fullpath flen (Some root) fullpath with
  | WOk t => WOk (Entry s_root (Some root) (root_conf root aconf) flen :: t)
  | r => r
  end.

Definition find_handler (na : attrs) (root : node) (aconf : appconf) (path : str) : fh :=
  let fullpath := fullpath_of path in
  let flen := lenZ fullpath in
  match trail_of na root aconf path with
  | WOk trail =>
    scan trail fullpath flen (ends_slash path) (lenZ trail - 1) (length trail)
  | WAdded => FHAdded
  | WRaise => FHRaise
  | WMiss => FHMiss
  | WFuel => FHFuel
  end.

(** set_conf(): cherrypy.config.copy() then every trail entry in order *)
Definition set_conf (gconf : conf) (trail : list entry) (fullpath : list str) (flen : Z) : conf :=
  fold_left (fun base e =>
               let b := conf_update base (e_conf e) in
               if has_key s_staticdir_dir (e_conf e)
               then conf_set s_staticdir_section
                             (47 :: join s_slash (sliceZ 0 (flen - e_segleft e) fullpath)) b
               else b)
            trail gconf.

(* ---------- Dispatcher.__call__ / MethodDispatcher.__call__ ---------- *)

Inductive handler :=
| HPage (f : node) (args : list str)     (* LateParamPageHandler(f, *args) *)
| HNotFound                              (* cherrypy.NotFound() *)
| H405.                                  (* cherrypy.HTTPError(405) *)

Inductive dres :=
| DRes (h : handler) (is_index : option bool) (config : conf) (allow : option str)
| DErrAdded | DErrRaise | DErrMiss | DErrFuel.

Definition dispatch_default (na : attrs) (root : node) (aconf : appconf) (gconf : conf)
           (path : str) : dres :=
  let fullpath := fullpath_of path in
  let flen := lenZ fullpath in
  match find_handler na root aconf path with
  | FHFound f v ii _ _ trail =>
    DRes (if n_truthy f then HPage f (map restore v) else HNotFound)
         (Some ii) (set_conf gconf trail fullpath flen) None
  | FHNone trail => DRes HNotFound None (set_conf gconf trail fullpath flen) None
  | FHAdded => DErrAdded
  | FHRaise => DErrRaise
  | FHMiss => DErrMiss
  | FHFuel => DErrFuel
  end.

Definition allow_of (resource : node) : list str :=
  let avail := n_verbs resource in
  sort_strs (if mem_str s_GET avail && negb (mem_str s_HEAD avail)
             then avail ++ [s_HEAD] else avail).

(** func = getattr(resource, meth, None); HEAD falls back to GET only when None *)
Definition verb_lookup (resource : node) (meth : str) : option node :=
  match getattr resource meth with
  | Some f => Some f
  | None => if eqbZs meth s_HEAD then getattr resource s_GET else None
  end.

Definition dispatch_method (na : attrs) (root : node) (aconf : appconf) (gconf : conf)
           (path : str) (method : str) : dres :=
  let fullpath := fullpath_of path in
  let flen := lenZ fullpath in
  match find_handler na root aconf path with
  | FHFound r v ii _ _ trail =>
    let cfg := set_conf gconf trail fullpath flen in
    if n_truthy r then
      let allow := Some (join [44;32] (allow_of r)) in
      match verb_lookup r (upper method) with
      | Some f =>
        if n_truthy f then DRes (HPage f (map restore v)) (Some ii) (conf_update cfg (n_conf f)) allow
        else DRes H405 (Some ii) cfg allow
      | None => DRes H405 (Some ii) cfg allow
      end
    else DRes HNotFound (Some ii) cfg None
  | FHNone trail => DRes HNotFound None (set_conf gconf trail fullpath flen) None
  | FHAdded => DErrAdded
  | FHRaise => DErrRaise
  | FHMiss => DErrMiss
  | FHFuel => DErrFuel
  end.

(* ---------- s-expression boundary ---------- *)

Definition dec_strs (x : sx) : list str := map sx_Zs (sx_list x).
Definition dec_conf (x : sx) : conf :=
  map (fun p => (sx_Zs (nth_sx 0 p), sx_Zs (nth_sx 1 p))) (sx_list x).
Definition dec_appconf (x : sx) : appconf :=
  map (fun p => (sx_Zs (nth_sx 0 p), dec_conf (nth_sx 1 p))) (sx_list x).

Definition dummy_node : node := Node 0 false false false [] [] [] [].

(** node = [id [exposed callable truthy] conf verbs [[name node] ...] [[vin [node]? vout] | [vin] ...]] *)
Fixpoint dec_node (x : sx) : node :=
  match x with
  | L [i; fl; cf; vb; L ats; L dy] =>
    Node (sx_Z i) (sx_bool (nth_sx 0 fl)) (sx_bool (nth_sx 1 fl)) (sx_bool (nth_sx 2 fl))
         (dec_conf cf) (dec_strs vb)
         (map (fun p => match p with
                        | L [nm; nd] => (sx_Zs nm, dec_node nd)
                        | _ => ([], dummy_node)
                        end) ats)
         (map (fun p => match p with
                        | L [vin; L rs; vout] =>
                          (dec_strs vin,
                           Some (match rs with r :: _ => Some (dec_node r) | [] => None end,
                                 dec_strs vout))
                        | L [vin] => (dec_strs vin, None)
                        | _ => ([], None)
                        end) dy)
  | _ => dummy_node
  end.

Definition dec_attrs (x : sx) : attrs :=
  map (fun p => (sx_Zs (nth_sx 0 p), dec_node (nth_sx 1 p))) (sx_list x).

Definition of_strs (l : list str) : sx := L (map of_Zs l).
Definition of_optb (o : option bool) : sx :=
  match o with Some b => L [of_bool b] | None => L [] end.

(** case   = (mode method path root none_attrs app_conf global_conf keys)
             mode 0 = Dispatcher, 1 = MethodDispatcher
    result = (kind id callable args [is_index]? [allow]? [[value]? ...])
             kind 0 = NotFound, 1 = page handler, 2 = 405,
                  3 = CherryPyException (segment added), 4 = oracle table miss, 5 = fuel,
                  6 = the user's _cp_dispatch raised *)
Definition run_C02 (x : sx) : sx :=
  let mode := sx_Z (nth_sx 0 x) in
  let method := sx_Zs (nth_sx 1 x) in
  let path := sx_Zs (nth_sx 2 x) in
  let root := dec_node (nth_sx 3 x) in
  let na := dec_attrs (nth_sx 4 x) in
  let aconf := dec_appconf (nth_sx 5 x) in
  let gconf := dec_conf (nth_sx 6 x) in
  let keys := dec_strs (nth_sx 7 x) in
  let r := if mode =? 0 then dispatch_default na root aconf gconf path
           else dispatch_method na root aconf gconf path method in
  match r with
  | DRes h ii cfg allow =>
    let tail := [of_optb ii;
                 match allow with Some a => L [of_Zs a] | None => L [] end;
                 L (map (fun k => match assoc k cfg with
                                  | Some v => L [of_Zs v]
                                  | None => L []
                                  end) keys)] in
    match h with
    | HPage f args => L (I 1 :: I (n_id f) :: of_bool (n_callable f) :: of_strs args :: tail)
    | HNotFound => L (I 0 :: I 0 :: I 0 :: L [] :: tail)
    | H405 => L (I 2 :: I 0 :: I 0 :: L [] :: tail)
    end
  | DErrAdded => L [I 3]
  | DErrMiss => L [I 4]
  | DErrRaise => L [I 6]
  | DErrFuel => L [I 5]
  end.
