(** Model of cherrypy.lib.sessions (Session.__init__, _regenerate, generate_id,
    load, save, delete, RamSession / FileSession _exists/_load/_save/_delete and
    clean_up, init(), expire()) and of _cptools.SessionTool.regenerate, driven
    one request at a time.

    store  : id -> content, an association list.  For the RAM backend it is
             RamSession.cache, for the file backend the set of session-<id>
             files of storage_path (lock files are not part of it).
    clock  : logical, the value [Session.now()] returns; only ever advanced.
    rng    : the stream of candidate ids successive os.urandom(20) calls give.
    ids    : opaque tokens (Z); the code only ever compares them for equality
             (dict key / file name).
    Definitions only; proofs live in Proof/P_session*.v. *)
From Coq Require Import ZArith List Bool.
From CV Require Import Lib.Sx Lib.ListZ.
Import ListNotations.
Open Scope Z_scope.

(* ---------- association lists (dict / directory) ---------- *)

Fixpoint lookup {A} (i : Z) (s : list (Z * A)) : option A :=
  match s with
  | [] => None
  | (j, c) :: r => if j =? i then Some c else lookup i r
  end.

Definition mem {A} (i : Z) (s : list (Z * A)) : bool :=
  match lookup i s with Some _ => true | None => false end.

Definition remove {A} (i : Z) (s : list (Z * A)) : list (Z * A) :=
  filter (fun e => negb (fst e =? i)) s.

Definition put {A} (i : Z) (c : A) (s : list (Z * A)) : list (Z * A) :=
  (i, c) :: remove i s.

(* ---------- data ---------- *)

Definition data := list (Z * Z).           (* the session dict: key -> value *)

(** What a session file / cache entry holds.  [Bad cls]: a file on which
    pickle.load raises an exception of class [cls] (the pickle oracle):
      0 EOFError   1 IOError/OSError   2 pickle.UnpicklingError
      3 any other subclass of Exception   4 an exception outside Exception *)
Inductive content :=
| Good (d : data) (e : Z)                  (* (data, expiration_time) *)
| Bad (cls : Z).

Definition store := list (Z * content).

Record cfg := Cfg {
  c_file : bool;         (* FileSession (true) or RamSession (false) *)
  c_tmo : Z;             (* timeout in clock units (minutes * 60 seconds) *)
  c_repaired : bool;     (* FileSession._load: true = "except Exception" (the code since
                            commit 88ca67f), false = "except (IOError, EOFError)"
                            (the code before it) *)
}.

Record world := W {
  w_store : store;
  w_now : Z;
  w_rng : list Z;
}.

Inductive status :=
| SOk
| SRaised (cls : Z)      (* an exception of pickle class [cls] escaped *)
| SRngOut.               (* the candidate stream of the case is exhausted *)

(* ---------- id generation:  while self.id is None: ... if self._exists() ---------- *)

Fixpoint gen_id (s : store) (rng : list Z) : option Z * list Z :=
  match rng with
  | [] => (None, [])
  | c :: r => if mem c s then gen_id s r else (Some c, r)
  end.

(** Session.__init__: adopt the presented id iff _exists(), else _regenerate()
    (no delete: self.id is None at that point). *)
Definition begin_req (w : world) (cookie : option Z) : status * world * Z :=
  let adopt := match cookie with Some p => mem p (w_store w) | None => false end in
  match cookie, adopt with
  | Some p, true => (SOk, w, p)
  | _, _ =>
    match gen_id (w_store w) (w_rng w) with
    | (Some i, r) => (SOk, W (w_store w) (w_now w) r, i)
    | (None, r) => (SRngOut, W (w_store w) (w_now w) r, 0)
    end
  end.

(* ---------- _load / load ---------- *)

(** the except clause of FileSession._load *)
Definition caught (c : cfg) (cls : Z) : bool :=
  if c_repaired c then (0 <=? cls) && (cls <=? 3)
  else (cls =? 0) || (cls =? 1).

Inductive lres :=
| LNone                          (* _load returned None *)
| LSome (d : data) (e : Z)
| LRaise (cls : Z).

Definition load_raw (c : cfg) (i : Z) (s : store) : lres :=
  match lookup i s with
  | None => LNone                (* RAM: cache.get -> None; file: IOError -> None *)
  | Some (Good d e) => LSome d e
  | Some (Bad cls) => if caught c cls then LNone else LRaise cls
  end.

(** the per-request Session object *)
Record sess := Sess {
  x_id : Z;
  x_data : data;
  x_loaded : bool;
  x_exp : bool;          (* response cookie carries a past "expires" and no max-age *)
}.

(** Session.load: "if data is None or data[1] < self.now()" *)
Definition ensure_loaded (c : cfg) (w : world) (x : sess) : status * sess :=
  if x_loaded x then (SOk, x) else
  match load_raw c (x_id x) (w_store w) with
  | LRaise cls => (SRaised cls, x)
  | LNone => (SOk, Sess (x_id x) [] true (x_exp x))
  | LSome d e => (SOk, Sess (x_id x) (if e <? w_now w then [] else d) true (x_exp x))
  end.

(* ---------- what a page handler can do ---------- *)

Inductive act :=
| ARead                  (* sorted(session.items()) *)
| AWrite (k v : Z)       (* session[k] = v *)
| ADel (k : Z)           (* session.pop(k, None) *)
| ARegen                 (* cherrypy.tools.sessions.regenerate() *)
| AExpire                (* cherrypy.lib.sessions.expire() *)
| ATick (d : Z).         (* time passes while the handler runs *)

Definition set_data (d : data) (x : sess) : sess :=
  Sess (x_id x) d (x_loaded x) (x_exp x).

Definition do_act (c : cfg) (a : act) (w : world) (x : sess)
  : status * world * sess * option data :=
  match a with
  | ARead =>
    let '(st, x1) := ensure_loaded c w x in
    (st, w, x1, match st with SOk => Some (x_data x1) | _ => None end)
  | AWrite k v =>
    let '(st, x1) := ensure_loaded c w x in
    match st with
    | SOk => (SOk, w, set_data (put k v (x_data x1)) x1, None)
    | _ => (st, w, x1, None)
    end
  | ADel k =>
    let '(st, x1) := ensure_loaded c w x in
    match st with
    | SOk => (SOk, w, set_data (remove k (x_data x1)) x1, None)
    | _ => (st, w, x1, None)
    end
  | ARegen =>
    (* _regenerate: delete() the current id, then loop on generate_id; _data and
       loaded are kept; SessionTool.regenerate re-runs set_response_cookie, which
       restores max-age/expires unless the timeout is falsy *)
    let s1 := remove (x_id x) (w_store w) in
    match gen_id s1 (w_rng w) with
    | (Some i, r) =>
      (SOk, W s1 (w_now w) r,
       Sess i (x_data x) (x_loaded x) (if c_tmo c =? 0 then x_exp x else false), None)
    | (None, r) => (SRngOut, W s1 (w_now w) r, x, None)
    end
  | AExpire => (SOk, w, Sess (x_id x) (x_data x) (x_loaded x) true, None)
  | ATick d => (SOk, W (w_store w) (w_now w + Z.max 0 d) (w_rng w), x, None)
  end.

Fixpoint do_acts (c : cfg) (acts : list act) (w : world) (x : sess) (outs : list data)
  : status * world * sess * list data :=
  match acts with
  | [] => (SOk, w, x, outs)
  | a :: r =>
    let '(st, w1, x1, o) := do_act c a w x in
    let outs1 := match o with Some d => outs ++ [d] | None => outs end in
    match st with
    | SOk => do_acts c r w1 x1 outs1
    | _ => (st, w1, x1, outs1)
    end
  end.

(** Session.save (before_finalize): only a loaded session is written, with
    expiration_time = now() + timeout. *)
Definition save (c : cfg) (w : world) (x : sess) : world :=
  if x_loaded x
  then W (put (x_id x) (Good (x_data x) (w_now w + c_tmo c)) (w_store w)) (w_now w) (w_rng w)
  else w.

Record resp := Resp {
  r_status : status;
  r_id : Z;              (* value of the session cookie in the response *)
  r_exp : bool;
  r_reads : list data;
}.

(** One request.  An exception in the handler skips before_finalize (no save);
    the response is then a 500. *)
Definition do_req (c : cfg) (w : world) (cookie : option Z) (acts : list act)
  : resp * world :=
  match begin_req w cookie with
  | (SOk, w1, i) =>
    let '(st, w2, x, outs) := do_acts c acts w1 (Sess i [] false false) [] in
    match st with
    | SOk => (Resp SOk (x_id x) (x_exp x) outs, save c w2 x)
    | _ => (Resp st (x_id x) (x_exp x) outs, w2)
    end
  | (st, w1, i) => (Resp st i false [], w1)
  end.

(* ---------- sweeps ---------- *)

(** RamSession.clean_up: "if expiration_time <= now: del" *)
Definition ram_keep (now : Z) (e : Z * content) : bool :=
  match snd e with Good _ ex => negb (ex <=? now) | Bad _ => true end.

Definition sweep_ram (now : Z) (s : store) : store := filter (ram_keep now) s.

(** FileSession.clean_up: one file after the other, in listing order;
    "_load(path); if contents is not None: if expiration_time < now: unlink".
    An exception escaping _load ends the loop: the remaining files are not
    looked at. *)
Fixpoint sweep_file (c : cfg) (now : Z) (l : store) : status * store :=
  match l with
  | [] => (SOk, [])
  | (i, Good d e) :: r =>
    let '(st, r') := sweep_file c now r in
    (st, if e <? now then r' else (i, Good d e) :: r')
  | (i, Bad cls) :: r =>
    if caught c cls
    then let '(st, r') := sweep_file c now r in (st, (i, Bad cls) :: r')
    else (SRaised cls, l)
  end.

Definition sweep (c : cfg) (w : world) : status * world :=
  if c_file c then
    let '(st, s') := sweep_file c (w_now w) (w_store w) in (st, W s' (w_now w) (w_rng w))
  else (SOk, W (sweep_ram (w_now w) (w_store w)) (w_now w) (w_rng w)).

(* ---------- histories ---------- *)

Inductive op :=
| OReq (cookie : option Z) (acts : list act)
| OAdvance (d : Z)
| OSweep
| OTear (i : Z) (cls : Z).   (* a crash / damage leaves the file of id i unreadable *)

Definition step (c : cfg) (o : op) (w : world) : resp * world :=
  match o with
  | OReq ck acts => do_req c w ck acts
  | OAdvance d => (Resp SOk 0 false [], W (w_store w) (w_now w + Z.max 0 d) (w_rng w))
  | OSweep => let '(st, w') := sweep c w in (Resp st 0 false [], w')
  | OTear i cls =>
    (Resp SOk 0 false [],
     if c_file c then W (put i (Bad cls) (w_store w)) (w_now w) (w_rng w) else w)
  end.

Fixpoint run (c : cfg) (ops : list op) (w : world) : list resp * world :=
  match ops with
  | [] => ([], w)
  | o :: r =>
    let '(rp, w1) := step c o w in
    let '(rs, w2) := run c r w1 in (rp :: rs, w2)
  end.

(* ---------- the harness layer: clients with cookie jars ---------- *)

(** what a client sends: nothing, a literal id, the k-th most recent id that
    client j was given, or that id with the lock-file suffix appended (an id the
    server never issued and the store never holds) *)
Inductive cspec := CNone | CRaw (i : Z) | CJar (j k : Z) | CLock (j k : Z).

Inductive sop :=
| SReq (j : Z) (ck : cspec) (acts : list act)   (* client j's jar receives the answer *)
| SAdvance (d : Z)
| SSweep
| STear (t : cspec) (cls : Z).

Definition jar_get (jars : list (list Z)) (j k : Z) : option Z :=
  match nthZ j jars with Some l => nthZ k l | None => None end.

Definition lock_id (i : Z) : Z := -1000 - i.

Definition resolve (jars : list (list Z)) (ck : cspec) : option Z :=
  match ck with
  | CNone => None
  | CRaw i => Some i
  | CJar j k => jar_get jars j k
  | CLock j k => match jar_get jars j k with Some i => Some (lock_id i) | None => None end
  end.

Fixpoint jar_push (jars : list (list Z)) (j : Z) (i : Z) : list (list Z) :=
  match jars with
  | [] => []
  | l :: r => if j =? 0 then (i :: l) :: r else l :: jar_push r (j - 1) i
  end.

Definition concretize (jars : list (list Z)) (o : sop) : op :=
  match o with
  | SReq _ ck acts => OReq (resolve jars ck) acts
  | SAdvance d => OAdvance d
  | SSweep => OSweep
  | STear t cls =>
    match resolve jars t with Some i => OTear i cls | None => OAdvance 0 end
  end.

(** runs the symbolic history; stops after an operation that ran out of
    candidate ids; returns each answer with the store after the operation *)
Fixpoint srun (c : cfg) (ops : list sop) (jars : list (list Z)) (w : world)
  : list (resp * store) :=
  match ops with
  | [] => []
  | o :: r =>
    let '(rp, w1) := step c (concretize jars o) w in
    let jars1 := match o, r_status rp with
                 | SReq j _ _, SOk => jar_push jars j (r_id rp)
                 | _, _ => jars
                 end in
    match r_status rp with
    | SRngOut => [(rp, w_store w1)]
    | _ => (rp, w_store w1) :: srun c r jars1 w1
    end
  end.

(* ---------- s-expression boundary ---------- *)

Fixpoint insert_by {A} (e : Z * A) (l : list (Z * A)) : list (Z * A) :=
  match l with
  | [] => [e]
  | x :: r => if fst e <=? fst x then e :: l else x :: insert_by e r
  end.
Definition sort_by {A} (l : list (Z * A)) : list (Z * A) := fold_right insert_by [] l.

Definition enc_data (d : data) : sx :=
  L (map (fun kv => L [I (fst kv); I (snd kv)]) (sort_by d)).

Definition enc_store (s : store) : sx :=
  L (map (fun e => match snd e with
                   | Good d ex => L [I (fst e); I 1; enc_data d; I ex]
                   | Bad cls => L [I (fst e); I 0; I cls]
                   end) (sort_by s)).

Definition enc_status (st : status) : sx :=
  match st with
  | SOk => L [I 200; I 0]
  | SRaised cls => L [I 500; I cls]
  | SRngOut => L [I 599; I 0]
  end.

Definition enc_resp (rs : resp * store) : sx :=
  let rp := fst rs in
  L [enc_status (r_status rp); I (r_id rp); of_bool (r_exp rp);
     L (map enc_data (r_reads rp)); enc_store (snd rs)].

Definition dec_act (x : sx) : act :=
  match sx_list x with
  | I 0 :: _ => ARead
  | I 1 :: k :: v :: _ => AWrite (sx_Z k) (sx_Z v)
  | I 2 :: k :: _ => ADel (sx_Z k)
  | I 3 :: _ => ARegen
  | I 4 :: _ => AExpire
  | I 5 :: d :: _ => ATick (sx_Z d)
  | _ => ARead
  end.

Definition dec_cspec (x : sx) : cspec :=
  match sx_list x with
  | I 1 :: i :: _ => CRaw (sx_Z i)
  | I 2 :: j :: k :: _ => CJar (sx_Z j) (sx_Z k)
  | I 3 :: j :: k :: _ => CLock (sx_Z j) (sx_Z k)
  | _ => CNone
  end.

Definition dec_sop (x : sx) : sop :=
  match sx_list x with
  | I 0 :: j :: ck :: acts :: _ => SReq (sx_Z j) (dec_cspec ck) (map dec_act (sx_list acts))
  | I 1 :: d :: _ => SAdvance (sx_Z d)
  | I 2 :: _ => SSweep
  | I 3 :: t :: cls :: _ => STear (dec_cspec t) (sx_Z cls)
  | _ => SAdvance 0
  end.

(** case = (file? tmo repaired? (rng candidates) (ops))
    result = one (status id expired? reads store) per executed operation *)
Definition run_C14 (x : sx) : sx :=
  let c := Cfg (sx_bool (nth_sx 0 x)) (sx_Z (nth_sx 1 x)) (sx_bool (nth_sx 2 x)) in
  let rng := sx_Zs (nth_sx 3 x) in
  let ops := map dec_sop (sx_list (nth_sx 4 x)) in
  L (map enc_resp (srun c ops [[]; []; []; []] (W [] 0 rng))).
