(** M_bus - executable model of cherrypy/process/wspbus.py: Bus.subscribe, unsubscribe,
    publish, start, stop, exit, restart, graceful (definitions only).

    bus      = state x subscriptions (channel, listener id, priority) x execv flag
    listener = a script: actions {subscribe, unsubscribe, publish ch} then an outcome
               {Ok, raise Exception, raise SystemExit c, raise KeyboardInterrupt}
    journal  = (publish nesting depth, channel, listener, bus state seen), newest first.

    Fidelity notes (kept from the source):
    - publish() takes a snapshot of the channel's set, sorts it by priority only (sorted()
      is stable; the order inside one priority is the set's iteration order, which the model
      takes as an environment parameter [c_rank]: subscriptions are kept in ascending rank);
    - every Exception of a listener is collected and logged through publish('log') unless the
      channel is 'log' itself; an exception raised by *that* log publish escapes the except
      handler and aborts the loop;
    - SystemExit gets code 1 when earlier listeners failed and its code is 0; KeyboardInterrupt
      and SystemExit end the loop at once;
    - self.log(...) is publish('log') and can fail like any publish;
    - exit() turns every Exception into os._exit(70) and also exits with 70 when entered in
      STARTING; start() on an Exception logs, calls exit(), re-raises the original failure;
    - stop(): [c_fix_stop = false] is the code as found before fix 3447e6b (state stays STOPPING when
      publish('stop') raises), [c_fix_stop = true] the repaired code (try/finally sets STOPPED).
    Re-entrancy is bounded by explicit fuel = maximal nesting depth of publish; a publish entered
    without fuel on a channel that has listeners answers PFuel (the harness aborts the real run at
    the same point). *)
From Coq Require Import ZArith List Bool.
From CV Require Import Lib.Sx Lib.ListZ.
Import ListNotations.
Open Scope Z_scope.

(* ---- constants ---- *)
Definition STOPPED := 0.
Definition STARTING := 1.
Definition STARTED := 2.
Definition STOPPING := 3.
Definition EXITING := 4.

Definition CH_START := 0.
Definition CH_STOP := 1.
Definition CH_EXIT := 2.
Definition CH_GRACEFUL := 3.
Definition CH_LOG := 4.
Definition CH_MAIN := 5.

Definition EX_SOFTWARE := 70.
Definition FUEL : nat := 6%nat.

(* ---- listeners ---- *)
Inductive outcome := Ok | Exc | SysExit (c : Z) | Kbd.
Inductive action :=
| ASub (ch id prio : Z)
| AUnsub (ch id : Z)
| APub (ch : Z).
Definition script : Type := (list action * outcome)%type.

Record sub := Sub { s_ch : Z; s_id : Z; s_prio : Z }.
Record jent := J { j_depth : Z; j_ch : Z; j_id : Z; j_state : Z }.

Record world := W {
  w_state : Z;
  w_subs : list sub;
  w_execv : bool;
  w_journal : list jent   (* newest first *)
}.

Record cfg := Cfg {
  c_fix_stop : bool;
  c_behs : list script;   (* index = listener id *)
  c_rank : list Z         (* listener id -> position in the set's iteration order *)
}.

Definition init : world := W STOPPED [] false [].

Definition set_state (s : Z) (w : world) : world :=
  W s (w_subs w) (w_execv w) (w_journal w).
Definition set_subs (l : list sub) (w : world) : world :=
  W (w_state w) l (w_execv w) (w_journal w).
Definition set_execv (b : bool) (w : world) : world :=
  W (w_state w) (w_subs w) b (w_journal w).
Definition log_call (d ch id : Z) (w : world) : world :=
  W (w_state w) (w_subs w) (w_execv w) (J d ch id (w_state w) :: w_journal w).

Definition beh (c : cfg) (id : Z) : script :=
  match nthZ id (c_behs c) with Some s => s | None => ([], Ok) end.
Definition rank (c : cfg) (id : Z) : Z :=
  match nthZ id (c_rank c) with Some r => r | None => id end.

(* ---- subscribe / unsubscribe ---- *)
Definition same_sub (ch id : Z) (s : sub) : bool := (s_ch s =? ch) && (s_id s =? id).

Fixpoint ins_sub (c : cfg) (x : sub) (l : list sub) : list sub :=
  match l with
  | [] => [x]
  | y :: r => if rank c (s_id x) <? rank c (s_id y) then x :: l else y :: ins_sub c x r
  end.

Definition unsubscribe (ch id : Z) (l : list sub) : list sub :=
  filter (fun s => negb (same_sub ch id s)) l.
Definition subscribe (c : cfg) (ch id p : Z) (l : list sub) : list sub :=
  ins_sub c (Sub ch id p) (unsubscribe ch id l).

(* ---- snapshot and priority sort (stable insertion sort on the priority alone) ---- *)
Definition item : Type := (Z * Z)%type.   (* (priority, listener id) *)

Definition snapshot (ch : Z) (w : world) : list item :=
  map (fun s => (s_prio s, s_id s)) (filter (fun s => s_ch s =? ch) (w_subs w)).

Fixpoint insert_prio (x : item) (l : list item) : list item :=
  match l with
  | [] => [x]
  | y :: r => if fst x <=? fst y then x :: l else y :: insert_prio x r
  end.
Fixpoint sort_prio (l : list item) : list item :=
  match l with
  | [] => []
  | x :: r => insert_prio x (sort_prio r)
  end.

(* ---- publish ---- *)
Inductive pres :=
| POk (outs : list Z)      (* returned the listeners' outputs (probe listeners return their id) *)
| PFail (ids : list Z)     (* raised ChannelFailures carrying one exception per listed listener *)
| PSys (c : Z)             (* SystemExit(c) escaped *)
| PKbd                     (* KeyboardInterrupt escaped *)
| PFuel.                   (* nesting bound exceeded *)

Inductive sres := ROk | RExc | RSys (c : Z) | RKbd | RFuel.

Definition sres_of_outcome (o : outcome) : sres :=
  match o with Ok => ROk | Exc => RExc | SysExit c => RSys c | Kbd => RKbd end.
Definition sres_of_pres (r : pres) : sres :=
  match r with POk _ => ROk | PFail _ => RExc | PSys c => RSys c | PKbd => RKbd | PFuel => RFuel end.
Definition is_nil {A} (l : list A) : bool := match l with [] => true | _ => false end.

Section Publish.
  Variable c : cfg.
  (* the nested publish (one unit of fuel less): depth -> channel -> world -> ... *)
  Variable rec : Z -> Z -> world -> world * pres.

  (* one call of a listener: its actions in order, then its outcome; an exception of a nested
     publish ends the script at that point *)
  Fixpoint run_acts (d : Z) (acts : list action) (fin : outcome) (w : world) : world * sres :=
    match acts with
    | [] => (w, sres_of_outcome fin)
    | ASub ch id p :: r => run_acts d r fin (set_subs (subscribe c ch id p (w_subs w)) w)
    | AUnsub ch id :: r => run_acts d r fin (set_subs (unsubscribe ch id (w_subs w)) w)
    | APub ch :: r =>
        let '(w', pr) := rec (d + 1) ch w in
        match pr with
        | POk _ => run_acts d r fin w'
        | _ => (w', sres_of_pres pr)
        end
    end.

  Definition call_listener (d ch id : Z) (w : world) : world * sres :=
    run_acts d (fst (beh c id)) (snd (beh c id)) (log_call d ch id w).

  (* the for-loop of publish over the sorted snapshot; fails/outs newest first *)
  Fixpoint pub_loop (d ch : Z) (items : list item) (w : world) (fails outs : list Z)
    : world * pres :=
    match items with
    | [] => (w, if is_nil fails then POk (rev outs) else PFail (rev fails))
    | (_, id) :: rest =>
        let '(w1, r) := call_listener d ch id w in
        match r with
        | ROk => pub_loop d ch rest w1 fails (id :: outs)
        | RExc =>
            if ch =? CH_LOG then pub_loop d ch rest w1 (id :: fails) outs
            else
              let '(w2, lr) := rec (d + 1) CH_LOG w1 in
              match lr with
              | POk _ => pub_loop d ch rest w2 (id :: fails) outs
              | _ => (w2, lr)
              end
        | RSys code => (w1, PSys (if negb (is_nil fails) && (code =? 0) then 1 else code))
        | RKbd => (w1, PKbd)
        | RFuel => (w1, PFuel)
        end
    end.
End Publish.

Fixpoint publish (c : cfg) (fuel : nat) (d ch : Z) (w : world) : world * pres :=
  match fuel with
  | O => (w, if is_nil (snapshot ch w) then POk [] else PFuel)
  | S f => pub_loop c (publish c f) d ch (sort_prio (snapshot ch w)) w [] []
  end.

(* ---- API calls ---- *)
Inductive cres :=
| CRet (outs : list Z)
| CFail (ids : list Z)
| CSys (code : Z)
| CKbd
| COsExit (code : Z)
| CFuel.

Definition cres_of_pres (r : pres) : cres :=
  match r with
  | POk o => CRet o | PFail ids => CFail ids | PSys k => CSys k | PKbd => CKbd | PFuel => CFuel
  end.

Definition pub (c : cfg) (ch : Z) (w : world) : world * cres :=
  let '(w', r) := publish c FUEL 1 ch w in (w', cres_of_pres r).

(* continue with [k] when the step returned normally, else the exception propagates *)
Definition andthen (x : world * cres) (k : world -> world * cres) : world * cres :=
  match snd x with CRet _ => k (fst x) | _ => x end.
Definition ret (w : world) : world * cres := (w, CRet []).
Definition unit_ret (x : world * cres) : world * cres :=
  match snd x with CRet _ => (fst x, CRet []) | _ => x end.

Definition do_log (c : cfg) (w : world) : world * cres := unit_ret (pub c CH_LOG w).

Definition do_stop (c : cfg) (w : world) : world * cres :=
  andthen (do_log c (set_state STOPPING w)) (fun w =>
    let x := pub c CH_STOP w in
    match snd x with
    | CRet _ => do_log c (set_state STOPPED (fst x))
    | _ => (if c_fix_stop c then set_state STOPPED (fst x) else fst x, snd x)
    end).

(* the [except Exception: os._exit(70)] of exit() *)
Definition exit_guard (x : world * cres) : world * cres :=
  match snd x with CFail _ => (fst x, COsExit EX_SOFTWARE) | _ => x end.

Definition do_exit (c : cfg) (w : world) : world * cres :=
  let exitstate := w_state w in
  andthen (exit_guard
    (andthen (do_stop c w) (fun w =>
     andthen (do_log c (set_state EXITING w)) (fun w =>
     andthen (unit_ret (pub c CH_EXIT w)) (fun w =>
     do_log c w)))))
    (fun w => if exitstate =? STARTING then (w, COsExit EX_SOFTWARE) else ret w).

Definition do_start (c : cfg) (w : world) : world * cres :=
  andthen (do_log c (set_state STARTING w)) (fun w =>
    let x := andthen (unit_ret (pub c CH_START w)) (fun w => do_log c (set_state STARTED w)) in
    match snd x with
    | CFail ids =>
        andthen (do_log c (fst x)) (fun w =>
          let y := do_exit c w in
          match snd y with
          | CRet _ | CFail _ => (fst y, CFail ids)   (* except Exception: pass; raise e_info *)
          | _ => y
          end)
    | _ => x
    end).

Definition do_restart (c : cfg) (w : world) : world * cres := do_exit c (set_execv true w).

Definition do_graceful (c : cfg) (w : world) : world * cres :=
  andthen (do_log c w) (fun w => unit_ret (pub c CH_GRACEFUL w)).

Inductive call :=
| KStart | KStop | KGraceful | KRestart | KExit
| KPublish (ch : Z)
| KSubscribe (ch id p : Z)
| KUnsubscribe (ch id : Z).

Definition do_call (c : cfg) (k : call) (w : world) : world * cres :=
  match k with
  | KStart => do_start c w
  | KStop => do_stop c w
  | KGraceful => do_graceful c w
  | KRestart => do_restart c w
  | KExit => do_exit c w
  | KPublish ch => pub c ch w
  | KSubscribe ch id p => ret (set_subs (subscribe c ch id p (w_subs w)) w)
  | KUnsubscribe ch id => ret (set_subs (unsubscribe ch id (w_subs w)) w)
  end.

Definition terminal (r : cres) : bool :=
  match r with COsExit _ | CFuel => true | _ => false end.

(* a call sequence; the process is gone after os._exit (and the harness gives up after PFuel) *)
Fixpoint run (c : cfg) (ks : list call) (w : world) : list (cres * Z * bool) * world :=
  match ks with
  | [] => ([], w)
  | k :: r =>
      let '(w1, res) := do_call c k w in
      let here := (res, w_state w1, w_execv w1) in
      if terminal res then ([here], w1)
      else let '(outs, w2) := run c r w1 in (here :: outs, w2)
  end.

(* ---- the lifecycle skeleton as data (tied to the source by the generated obligation) ----
   per API function: the ordered list of visible steps of the failure-free path
   (0 s) = self.state := s, (1) = self.log(..), (2 ch) = self.publish(ch), (3 f) = call of API f,
   (4) = self.execv := True;  API ids: 0 start 1 stop 2 exit 3 restart 4 graceful *)
Definition lifecycle_skel : list (Z * list (list Z)) :=
  [ (0, [[0; STARTING]; [1]; [2; CH_START]; [0; STARTED]; [1]]);
    (1, [[0; STOPPING]; [1]; [2; CH_STOP]; [0; STOPPED]; [1]]);
    (2, [[3; 1]; [0; EXITING]; [1]; [2; CH_EXIT]; [1]]);
    (3, [[4]; [3; 2]]);
    (4, [[1]; [2; CH_GRACEFUL]]) ].

(* the except clauses per API function: (caught classes, steps of the handler); classes:
   0 KeyboardInterrupt, 1 SystemExit, 2 Exception; extra steps: (5 n) = os._exit(n), (6) = raise,
   (8 f) = try: API f  except Exception: pass.  The last entry of exit is its trailing
   [if exitstate == states.STARTING: os._exit(70)], written as class 9. *)
Definition handler_skel (fix_stop : bool) : list (Z * list (list Z * list (list Z))) :=
  [ (0, [([0; 1], [[6]]); ([2], [[1]; [8; 2]; [6]])]);
    (1, if fix_stop then [([3], [[0; STOPPED]])] else []);   (* class 3 = finally *)
    (2, [([2], [[5; EX_SOFTWARE]]); ([9; STARTING], [[5; EX_SOFTWARE]])]);
    (3, []);
    (4, []) ].

(* publish(): key of the sort (tuple position), the except clauses in order with what they do:
   (6) re-raise, (7) SystemExit code fix-up then re-raise, (10 ch) collect and log unless channel ch *)
Definition publish_skel : list (list Z * list (list Z)) :=
  [ ([-1], [[0]]);                       (* sorted(key=itemgetter(0)) *)
    ([0], [[6]]); ([1], [[7]; [6]]); ([2], [[10; CH_LOG]]) ].

(* ---- s-expression interface ---- *)
Definition dec_outcome (x : sx) : outcome :=
  match sx_Zs x with
  | 1 :: _ => Exc
  | 2 :: c :: _ => SysExit c
  | 3 :: _ => Kbd
  | _ => Ok
  end.
Definition dec_action (x : sx) : action :=
  match sx_Zs x with
  | 0 :: ch :: id :: p :: _ => ASub ch id p
  | 1 :: ch :: id :: _ => AUnsub ch id
  | 2 :: ch :: _ => APub ch
  | _ => APub (-1)
  end.
Definition dec_script (x : sx) : script :=
  (map dec_action (sx_list (nth_sx 0 x)), dec_outcome (nth_sx 1 x)).
Definition dec_call (x : sx) : call :=
  match sx_Zs x with
  | 0 :: _ => KStart
  | 1 :: _ => KStop
  | 2 :: _ => KGraceful
  | 3 :: _ => KRestart
  | 4 :: _ => KExit
  | 5 :: ch :: _ => KPublish ch
  | 6 :: ch :: id :: p :: _ => KSubscribe ch id p
  | 7 :: ch :: id :: _ => KUnsubscribe ch id
  | _ => KPublish (-1)
  end.

Definition enc_cres (r : cres) : list sx :=
  match r with
  | CRet o => [I 0; of_Zs o]
  | CFail ids => [I 1; of_Zs ids]
  | CSys k => [I 2; of_Zs [k]]
  | CKbd => [I 3; L []]
  | COsExit k => [I 4; of_Zs [k]]
  | CFuel => [I 5; L []]
  end.

(** case   = [fix_stop; scripts; ranks; initial subscriptions (ch id prio); calls]
    result = [per call (kind payload state execv); journal (depth ch id state); final (ch id prio)] *)
Definition run_variant (fx : bool) (x : sx) : sx :=
  let c := Cfg fx (map dec_script (sx_list (nth_sx 1 x))) (sx_Zs (nth_sx 2 x)) in
  let subs0 := fold_left (fun l s => match sx_Zs s with
                                     | ch :: id :: p :: _ => subscribe c ch id p l
                                     | _ => l end) (sx_list (nth_sx 3 x)) [] in
  let ks := map dec_call (sx_list (nth_sx 4 x)) in
  let '(outs, w) := run c ks (set_subs subs0 init) in
  L [ L (map (fun '(r, st, ex) => L (enc_cres r ++ [I st; of_bool ex])) outs);
      L (map (fun j => of_Zs [j_depth j; j_ch j; j_id j; j_state j]) (rev (w_journal w)));
      L (map (fun s => of_Zs [s_ch s; s_id s; s_prio s]) (w_subs w)) ].

(* first the variant selected by the case's flag, then the other one (the harness accepts the
   recorded defective behaviour as a correspondence, the oracle reports it) *)
Definition run_C18 (x : sx) : sx :=
  let f := sx_bool (nth_sx 0 x) in
  L [run_variant f x; run_variant (negb f) x].
