(** Model of cherrypy.lib.reprconf.unrepr / _Builder: an evaluator over the AST node
    classes the builder has a [build_] method for, and the printer [to_ast] giving the
    AST that [ast.parse(repr v)] yields for a Python literal value [v].
    Definitions only; proofs live in Proof/P_unrepr*.v.

    Not modelled (oracles / inputs): the tokenizer and [ast.parse] themselves (the
    harness compares [to_ast] with the real parse of the real repr), the decimal
    rendering of floats (a float is its sign and the token of its magnitude), module
    import / builtins lookup / getattr / calls (finite tables materialised by the
    harness from the real objects).  Float arithmetic is modelled only where one
    operand is a zero (all that evaluating a repr needs; exact for IEEE 754, signs
    of zero included); anything else answers [EUnknown] and is not compared.  Sequence
    repetition is built up to [rep_limit] elements; beyond it ([sys.maxsize * (1,)], where the
    interpreter raises MemoryError) the answer is [EUnknown] too. *)
From Coq Require Import ZArith List Bool.
From CV Require Import Lib.Sx Lib.ListZ.
Import ListNotations.
Open Scope Z_scope.

Definition str := list Z.

(** magnitude of a float: an integer below 10^16 (repr "n.0", printed "n" inside a
    complex), or any other token of repr(abs x) ("1.5", "1e+16", "2.5e-07") *)
Inductive mag := MInt (n : Z) | MTok (t : str).
Record fl := Fl { f_neg : bool; f_mag : mag }.

Inductive value :=
| VNone
| VBool (b : bool)
| VInt (z : Z)
| VFloat (f : fl)
| VComplex (re im : fl)
| VStr (s : str)
| VBytes (s : str)
| VList (l : list value)
| VTuple (l : list value)
| VDict (d : list (value * value))
| VObj (id : Z).          (* an opaque object: module, builtin, class, result of a call *)

Inductive unop := UNeg | UOther.                  (* USub | UAdd, Not, Invert *)
Inductive binop := BAdd | BMul | BSub | BOther.   (* Add | Mult | Sub | Div, Mod, Pow, ... *)

Inductive pyast :=
| AConst (v : value)                   (* ast.Constant *)
| AList (l : list pyast)
| ATuple (l : list pyast)
| ADict (kvs : list (pyast * pyast))      (* zip(o.keys, o.values) *)
| AName (n : str)
| AUnary (op : unop) (a : pyast)
| ABin (op : binop) (a b : pyast)
| AAttr (a : pyast) (attr : str)
| ACall (f : pyast) (args : list pyast) (kwn : list str) (kwv : list pyast)
| AOther.                              (* a node class without a build_ method: Set, Compare, ... *)

Inductive err :=
| ENoBuilder        (* TypeError: unrepr does not recognize <class> *)
| EName             (* TypeError: unrepr could not resolve the name *)
| EAttr             (* AttributeError *)
| EType             (* TypeError raised by the operator / dict construction *)
| ECall             (* the opaque call raised *)
| EUnknown.         (* outside the model: not compared *)

Inductive res (A : Type) := Ok (a : A) | Err (e : err).
Arguments Ok {A} a.
Arguments Err {A} e.

(** what the harness materialises from the interpreter *)
Record env := Env {
  e_names : list (str * value);                        (* modules(name) / builtins *)
  e_attrs : list (Z * str * value);                    (* getattr(obj id, name) *)
  e_calls : list (Z * list value * list (str * value) * option value)
                                                       (* calling obj with args, kwargs: Some result | None = raises *)
}.

(** the variant flag: does _Builder have [build_Sub]?  false = the code as found *)
Record cfg := Cfg { c_sub : bool }.


(** the node classes _Builder has a [build_] method for, sorted (tied to the source by a
    generated obligation).  Constant / Num / Str / NameConstant / NoneType / Index are
    [AConst]; Subscript is not modelled (the harness never generates it). *)
Definition builder_methods (c : cfg) : list str :=
  [[65;100;100];
   [65;116;116;114;105;98;117;116;101];
   [66;105;110;79;112];
   [67;97;108;108];
   [67;111;110;115;116;97;110;116];
   [68;105;99;116];
   [73;110;100;101;120];
   [76;105;115;116];
   [77;117;108;116];
   [78;97;109;101];
   [78;97;109;101;67;111;110;115;116;97;110;116];
   [78;111;110;101;84;121;112;101];
   [78;117;109];
   [83;116;114]] ++
  (if c_sub c then [[83;117;98]] else []) ++
  [[83;117;98;115;99;114;105;112;116];
   [84;117;112;108;101];
   [85;83;117;98];
   [85;110;97;114;121;79;112]].

(* ---------- equality on values ---------- *)

Definition mag_eqb (a b : mag) : bool :=
  match a, b with
  | MInt x, MInt y => x =? y
  | MTok x, MTok y => eqbZs x y
  | _, _ => false
  end.
Definition fl_eqb (a b : fl) : bool := Bool.eqb (f_neg a) (f_neg b) && mag_eqb (f_mag a) (f_mag b).

(** structural, type-strict equality *)
Fixpoint veqb (a b : value) : bool :=
  match a, b with
  | VNone, VNone => true
  | VBool x, VBool y => Bool.eqb x y
  | VInt x, VInt y => x =? y
  | VFloat x, VFloat y => fl_eqb x y
  | VComplex r1 i1, VComplex r2 i2 => fl_eqb r1 r2 && fl_eqb i1 i2
  | VStr x, VStr y => eqbZs x y
  | VBytes x, VBytes y => eqbZs x y
  | VList x, VList y | VTuple x, VTuple y =>
    (fix go (x y : list value) : bool :=
       match x, y with
       | [], [] => true
       | p :: x', q :: y' => veqb p q && go x' y'
       | _, _ => false
       end) x y
  | VDict x, VDict y =>
    (fix go (x y : list (value * value)) : bool :=
       match x, y with
       | [], [] => true
       | p :: x', q :: y' => veqb (fst p) (fst q) && veqb (snd p) (snd q) && go x' y'
       | _, _ => false
       end) x y
  | VObj x, VObj y => x =? y
  | _, _ => false
  end.

Definition veqb_list (x y : list value) : bool :=
  (fix go (x y : list value) : bool :=
     match x, y with
     | [], [] => true
     | p :: x', q :: y' => veqb p q && go x' y'
     | _, _ => false
     end) x y.

Definition kw_eqb (x y : list (str * value)) : bool :=
  (fix go (x y : list (str * value)) : bool :=
     match x, y with
     | [], [] => true
     | p :: x', q :: y' => eqbZs (fst p) (fst q) && veqb (snd p) (snd q) && go x' y'
     | _, _ => false
     end) x y.

(* ---------- numbers ---------- *)

Definition is_zero (f : fl) : bool := match f_mag f with MInt n => n =? 0 | MTok _ => false end.
Definition pzero : fl := Fl false (MInt 0).
Definition fneg (f : fl) : fl := Fl (negb (f_neg f)) (f_mag f).
Definition fabs (f : fl) : fl := Fl false (f_mag f).

Definition ten16 : Z := 10000000000000000.

(** float(n), exact and printed as digits for |n| < 10^16 *)
Definition float_of_Z (n : Z) : option fl :=
  if Z.abs n <? ten16 then Some (Fl (n <? 0) (MInt (Z.abs n))) else None.

(** IEEE addition when one operand is a zero *)
Definition fadd (a b : fl) : option fl :=
  if is_zero a then
    if is_zero b then Some (Fl (f_neg a && f_neg b) (MInt 0)) else Some b
  else if is_zero b then Some a else None.

Inductive num := NInt (z : Z) | NFloat (f : fl) | NComplex (re im : fl).

Definition as_num (v : value) : option num :=
  match v with
  | VBool b => Some (NInt (if b then 1 else 0))
  | VInt z => Some (NInt z)
  | VFloat f => Some (NFloat f)
  | VComplex r i => Some (NComplex r i)
  | _ => None
  end.

Definition of_num (n : num) : value :=
  match n with NInt z => VInt z | NFloat f => VFloat f | NComplex r i => VComplex r i end.

Definition to_float (n : num) : option fl :=
  match n with NInt z => float_of_Z z | NFloat f => Some f | NComplex _ _ => None end.

Definition to_complex (n : num) : option (fl * fl) :=
  match n with
  | NComplex r i => Some (r, i)
  | _ => match to_float n with Some f => Some (f, pzero) | None => None end
  end.

Definition num_add (a b : num) : res value :=
  match a, b with
  | NInt x, NInt y => Ok (VInt (x + y))
  | NComplex _ _, _ | _, NComplex _ _ =>
    match to_complex a, to_complex b with
    | Some (r1, i1), Some (r2, i2) =>
      match fadd r1 r2, fadd i1 i2 with
      | Some r, Some i => Ok (VComplex r i)
      | _, _ => Err EUnknown
      end
    | _, _ => Err EUnknown
    end
  | _, _ =>
    match to_float a, to_float b with
    | Some x, Some y => match fadd x y with Some f => Ok (VFloat f) | None => Err EUnknown end
    | _, _ => Err EUnknown
    end
  end.

(** operator.neg *)
Definition v_neg (v : value) : res value :=
  match as_num v with
  | Some (NInt z) => Ok (VInt (- z))
  | Some (NFloat f) => Ok (VFloat (fneg f))
  | Some (NComplex r i) => Ok (VComplex (fneg r) (fneg i))
  | None => match v with VObj _ => Err EUnknown | _ => Err EType end
  end.

(** l * n.  None: the result would be longer than the model is prepared to build
    ([sys.maxsize * (1,)]: the interpreter raises MemoryError; answered EUnknown, not compared) *)
Definition rep_limit : Z := 65536.
Definition repeat_list {A} (l : list A) (n : Z) : option (list A) :=
  match l, n with
  | [], _ => Some []
  | _, Zpos p => if lenZ l * n <=? rep_limit then Some (Pos.iter (app l) [] p) else None
  | _, _ => Some []
  end.

(** operator.add *)
Definition v_add (a b : value) : res value :=
  match as_num a, as_num b with
  | Some x, Some y => num_add x y
  | _, _ =>
    match a, b with
    | VStr x, VStr y => Ok (VStr (x ++ y))
    | VBytes x, VBytes y => Ok (VBytes (x ++ y))
    | VList x, VList y => Ok (VList (x ++ y))
    | VTuple x, VTuple y => Ok (VTuple (x ++ y))
    | VObj _, _ | _, VObj _ => Err EUnknown
    | _, _ => Err EType
    end
  end.

(** operator.sub = a + (-b) on numbers (exact in IEEE 754) *)
Definition v_sub (a b : value) : res value :=
  match as_num a, as_num b with
  | Some x, Some _ =>
    match v_neg b with
    | Ok nb => match as_num nb with Some y => num_add x y | None => Err EUnknown end
    | Err e => Err e
    end
  | _, _ =>
    match a, b with
    | VObj _, _ | _, VObj _ => Err EUnknown
    | _, _ => Err EType
    end
  end.

Definition rep_res {A} (mk : list A -> value) (x : list A) (n : Z) : res value :=
  match repeat_list x n with Some r => Ok (mk r) | None => Err EUnknown end.

Definition seq_times (v : value) (n : Z) : res value :=
  match v with
  | VStr x => rep_res VStr x n
  | VBytes x => rep_res VBytes x n
  | VList x => rep_res VList x n
  | VTuple x => rep_res VTuple x n
  | _ => Err EType
  end.

Definition as_index (v : value) : option Z :=
  match v with VInt z => Some z | VBool b => Some (if b then 1 else 0) | _ => None end.

(** operator.mul *)
Definition v_mul (a b : value) : res value :=
  match as_num a, as_num b with
  | Some (NInt x), Some (NInt y) => Ok (VInt (x * y))
  | Some _, Some _ => Err EUnknown
  | _, _ =>
    match a, b with
    | VObj _, _ | _, VObj _ => Err EUnknown
    | _, _ =>
      match as_index b with
      | Some n => seq_times a n
      | None =>
        match as_index a with
        | Some n => seq_times b n
        | None => Err EType
        end
      end
    end
  end.

(* ---------- dict construction ---------- *)

Fixpoint hashable (v : value) : bool :=
  match v with
  | VList _ | VDict _ => false
  | VTuple l => forallb hashable l
  | _ => true
  end.

(** does the value contain a number (equality across int/bool/float/complex is not modelled) *)
Fixpoint has_number (v : value) : bool :=
  match v with
  | VBool _ | VInt _ | VFloat _ | VComplex _ _ => true
  | VTuple l => existsb has_number l
  | _ => false
  end.

Fixpoint has_obj (v : value) : bool :=
  match v with
  | VObj _ => true
  | VTuple l => existsb has_obj l
  | _ => false
  end.

(** keys whose Python equality is the model's [veqb]: no opaque objects, and numbers
    only as plain non-negative ints... kept simple: numeric keys must all be VInt *)
Fixpoint plain_key (v : value) : bool :=
  match v with
  | VNone | VInt _ | VStr _ | VBytes _ => true
  | VTuple l => forallb plain_key l
  | _ => false
  end.

Fixpoint dict_set (k v : value) (d : list (value * value)) : list (value * value) :=
  match d with
  | [] => [(k, v)]
  | (k', v') :: r => if veqb k k' then (k', v) :: r else (k', v') :: dict_set k v r
  end.

(** dict([(k, v), ...]) *)
Definition mk_dict (kvs : list (value * value)) : res value :=
  if negb (forallb (fun kv => hashable (fst kv)) kvs) then Err EType
  else if forallb (fun kv => plain_key (fst kv)) kvs
       then Ok (VDict (fold_left (fun d kv => dict_set (fst kv) (snd kv) d) kvs []))
       else match kvs with
            | [kv] => Ok (VDict [kv])
            | _ => Err EUnknown
            end.

(* ---------- lookups ---------- *)

Definition s_None : str := [78;111;110;101].
Definition s_True : str := [84;114;117;101].
Definition s_False : str := [70;97;108;115;101].

Fixpoint lookup_name (n : str) (l : list (str * value)) : option value :=
  match l with
  | [] => None
  | (k, v) :: r => if eqbZs n k then Some v else lookup_name n r
  end.

Fixpoint lookup_attr (id : Z) (a : str) (l : list (Z * str * value)) : option value :=
  match l with
  | [] => None
  | (i, k, v) :: r => if (i =? id) && eqbZs a k then Some v else lookup_attr id a r
  end.

Fixpoint lookup_call (id : Z) (args : list value) (kw : list (str * value))
         (l : list (Z * list value * list (str * value) * option value)) : option (option value) :=
  match l with
  | [] => None
  | (i, a, k, r) :: rest =>
    if (i =? id) && veqb_list args a && kw_eqb kw k then Some r else lookup_call id args kw rest
  end.

(* ---------- _Builder.build ---------- *)

Definition bind {A B} (r : res A) (f : A -> res B) : res B :=
  match r with Ok a => f a | Err e => Err e end.

(** build_Add / build_Mult / build_USub (+ build_Sub in the repaired variant) *)
Definition build_unop (op : unop) : res (value -> res value) :=
  match op with UNeg => Ok v_neg | UOther => Err ENoBuilder end.
Definition build_binop (c : cfg) (op : binop) : res (value -> value -> res value) :=
  match op with
  | BAdd => Ok v_add
  | BMul => Ok v_mul
  | BSub => if c_sub c then Ok v_sub else Err ENoBuilder
  | BOther => Err ENoBuilder
  end.

Section Build.
Variable c : cfg.
Variable E : env.

Fixpoint build (a : pyast) : res value :=
  let build_list :=
      fix go (l : list pyast) : res (list value) :=
        match l with
        | [] => Ok []
        | x :: r => bind (build x) (fun v => bind (go r) (fun vs => Ok (v :: vs)))
        end in
  match a with
  | AConst v => Ok v
  | AList l => bind (build_list l) (fun vs => Ok (VList vs))
  | ATuple l => bind (build_list l) (fun vs => Ok (VTuple vs))
  | ADict kvs =>
    (* [(build(k), build(v)) for k, v in zip(keys, values)]: key, then value, pairwise *)
    let go :=
        fix go (l : list (pyast * pyast)) : res (list (value * value)) :=
          match l with
          | [] => Ok []
          | p :: r =>
            bind (build (fst p)) (fun kv => bind (build (snd p)) (fun vv =>
              bind (go r) (fun rr => Ok ((kv, vv) :: rr))))
          end in
    bind (go kvs) mk_dict
  | AName n =>
    if eqbZs n s_None then Ok VNone
    else if eqbZs n s_True then Ok (VBool true)
    else if eqbZs n s_False then Ok (VBool false)
    else match lookup_name n (e_names E) with
         | Some v => Ok v
         | None => Err EName
         end
  | AUnary op x =>
    (* op, operand = map(self.build, [o.op, o.operand]) *)
    bind (build_unop op) (fun f => bind (build x) f)
  | ABin op x y =>
    (* left, op, right = map(self.build, [o.left, o.op, o.right]) *)
    bind (build x) (fun l => bind (build_binop c op) (fun f => bind (build y) (fun r => f l r)))
  | AAttr x attr =>
    bind (build x) (fun p =>
      match p with
      | VObj id => match lookup_attr id attr (e_attrs E) with
                   | Some v => Ok v
                   | None => Err EAttr
                   end
      | _ => Err EUnknown
      end)
  | ACall f args kwn kwv =>
    bind (build f) (fun callee =>
    bind (build_list args) (fun avs =>
    bind (build_list kwv) (fun kvs =>
      match callee with
      | VObj id =>
        match lookup_call id avs (combine kwn kvs) (e_calls E) with
        | Some (Some r) => Ok r
        | Some None => Err ECall
        | None => Err EUnknown
        end
      | _ => Err EUnknown
      end)))
  | AOther => Err ENoBuilder
  end.

End Build.

(* ---------- to_ast: ast.parse(repr v) ---------- *)

Definition mag_ast (m : mag) : pyast :=
  match m with
  | MInt n => AConst (VInt n)                        (* printed without ".0" inside a complex *)
  | MTok t => AConst (VFloat (Fl false (MTok t)))
  end.

Definition signed (neg : bool) (a : pyast) : pyast := if neg then AUnary UNeg a else a.

Definition imag_const (im : fl) : pyast := AConst (VComplex pzero (fabs im)).

Fixpoint to_ast (v : value) : pyast :=
  match v with
  | VInt z => signed (z <? 0) (AConst (VInt (Z.abs z)))
  | VFloat f => signed (f_neg f) (AConst (VFloat (fabs f)))
  | VComplex re im =>
    if is_zero re && negb (f_neg re)
    then signed (f_neg im) (imag_const im)                               (* 2j  -2j *)
    else ABin (if f_neg im then BSub else BAdd)
              (signed (f_neg re) (mag_ast (f_mag re))) (imag_const im)   (* (1+2j) (-1.5-2j) (-0-2j) *)
  | VList l => AList (map to_ast l)
  | VTuple l => ATuple (map to_ast l)
  | VDict d => ADict (map (fun kv => (to_ast (fst kv), to_ast (snd kv))) d)
  | _ => AConst v                                    (* None True False 'str' b'bytes' *)
  end.

(** the value [build (to_ast v)] denotes: [v] itself except for the sign of a zero
    component of a complex number, which Python's own evaluation of the repr loses *)
Definition unzero (f : fl) : fl := if is_zero f then pzero else f.
Fixpoint canon (v : value) : value :=
  match v with
  | VComplex re im =>
    if is_zero re && negb (f_neg re)
    then (if f_neg im then VComplex (fneg re) im else v)
    else VComplex (unzero re) (unzero im)
  | VList l => VList (map canon l)
  | VTuple l => VTuple (map canon l)
  | VDict d => VDict (map (fun kv => (canon (fst kv), canon (snd kv))) d)
  | _ => v
  end.

(* ---------- s-expression boundary ---------- *)

(** integers beyond the driver's machine words travel as sign + base-10^9 limbs (little endian) *)
Definition limb : Z := 1000000000.
Definition big : Z := 1152921504606846976.
Fixpoint limbs_of (fuel : nat) (n : Z) : list Z :=
  match fuel with
  | O => []
  | S f => if n =? 0 then [] else (n mod limb) :: limbs_of f (n / limb)
  end.
Definition of_limbs (l : list Z) : Z := fold_right (fun d acc => d + limb * acc) 0 l.
Definition enc_int (z : Z) : list sx :=
  if Z.abs z <? big then [I z]
  else [I (if z <? 0 then -1 else 1);
        L (map I (limbs_of (match Z.abs z with Zpos p => Pos.size_nat p | _ => O end) (Z.abs z)))].

Definition dec_mag (x : sx) : mag :=
  if sx_Z (nth_sx 0 x) =? 0 then MInt (sx_Z (nth_sx 1 x)) else MTok (sx_Zs (nth_sx 1 x)).
Definition dec_fl (n m : sx) : fl := Fl (sx_bool n) (dec_mag m).

(** value = (0) None | (1 b) | (2 z) or (2 sign (limbs)) | (3 neg mag) | (4 neg mag neg mag) | (5 str) | (6 bytes)
            | (7 (items)) list | (8 (items)) tuple | (9 ((k v) ...)) dict | (10 id) object
    mag   = (0 n) | (1 token) *)
Fixpoint dec_value (x : sx) : value :=
  match x with
  | L (I tag :: args) =>
    match tag, args with
    | 1, [b] => VBool (sx_bool b)
    | 2, [z] => VInt (sx_Z z)
    | 2, [sg; l] => VInt (sx_Z sg * of_limbs (sx_Zs l))
    | 3, [n; m] => VFloat (dec_fl n m)
    | 4, [n1; m1; n2; m2] => VComplex (dec_fl n1 m1) (dec_fl n2 m2)
    | 5, [s] => VStr (sx_Zs s)
    | 6, [s] => VBytes (sx_Zs s)
    | 7, [L items] => VList (map dec_value items)
    | 8, [L items] => VTuple (map dec_value items)
    | 9, [L items] =>
      VDict (map (fun p => match p with
                           | L [k; v] => (dec_value k, dec_value v)
                           | _ => (VNone, VNone)
                           end) items)
    | 10, [i] => VObj (sx_Z i)
    | _, _ => VNone
    end
  | _ => VNone
  end.

Definition enc_mag (m : mag) : sx :=
  match m with MInt n => L [I 0; I n] | MTok t => L [I 1; of_Zs t] end.

Fixpoint enc_value (v : value) : sx :=
  match v with
  | VNone => L [I 0]
  | VBool b => L [I 1; of_bool b]
  | VInt z => L (I 2 :: enc_int z)
  | VFloat f => L [I 3; of_bool (f_neg f); enc_mag (f_mag f)]
  | VComplex r i => L [I 4; of_bool (f_neg r); enc_mag (f_mag r); of_bool (f_neg i); enc_mag (f_mag i)]
  | VStr s => L [I 5; of_Zs s]
  | VBytes s => L [I 6; of_Zs s]
  | VList l => L [I 7; L (map enc_value l)]
  | VTuple l => L [I 8; L (map enc_value l)]
  | VDict d => L [I 9; L (map (fun kv => L [enc_value (fst kv); enc_value (snd kv)]) d)]
  | VObj i => L [I 10; I i]
  end.

(** pyast = (0 value) | (1 (elts)) | (2 (elts)) | (3 ((k v) ...)) | (4 name) | (5 op a)
            | (6 op a b) | (7 a attr) | (8 f (args) (kwnames) (kwvalues)) | (9) *)
Fixpoint dec_ast (x : sx) : pyast :=
  match x with
  | L (I tag :: args) =>
    match tag, args with
    | 0, [v] => AConst (dec_value v)
    | 1, [L l] => AList (map dec_ast l)
    | 2, [L l] => ATuple (map dec_ast l)
    | 3, [L kvs] => ADict (map (fun p => match p with
                                         | L [k; v] => (dec_ast k, dec_ast v)
                                         | _ => (AOther, AOther)
                                         end) kvs)
    | 4, [n] => AName (sx_Zs n)
    | 5, [op; a] => AUnary (if sx_Z op =? 0 then UNeg else UOther) (dec_ast a)
    | 6, [op; a; b] =>
      ABin (let o := sx_Z op in
            if o =? 0 then BAdd else if o =? 1 then BMul else if o =? 2 then BSub else BOther)
           (dec_ast a) (dec_ast b)
    | 7, [a; at_] => AAttr (dec_ast a) (sx_Zs at_)
    | 8, [f; L a; L kn; L kv] => ACall (dec_ast f) (map dec_ast a) (map sx_Zs kn) (map dec_ast kv)
    | _, _ => AOther
    end
  | _ => AOther
  end.

Fixpoint enc_ast (a : pyast) : sx :=
  match a with
  | AConst v => L [I 0; enc_value v]
  | AList l => L [I 1; L (map enc_ast l)]
  | ATuple l => L [I 2; L (map enc_ast l)]
  | ADict kvs => L [I 3; L (map (fun p => L [enc_ast (fst p); enc_ast (snd p)]) kvs)]
  | AName n => L [I 4; of_Zs n]
  | AUnary op x => L [I 5; I (match op with UNeg => 0 | UOther => 1 end); enc_ast x]
  | ABin op x y =>
    L [I 6; I (match op with BAdd => 0 | BMul => 1 | BSub => 2 | BOther => 3 end); enc_ast x; enc_ast y]
  | AAttr x at_ => L [I 7; enc_ast x; of_Zs at_]
  | ACall f a kn kv => L [I 8; enc_ast f; L (map enc_ast a); L (map of_Zs kn); L (map enc_ast kv)]
  | AOther => L [I 9]
  end.

Definition dec_env (x : sx) : env :=
  Env (map (fun p => (sx_Zs (nth_sx 0 p), dec_value (nth_sx 1 p))) (sx_list (nth_sx 0 x)))
      (map (fun p => (sx_Z (nth_sx 0 p), sx_Zs (nth_sx 1 p), dec_value (nth_sx 2 p)))
           (sx_list (nth_sx 1 x)))
      (map (fun p => (sx_Z (nth_sx 0 p),
                      map dec_value (sx_list (nth_sx 1 p)),
                      map (fun q => (sx_Zs (nth_sx 0 q), dec_value (nth_sx 1 q))) (sx_list (nth_sx 2 p)),
                      match sx_opt (nth_sx 3 p) with Some r => Some (dec_value r) | None => None end))
           (sx_list (nth_sx 2 x))).

Definition enc_err (e : err) : Z :=
  match e with
  | ENoBuilder => 1 | EName => 2 | EAttr => 3 | EType => 4 | ECall => 5 | EUnknown => 6
  end.

(** result = (0 value) | (error-code) *)
Definition enc_res (r : res value) : sx :=
  match r with Ok v => L [I 0; enc_value v] | Err e => L [I (enc_err e)] end.

(** literal case:  (sub value)      -> (to_ast v, build (to_ast v), the same without build_Sub)
    expression:    (sub ast env)    -> (build ast, the same without build_Sub) *)
Definition run_literal (x : sx) : sx :=
  let c := Cfg (sx_bool (nth_sx 0 x)) in
  let v := dec_value (nth_sx 1 x) in
  let a := to_ast v in
  L [enc_ast a; enc_res (build c (Env [] [] []) a); enc_res (build (Cfg false) (Env [] [] []) a)].

Definition run_expr (x : sx) : sx :=
  let c := Cfg (sx_bool (nth_sx 0 x)) in
  let E := dec_env (nth_sx 2 x) in
  let a := dec_ast (nth_sx 1 x) in
  L [enc_res (build c E a); enc_res (build (Cfg false) E a)].
