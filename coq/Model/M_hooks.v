(** Model of _cprequest.HookMap.run / run_hooks: priority order (stable sort on
    Hook.__lt__), failsafe hooks after a failure, last exception propagates,
    BaseExceptions are not intercepted.  Definitions only. *)
From Coq Require Import ZArith List Bool.
Import ListNotations.
From CV Require Import Model.M_flow.
Open Scope Z_scope.

Record hook := Hook {
  h_id : Z;
  h_prio : Z;
  h_failsafe : bool;
  h_beh : option exn;        (* None = returns normally *)
}.

(** sorted(self[point]) : Python's sort is stable and uses only __lt__ *)
Fixpoint insert (h : hook) (l : list hook) : list hook :=
  match l with
  | [] => [h]
  | x :: r => if h_prio h <=? h_prio x then h :: l else x :: insert h r
  end.
Definition sort_hooks (l : list hook) : list hook := fold_right insert [] l.

(** run_hooks over the (shared) iterator; [safe_only] = we are inside
    run_hooks(safe), where the iterator is filtered to failsafe hooks. *)
Fixpoint run_hooks (safe_only : bool) (hs : list hook) : list Z * option exn :=
  match hs with
  | [] => ([], None)
  | h :: r =>
    if safe_only && negb (h_failsafe h) then run_hooks safe_only r
    else
      match h_beh h with
      | None => let '(j, e) := run_hooks safe_only r in (h_id h :: j, e)
      | Some x =>
        if is_base x then ([h_id h], Some x)      (* KeyboardInterrupt/SystemExit: not intercepted *)
        else
          let '(j, e) := run_hooks true r in
          (h_id h :: j, Some (match e with Some e' => e' | None => x end))
      end
  end.

Definition run_point (hs : list hook) : list Z * option exn := run_hooks false (sort_hooks hs).
