(** Model of the path handling of cherrypy.lib.static (staticdir, staticfile,
    _attempt, serve_file) and cherrypy.lib.sessions.FileSession
    (_get_file_path, _exists/_load/_save/_delete/acquire_lock/clean_up), at the
    level of characters: POSIX [normpath] (with the leading "//" rule), [isabs],
    [join], [abspath] relative to a cwd parameter, [unquote], [lstrip "\\/"],
    the two containment guards exactly as the code writes them (string prefix,
    [strict = false]) and the repaired guards (compared on a separator
    boundary, [strict = true]).  [resolve] is lexical resolution; [kstat] is a
    symlink-free kernel walk over an explicit tree.
    Strings are lists of code points.  Definitions only. *)
From Coq Require Import ZArith List Bool.
From CV Require Import Lib.Sx Lib.ListZ.
Import ListNotations.
Open Scope Z_scope.

Definition str := list Z.

(* ---------- string primitives ---------- *)

Definition is_nil {A} (l : list A) : bool := match l with [] => true | _ => false end.

(** s.startswith(p) *)
Fixpoint startswith (s p : str) : bool :=
  match p, s with
  | [], _ => true
  | x :: p', y :: s' => (x =? y) && startswith s' p'
  | _ :: _, [] => false
  end.

Definition endswith (s p : str) : bool := startswith (rev s) (rev p).

(** last character is '/' *)
Fixpoint ends_slash (s : str) : bool :=
  match s with
  | [] => false
  | [c] => c =? 47
  | _ :: r => ends_slash r
  end.

Definition isabs (s : str) : bool := match s with c :: _ => c =? 47 | [] => false end.

(** posixpath.join(a, b) *)
Definition join2 (a b : str) : str :=
  if isabs b then b
  else if is_nil a || ends_slash a then a ++ b
  else a ++ 47 :: b.

(** s.split('/') *)
Fixpoint split_slash (s : str) : list str :=
  match s with
  | [] => [[]]
  | c :: r =>
    if c =? 47 then [] :: split_slash r
    else match split_slash r with
         | h :: t => (c :: h) :: t
         | [] => [[c]]
         end
  end.

Definition is_empty (c : str) : bool := is_nil c.
Definition is_dot (c : str) : bool := eqbZs c [46].
Definition is_dotdot (c : str) : bool := eqbZs c [46; 46].

(** non-empty components *)
Definition segments (s : str) : list str :=
  filter (fun c => negb (is_empty c)) (split_slash s).

Fixpoint join_slash (l : list str) : str :=
  match l with
  | [] => []
  | [c] => c
  | c :: r => c ++ 47 :: join_slash r
  end.

(** posixpath.normpath *)
Definition init_slashes (p : str) : Z :=
  if startswith p [47; 47; 47] then 1
  else if startswith p [47; 47] then 2
  else if startswith p [47] then 1 else 0.

Definition slashes (n : Z) : str :=
  if n =? 2 then [47; 47] else if n =? 1 then [47] else [].

(** one iteration of normpath's loop; [acc] is new_comps reversed *)
Definition np_step (init : Z) (acc : list str) (c : str) : list str :=
  if is_empty c || is_dot c then acc
  else if negb (is_dotdot c)
          || ((init =? 0) && is_nil acc)
          || (match acc with t :: _ => is_dotdot t | [] => false end)
  then c :: acc
  else tl acc.

Definition normpath (p : str) : str :=
  match p with
  | [] => [46]
  | _ =>
    let init := init_slashes p in
    let comps := rev (fold_left (np_step init) (split_slash p) []) in
    match slashes init ++ join_slash comps with
    | [] => [46]
    | s => s
    end
  end.

(** posixpath.abspath with os.getcwd() = cwd *)
Definition abspath (cwd p : str) : str :=
  normpath (if isabs p then p else join2 cwd p).

(** lexical resolution of an absolute path: the directory entries named from
    the root, "", "." skipped, ".." going up (staying at the root) *)
Definition rs_step (acc : list str) (c : str) : list str :=
  if is_empty c || is_dot c then acc
  else if is_dotdot c then tl acc
  else c :: acc.

Definition resolve (p : str) : list str :=
  rev (fold_left rs_step (split_slash p) []).

Fixpoint seg_prefixb (a b : list str) : bool :=
  match a, b with
  | [], _ => true
  | x :: a', y :: b' => eqbZs x y && seg_prefixb a' b'
  | _ :: _, [] => false
  end.

(** s.lstrip('\\/') and s.rstrip('\\/') *)
Definition is_sep (c : Z) : bool := (c =? 47) || (c =? 92).
Fixpoint lstrip_sep (s : str) : str :=
  match s with
  | c :: r => if is_sep c then lstrip_sep r else s
  | [] => []
  end.
Definition rstrip_sep (s : str) : str := rev (lstrip_sep (rev s)).

(** urllib.parse.unquote: %XX -> byte; the byte string is decoded as UTF-8
    with errors='replace'.  Bytes < 0x80 are themselves; a byte >= 0x80 that
    cannot start a sequence (80..C1, F5..FF) becomes U+FFFD.  Lead bytes
    C2..F4 would need a UTF-8 decoder: [unq_supported] is false for them and
    the run answers "unsupported" (never generated except to test that). *)
Definition hexv (c : Z) : option Z :=
  if (48 <=? c) && (c <=? 57) then Some (c - 48)
  else if (65 <=? c) && (c <=? 70) then Some (c - 55)
  else if (97 <=? c) && (c <=? 102) then Some (c - 87)
  else None.

Fixpoint unquote_bytes (s : str) : list (bool * Z) :=
  match s with
  | [] => []
  | c :: r =>
    if c =? 37 then
      match r with
      | h1 :: h2 :: r' =>
        match hexv h1, hexv h2 with
        | Some a, Some b => (true, 16 * a + b) :: unquote_bytes r'
        | _, _ => (false, c) :: unquote_bytes r
        end
      | _ => (false, c) :: unquote_bytes r
      end
    else (false, c) :: unquote_bytes r
  end.

Definition unq_char (x : bool * Z) : Z :=
  let '(esc, v) := x in if esc && (128 <=? v) then 65533 else v.
Definition unquote (s : str) : str := map unq_char (unquote_bytes s).
Definition unq_supported (s : str) : bool :=
  forallb (fun x : bool * Z => let '(esc, v) := x in
                               negb (esc && (194 <=? v) && (v <=? 244)))
          (unquote_bytes s).

Definition has_nul (s : str) : bool := existsb (fun c => c =? 0) s.

(* ---------- a symlink-free file system ---------- *)

(** the tree: resolved location (segments from the root) and is-directory *)
Definition fsys := list (list str * bool).

Fixpoint eqb_segs (a b : list str) : bool :=
  match a, b with
  | [], [] => true
  | x :: a', y :: b' => eqbZs x y && eqb_segs a' b'
  | _, _ => false
  end.

Fixpoint fs_lookup (fs : fsys) (loc : list str) : option bool :=
  match fs with
  | [] => None
  | (l, d) :: r => if eqb_segs l loc then Some d else fs_lookup r loc
  end.

Inductive kres :=
| KFile (loc : list str)   (* reversed segments *)
| KDir (loc : list str)
| KNoEnt | KNotDir | KInval.

(** path walk from the directory [cur] (reversed segments) *)
Fixpoint kwalk (fs : fsys) (comps : list str) (cur : list str) : kres :=
  match comps with
  | [] => KDir cur
  | c :: r =>
    if is_empty c || is_dot c then kwalk fs r cur
    else if is_dotdot c then kwalk fs r (tl cur)
    else match fs_lookup fs (rev (c :: cur)) with
         | None => KNoEnt
         | Some true => kwalk fs r (c :: cur)
         | Some false => match r with [] => KFile (c :: cur) | _ => KNotDir end
         end
  end.

(** os.stat(p) for an absolute p: ValueError on NUL *)
Definition kstat (fs : fsys) (p : str) : kres :=
  if has_nul p then KInval
  else if isabs p then kwalk fs (split_slash p) [] else KNoEnt.

Definition kexists (fs : fsys) (p : str) : bool :=
  match kstat fs p with KFile _ | KDir _ => true | _ => false end.
Definition kisdir (fs : fsys) (p : str) : bool :=
  match kstat fs p with KDir _ => true | _ => false end.
Definition kisfile (fs : fsys) (p : str) : bool :=
  match kstat fs p with KFile _ => true | _ => false end.

(* ---------- observable result ---------- *)

(** file-system calls made by the anchored code: kind and the path string
    handed to the OS.  0 stat/exists, 1 open for reading, 2 open for writing,
    3 unlink, 4 FileLock(path), 5 listdir *)
Definition op := (Z * str)%type.
Definition res := (Z * Z * list op)%type.      (* branch tag, status, calls *)

(* ---------- cherrypy.lib.static ---------- *)

(** serve_file up to the open(): stat, directory test, open *)
Definition attempt (fs : fsys) (filename : str) : bool * list op :=
  match kstat fs filename with
  | KFile _ => (true, [(0, filename); (1, filename)])
  | _ => (false, [(0, filename)])
  end.

(** the containment test of staticdir *)
Definition guard_static (strict : bool) (filename dir : str) : bool :=
  let nf := normpath filename in
  let nd := normpath dir in
  if strict then eqbZs nf nd || startswith nf (join2 nd [])
  else startswith nf nd.

Definition s_global : str := [103; 108; 111; 98; 97; 108].

(** dir made absolute with root; None = "requires an absolute dir (or root)" *)
Definition eff_dir (dir root : str) : option str :=
  if isabs dir then Some dir
  else if is_nil root then None else Some (join2 root dir).

Definition branch_raw (section path_info : str) : str :=
  let section := if eqbZs section s_global then [47] else section in
  let section := rstrip_sep section in
  lstrip_sep (dropZ (lenZ section + 1) path_info).
Definition branch_of (section path_info : str) : str :=
  unquote (branch_raw section path_info).

(** tags: 1 served file, 2 served index, 3 not found, 4 forbidden,
    5 configuration error (ValueError), 6 tool not run, 7 unsupported *)
Definition staticdir (strict : bool) (section path_info dir root index : str)
           (fs : fsys) : res :=
  match eff_dir dir root with
  | None => (5, 500, [])
  | Some d =>
    let branch := branch_of section path_info in
    let filename := join2 d branch in
    if negb (guard_static strict filename d) then (4, 403, [])
    else if negb (isabs filename) then (5, 500, [])
    else
      let '(h, ops) := attempt fs filename in
      if h then (1, 200, ops)
      else if is_nil index then (3, 404, ops)
      else
        let fi := join2 filename index in
        if negb (isabs fi) then (5, 500, ops)
        else
          let '(h2, ops2) := attempt fs fi in
          if h2 then (2, 200, ops ++ ops2) else (3, 404, ops ++ ops2)
  end.

(** staticfile: the file is fixed by the configuration *)
Definition staticfile (filename root : str) (fs : fsys) : res :=
  let f := if isabs filename then Some filename
           else if is_nil root then None else Some (join2 root filename) in
  match f with
  | None => (5, 500, [])
  | Some f =>
    if negb (isabs f) then (5, 500, [])
    else let '(h, ops) := attempt fs f in
         if h then (1, 200, ops) else (3, 404, ops)
  end.

(* ---------- cherrypy.lib.sessions.FileSession ---------- *)

Definition s_prefix : str := [115; 101; 115; 115; 105; 111; 110; 45].   (* "session-" *)
Definition s_lock : str := [46; 108; 111; 99; 107].                      (* ".lock" *)

Definition sess_file (sp id : str) : str := join2 sp (s_prefix ++ id).

Definition guard_sess (strict : bool) (cwd sp f : str) : bool :=
  let a := abspath cwd f in
  if strict then startswith a (join2 sp []) else startswith a sp.

(** _get_file_path; None = HTTPError 400 *)
Definition get_file_path (strict : bool) (cwd sp id : str) : option str :=
  let f := sess_file sp id in
  if guard_sess strict cwd sp f then Some f else None.

(** _exists: a path ending in the lock suffix is the lock file of another
    session, never a session - answered False without a file-system call;
    otherwise os.path.isfile(path): one stat, true only for a regular file
    (an id naming a directory below storage_path is not adopted) *)
Definition exists_call (fs : fsys) (f : str) : bool * list op :=
  if endswith f s_lock then (false, []) else (kisfile fs f, [(0, f)]).

(** _regenerate's loop: first generated id whose file does not exist *)
Fixpoint fresh_id (strict : bool) (cwd sp : str) (fs : fsys) (gens : list str)
         (acc : list op) : option (option (str * str * list str * list op)) :=
  (* None = out of generated ids; Some None = 400; Some (Some (id, f, rest, ops)) *)
  match gens with
  | [] => None
  | g :: rest =>
    match get_file_path strict cwd sp g with
    | None => Some None
    | Some f =>
      let '(ex, eops) := exists_call fs f in
      if ex then fresh_id strict cwd sp fs rest (acc ++ eops)
      else Some (Some (g, f, rest, acc ++ eops))
    end
  end.

(** One request through the sessions tool with implicit locking.
    action: 0 handler ignores the session, 1 reads a key (load, then save),
    2 session.delete(), 3 session.regenerate().
    tags: 10 id adopted, 11 id not found -> new id, 12 no cookie, 13 rejected
    (400), 14 current session file is a directory: save fails (not reachable
    since _exists adopts regular files only), 15 out of ids *)
Definition sess_request (strict : bool) (cwd sp_cfg : str) (id : option str)
           (action : Z) (gens : list str) (fs : fsys) : res :=
  let sp := abspath cwd sp_cfg in
  (* Session.__init__ *)
  let start :=
    match id with
    | None =>
      match fresh_id strict cwd sp fs gens [] with
      | None => inl 15
      | Some None => inl 13
      | Some (Some (g, f, rest, ops)) => inr (12, g, f, rest, ops)
      end
    | Some i =>
      match get_file_path strict cwd sp i with
      | None => inl 13
      | Some f =>
        let '(ex, eops) := exists_call fs f in
        if ex then inr (10, i, f, gens, eops)
        else
          match fresh_id strict cwd sp fs gens eops with
          | None => inl 15
          | Some None => inl 13
          | Some (Some (g, f', rest, ops)) => inr (11, g, f', rest, ops)
          end
      end
    end in
  match start with
  | inl t => (t, if t =? 13 then 400 else 500, [])
  | inr (tag, cur, f, rest, ops) =>
    (* init: acquire_lock *)
    let ops := ops ++ [(4, f ++ s_lock)] in
    if action =? 1 then
      let ops := ops ++ [(1, f); (2, f)] in
      if kisdir fs f then (14, 500, ops) else (tag, 200, ops)
    else if action =? 2 then (tag, 200, ops ++ [(3, f)])
    else if action =? 3 then
      match fresh_id strict cwd sp fs rest (ops ++ [(3, f)]) with
      | None => (15, 500, ops ++ [(3, f)])
      | Some None => (13, 400, ops ++ [(3, f)])
      | Some (Some (g, f', _, ops')) => (tag, 200, ops' ++ [(4, f' ++ s_lock)])
      end
    else (tag, 200, ops)
  end.

(** clean_up over the names listdir returned; flag = the stored session is expired *)
Definition have_session (n : str) : bool :=
  startswith n s_prefix && negb (endswith n s_lock).

Definition cleanup (cwd sp_cfg : str) (names : list (str * bool)) : res :=
  let sp := abspath cwd sp_cfg in
  (20, 0,
   (5, sp) ::
   flat_map (fun nf : str * bool =>
               let '(n, expired) := nf in
               if have_session n then
                 let p := join2 sp n in
                 (4, p ++ s_lock) :: (1, p) :: (if expired then [(3, p)] else [])
               else []) names).

(* ---------- s-expression boundary ---------- *)

Definition dec_fs (x : sx) : fsys :=
  map (fun e => (segments (sx_Zs (nth_sx 0 e)), sx_bool (nth_sx 1 e))) (sx_list x).

Definition enc_op (o : op) : sx := L [I (fst o); of_Zs (snd o)].
Definition enc_res (r : res) : sx :=
  let '(tag, st, ops) := r in L [I tag; I st; L (map enc_op ops)].
Definition enc_strs (l : list str) : sx := L (map of_Zs l).

Definition dec_optstr (x : sx) : option str :=
  match x with L (y :: _) => Some (sx_Zs y) | _ => None end.

(** case kinds
    (0 strict section path_info dir root index gate fs)        staticdir
    (1 strict cwd storage_path (id)? action (gen ids) fs)      one session request
    (2 filename root gate fs)                                  staticfile
    (3 cwd storage_path ((name expired) ...))                  clean_up
    (4 f args...)                                              primitives
    gate = 0: method not GET/HEAD or the match pattern does not match: tool not run *)
Definition run_C11 (x : sx) : sx :=
  let k := sx_Z (nth_sx 0 x) in
  if k =? 0 then
    let strict := sx_bool (nth_sx 1 x) in
    let section := sx_Zs (nth_sx 2 x) in
    let pi := sx_Zs (nth_sx 3 x) in
    let dir := sx_Zs (nth_sx 4 x) in
    let root := sx_Zs (nth_sx 5 x) in
    let index := sx_Zs (nth_sx 6 x) in
    let gate := sx_bool (nth_sx 7 x) in
    let fs := dec_fs (nth_sx 8 x) in
    if negb gate then enc_res (6, 404, [])
    else if negb (unq_supported (branch_raw section pi)) then enc_res (7, 0, [])
    else enc_res (staticdir strict section pi dir root index fs)
  else if k =? 1 then
    enc_res (sess_request (sx_bool (nth_sx 1 x)) (sx_Zs (nth_sx 2 x)) (sx_Zs (nth_sx 3 x))
                          (dec_optstr (nth_sx 4 x)) (sx_Z (nth_sx 5 x))
                          (map sx_Zs (sx_list (nth_sx 6 x))) (dec_fs (nth_sx 7 x)))
  else if k =? 2 then
    if negb (sx_bool (nth_sx 3 x)) then enc_res (6, 404, [])
    else enc_res (staticfile (sx_Zs (nth_sx 1 x)) (sx_Zs (nth_sx 2 x)) (dec_fs (nth_sx 4 x)))
  else if k =? 3 then
    enc_res (cleanup (sx_Zs (nth_sx 1 x)) (sx_Zs (nth_sx 2 x))
                     (map (fun e => (sx_Zs (nth_sx 0 e), sx_bool (nth_sx 1 e)))
                          (sx_list (nth_sx 3 x))))
  else
    let f := sx_Z (nth_sx 1 x) in
    let a := sx_Zs (nth_sx 2 x) in
    let b := sx_Zs (nth_sx 3 x) in
    if f =? 0 then of_Zs (normpath a)
    else if f =? 1 then of_Zs (join2 a b)
    else if f =? 2 then of_Zs (abspath a b)
    else if f =? 3 then L [of_bool (unq_supported a); of_Zs (unquote a)]
    else if f =? 4 then L [of_Zs (lstrip_sep a); of_Zs (rstrip_sep a)]
    else if f =? 5 then enc_strs (resolve a)
    else if f =? 6 then enc_strs (segments a)
    else if f =? 7 then L [of_bool (guard_static false a b); of_bool (guard_static true a b)]
    else if f =? 8 then L [of_bool (isabs a); of_bool (startswith a b); of_bool (seg_prefixb (segments a) (segments b))]
    else L [].
