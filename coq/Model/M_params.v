(** Model of how CherryPy turns a query string and an
    application/x-www-form-urlencoded body into the handler's keyword arguments:

      cherrypy/_cpwsgi.py      AppResponse.recode_path_qs
      cherrypy/_cprequest.py   Request.process_query_string
      cherrypy/lib/httputil.py parse_query_string, _parse_qs   (urllib's unquote_plus)
      cherrypy/_cpreqbody.py   unquote_plus, process_urlencoded, RequestBody.process

    Byte strings and text strings are [list Z] (bytes 0..255 / code points).
    Definitions only; proofs live in Proof/P_params*.v. *)
From Coq Require Import ZArith List Bool.
From CV Require Import Lib.Sx Lib.ListZ.
Import ListNotations.
Open Scope Z_scope.

(** * Characters *)
Definition is_hex (c : Z) : bool :=
  ((48 <=? c) && (c <=? 57)) || ((65 <=? c) && (c <=? 70)) || ((97 <=? c) && (c <=? 102)).
Definition hexval (c : Z) : Z :=
  if c <=? 57 then c - 48 else if c <=? 70 then c - 55 else c - 87.
Definition is_digit (c : Z) : bool := (48 <=? c) && (c <=? 57).
(** Py_ISSPACE: what int() strips from bytes and from ASCII str *)
Definition is_ws (c : Z) : bool := ((9 <=? c) && (c <=? 13)) || (c =? 32).
Definition is_sep (c : Z) : bool := (c =? 38) || (c =? 59).          (* & ; *)
Definition is_nil {A} (l : list A) : bool := match l with [] => true | _ => false end.

Definition plus2space (l : list Z) : list Z := map (fun c => if c =? 43 then 32 else c) l.

(** * int(item[:2], 16) of _cpreqbody.unquote_plus, for an item of at most two
    bytes (no underscore or 0x form fits in two characters): optional
    surrounding whitespace, optional sign, one or two hex digits. *)
Fixpoint lstrip_ws (l : list Z) : list Z :=
  match l with
  | c :: r => if is_ws c then lstrip_ws r else l
  | [] => []
  end.
Definition strip_ws (l : list Z) : list Z := rev (lstrip_ws (rev (lstrip_ws l))).

Fixpoint hex_digits_val (acc : Z) (l : list Z) : option Z :=
  match l with
  | [] => Some acc
  | c :: r => if is_hex c then hex_digits_val (acc * 16 + hexval c) r else None
  end.

Definition py_int16 (item : list Z) : option Z :=
  let s := strip_ws item in
  let '(neg, ds) := match s with
                    | c :: r => if c =? 45 then (true, r) else if c =? 43 then (false, r) else (false, s)
                    | [] => (false, [])
                    end in
  match ds with
  | [] => None
  | _ => match hex_digits_val 0 ds with
         | Some v => Some (if neg then - v else v)
         | None => None
         end
  end.

(** bytes([pct]) raises ValueError outside range(256) *)
Definition pct_byte (item : list Z) : option Z :=
  match py_int16 item with
  | Some v => if (0 <=? v) && (v <? 256) then Some v else None
  | None => None
  end.

(** item[:2] where item is the text between this '%' and the next one *)
Definition item2 (r : list Z) : list Z :=
  match r with
  | a :: b :: _ => if a =? 37 then [] else if b =? 37 then [a] else [a; b]
  | [a] => if a =? 37 then [] else [a]
  | [] => []
  end.

(** * _cpreqbody.unquote_plus (bytes).  atoms = bs.split(b'%'); an atom whose
    first two bytes are not accepted by int(.., 16) is kept WITHOUT its '%'
    (b''.join(atoms)).  [skip] = bytes of the current atom already consumed
    by the conversion. *)
Fixpoint unq_b (skip : nat) (l : list Z) : list Z :=
  match l with
  | [] => []
  | c :: r =>
    match skip with
    | S k => unq_b k r
    | O =>
      if c =? 37 then
        match pct_byte (item2 r) with
        | Some v => v :: unq_b (length (item2 r)) r
        | None => unq_b O r
        end
      else c :: unq_b O r
    end
  end.
Definition unquote_plus_b (bs : list Z) : list Z := unq_b O (plus2space bs).

(** * urllib.parse.unquote_plus(s, encoding, errors='strict') as used by _parse_qs.
    _unquote_impl: '%' followed by exactly two hex digits becomes that byte,
    any other '%' stays. *)
Fixpoint unq_s (skip : nat) (l : list Z) : list Z :=
  match l with
  | [] => []
  | c :: r =>
    match skip with
    | S k => unq_s k r
    | O =>
      if c =? 37 then
        match r with
        | a :: b :: _ => if is_hex a && is_hex b then (hexval a * 16 + hexval b) :: unq_s 2 r
                         else 37 :: unq_s O r
        | _ => 37 :: unq_s O r
        end
      else c :: unq_s O r
    end
  end.

Definition has_pct (l : list Z) : bool := existsb (fun c => c =? 37) l.

Section Unquote_s.
  (** the codec named by [encoding]: bytes -> text, None = UnicodeDecodeError *)
  Variable dec : list Z -> option (list Z).

  (** one maximal ASCII run: _unquote_impl(run).decode(encoding, 'strict') *)
  Definition flush_run (run : list Z) : option (list Z) :=
    match run with [] => Some [] | _ => dec (unq_s O run) end.

  (** _generate_unquoted_parts: ASCII runs are unquoted and decoded one by one,
      non-ASCII characters pass through.  [racc] = current run, reversed. *)
  Fixpoint unq_parts (l : list Z) (racc : list Z) : option (list Z) :=
    match l with
    | [] => flush_run (rev racc)
    | c :: r =>
      if c <? 128 then unq_parts r (c :: racc)
      else match flush_run (rev racc), unq_parts r [] with
           | Some a, Some b => Some (a ++ c :: b)
           | _, _ => None
           end
    end.

  Definition unquote_plus_s (s : list Z) : option (list Z) :=
    let s1 := plus2space s in
    if has_pct s1 then unq_parts s1 [] else Some s1.
End Unquote_s.

(** * Splitting *)
Fixpoint split_on (p : Z -> bool) (l : list Z) : list (list Z) :=
  match l with
  | [] => [[]]
  | c :: r =>
    if p c then [] :: split_on p r
    else match split_on p r with
         | h :: t => (c :: h) :: t
         | [] => [[c]]
         end
  end.

(** pair.split('=', 1) *)
Fixpoint split_eq (l : list Z) : list Z * option (list Z) :=
  match l with
  | [] => ([], None)
  | c :: r => if c =? 61 then ([], Some r)
              else let '(a, b) := split_eq r in (c :: a, b)
  end.

(** * Parameter values and dicts (insertion-ordered association lists) *)
Inductive pval :=
| PStr (s : list Z)
| PInt (z : Z)
| PList (l : list pval).
Definition dict := list (list Z * pval).

(** if not isinstance(d[k], list): d[k] = [d[k]];  d[k].append(v) *)
Definition promote_append (old v : pval) : pval :=
  match old with
  | PList l => PList (l ++ [v])
  | _ => PList [old; v]
  end.
(** the repaired merge: a list value is spliced, not nested *)
Definition promote_extend (old v : pval) : pval :=
  match v with
  | PList vs => match old with
                | PList l => PList (l ++ vs)
                | _ => PList (old :: vs)
                end
  | _ => promote_append old v
  end.

Fixpoint dict_upd (f : pval -> pval -> pval) (k : list Z) (v : pval) (d : dict) : dict :=
  match d with
  | [] => [(k, v)]
  | (k', v') :: r => if eqbZs k' k then (k', f v' v) :: r else (k', v') :: dict_upd f k v r
  end.
Definition dict_add := dict_upd promote_append.

(** for key, value in src.items(): <promotion idiom on dst> *)
Definition merge (f : pval -> pval -> pval) (src dst : dict) : dict :=
  fold_left (fun d kv => dict_upd f (fst kv) (snd kv) d) src dst.

Section Parse.
  (** component decoder (unquote + charset decode); None = UnicodeDecodeError *)
  Variable unq : list Z -> option (list Z).

  Fixpoint parse_pairs (ps : list (list Z)) (d : dict) : option dict :=
    match ps with
    | [] => Some d
    | p :: r =>
      match p with
      | [] => parse_pairs r d                       (* empty pair: continue *)
      | _ =>
        let '(k, ov) := split_eq p in
        let v := match ov with Some v => v | None => [] end in
        match unq k with
        | None => None
        | Some k' => match unq v with
                     | None => None
                     | Some v' => parse_pairs r (dict_add k' (PStr v') d)
                     end
        end
      end
    end.
End Parse.

(** httputil._parse_qs(qs, keep_blank_values=True, encoding) on a text string *)
Definition parse_qs (dec : list Z -> option (list Z)) (s : list Z) : option dict :=
  parse_pairs (unquote_plus_s dec) (split_on is_sep s) [].

(** one charset attempt of process_urlencoded on the raw body *)
Definition parse_body_with (dec : list Z -> option (list Z)) (body : list Z) : option dict :=
  parse_pairs (fun c => dec (unquote_plus_b c)) (split_on is_sep body) [].

(** for charset in attempt_charsets: try ... except UnicodeDecodeError: pass
    else: break;  else: raise HTTPError(400) *)
Fixpoint attempt (decs : list (list Z -> option (list Z))) (body : list Z) : option dict :=
  match decs with
  | [] => None
  | d :: r => match parse_body_with d body with
              | Some x => Some x
              | None => attempt r body
              end
  end.

(** * The image-map test of parse_query_string *)
Fixpoint span_digits (l : list Z) : list Z * list Z :=
  match l with
  | c :: r => if is_digit c then let '(a, b) := span_digits r in (c :: a, b) else ([], l)
  | [] => ([], [])
  end.

(** what is left after a match of [0-9]+,[0-9]+ at the start, if it matches *)
Definition imap_rest (s : list Z) : option (list Z) :=
  let '(d1, r1) := span_digits s in
  match d1, r1 with
  | _ :: _, c :: r2 =>
    if c =? 44 then
      let '(d2, r3) := span_digits r2 in
      match d2 with [] => None | _ => Some r3 end
    else None
  | _, _ => None
  end.
Definition imap_prefix (s : list Z) : bool :=                  (* pattern.match *)
  match imap_rest s with Some _ => true | None => false end.
Definition imap_full (s : list Z) : bool :=                    (* pattern.fullmatch *)
  match imap_rest s with Some [] => true | _ => false end.

(** int(text) for the pieces of query_string.split(',') — modelled for ASCII
    text only (non-ASCII text would involve Unicode digit/space tables). *)
Inductive ires := IOk (z : Z) | IErr | IUnmodelled.

(** digits with single underscores between them; returns value and digit count *)
Fixpoint dec_digits (l : list Z) (acc n : Z) (after_digit : bool) : option (Z * Z) :=
  match l with
  | [] => if after_digit then Some (acc, n) else None
  | c :: r =>
    if is_digit c then dec_digits r (acc * 10 + (c - 48)) (n + 1) true
    else if (c =? 95) && after_digit then
      match r with [] => None | _ => dec_digits r acc n false end
    else None
  end.

Definition max_str_digits := 4300.

Definition py_int10 (s : list Z) : ires :=
  if existsb (fun c => 128 <=? c) s then IUnmodelled else
  let t := strip_ws s in
  let '(neg, ds) := match t with
                    | c :: r => if c =? 45 then (true, r) else if c =? 43 then (false, r) else (false, t)
                    | [] => (false, [])
                    end in
  match dec_digits ds 0 0 false with
  | Some (v, n) => if max_str_digits <? n then IErr else IOk (if neg then - v else v)
  | None => IErr
  end.

(** * Configuration: which variant of the two repaired spots is modelled *)
Record cfg := Cfg {
  c_imap_full : bool;    (* true: image_map_pattern.fullmatch (repaired); false: .match (prefix) *)
  c_merge_flat : bool;   (* true: RequestBody.process splices a list value (repaired);
                            false: appends it as one element (nested list) *)
}.

Inductive qres := QOk (d : dict) | QDecodeErr | QValueErr | QUnmodelled.

Definition key_x : list Z := [120].
Definition key_y : list Z := [121].

Definition parse_query_string (c : cfg) (dec : list Z -> option (list Z)) (s : list Z) : qres :=
  if (if c_imap_full c then imap_full s else imap_prefix s) then
    match split_on (fun ch => ch =? 44) s with
    | a :: b :: _ =>
      match py_int10 a, py_int10 b with
      | IOk x, IOk y => QOk [(key_x, PInt x); (key_y, PInt y)]
      | IUnmodelled, _ => QUnmodelled
      | _, IUnmodelled => QUnmodelled
      | _, _ => QValueErr
      end
    | _ => QValueErr
    end
  else match parse_qs dec s with
       | Some d => QOk d
       | None => QDecodeErr
       end.

(** * The request: query first, then (for POST/PUT/PATCH) the body.
    [rc] = recode_path_qs on the raw query bytes, [decq] the codec of
    request.query_string_encoding, [decs] the codecs of entity.attempt_charsets.
    Result: status and the kwargs the handler is called with
    (404 / 400 / 500: the handler is not called). *)
Definition request_with (c : cfg) (rc : list Z -> list Z) (decq : list Z -> option (list Z))
           (decs : list (list Z -> option (list Z))) (qs : list Z) (body : option (list Z))
  : Z * dict :=
  match parse_query_string c decq (rc qs) with
  | QDecodeErr => (404, [])
  | QValueErr => (500, [])
  | QUnmodelled => (0, [])
  | QOk qd =>
    match body with
    | None => (200, qd)
    | Some b =>
      match attempt decs b with
      | None => (400, [])
      | Some params =>
        (* process_urlencoded: params -> entity.params (empty before) *)
        let ep := merge promote_append params [] in
        (* RequestBody.process: entity.params -> request.params *)
        (200, merge (if c_merge_flat c then promote_extend else promote_append) ep qd)
      end
    end
  end.

(** * Concrete codecs (CPython's strict decoders) for the executable model *)

(** UTF-8: shortest form only, no surrogates, at most U+10FFFF.
    [need] continuation bytes outstanding, next one must lie in [lo, hi]. *)
Fixpoint utf8_go (need acc lo hi : Z) (l : list Z) : option (list Z) :=
  match l with
  | [] => if need =? 0 then Some [] else None
  | b :: r =>
    if need =? 0 then
      if b <? 128 then
        match utf8_go 0 0 128 191 r with Some t => Some (b :: t) | None => None end
      else if (194 <=? b) && (b <=? 223) then utf8_go 1 (b - 192) 128 191 r
      else if b =? 224 then utf8_go 2 0 160 191 r
      else if b =? 237 then utf8_go 2 13 128 159 r
      else if (225 <=? b) && (b <=? 239) then utf8_go 2 (b - 224) 128 191 r
      else if b =? 240 then utf8_go 3 0 144 191 r
      else if b =? 244 then utf8_go 3 4 128 143 r
      else if (241 <=? b) && (b <=? 243) then utf8_go 3 (b - 240) 128 191 r
      else None
    else if (lo <=? b) && (b <=? hi) then
      let acc' := acc * 64 + (b - 128) in
      if need =? 1 then
        match utf8_go 0 0 128 191 r with Some t => Some (acc' :: t) | None => None end
      else utf8_go (need - 1) acc' 128 191 r
    else None
  end.
Definition utf8_dec (bs : list Z) : option (list Z) := utf8_go 0 0 128 191 bs.

Definition latin1_dec (bs : list Z) : option (list Z) := Some bs.
Definition ascii_dec (bs : list Z) : option (list Z) :=
  if existsb (fun c => 128 <=? c) bs then None else Some bs.

(** UTF-16 code units -> code points; [hi] = pending high surrogate *)
Fixpoint utf16_units (be : bool) (hi : option Z) (l : list Z) : option (list Z) :=
  match l with
  | [] => match hi with None => Some [] | Some _ => None end
  | [_] => None                                                (* truncated data *)
  | b0 :: b1 :: r =>
    let u := if be then b0 * 256 + b1 else b1 * 256 + b0 in
    match hi with
    | Some h =>
      if (56320 <=? u) && (u <=? 57343) then
        match utf16_units be None r with
        | Some t => Some ((65536 + (h - 55296) * 1024 + (u - 56320)) :: t)
        | None => None
        end
      else None
    | None =>
      if (55296 <=? u) && (u <=? 56319) then utf16_units be (Some u) r
      else if (56320 <=? u) && (u <=? 57343) then None
      else match utf16_units be None r with Some t => Some (u :: t) | None => None end
    end
  end.
(** codec 'utf-16': a BOM selects the byte order and is dropped, else little endian *)
Definition utf16_dec (bs : list Z) : option (list Z) :=
  match bs with
  | 255 :: 254 :: r => utf16_units false None r
  | 254 :: 255 :: r => utf16_units true None r
  | _ => utf16_units false None bs
  end.

(** charset ids used at the model boundary *)
Definition dec_of (id : Z) : list Z -> option (list Z) :=
  if id =? 0 then utf8_dec
  else if id =? 1 then latin1_dec
  else if id =? 2 then utf16_dec
  else if id =? 3 then ascii_dec
  else fun _ => None.

(** recode_path_qs: the server's Latin-1 text re-read as request.uri_encoding
    (utf-8) when that decodes, else passed through *)
Definition recode (qs : list Z) : list Z :=
  match utf8_dec qs with Some s => s | None => qs end.

(** Entity.attempt_charsets = ['utf-8'];  Entity.__init__:
    [dec] + [c for c in attempt_charsets if c != dec] for a declared charset;
    a config entry request.body.attempt_charsets is applied afterwards
    (Request.namespaces) and REPLACES the list, declared charset included. *)
Definition default_charsets : list Z := [0].
Definition attempt_list (declared : option Z) (override : option (list Z)) : list Z :=
  match override with
  | Some l => l
  | None =>
    match declared with
    | Some d => d :: filter (fun c => negb (c =? d)) default_charsets
    | None => default_charsets
    end
  end.

Definition request (c : cfg) (qs : list Z) (body : option (list Z))
           (declared : option Z) (override : option (list Z)) : Z * dict :=
  request_with c recode utf8_dec (map dec_of (attempt_list declared override)) qs body.

(** * Printers: every percent-encoding style of the quantifier *)
Definition hexdig (up : bool) (v : Z) : Z :=
  if v <? 10 then 48 + v else if up then 55 + v else 87 + v.

Record style := Style {
  st_safe : Z -> bool;   (* bytes the sender leaves literal when that is permissible;
                            (fun _ => true) = minimal, (fun _ => false) = full *)
  st_up1 : bool;         (* upper-case first hex digit *)
  st_up2 : bool;         (* upper-case second hex digit *)
  st_plus : bool;        (* space as '+' (else literal or %20 according to st_safe) *)
  st_bare : bool;        (* a blank value of a non-blank key is sent as 'key' without '=' *)
}.

Definition reserved (c : Z) : bool :=
  (c =? 37) || (c =? 38) || (c =? 59) || (c =? 61) || (c =? 43).    (* % & ; = + *)

Definition pct (st : style) (c : Z) : list Z :=
  [37; hexdig (st_up1 st) (c / 16); hexdig (st_up2 st) (c mod 16)].

(** [ao] (ASCII only): the query-string printer never leaves a byte >= 128 literal *)
Definition quote_byte (ao : bool) (st : style) (c : Z) : list Z :=
  if (c =? 32) && st_plus st then [43]
  else if st_safe st c && negb (reserved c) && (negb ao || (c <? 128)) then [c]
  else pct st c.
Definition quote (ao : bool) (st : style) (bs : list Z) : list Z := flat_map (quote_byte ao st) bs.

Fixpoint join (sep : Z) (ps : list (list Z)) : list Z :=
  match ps with
  | [] => []
  | [p] => p
  | p :: r => p ++ sep :: join sep r
  end.

Section Encode.
  Variable enc : list Z -> list Z.           (* text -> bytes in the sender's charset *)
  Definition enc_pair (ao : bool) (st : style) (kv : list Z * list Z) : list Z :=
    let kb := enc (fst kv) in
    let vb := enc (snd kv) in
    if st_bare st && is_nil vb && negb (is_nil kb) then quote ao st kb
    else quote ao st kb ++ 61 :: quote ao st vb.
  Definition encode (ao : bool) (st : style) (sep : Z) (m : list (list Z * list Z)) : list Z :=
    join sep (map (enc_pair ao st) m).
End Encode.

(** * What the handler must receive for a multimap: keys in first-occurrence
    order, a single value as a scalar, several as the list in wire order *)
Definition values_of (k : list Z) (m : list (list Z * list Z)) : list (list Z) :=
  map snd (filter (fun p => eqbZs (fst p) k) m).

Fixpoint first_keys (ks : list (list Z)) (seen : list (list Z)) : list (list Z) :=
  match ks with
  | [] => []
  | k :: r => if existsb (eqbZs k) seen then first_keys r seen
              else k :: first_keys r (k :: seen)
  end.

Definition val_of (vs : list (list Z)) : pval :=
  match vs with
  | [v] => PStr v
  | _ => PList (map PStr vs)
  end.

Definition to_dict (m : list (list Z * list Z)) : dict :=
  map (fun k => (k, val_of (values_of k m))) (first_keys (map fst m) []).

(** * S-expression boundary *)
Fixpoint of_pval (v : pval) : sx :=
  match v with
  | PStr s => L [I 0; of_Zs s]
  | PInt z => L [I 1; I z]
  | PList l => L [I 2; L (map of_pval l)]
  end.
Definition of_dict (d : dict) : sx := L (map (fun kv => L [of_Zs (fst kv); of_pval (snd kv)]) d).

Definition sx_cfg (s : sx) : cfg := Cfg (sx_bool (nth_sx 0 s)) (sx_bool (nth_sx 1 s)).

(** cases:
    (0 (imap_full merge_flat) qs has_body body declared override) -> (status dict)
       declared = () | (id);  override = () | ((id ...))
    (1 bytes)                                                      -> unquote_plus(bytes)
    (2 (imap_full merge_flat) text charset)  -> (tag dict), parse_query_string called directly;
                                                tag 0 ok, 1 UnicodeDecodeError, 2 ValueError, 9 unmodelled *)
Definition run_C03 (s : sx) : sx :=
  let mode := sx_Z (nth_sx 0 s) in
  if mode =? 0 then
    let c := sx_cfg (nth_sx 1 s) in
    let qs := sx_Zs (nth_sx 2 s) in
    let body := if sx_bool (nth_sx 3 s) then Some (sx_Zs (nth_sx 4 s)) else None in
    let override := match sx_opt (nth_sx 6 s) with Some l => Some (sx_Zs l) | None => None end in
    let '(st, d) := request c qs body (sx_optZ (nth_sx 5 s)) override in
    L [I st; of_dict d]
  else if mode =? 1 then of_Zs (unquote_plus_b (sx_Zs (nth_sx 1 s)))
  else if mode =? 2 then
    match parse_query_string (sx_cfg (nth_sx 1 s)) (dec_of (sx_Z (nth_sx 3 s))) (sx_Zs (nth_sx 2 s)) with
    | QOk d => L [I 0; of_dict d]
    | QDecodeErr => L [I 1; L []]
    | QValueErr => L [I 2; L []]
    | QUnmodelled => L [I 9; L []]
    end
  else L [I (-1)].
