(** Model of the negotiation done by cherrypy.lib.encoding.gzip (Accept-Encoding,
    mime-type eligibility, 406) and ResponseEncoder (Accept-Charset, charset
    attempts, 406/500), over the parsed header elements in the order
    httputil.header_elements returns them, plus [run_C17].
    Definitions only; proofs live in Proof/P_negotiate*.v. *)
From Coq Require Import ZArith List Bool.
From CV Require Import Lib.Sx Lib.ListZ Model.M_gzipframe.
Import ListNotations.
Open Scope Z_scope.

(* ---------- strings ---------- *)

Definition s_identity : list Z := [105;100;101;110;116;105;116;121].
Definition s_gzip : list Z := [103;122;105;112].
Definition s_xgzip : list Z := [120;45;103;122;105;112].
Definition s_star : list Z := [42].
Definition s_iso : list Z := [105;115;111;45;56;56;53;57;45;49].        (* iso-8859-1 *)
Definition s_text_slash : list Z := [116;101;120;116;47].               (* text/ *)
Definition s_accept_encoding : list Z :=
  [65;99;99;101;112;116;45;69;110;99;111;100;105;110;103].

Fixpoint str_lt (a b : list Z) : bool :=
  match a, b with
  | _, [] => false
  | [], _ :: _ => true
  | x :: a', y :: b' => if x <? y then true else if y <? x then false else str_lt a' b'
  end.

Definition lower (s : list Z) : list Z :=
  map (fun c => if (65 <=? c) && (c <=? 90) then c + 32 else c) s.

Fixpoint startswith (s p : list Z) : bool :=
  match p, s with
  | [], _ => true
  | _ :: _, [] => false
  | y :: p', x :: s' => (x =? y) && startswith s' p'
  end.

Definition contains (c : Z) (s : list Z) : bool := existsb (Z.eqb c) s.
Definition mem (s : list Z) (l : list (list Z)) : bool := existsb (eqbZs s) l.

(** str.split(c) *)
Fixpoint split_on (c : Z) (s : list Z) : list (list Z) :=
  match s with
  | [] => [[]]
  | x :: r =>
    match split_on c r with
    | [] => [[]]
    | h :: t => if x =? c then [] :: h :: t else (x :: h) :: t
    end
  end.

(* ---------- Accept-* elements and their order ---------- *)

(** one AcceptElement: value, qvalue in a fixed-point scale (only compared: P_negotiate_scale; the harness uses millionths), str(element) *)
Record elem := Elem { e_val : list Z; e_q : Z; e_str : list Z }.

(** AcceptElement.__lt__ *)
Definition elem_lt (a b : elem) : bool :=
  if e_q a =? e_q b then str_lt (e_str a) (e_str b) else e_q a <? e_q b.

(** sorted(): stable, ascending *)
Fixpoint insert (x : elem) (l : list elem) : list elem :=
  match l with
  | [] => [x]
  | y :: r => if elem_lt x y then x :: l else y :: insert x r
  end.
Definition sorted_asc (l : list elem) : list elem := fold_left (fun acc x => insert x acc) l [].
(** header_elements: list(reversed(sorted(result))) *)
Definition header_order (l : list elem) : list elem := rev (sorted_asc l).

(* ---------- gzip: mime-type eligibility ---------- *)

Inductive tri := TYes | TNo | TErr.      (* TErr: ValueError of a failed 2-tuple unpacking *)

Definition pair_of (l : list (list Z)) : option (list Z * list Z) :=
  match l with [a; b] => Some (a, b) | _ => None end.

Fixpoint mime_scan (ct_media ct_sub : list Z) (mts : list (list Z)) : tri :=
  match mts with
  | [] => TNo
  | mt :: r =>
    if contains 47 mt then
      match pair_of (split_on 47 mt) with
      | None => TErr
      | Some (media, sub) =>
        if eqbZs ct_media media then
          if eqbZs sub s_star then TYes
          else if contains 43 sub && contains 43 ct_sub then
            match pair_of (split_on 43 ct_sub) with
            | None => TErr
            | Some (_, ct_right) =>
              match pair_of (split_on 43 sub) with
              | None => TErr
              | Some (lft, rgt) =>
                if eqbZs lft s_star && eqbZs ct_right rgt then TYes
                else mime_scan ct_media ct_sub r
              end
            end
          else mime_scan ct_media ct_sub r
        else mime_scan ct_media ct_sub r
      end
    else mime_scan ct_media ct_sub r
  end.

Definition mime_eligible (ct : list Z) (mts : list (list Z)) : tri :=
  if mem ct mts then TYes
  else if contains 47 ct then
    match pair_of (split_on 47 ct) with
    | None => TErr
    | Some (m, s) => mime_scan m s mts
    end
  else TNo.

(* ---------- gzip: the decision ---------- *)

Inductive gz_dec :=
| GSkipEmpty | GSkipCached | GSkipNoHeader      (* return before looking at the codings *)
| GIdentity                                     (* identity with q != 0 met first *)
| GZeroQ                                        (* gzip/x-gzip with q = 0 met (code as written: return) *)
| GIneligible                                   (* gzip acceptable, media type not in mime_types *)
| GNotRefused                                   (* repaired: nothing acceptable listed, identity not refused *)
| GCompress
| G406
| GValueError.

Definition is_gzip (v : list Z) : bool := eqbZs v s_gzip || eqbZs v s_xgzip.

(** identity;q=0 or *;q=0 is listed *)
Definition identity_refused (els : list elem) : bool :=
  existsb (fun e => (eqbZs (e_val e) s_identity || eqbZs (e_val e) s_star) && (e_q e =? 0)) els.
(** a wildcard with a non-zero qvalue is listed *)
Definition star_pos (els : list elem) : bool :=
  existsb (fun e => eqbZs (e_val e) s_star && negb (e_q e =? 0)) els.

(** what happens behind the loop.  [rep = false]: the code as written (always
    406); [rep = true]: repaired, 406 only when identity is refused *)
Definition falloff (rep : bool) (all : list elem) : gz_dec :=
  if rep then
    if identity_refused all && negb (star_pos all) then G406 else GNotRefused
  else G406.

Fixpoint gz_loop_dec (rep : bool) (all : list elem) (ct : list Z) (mts : list (list Z))
         (els : list elem) : gz_dec :=
  match els with
  | [] => falloff rep all
  | e :: r =>
    if eqbZs (e_val e) s_identity && negb (e_q e =? 0) then GIdentity
    else if is_gzip (e_val e) then
      if e_q e =? 0 then (if rep then falloff rep all else GZeroQ)
      else match mime_eligible ct mts with
           | TYes => GCompress | TNo => GIneligible | TErr => GValueError
           end
    else gz_loop_dec rep all ct mts r
  end.

(** response.body falsy?  shape 0 = a bytes value, 1 = a list of chunks, 2 = a generator *)
Definition body_falsy (shape : Z) (chunks : list (list Z)) : bool :=
  if shape =? 0 then match concat chunks with [] => true | _ => false end
  else if shape =? 1 then match chunks with [] => true | _ => false end
  else false.

(** the gzip tool; [ae = None]: no Accept-Encoding header; [ctv] the whole
    Content-Type header value ('' when absent) *)
Definition gzip_tool (rep falsy cached : bool) (ae : option (list elem)) (ctv : list Z)
           (mts : list (list Z)) : gz_dec :=
  if falsy then GSkipEmpty
  else if cached then GSkipCached
  else match ae with
       | None => GSkipNoHeader
       | Some els =>
         match header_order els with
         | [] => GSkipNoHeader
         | sorted => gz_loop_dec rep sorted (hd [] (split_on 59 ctv)) mts sorted
         end
       end.

(** lib.set_vary_header on the already split, stripped, non-empty tokens *)
Definition set_vary (tokens : list (list Z)) (name : list Z) : list (list Z) :=
  if mem name tokens then tokens else tokens ++ [name].

(** observable effect of a decision: (status, Content-Encoding: gzip set?, body replaced by compress?) *)
Definition gz_status (d : gz_dec) : Z :=
  match d with G406 => 406 | GValueError => 500 | _ => 200 end.
Definition gz_compresses (d : gz_dec) : bool := match d with GCompress => true | _ => false end.

(* ---------- encode: charset negotiation ---------- *)

Record ccfg := CCfg {
  c_stream : bool;
  c_forced : option (list Z);      (* tools.encode.encoding *)
  c_default : list Z;              (* default_encoding *)
  c_text_only : bool;
  c_add_charset : bool;
  c_rep_q0 : bool;                 (* repaired: '*' does not stand for a default that is listed itself;
                                      a forced charset refused with q=0 is not answered *)
  c_rep_mat : bool;                (* repaired: a one-shot body is materialised before the attempts *)
}.

Inductive cs_dec :=
| CNoFind                                   (* the tool leaves body and Content-Type alone *)
| CChosen (name : list Z) (dropped : Z)     (* charset announced; leading chunks lost by failed attempts *)
| C406
| C500.

Section Charset.
  Variable T : Type.                              (* a text chunk *)
  Variable encodable : list Z -> T -> bool.       (* chunk.encode(name, 'strict') succeeds *)
  Variable usable : list Z -> bool.               (* ''.encode(name, 'strict') succeeds: the codec exists *)

  Inductive chunk := CText (t : T) | CBytes.

  Record est := Est { attempted : list (list Z); body : list chunk }.

  (** the chunks behind the first text chunk the charset cannot encode *)
  Fixpoint first_bad (cs : list Z) (b : list chunk) : option (list chunk) :=
    match b with
    | [] => None
    | CBytes :: r => first_bad cs r
    | CText t :: r => if encodable cs t then first_bad cs r else Some r
    end.

  Definition all_encodable (cs : list Z) (b : list chunk) : bool :=
    match first_bad cs b with None => true | Some _ => false end.

  (** encode_string; [oneshot]: self.body is a generator, what a failed attempt
      consumed is gone *)
  Definition try_string (oneshot : bool) (cs : list Z) (s : est) : bool * est :=
    if mem cs (attempted s) then (false, s)
    else
      match first_bad cs (body s) with
      | None => (true, Est (cs :: attempted s) (body s))
      | Some rest => (false, Est (cs :: attempted s) (if oneshot then rest else body s))
      end.

  (** encode_stream: checks that the codec exists (''.encode(name)), then wraps
      the body without looking at it *)
  Definition try_stream (cs : list Z) (s : est) : bool * est :=
    if mem cs (attempted s) then (false, s) else (usable cs, Est (cs :: attempted s) (body s)).

  Definition q_pos (name : list Z) (encs : list elem) : bool :=
    existsb (fun e => eqbZs (lower (e_val e)) name && (0 <? e_q e)) encs.
  Definition q_zero (name : list Z) (encs : list elem) : bool :=
    existsb (fun e => eqbZs (lower (e_val e)) name && (e_q e =? 0)) encs.
  (** the name is mentioned in the header (with any qvalue) *)
  Definition listed (name : list Z) (encs : list elem) : bool :=
    mem name (map (fun e => lower (e_val e)) encs).

  Section Find.
    Variable c : ccfg.
    Variable try : list Z -> est -> bool * est.
    Variable all : list elem.

    (** for element in encs: if element.qvalue > 0: ... *)
    Fixpoint find_loop (els : list elem) (s : est) : option (list Z) * est :=
      match els with
      | [] => (None, s)
      | e :: r =>
        if 0 <? e_q e then
          if eqbZs (e_val e) s_star then
            if c_rep_q0 c && listed (lower (c_default c)) all then find_loop r s
            else
              let '(ok, s1) := try (c_default c) s in
              if ok then (Some (c_default c), s1) else find_loop r s1
          else
            let '(ok, s1) := try (e_val e) s in
            if ok then (Some (e_val e), s1) else find_loop r s1
        else find_loop r s
      end.
  End Find.

  Definition forced_acceptable (rep : bool) (enc : list Z) (encs : list elem) : bool :=
    let charsets := map (fun e => lower (e_val e)) encs in
    match encs with
    | [] => true
    | _ => if rep then q_pos enc encs || (q_pos s_star encs && negb (q_zero enc encs))
           else mem s_star charsets || mem enc charsets
    end.

  (** find_acceptable_charset; result and final state *)
  Definition find_charset (c : ccfg) (oneshot : bool) (ac : option (list elem)) (b : list chunk)
    : option (option (list Z)) * est :=      (* Some (Some cs) | Some None = 406 | None = 500 *)
    let encs := match ac with None => [] | Some els => header_order els end in
    let charsets := map (fun e => lower (e_val e)) encs in
    let try := if c_stream c then try_stream else try_string (oneshot && negb (c_rep_mat c)) in
    let s0 := Est [] b in
    match c_forced c with
    | Some f =>
      let enc := lower f in
      if forced_acceptable (c_rep_q0 c) enc encs then
        let '(ok, s1) := try enc s0 in
        if ok then (Some (Some enc), s1) else (Some None, s1)
      else (Some None, s0)
    | None =>
      match encs with
      | [] =>
        let '(ok, s1) := try (c_default c) s0 in
        if ok then (Some (Some (c_default c)), s1) else (None, s1)
      | _ =>
        let '(r, s1) := find_loop c try encs encs s0 in
        match r with
        | Some cs => (Some (Some cs), s1)
        | None =>
          if negb (mem s_star charsets) && negb (mem s_iso charsets) then
            let '(ok, s2) := try s_iso s1 in
            if ok then (Some (Some s_iso), s2) else (Some None, s2)
          else (Some None, s1)
        end
      end
    end.

  (** ResponseEncoder.__call__: [ct] = value of the first Content-Type element, if any *)
  Definition encode_tool (c : ccfg) (oneshot : bool) (ct : option (list Z)) (ac : option (list elem))
             (b : list chunk) : cs_dec :=
    match ct with
    | Some v =>
      if c_add_charset c && (negb (c_text_only c) || startswith (lower v) s_text_slash) then
        match find_charset c oneshot ac b with
        | (Some (Some cs), s) => CChosen cs (lenZ b - lenZ (body s))
        | (Some None, _) => C406
        | (None, _) => C500
        end
      else CNoFind
    | None => CNoFind
    end.

  (** index of the first text chunk a streamed body cannot encode with the announced charset *)
  Fixpoint stream_fail (cs : list Z) (b : list chunk) (i : Z) : option Z :=
    match b with
    | [] => None
    | CBytes :: r => stream_fail cs r (i + 1)
    | CText t :: r => if encodable cs t then stream_fail cs r (i + 1) else Some i
    end.
End Charset.

Arguments CText {T}.
Arguments CBytes {T}.

(* ---------- s-expression boundary ---------- *)

Definition dec_elem (x : sx) : elem :=
  Elem (sx_Zs (nth_sx 0 x)) (sx_Z (nth_sx 1 x)) (sx_Zs (nth_sx 2 x)).
Definition dec_elems_opt (x : sx) : option (list elem) :=
  match sx_opt x with None => None | Some l => Some (map dec_elem (sx_list l)) end.
Definition dec_strs (x : sx) : list (list Z) := map sx_Zs (sx_list x).
Definition enc_strs (l : list (list Z)) : sx := L (map of_Zs l).
Definition dec_optstr (x : sx) : option (list Z) :=
  match sx_opt x with None => None | Some s => Some (sx_Zs s) end.

Definition enc_gz_dec (d : gz_dec) : sx :=
  I match d with
    | GSkipEmpty => 10 | GSkipCached => 11 | GSkipNoHeader => 12 | GIdentity => 13 | GZeroQ => 14
    | GIneligible => 15 | GNotRefused => 16 | GCompress => 1 | G406 => 406 | GValueError => 500
    end.

(** family 0 (gzip):
    case   = (0 rep shape chunks cached (ae?) ctv mime_types level now vary_tokens)
    result = (decision status vary_tokens header10 (crc isize) gunzip_stored-ok sorted-strs) *)
Definition run_gzip (x : sx) : sx :=
  let rep := sx_bool (nth_sx 1 x) in
  let shape := sx_Z (nth_sx 2 x) in
  let chunks := map sx_Zs (sx_list (nth_sx 3 x)) in
  let cached := sx_bool (nth_sx 4 x) in
  let ae := dec_elems_opt (nth_sx 5 x) in
  let ctv := sx_Zs (nth_sx 6 x) in
  let mts := dec_strs (nth_sx 7 x) in
  let level := sx_Z (nth_sx 8 x) in
  let now := sx_Z (nth_sx 9 x) in
  let vary := dec_strs (nth_sx 10 x) in
  let d := gzip_tool rep (body_falsy shape chunks) cached ae ctv mts in
  let sorted := match ae with None => [] | Some els => header_order els end in
  let vary' := match d with G406 | GValueError => [] | _ => set_vary vary s_accept_encoding end in
  if gz_compresses d then
    let out := compress_stored level now chunks in
    let flat := concat out in
    let n := lenZ flat in
    L [ enc_gz_dec d; I (gz_status d); enc_strs vary';
        of_Zs (takeZ 10 flat);
        L [of_Zs (takeZ 4 (dropZ (n - 8) flat)); of_Zs (dropZ (n - 4) flat)];
        of_bool (match gunzip_stored flat with
                 | GzOk data => eqbZs data (concat chunks)
                 | _ => false end);
        enc_strs (map e_str sorted) ]
  else
    L [ enc_gz_dec d; I (gz_status d); enc_strs vary'; L []; L []; I 0; enc_strs (map e_str sorted) ].

(** encodability table: ((name (bool per chunk index) usable) ...) *)
Definition table_lookup (tab : list (list Z * list Z)) (name : list Z) (i : Z) : bool :=
  match find (fun p => eqbZs (fst p) name) tab with
  | Some (_, bits) => match nthZ i bits with Some b => negb (b =? 0) | None => false end
  | None => false
  end.

Definition usable_lookup (tab : list (list Z * Z)) (name : list Z) : bool :=
  match find (fun p => eqbZs (fst p) name) tab with
  | Some (_, u) => negb (u =? 0)
  | None => false
  end.

Fixpoint index_chunks (kinds : list Z) (i : Z) : list (chunk Z) :=
  match kinds with
  | [] => []
  | k :: r => (if k =? 0 then CBytes else CText i) :: index_chunks r (i + 1)
  end.

Definition enc_optZ_sx (o : option Z) : sx := of_optZ o.

(** family 1 (charset):
    case   = (1 rep_q0 rep_mat stream oneshot kinds (ac?) (forced?) default text_only add_charset (ct?) table)
    result = (code name dropped (stream_fail?) sorted-strs)   code: 0 no find, 1 chosen, 406, 500 *)
Definition run_charset (x : sx) : sx :=
  let c := CCfg (sx_bool (nth_sx 3 x)) (dec_optstr (nth_sx 7 x)) (sx_Zs (nth_sx 8 x))
                (sx_bool (nth_sx 9 x)) (sx_bool (nth_sx 10 x))
                (sx_bool (nth_sx 1 x)) (sx_bool (nth_sx 2 x)) in
  let oneshot := sx_bool (nth_sx 4 x) in
  let kinds := sx_Zs (nth_sx 5 x) in
  let ac := dec_elems_opt (nth_sx 6 x) in
  let ct := dec_optstr (nth_sx 11 x) in
  let tab := map (fun e => (sx_Zs (nth_sx 0 e), sx_Zs (nth_sx 1 e))) (sx_list (nth_sx 12 x)) in
  let enc := table_lookup tab in
  let usb := usable_lookup (map (fun e => (sx_Zs (nth_sx 0 e), sx_Z (nth_sx 2 e))) (sx_list (nth_sx 12 x))) in
  let b := index_chunks kinds 0 in
  let sorted := match ac with None => [] | Some els => header_order els end in
  let d := encode_tool Z enc usb c oneshot ct ac b in
  match d with
  | CNoFind => L [I 0; L []; I 0; L []; enc_strs (map e_str sorted)]
  | CChosen cs dropped =>
    L [I 1; of_Zs cs; I dropped;
       (if c_stream c then enc_optZ_sx (stream_fail Z enc cs b 0) else L []);
       enc_strs (map e_str sorted)]
  | C406 => L [I 406; L []; I 0; L []; enc_strs (map e_str sorted)]
  | C500 => L [I 500; L []; I 0; L []; enc_strs (map e_str sorted)]
  end.

Definition run_C17 (x : sx) : sx :=
  if sx_Z (nth_sx 0 x) =? 0 then run_gzip x else run_charset x.
