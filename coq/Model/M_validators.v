(** Model of cherrypy.lib.cptools.validate_etags / validate_since, of the 304 branch of
    HTTPRedirect.set_response (entity headers and body removed), and of the order in which
    a resource runs them around _serve_fileobj:
      handler:  [ETag set] ; Last-Modified set ; validate_since ; _serve_fileobj (Range)
      before_finalize hook tools.etags: validate_etags (status is 200 or 206 by then)
    plus the s-expression boundary [run_C16].  Definitions only. *)
From Coq Require Import ZArith List Bool.
From CV Require Import Lib.Sx Lib.ListZ Model.M_ranges.
Import ListNotations.
Open Scope Z_scope.

Inductive decision :=
| DPass            (* no exception: the normal response goes out *)
| D304             (* raise HTTPRedirect([], 304) *)
| D412             (* raise HTTPError(412) *)
| DUnsupported.    (* outside the modelled domain (a ';' in If-Match / If-None-Match) *)

Definition is_2xx (s : Z) : bool := (200 <=? s) && (s <=? 299).
(** request.method in ('GET', 'HEAD'): methods are coded 0 = GET, 1 = HEAD, other = anything else *)
Definition safe_method (m : Z) : bool := (m =? 0) || (m =? 1).

(** RE_HEADER_SPLIT (a comma with a lookahead over pairs of double quotes up to the end of
    the string): split at every comma that is followed by an even number of double quotes.
    Returns the pieces and whether [s] holds an even number of quotes. *)
Fixpoint split_q (s : list Z) : list (list Z) * bool :=
  match s with
  | [] => ([[]], true)
  | c :: r =>
    let '(ps, ev) := split_q r in
    if (c =? 44) && ev then ([] :: ps, ev)
    else
      let ev' := if c =? 34 then negb ev else ev in
      match ps with
      | p :: ps' => ((c :: p) :: ps', ev')
      | [] => ([[c]], ev')
      end
  end.

Definition has_semicolon (s : list Z) : bool := existsb (fun c => c =? 59) s.

(** [str(x) for x in request.headers.elements(name)] for a value without ';':
    HeaderElement.from_str keeps the stripped element. (The list is also sorted; only
    membership and "is exactly ['*']" are asked of it.) *)
Definition conditions (h : option (list Z)) : list (list Z) :=
  match h with
  | None | Some [] => []
  | Some v => map strip (fst (split_q v))
  end.

(** conditions == ['*'] *)
Definition is_star (cs : list (list Z)) : bool :=
  match cs with [c] => eqbZs c [42] | _ => false end.

Definition tag_in (etag : option (list Z)) (cs : list (list Z)) : bool :=
  match etag with
  | None => false
  | Some e => existsb (eqbZs e) cs
  end.

Definition truthy (o : option (list Z)) : bool :=
  match o with Some (_ :: _) => true | _ => false end.

(** the ETag validate_etags works with: the header if set (non-empty), else with autotags
    and status 200 the MD5 tag of the body ([auto], computed outside), else nothing *)
Definition etag_effective (hdr : option (list Z)) (autotags : bool) (status : Z) (auto : list Z)
  : option (list Z) :=
  if truthy hdr then hdr
  else if autotags && (status =? 200) then Some auto
  else None.

Definition validate_etags (m status : Z) (etag : option (list Z)) (if_match if_none_match : option (list Z))
  : decision :=
  if is_2xx status then
    if has_semicolon (match if_match with Some v => v | None => [] end)
       || has_semicolon (match if_none_match with Some v => v | None => [] end)
    then DUnsupported
    else
      let c1 := conditions if_match in
      if match c1 with [] => false | _ :: _ => true end && negb (is_star c1 || tag_in etag c1)
      then D412
      else
        let c2 := conditions if_none_match in
        if is_star c2 || tag_in etag c2
        then if safe_method m then D304 else D412
        else DPass
  else DPass.

Definition validate_since (m status : Z) (lastmod ius ims : option (list Z)) : decision :=
  match lastmod with
  | Some (c0 :: lm0) =>
    let lm := c0 :: lm0 in
    if truthy ius && negb (eqbZs (match ius with Some v => v | None => [] end) lm)
       && (is_2xx status || (status =? 412))
    then D412
    else if truthy ims && eqbZs (match ims with Some v => v | None => [] end) lm
            && (is_2xx status || (status =? 304))
    then if safe_method m then D304 else D412
    else DPass
  | _ => DPass
  end.

(** the two validations in the order a resource runs them (validate_since in the handler,
    validate_etags as before_finalize hook), on what would be a 200 *)
Definition decide (m : Z) (etag lastmod im inm ims ius : option (list Z)) : decision :=
  match validate_since m 200 lastmod ius ims with
  | DPass => validate_etags m 200 etag im inm
  | d => d
  end.

(* ------------------------------------------------------------------ *)
(** * One request against one resource *)

Record preq := PReq {
  q_method : Z;
  q_proto11 : bool;
  q_range : option (list Z);
  q_im : option (list Z);      (* If-Match *)
  q_inm : option (list Z);     (* If-None-Match *)
  q_ims : option (list Z);     (* If-Modified-Since *)
  q_ius : option (list Z);     (* If-Unmodified-Since *)
}.

Record pres := PRes {
  r_is_file : bool;            (* served by static.serve_file (Range honoured) / a handler returning bytes *)
  r_etags_on : bool;           (* tools.etags.on *)
  r_autotags : bool;           (* tools.etags.autotags *)
  r_content : list Z;
  r_ctype : list Z;
  r_boundary : list Z;         (* what make_boundary() returns *)
  r_lastmod : option (list Z); (* Last-Modified of the resource *)
  r_etag_set : option (list Z);(* ETag set by the handler *)
  r_auto_etag : list Z;        (* the quoted MD5 hex digest of content *)
}.

(** What is observable: status; Content-Range, Content-Length, Content-Type (absent = None);
    body ([None] = an error page, not modelled); a tag naming the branch taken. *)
Record obs := Obs {
  o_status : Z;
  o_cr : option (list Z);
  o_cl : option (list Z);
  o_ct : option (list Z);
  o_body : option (list Z);
  o_tag : Z;
}.

(** 304: set_response deletes Content-Range/-Length/-Type (among others), body = None *)
Definition obs_304 (tag : Z) : obs := Obs 304 None None None (Some []) tag.
(** HTTPError: clean_headers drops Content-Range unless the status is 416 *)
Definition obs_err (status : Z) (cr : option (list Z)) (tag : Z) : obs := Obs status cr None None None tag.

Definition head_body (m : Z) (b : list Z) : list Z := if m =? 1 then [] else b.

Definition respond (c : rcfg) (q : preq) (r : pres) : obs :=
  match validate_since (q_method q) 200 (r_lastmod r) (q_ius q) (q_ims q) with
  | D304 => obs_304 5
  | D412 => obs_err 412 None 6
  | DUnsupported => Obs 0 None None None None 9
  | DPass =>
    let sv := if r_is_file r
              then serve c (q_proto11 q) (q_range q) (r_content r) (r_ctype r) (r_boundary r)
              else SvWhole (r_content r) in
    match sv with
    | SvCrash w => obs_err 500 None 4
    | Sv416 cr => obs_err 416 (Some cr) 3
    | _ =>
      let status := match sv with SvWhole _ => 200 | _ => 206 end in
      let d := if r_etags_on r
               then validate_etags (q_method q) status
                      (etag_effective (r_etag_set r) (r_autotags r) status (r_auto_etag r))
                      (q_im q) (q_inm q)
               else DPass in
      match d with
      | D304 => obs_304 7
      | D412 => obs_err 412 None 8
      | DUnsupported => Obs 0 None None None None 9
      | DPass =>
        match sv with
        | SvWhole b => Obs 200 None (Some (dec_Z (lenZ b))) (Some (r_ctype r))
                           (Some (head_body (q_method q) b)) 0
        | SvSingle cr n b => Obs 206 (Some cr) (Some (dec_Z n)) (Some (r_ctype r))
                                 (Some (head_body (q_method q) b)) 1
        | SvMulti ct b => Obs 206 None (Some (dec_Z (lenZ b))) (Some ct)
                              (Some (head_body (q_method q) b)) 2
        | _ => Obs 0 None None None None 9
        end
      end
    end
  end.

(* ------------------------------------------------------------------ *)
(** * s-expression boundary *)

Definition sx_optZs (s : sx) : option (list Z) :=
  match sx_opt s with Some x => Some (sx_Zs x) | None => None end.
Definition of_optZs (o : option (list Z)) : sx :=
  match o with Some l => L [of_Zs l] | None => L [] end.

Definition dec_cfg (x : sx) : rcfg := RCfg (sx_bool (nth_sx 0 x)) (sx_bool (nth_sx 1 x)).

Definition enc_gr (g : gr_result) : sx :=
  match g with
  | GrNone => L [I 0]
  | GrCrash w => L [I 1; I w]
  | GrList l => L [I 2; L (map (fun '(a, b) => L [of_Zs (dec_Z a); of_Zs (dec_Z b)]) l)]
  end.

Definition enc_obs (o : obs) : sx :=
  L [I (o_status o); of_optZs (o_cr o); of_optZs (o_cl o); of_optZs (o_ct o); of_optZs (o_body o);
     I (o_tag o)].

Definition enc_decision (d : decision) : sx :=
  I match d with DPass => 0 | D304 => 304 | D412 => 412 | DUnsupported => -1 end.

(** case kinds
    (0 (strict clamp) header? cl)                                   -> get_ranges
    (1 (strict clamp) (method proto11 is_file etags_on autotags)
       (range? if_match? if_none_match? ims? ius?)
       content ctype boundary lastmod? etag_set? auto_etag)         -> respond
    (2 method status etag? if_match? if_none_match?)                -> validate_etags
    (3 method status lastmod? ius? ims?)                            -> validate_since *)
Definition run_C16 (x : sx) : sx :=
  let kind := sx_Z (nth_sx 0 x) in
  if kind =? 0 then
    enc_gr (get_ranges (dec_cfg (nth_sx 1 x)) (sx_optZs (nth_sx 2 x)) (sx_Z (nth_sx 3 x)))
  else if kind =? 1 then
    let fl := nth_sx 2 x in
    let hs := nth_sx 3 x in
    let q := PReq (sx_Z (nth_sx 0 fl)) (sx_bool (nth_sx 1 fl))
                  (sx_optZs (nth_sx 0 hs)) (sx_optZs (nth_sx 1 hs)) (sx_optZs (nth_sx 2 hs))
                  (sx_optZs (nth_sx 3 hs)) (sx_optZs (nth_sx 4 hs)) in
    let r := PRes (sx_bool (nth_sx 2 fl)) (sx_bool (nth_sx 3 fl)) (sx_bool (nth_sx 4 fl))
                  (sx_Zs (nth_sx 4 x)) (sx_Zs (nth_sx 5 x)) (sx_Zs (nth_sx 6 x))
                  (sx_optZs (nth_sx 7 x)) (sx_optZs (nth_sx 8 x)) (sx_Zs (nth_sx 9 x)) in
    enc_obs (respond (dec_cfg (nth_sx 1 x)) q r)
  else if kind =? 2 then
    enc_decision (validate_etags (sx_Z (nth_sx 1 x)) (sx_Z (nth_sx 2 x)) (sx_optZs (nth_sx 3 x))
                                 (sx_optZs (nth_sx 4 x)) (sx_optZs (nth_sx 5 x)))
  else
    enc_decision (validate_since (sx_Z (nth_sx 1 x)) (sx_Z (nth_sx 2 x)) (sx_optZs (nth_sx 3 x))
                                 (sx_optZs (nth_sx 4 x)) (sx_optZs (nth_sx 5 x))).
