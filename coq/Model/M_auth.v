(** Model of cherrypy.lib.auth_digest (HttpDigestAuthorization, synthesize_nonce,
    validate_nonce, is_nonce_stale, HA2, request_digest, www_authenticate,
    _respond_401, digest_auth, _try_decode_header) and cherrypy.lib.auth_basic
    (basic_auth, _try_decode, checkpassword_dict).

    External functions are Section variables: MD5 ([H], uninterpreted), the
    credential store ([get_ha1] / [checkpassword]), the codec of the configured
    accept_charset ([dec_accept]), urllib's parse_http_list + parse_keqv_list
    ([parse_params]), base64 ([b64]) and unicodedata.normalize('NFC', .) ([nfc]).
    Every call of an external function is recorded in a trace (writer monad [W]),
    so that the differential check can compare the sequence of calls, arguments
    included, with what the real code called.

    Definitions only; proofs live in Proof/P_auth*.v. *)
From Coq Require Import ZArith List Bool.
From CV Require Import Lib.Sx Lib.ListZ.
Import ListNotations.
Open Scope Z_scope.

Definition str := list Z.          (* code points, or byte values *)

(* ------------------------------------------------------------------ *)
(** * String primitives *)

(** [s.split(sep, 1)] unpacked into two names: [None] is the ValueError of the
    unpacking when [sep] does not occur. *)
Fixpoint split1 (sep : Z) (s : str) : option (str * str) :=
  match s with
  | [] => None
  | c :: r => if c =? sep then Some ([], r)
              else match split1 sep r with
                   | Some (a, b) => Some (c :: a, b)
                   | None => None
                   end
  end.

(** [s.partition(sep)[0]] *)
Definition part0 (sep : Z) (s : str) : str :=
  match split1 sep s with Some (a, _) => a | None => s end.

(** str.lower / str.upper restricted to ASCII letters (no code point outside
    ASCII lower-cases to an ASCII-only string containing a letter of ''digest'' /
    ''basic'', none upper-cases to an ASCII-only string containing a character of
    ''MD5-sess'': checked against CPython by the harness on every run). *)
Definition lower_c (c : Z) : Z := if (65 <=? c) && (c <=? 90) then c + 32 else c.
Definition upper_c (c : Z) : Z := if (97 <=? c) && (c <=? 122) then c - 32 else c.
Definition lower_ascii (s : str) : str := map lower_c s.
Definition upper_ascii (s : str) : str := map upper_c s.

Definition is_ascii (s : str) : bool := forallb (fun c => c <? 128) s.
Definition is_latin1 (s : str) : bool := forallb (fun c => c <? 256) s.

Definition nonempty (s : str) : bool := match s with [] => false | _ => true end.
(** Python truthiness of an [Optional[str]] *)
Definition truthy (o : option str) : bool :=
  match o with Some s => nonempty s | None => false end.

Definition s_None : str := [78;111;110;101].
(** ['%s' % o] for an [Optional[str]] *)
Definition fmt (o : option str) : str := match o with Some s => s | None => s_None end.
Definition oval (o : option str) : str := match o with Some s => s | None => [] end.

Definition opt_eqb (a b : option str) : bool :=
  match a, b with
  | Some x, Some y => eqbZs x y
  | None, None => true
  | _, _ => false
  end.

Fixpoint join_colon (l : list str) : str :=
  match l with
  | [] => []
  | [x] => x
  | x :: r => x ++ 58 :: join_colon r
  end.

(** dict.get on the (key-unique, insertion-ordered) result of parse_keqv_list *)
Fixpoint assoc (k : str) (l : list (str * str)) : option str :=
  match l with
  | [] => None
  | (k', v) :: r => if eqbZs k k' then Some v else assoc k r
  end.

(** ['%s' % n] for an int *)
Fixpoint uint_digits (u : Decimal.uint) : str :=
  match u with
  | Decimal.Nil => []
  | Decimal.D0 r => 48 :: uint_digits r
  | Decimal.D1 r => 49 :: uint_digits r
  | Decimal.D2 r => 50 :: uint_digits r
  | Decimal.D3 r => 51 :: uint_digits r
  | Decimal.D4 r => 52 :: uint_digits r
  | Decimal.D5 r => 53 :: uint_digits r
  | Decimal.D6 r => 54 :: uint_digits r
  | Decimal.D7 r => 55 :: uint_digits r
  | Decimal.D8 r => 56 :: uint_digits r
  | Decimal.D9 r => 57 :: uint_digits r
  end.
Definition dec_of_Z (n : Z) : str :=
  match Z.to_int n with
  | Decimal.Pos u => uint_digits u
  | Decimal.Neg u => 45 :: uint_digits u
  end.

(** [int(s)] for a str [s].  ASCII only: a string with a non-ASCII character is
    answered [PI_unsupported] (CPython would translate Unicode digits and
    spaces first).  [PI_error] is the ValueError. *)
Inductive py_int_result := PI_ok (z : Z) | PI_error | PI_unsupported.

Definition is_ws (c : Z) : bool := ((9 <=? c) && (c <=? 13)) || (c =? 32).
Definition is_digit (c : Z) : bool := (48 <=? c) && (c <=? 57).
Fixpoint lstrip_ws (s : str) : str :=
  match s with
  | c :: r => if is_ws c then lstrip_ws r else s
  | [] => []
  end.
Definition strip_ws (s : str) : str := rev (lstrip_ws (rev (lstrip_ws s))).

(** digits with single underscores between digits; returns value and digit count *)
Fixpoint digits_us (s : str) (prev_digit : bool) (acc n : Z) : option (Z * Z) :=
  match s with
  | [] => if prev_digit then Some (acc, n) else None
  | c :: r =>
    if is_digit c then digits_us r true (acc * 10 + (c - 48)) (n + 1)
    else if (c =? 95) && prev_digit then digits_us r false acc n
    else None
  end.

Definition max_str_digits : Z := 4300.

Definition py_int (s : str) : py_int_result :=
  if negb (is_ascii s) then PI_unsupported else
  let t := strip_ws s in
  let '(sign, body) := match t with
                       | 43 :: r => (1, r)
                       | 45 :: r => (-1, r)
                       | _ => (1, t)
                       end in
  match digits_us body false 0 0 with
  | Some (v, n) => if max_str_digits <? n then PI_error else PI_ok (sign * v)
  | None => PI_error
  end.

(* ------------------------------------------------------------------ *)
(** * Trace of external calls *)

(** kinds: 0 H, 1 bytes.decode(accept_charset), 2 parse_keqv_list(parse_http_list(.)),
    3 get_ha1, 4 base64.b64decode, 5 NFC, 6 checkpassword, 7 bytes.decode('ISO-8859-1') *)
Definition tr := list (Z * list str).
Definition W (A : Type) : Type := (A * tr)%type.
Definition ret {A} (a : A) : W A := (a, []).
Definition bind {A B} (m : W A) (f : A -> W B) : W B :=
  let '(a, t1) := m in let '(b, t2) := f a in (b, t1 ++ t2).
Definition emit {A} (k : Z) (key : list str) (a : A) : W A := (a, [(k, key)]).
Notation "x <- m ;; k" := (bind m (fun x => k))
  (at level 61, m at next level, right associativity).

(* ------------------------------------------------------------------ *)
(** * What a request ends in, as far as the auth tool decides it *)

Inductive outcome :=
| Reached (login : str)        (* the tool returned: the handler runs with request.login = login *)
| R401 (challenge : str)       (* HTTPError(401), WWW-Authenticate = challenge *)
| R400                         (* HTTPError(400) *)
| R500 (why : Z)               (* an exception that nothing translates:
                                  1 TypeError (H of the RequestBody object, qop=auth-int; HA2 only -
                                    digest_auth answers auth-int with 400 before calling it)
                                  2 ValueError ''Unrecognized value for qop'' (HA2 only - the
                                    constructor refuses every qop other than auth/auth-int)
                                  3 exception of urllib's parser other than ValueError/IndexError
                                  4 ValueError, Basic realm contains a quote
                                  5 ValueError of www_authenticate (bad qop/algorithm argument) *)
| Unsupported (why : Z).       (* outside the modelled domain: 1 = non-ASCII nonce timestamp reaches int() *)

Inductive exn := E400 | E500 (why : Z).
Definition of_exn (e : exn) : outcome :=
  match e with E400 => R400 | E500 w => R500 w end.

Inductive parse_result :=
| PR_ok (kv : list (str * str))
| PR_value_error
| PR_index_error               (* parse_keqv_list on an empty value: v[0] *)
| PR_other_error.

(* constants *)
Definition s_digest : str := [100;105;103;101;115;116].
Definition s_basic : str := [98;97;115;105;99].
Definition s_MD5 : str := [77;68;53].
Definition s_MD5_sess : str := [77;68;53;45;115;101;115;115].
Definition s_auth : str := [97;117;116;104].
Definition s_auth_int : str := [97;117;116;104;45;105;110;116].
Definition k_realm : str := [114;101;97;108;109].
Definition k_username : str := [117;115;101;114;110;97;109;101].
Definition k_nonce : str := [110;111;110;99;101].
Definition k_uri : str := [117;114;105].
Definition k_method : str := [109;101;116;104;111;100].
Definition k_response : str := [114;101;115;112;111;110;115;101].
Definition k_algorithm : str := [97;108;103;111;114;105;116;104;109].
Definition k_cnonce : str := [99;110;111;110;99;101].
Definition k_opaque : str := [111;112;97;113;117;101].
Definition k_qop : str := [113;111;112].
Definition k_nc : str := [110;99].
Definition s_fallback : str := [73;83;79;45;56;56;53;57;45;49].         (* ISO-8859-1 *)
Definition p_digest_realm : str := [68;105;103;101;115;116;32;114;101;97;108;109;61;34]. (* Digest realm='' *)
Definition p_nonce : str := [34;44;32;110;111;110;99;101;61;34].         (* '', nonce='' *)
Definition p_algorithm : str := [34;44;32;97;108;103;111;114;105;116;104;109;61;34]. (* '', algorithm='' *)
Definition p_qop : str := [34;44;32;113;111;112;61;34].                 (* '', qop='' *)
Definition p_stale : str := [44;32;115;116;97;108;101;61;34;116;114;117;101;34]. (* , stale=''true'' *)
Definition p_charset : str := [44;32;99;104;97;114;115;101;116;61;34].   (* , charset='' *)
Definition p_basic_realm : str := [66;97;115;105;99;32;114;101;97;108;109;61;34]. (* Basic realm='' *)

(** _get_charset_declaration *)
Definition charset_declaration (charset : str) : str :=
  let c := upper_ascii charset in
  if eqbZs c s_fallback then [] else p_charset ++ c ++ [34].

(** HttpDigestAuthorization.matches / the scheme test of basic_auth *)
Definition matches_digest (header : str) : bool :=
  eqbZs (lower_ascii (part0 32 header)) s_digest.

(** configured tool arguments *)
Record cfg := Cfg {
  c_realm : str;
  c_key : str;            (* digest only *)
  c_charset : str;        (* accept_charset *)
}.

(** the attributes HttpDigestAuthorization.__init__ sets *)
Record dauth := DAuth {
  a_method : str;                    (* http_method = request.method *)
  a_realm : option str;
  a_username : option str;
  a_nonce : option str;
  a_uri : option str;
  a_response : option str;
  a_algorithm : str;
  a_cnonce : option str;
  a_qop : option str;
  a_nc : option str;
}.

Inductive staleness := Fresh | Stale | StaleUnsupported.

(** the lifetime digest_auth passes to is_nonce_stale *)
Definition nonce_max_age : Z := 600.

Section Auth.
  Variable H : str -> str.                              (* md5_hex *)
  Variable get_ha1 : str -> str -> option str.          (* realm, username *)
  Variable dec_accept : str -> option str.              (* bytes.decode(accept_charset); None = UnicodeDecodeError *)
  Variable parse_params : str -> parse_result.
  Variable b64 : str -> option str.                     (* None = binascii.Error *)
  Variable nfc : str -> str.
  Variable checkpassword : str -> str -> str -> bool.   (* realm, username, password *)

  (** synthesize_nonce(s, key, timestamp) with the timestamp already formatted *)
  Definition nonce_preimage (ts s key : str) : str := join_colon [ts; s; key].
  Definition synthesize_nonce (s key ts : str) : W str :=
    h <- emit 0 [nonce_preimage ts s key] (H (nonce_preimage ts s key)) ;;
    ret (ts ++ 58 :: h).

  (** www_authenticate(realm, key, algorithm, nonce=None, qop, stale, accept_charset);
      [inr] is its ValueError *)
  Definition www_authenticate (c : cfg) (now : Z) (algorithm qop : str) (stale : bool)
    : W (str + exn) :=
    if negb (eqbZs qop s_auth || eqbZs qop s_auth_int) then ret (inr (E500 5)) else
    if negb (eqbZs algorithm s_MD5 || eqbZs algorithm s_MD5_sess) then ret (inr (E500 5)) else
    nonce <- synthesize_nonce (c_realm c) (c_key c) (dec_of_Z now) ;;
    ret (inl (p_digest_realm ++ c_realm c ++ p_nonce ++ nonce ++ p_algorithm ++ algorithm
              ++ p_qop ++ qop ++ [34]
              ++ (if stale then p_stale else [])
              ++ charset_declaration (c_charset c))).

  (** _respond_401(realm, key, accept_charset, debug, **kwargs) *)
  Definition respond_401 (c : cfg) (now : Z) (stale : bool) : W outcome :=
    h <- www_authenticate c now s_MD5 s_auth stale ;;
    match h with
    | inl challenge => ret (R401 challenge)
    | inr e => ret (of_exn e)
    end.

  (** _try_decode_header(header, charset); the header is a str, re-encoded as
      Latin-1 (ValueError when it cannot be, in both rounds of the loop) *)
  Definition try_decode_header (header : str) : W (str + exn) :=
    if negb (is_latin1 header) then ret (inr E400) else
    d <- emit 1 [header] (dec_accept header) ;;
    match d with
    | Some s => ret (inl s)
    | None => s <- emit 7 [header] header ;; ret (inl s)
    end.

  (** HttpDigestAuthorization.__init__ *)
  Definition parse_header (auth_header http_method : str) : W (dauth + exn) :=
    if negb (matches_digest auth_header) then ret (inr E400) else
    dh <- try_decode_header auth_header ;;
    match dh with
    | inr e => ret (inr e)
    | inl decoded =>
      match split1 32 decoded with
      | None => ret (inr E400)
      | Some (_, params) =>
        p <- emit 2 [params] (parse_params params) ;;
        match p with
        | PR_value_error => ret (inr E400)
        | PR_index_error => ret (inr E400)      (* HTTPError.handle((ValueError, IndexError), 400) *)
        | PR_other_error => ret (inr (E500 3))
        | PR_ok kv =>
          let a := DAuth http_method (assoc k_realm kv) (assoc k_username kv) (assoc k_nonce kv)
                         (assoc k_uri kv) (assoc k_response kv)
                         (upper_ascii (match assoc k_algorithm kv with Some x => x | None => s_MD5 end))
                         (assoc k_cnonce kv) (assoc k_qop kv) (assoc k_nc kv) in
          if negb (eqbZs (a_algorithm a) s_MD5 || eqbZs (a_algorithm a) s_MD5_sess)
          then ret (inr E400) else
          if negb (truthy (a_username a) && truthy (a_realm a) && truthy (a_nonce a)
                   && truthy (a_uri a) && truthy (a_response a))
          then ret (inr E400) else
          match a_qop a with                      (* if self.qop is not None: *)
          | Some _ =>
            if negb (opt_eqb (a_qop a) (Some s_auth) || opt_eqb (a_qop a) (Some s_auth_int))
            then ret (inr E400) else
            if negb (truthy (a_cnonce a) && truthy (a_nc a)) then ret (inr E400)
            else ret (inl a)
          | None =>
            if truthy (a_cnonce a) || truthy (a_nc a) then ret (inr E400)
            else ret (inl a)
          end
        end
      end
    end.

  (** validate_nonce(s, key) *)
  Definition validate_nonce (a : dauth) (s key : str) : W bool :=
    match split1 58 (oval (a_nonce a)) with
    | None => ret false
    | Some (timestamp, hashpart) =>
      n <- synthesize_nonce s key timestamp ;;
      match split1 58 n with
      | None => ret false
      | Some (_, s_hashpart) => ret (eqbZs s_hashpart hashpart)
      end
    end.

  (** is_nonce_stale(max_age_seconds) *)
  Definition is_nonce_stale (a : dauth) (max_age now : Z) : staleness :=
    match split1 58 (oval (a_nonce a)) with
    | None => Stale
    | Some (timestamp, _) =>
      match py_int timestamp with
      | PI_ok t => if now <? t + max_age then Fresh else Stale
      | PI_error => Stale
      | PI_unsupported => StaleUnsupported
      end
    end.

  (** HA2(entity_body) as digest_auth calls it: entity_body is the RequestBody
      object, on which md5_hex raises TypeError *)
  Definition a2_string (a : dauth) : str := join_colon [a_method a; fmt (a_uri a)].
  Definition HA2 (a : dauth) : W (str + exn) :=
    if match a_qop a with None => true | Some q => eqbZs q s_auth end then
      h <- emit 0 [a2_string a] (H (a2_string a)) ;; ret (inl h)
    else if opt_eqb (a_qop a) (Some s_auth_int) then ret (inr (E500 1))
    else ret (inr (E500 2)).

  (** request_digest(ha1, entity_body) *)
  Definition req_string (a : dauth) (ha2 : str) : str :=
    if truthy (a_qop a)
    then join_colon [fmt (a_nonce a); fmt (a_nc a); fmt (a_cnonce a); fmt (a_qop a); ha2]
    else join_colon [fmt (a_nonce a); ha2].
  Definition request_digest (a : dauth) (ha1 : str) : W (str + exn) :=
    h2 <- HA2 a ;;
    match h2 with
    | inr e => ret (inr e)
    | inl ha2 =>
      let req := req_string a ha2 in
      ha1' <- (if eqbZs (a_algorithm a) s_MD5_sess
               then let x := join_colon [ha1; fmt (a_nonce a); fmt (a_cnonce a)] in
                    emit 0 [x] (H x)
               else ret ha1) ;;
      let y := join_colon [ha1'; req] in
      d <- emit 0 [y] (H y) ;;
      ret (inl d)
    end.

  (** digest_auth(realm, get_ha1, key, accept_charset); [header] is
      request.headers.get('authorization'), [now] is int(time.time()) *)
  Definition digest_auth (c : cfg) (header : option str) (http_method : str) (now : Z)
    : W outcome :=
    if negb (matches_digest (oval header)) then respond_401 c now false else
    r <- parse_header (oval header) http_method ;;
    match r with
    | inr e => ret (of_exn e)
    | inl a =>
      v <- validate_nonce a (c_realm c) (c_key c) ;;
      if negb v then respond_401 c now false else
      oh <- emit 3 [c_realm c; oval (a_username a)] (get_ha1 (c_realm c) (oval (a_username a))) ;;
      match oh with
      | None => respond_401 c now false
      | Some ha1 =>
        (* if auth.qop == qop_auth_int: raise HTTPError(400) *)
        if opt_eqb (a_qop a) (Some s_auth_int) then ret R400 else
        d <- request_digest a ha1 ;;
        match d with
        | inr e => ret (of_exn e)
        | inl digest =>
          if negb (opt_eqb (Some digest) (a_response a)) then respond_401 c now false else
          match is_nonce_stale a nonce_max_age now with
          | Stale => respond_401 c now true
          | StaleUnsupported => ret (Unsupported 1)
          | Fresh => ret (Reached (oval (a_username a)))
          end
        end
      end
    end.

  (** basic_auth(realm, checkpassword, accept_charset) *)
  Definition basic_challenge (c : cfg) : str :=
    p_basic_realm ++ c_realm c ++ [34] ++ charset_declaration (c_charset c).

  Definition try_decode (subject : str) : W str :=
    d <- emit 1 [subject] (dec_accept subject) ;;
    match d with
    | Some s => ret s
    | None => emit 7 [subject] subject
    end.

  Definition basic_auth (c : cfg) (header : option str) : W outcome :=
    if existsb (Z.eqb 34) (c_realm c) then ret (R500 4) else
    match header with
    | None => ret (R401 (basic_challenge c))
    | Some h =>
      match split1 32 h with
      | None => ret R400
      | Some (scheme, params) =>
        if eqbZs (lower_ascii scheme) s_basic then
          if negb (is_ascii params) then ret R400 else
          ob <- emit 4 [params] (b64 params) ;;
          match ob with
          | None => ret R400
          | Some raw =>
            s <- try_decode raw ;;
            n <- emit 5 [s] (nfc s) ;;
            match split1 58 n with
            | None => ret R400
            | Some (username, password) =>
              ok <- emit 6 [c_realm c; username; password]
                         (checkpassword (c_realm c) username password) ;;
              if ok then ret (Reached username) else ret (R401 (basic_challenge c))
            end
          end
        else ret (R401 (basic_challenge c))
      end
    end.
End Auth.

(** checkpassword_dict(d)(realm, user, password): [p and p == password or False] *)
Definition checkpassword_dict (d : list (str * str)) (realm user password : str) : bool :=
  match assoc user d with
  | Some p => nonempty p && eqbZs p password
  | None => false
  end.

(** get_ha1_dict(d)(realm, username) *)
Definition get_ha1_dict (d : list (str * str)) (realm user : str) : option str := assoc user d.

(* ------------------------------------------------------------------ *)
(** * s-expression boundary *)

Definition eqb_key (a b : list str) : bool :=
  (fix go a b := match a, b with
                 | [], [] => true
                 | x :: a', y :: b' => eqbZs x y && go a' b'
                 | _, _ => false
                 end) a b.

(** oracle tables: ((key-strings) value) *)
Fixpoint olook (k : list str) (t : list sx) : option sx :=
  match t with
  | [] => None
  | e :: r => if eqb_key k (map sx_Zs (sx_list (nth_sx 0 e))) then Some (nth_sx 1 e) else olook k r
  end.

Definition missing : str := [-1].

Definition sx_ostr (s : sx) : option str :=
  match s with L (x :: _) => Some (sx_Zs x) | _ => None end.

Definition dec_pairs (s : sx) : list (str * str) :=
  map (fun e => (sx_Zs (nth_sx 0 e), sx_Zs (nth_sx 1 e))) (sx_list s).

Definition t_H (t : sx) (s : str) : str :=
  match olook [s] (sx_list t) with Some v => sx_Zs v | None => missing end.
Definition t_ostr (t : sx) (s : str) : option str :=
  match olook [s] (sx_list t) with Some v => sx_ostr v | None => Some missing end.
Definition t_str (t : sx) (s : str) : str :=
  match olook [s] (sx_list t) with Some v => sx_Zs v | None => missing end.
Definition t_parse (t : sx) (s : str) : parse_result :=
  match olook [s] (sx_list t) with
  | Some v => match sx_Z (nth_sx 0 v) with
              | 0 => PR_ok (dec_pairs (nth_sx 1 v))
              | 1 => PR_value_error
              | 3 => PR_index_error
              | _ => PR_other_error
              end
  | None => PR_other_error
  end.

Definition enc_outcome (o : outcome) : sx :=
  match o with
  | Reached l => L [I 0; of_Zs l]
  | R401 ch => L [I 401; of_Zs ch]
  | R400 => L [I 400]
  | R500 w => L [I 500; I w]
  | Unsupported w => L [I 2; I w]
  end.

Definition enc_trace (t : tr) : sx :=
  L (map (fun '(k, key) => L [I k; L (map of_Zs key)]) t).

Definition enc_W (r : W outcome) : sx := L [enc_outcome (fst r); enc_trace (snd r)].

Definition enc_py_int (r : py_int_result) : sx :=
  match r with PI_ok z => L [I 0; I z] | PI_error => L [I 1] | PI_unsupported => L [I 2] end.

Definition no_b64 (_ : str) : option str := None.
Definition no_check (_ _ _ : str) : bool := false.
Definition no_ha1 (_ _ : str) : option str := None.
Definition no_parse (_ : str) : parse_result := PR_other_error.

(** case:
      (0 realm key charset (header)? method now htab dectab parsetab store)    digest
      (1 realm charset (header)? b64tab dectab nfctab store)                    basic
      (2 s)   int(s)            (3 n)   '%s' % n
    result: (outcome trace) *)
Definition run_C19 (x : sx) : sx :=
  match sx_Z (nth_sx 0 x) with
  | 0 =>
    let c := Cfg (sx_Zs (nth_sx 1 x)) (sx_Zs (nth_sx 2 x)) (sx_Zs (nth_sx 3 x)) in
    let store := dec_pairs (nth_sx 10 x) in
    enc_W (digest_auth (t_H (nth_sx 7 x)) (get_ha1_dict store) (t_ostr (nth_sx 8 x))
                       (t_parse (nth_sx 9 x))
                       c (sx_ostr (nth_sx 4 x)) (sx_Zs (nth_sx 5 x)) (sx_Z (nth_sx 6 x)))
  | 1 =>
    let c := Cfg (sx_Zs (nth_sx 1 x)) [] (sx_Zs (nth_sx 2 x)) in
    let store := dec_pairs (nth_sx 7 x) in
    enc_W (basic_auth (t_ostr (nth_sx 5 x)) (t_ostr (nth_sx 4 x)) (t_str (nth_sx 6 x))
                      (checkpassword_dict store)
                      c (sx_ostr (nth_sx 3 x)))
  | 2 => enc_py_int (py_int (sx_Zs (nth_sx 1 x)))
  | _ => of_Zs (dec_of_Z (sx_Z (nth_sx 1 x)))
  end.
