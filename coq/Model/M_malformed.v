(** C07 — exception-flow models of the framework's parsers of client data.

    Every Python operation that can raise is an explicit crash point
    ([Crash cls point]); every library call is an oracle whose answer is part of
    the input (an outcome [OOk | OExn cls] or a table), and [try/except] clauses
    catch by class through the subclass relation [sub].  A parser answers

      Ok | Reject code (an HTTPError raised) | Answer code (a tool set the error
      response itself, without raising) | Crash cls point | Unmodelled.

    [cfg] selects, per repaired spot, the code as written ([false]) or as
    repaired ([true]); [cfg_fixed] is what the differential check runs,
    [cfg_written] is what Refuted/R_C07.v refutes. *)
From Coq Require Import ZArith List Bool.
From CV Require Import Lib.Sx Lib.ListZ.
From CV Require Model.M_params Model.M_ranges.
Import ListNotations.
Open Scope Z_scope.

(* ------------------------------------------------------------------ *)
(** * Exception classes and the subclass relation *)

Inductive exn :=
| ELookup | EIndex | EKey                       (* LookupError > IndexError, KeyError *)
| EValue | EUnicode | EUnicodeDecode            (* ValueError > UnicodeError > UnicodeDecodeError *)
| EBinascii | EJSON                             (* binascii.Error, json.JSONDecodeError < ValueError *)
| EType | EAttribute
| EEOF
| EName | EUnbound                              (* NameError > UnboundLocalError *)
| EHeaderParse                                  (* email.errors.HeaderParseError *)
| ECookie                                       (* http.cookies.CookieError *)
| ERuntime | ERecursion                         (* RuntimeError > RecursionError *)
| EOS | EIsADir                                 (* OSError > IsADirectoryError *)
| EHTTP                                         (* cherrypy.HTTPError escaping where nothing handles it *)
| EOther.                                       (* any class outside the declared raise-sets *)

Definition exn_id (e : exn) : Z :=
  match e with
  | ELookup => 1 | EIndex => 2 | EKey => 3 | EValue => 4 | EUnicode => 5 | EUnicodeDecode => 6
  | EBinascii => 7 | EJSON => 8 | EType => 9 | EAttribute => 10 | EEOF => 11 | EName => 12
  | EUnbound => 13 | EHeaderParse => 14 | ECookie => 15 | ERuntime => 16 | ERecursion => 17
  | EOS => 18 | EIsADir => 19 | EHTTP => 20 | EOther => 21
  end.

Definition exn_of_id (z : Z) : exn :=
  match z with
  | 1 => ELookup | 2 => EIndex | 3 => EKey | 4 => EValue | 5 => EUnicode | 6 => EUnicodeDecode
  | 7 => EBinascii | 8 => EJSON | 9 => EType | 10 => EAttribute | 11 => EEOF | 12 => EName
  | 13 => EUnbound | 14 => EHeaderParse | 15 => ECookie | 16 => ERuntime | 17 => ERecursion
  | 18 => EOS | 19 => EIsADir | 20 => EHTTP | _ => EOther
  end.

Definition exn_eqb (a b : exn) : bool := exn_id a =? exn_id b.

(** the direct base class, as far as it is modelled ([None]: directly below Exception) *)
Definition parent (e : exn) : option exn :=
  match e with
  | EIndex | EKey => Some ELookup
  | EUnicodeDecode => Some EUnicode
  | EUnicode | EBinascii | EJSON => Some EValue
  | EUnbound => Some EName
  | ERecursion => Some ERuntime
  | EIsADir => Some EOS
  | _ => None
  end.

(** [sub e c]: an exception of class [e] is caught by [except c] *)
Definition sub (e c : exn) : bool :=
  exn_eqb e c ||
  match parent e with
  | Some p => exn_eqb p c ||
              match parent p with
              | Some q => exn_eqb q c
              | None => false
              end
  | None => false
  end.

Definition caught (e : exn) (classes : list exn) : bool := existsb (sub e) classes.

(** outcome of one library call *)
Inductive outcome := OOk | OExn (e : exn).

Definition in_set (o : outcome) (raises : list exn) : bool :=
  match o with OOk => true | OExn e => existsb (exn_eqb e) raises end.

(* ------------------------------------------------------------------ *)
(** * Results *)

Inductive res :=
| Ok
| Reject (code : Z)
| Answer (code : Z)
| Crash (e : exn) (point : Z)
| Unmodelled.

Definition is4xx (c : Z) : bool := (400 <=? c) && (c <=? 499).

(** the property of one parser run: tolerated, or refused with a 4xx *)
Definition total4xx (r : res) : bool :=
  match r with
  | Ok => true
  | Reject c | Answer c => is4xx c
  | Crash _ _ | Unmodelled => false
  end.

(** [with HTTPError.handle(classes, code)] / [try ... except classes: raise HTTPError(code)] *)
Definition translate (classes : list exn) (code : Z) (e : exn) (point : Z) : res :=
  if caught e classes then Reject code else Crash e point.

(* ------------------------------------------------------------------ *)
(** * Configuration: one flag per repaired spot *)

Record cfg := Cfg {
  f_text : bool;      (* decode_TEXT / process_headers: 400 for a bad encoded word; mixed text decoded *)
  f_imap : bool;      (* parse_query_string: int() digit limit falls back to _parse_qs *)
  f_range : bool;     (* get_ranges: int() digit limit -> header ignored *)
  f_sessdir : bool;   (* FileSession._exists: isfile *)
  f_gzipq : bool;     (* gzip: malformed qvalue answered in place *)
  f_stream : bool;    (* encode_stream: unusable charset skipped *)
  f_maxage : bool;    (* caching.get: int() failure -> 400 *)
  f_authint : bool;   (* digest_auth: qop=auth-int -> 400 *)
  f_qopempty : bool;  (* HttpDigestAuthorization: qop="" -> 400 *)
  f_keqv : bool;      (* digest_auth: IndexError of parse_keqv_list -> 400 *)
  f_charset : bool;   (* process_urlencoded / decode_entity: unusable charset = failed attempt *)
  f_mp : bool;        (* multipart framing errors -> 400 *)
  f_fnstar : bool;    (* Entity.__init__: invalid filename* ignored *)
  f_json : bool;      (* json_processor: RecursionError -> 400 *)
  f_kwself : bool;    (* test_callable_spec: kwarg named like the bound first argument *)
  f_encnul : bool;    (* encode_string: ValueError of str.encode (NUL in the charset name) skipped *)
}.

Definition cfg_written : cfg :=
  Cfg false false false false false false false false false false false false false false false false.
Definition cfg_fixed : cfg :=
  Cfg true true true true true true true true true true true true true true true true.

(* ------------------------------------------------------------------ *)
(** * Strings (code points / bytes as [Z]) *)

Definition rv {A} (l : list A) : list A := rev_append l [].

Fixpoint prefix (p s : list Z) : bool :=
  match p, s with
  | [], _ => true
  | a :: p', b :: s' => (a =? b) && prefix p' s'
  | _ :: _, [] => false
  end.

Fixpoint has_sub (p s : list Z) : bool :=
  prefix p s || match s with [] => false | _ :: r => has_sub p r end.

Definition suffix (p s : list Z) : bool := prefix (rv p) (rv s).

(** str.lower() on code points < 256 *)
Definition lower (c : Z) : Z :=
  if ((65 <=? c) && (c <=? 90)) || ((192 <=? c) && (c <=? 222) && negb (c =? 215)) then c + 32 else c.
Definition lower_s (s : list Z) : list Z := map lower s.

(** str.strip() whitespace below U+0100; bytes.strip() whitespace *)
Definition is_ws (c : Z) : bool :=
  ((9 <=? c) && (c <=? 13)) || ((28 <=? c) && (c <=? 32)) || (c =? 133) || (c =? 160).
Definition is_bws (c : Z) : bool := ((9 <=? c) && (c <=? 13)) || (c =? 32).

Fixpoint lstrip_by (p : Z -> bool) (s : list Z) : list Z :=
  match s with c :: r => if p c then lstrip_by p r else s | [] => [] end.
Definition strip_by (p : Z -> bool) (s : list Z) : list Z :=
  rv (lstrip_by p (rv (lstrip_by p s))).
Definition strip := strip_by is_ws.
Definition bstrip := strip_by is_bws.

Fixpoint split_on (sep : Z) (s : list Z) : list (list Z) :=
  match s with
  | [] => [[]]
  | c :: r =>
    match split_on sep r with
    | cur :: rest => if c =? sep then [] :: cur :: rest else (c :: cur) :: rest
    | [] => [[]]
    end
  end.

(** s.find(ch): the text before and after the first [ch] *)
Fixpoint split1 (sep : Z) (s : list Z) : option (list Z * list Z) :=
  match s with
  | [] => None
  | c :: r => if c =? sep then Some ([], r)
              else match split1 sep r with
                   | Some (a, b) => Some (c :: a, b)
                   | None => None
                   end
  end.

Fixpoint lt_str (a b : list Z) : bool :=
  match a, b with
  | [], [] => false
  | [], _ :: _ => true
  | _ :: _, [] => false
  | x :: a', y :: b' => if x <? y then true else if y <? x then false else lt_str a' b'
  end.

Definition is_digit (c : Z) : bool := (48 <=? c) && (c <=? 57).

(** s.replace(a b, r) for a two-character pattern *)
Fixpoint replace2 (a b r : Z) (s : list Z) : list Z :=
  match s with
  | c1 :: t =>
    match t with
    | c2 :: rest => if (c1 =? a) && (c2 =? b) then r :: replace2 a b r rest else c1 :: replace2 a b r t
    | [] => [c1]
    end
  | [] => []
  end.

Fixpoint last_opt (s : list Z) : option Z :=
  match s with [] => None | [c] => Some c | _ :: r => last_opt r end.

(** CPython refuses to convert more than sys.get_int_max_str_digits() digits *)
Definition max_str_digits : Z := 4300.
Definition too_long (ds : list Z) : bool := max_str_digits <? lenZ ds.

(* ------------------------------------------------------------------ *)
(** * parse_header (cherrypy._private_api.compat.headers) and header_elements *)

Definition params := list (list Z * list Z).

(** the text up to the first ';' that is preceded by an even number of unescaped quotes *)
Fixpoint take_param (s : list Z) (odd prev_bs : bool) (acc : list Z) : list Z * list Z :=
  match s with
  | [] => (rv acc, [])
  | c :: r =>
    if (c =? 59) && negb odd then (rv acc, s)
    else take_param r (if (c =? 34) && negb prev_bs then negb odd else odd) (c =? 92) (c :: acc)
  end.

(** _parse_param: [fuel] is any list at least as long as [s] *)
Fixpoint parse_param (fuel s : list Z) : list (list Z) :=
  match fuel with
  | [] => []
  | _ :: fuel' =>
    match s with
    | c :: r => if c =? 59 then
                  let '(f, rest) := take_param r false false [] in
                  strip f :: parse_param fuel' rest
                else []
    | [] => []
    end
  end.

Definition unquote_value (v : list Z) : list Z :=
  match v with
  | 34 :: ((_ :: _) as t) =>
    match last_opt t with
    | Some 34 => replace2 92 34 34 (replace2 92 92 92 (rv (tl (rv t))))
    | _ => v
    end
  | _ => v
  end.

Fixpoint params_of (ps : list (list Z)) : params :=
  match ps with
  | [] => []
  | p :: r =>
    match split1 61 p with
    | Some (n, v) => (lower_s (strip n), unquote_value (strip v)) :: params_of r
    | None => params_of r
    end
  end.

(** pdict[name] = value: the last assignment wins *)
Fixpoint lookup (k : list Z) (d : params) : option (list Z) :=
  match d with
  | [] => None
  | (k', v) :: r => match lookup k r with
                    | Some x => Some x
                    | None => if eqbZs k k' then Some v else None
                    end
  end.

Definition parse_header (line : list Z) : list Z * params :=
  match parse_param (59 :: line) (59 :: line) with
  | key :: ps => (key, params_of ps)
  | [] => ([], [])
  end.

(** RE_HEADER_SPLIT: a comma followed by an even number of quotes up to the end *)
Fixpoint hsplit (s : list Z) : (list Z * list (list Z)) * bool :=
  match s with
  | [] => (([], []), false)
  | c :: r =>
    let '((cur, rest), odd) := hsplit r in
    if (c =? 44) && negb odd then (([], cur :: rest), odd)
    else ((c :: cur, rest), if c =? 34 then negb odd else odd)
  end.

Definition header_split (s : list Z) : list (list Z) :=
  let '((cur, rest), _) := hsplit s in cur :: rest.

(** list(reversed(sorted(elements)))[0] for HeaderElement (ordered by value): the greatest
    value, the last one among equals *)
Fixpoint pick_first (best : list Z * params) (l : list (list Z * params)) : list Z * params :=
  match l with
  | [] => best
  | e :: r => if lt_str (fst e) (fst best) then pick_first best r else pick_first e r
  end.

(** headers.elements(name)[0] for a non-Accept header; [None]: header absent or empty *)
Definition first_element (h : option (list Z)) : option (list Z * params) :=
  match h with
  | None | Some [] => None
  | Some v =>
    match map parse_header (header_split v) with
    | e :: r => Some (pick_first e r)
    | [] => None
    end
  end.

(* ------------------------------------------------------------------ *)
(** * decode_TEXT_maybe inside Request.process_headers

    [dh]: the answer of email.header.decode_header — raise-set {HeaderParseError} — as a list of
    atoms (is_bytes, charset: 0 None / 1 the empty string / 2 a name, outcome of
    atom.decode(charset)); raise-set of bytes.decode: {LookupError, UnicodeError,
    UnicodeDecodeError, ValueError}. *)

Inductive dh_answer :=
| DHRaise (e : exn)
| DHAtoms (atoms : list (bool * Z * outcome)) (enc : outcome).   (* enc: outcome of decodedvalue.encode('utf-8'), raise-set {UnicodeEncodeError} *)

Definition text_catch : list exn := [ELookup; EValue; EHeaderParse].

Fixpoint text_atoms_written (atoms : list (bool * Z * outcome)) : res :=
  match atoms with
  | [] => Ok
  | (is_bytes, cs, o) :: r =>
    if 0 <? cs then                                 (* if charset is not None *)
      match o with
      | OExn e => Crash e 1                        (* atom.decode(charset) *)
      | OOk => text_atoms_written r
      end
    else if is_bytes then Crash EType 2            (* decodedvalue += atom  (str + bytes) *)
    else text_atoms_written r
  end.

Fixpoint text_atoms_fixed (atoms : list (bool * Z * outcome)) : res :=
  match atoms with
  | [] => Ok
  | (is_bytes, cs, o) :: r =>
    if is_bytes && (1 <? cs) then                   (* atom.decode(charset or 'ISO-8859-1') *)
      match o with
      | OExn e => translate text_catch 400 e 1
      | OOk => text_atoms_fixed r
      end
    else text_atoms_fixed r                        (* str atom, or bytes decoded as ISO-8859-1 *)
  end.

Definition s_eqq : list Z := [61; 63].   (* "=?" *)

Definition decode_text (c : cfg) (value : list Z) (dh : dh_answer) : res :=
  if negb (has_sub s_eqq value) then Ok else
  match dh with
  | DHRaise e => if f_text c then translate text_catch 400 e 0 else Crash e 0
  | DHAtoms atoms enc =>
    if f_text c then
      match text_atoms_fixed atoms with
      | Ok => match enc with                          (* decodedvalue.encode('utf-8'): a lone surrogate is not text *)
              | OOk => Ok
              | OExn e => translate text_catch 400 e 4
              end
      | r => r
      end
    else text_atoms_written atoms
  end.

(** the Cookie header: SimpleCookie.load, raise-set {CookieError} *)
Definition cookie_load (o : outcome) : res :=
  match o with
  | OOk => Ok
  | OExn e => translate [ECookie] 400 e 3
  end.

(** one header of the loop in process_headers *)
Definition process_header (c : cfg) (is_cookie : bool) (value : list Z) (dh : dh_answer) (ck : outcome) : res :=
  match decode_text c value dh with
  | Ok => if is_cookie then cookie_load ck else Ok
  | r => r
  end.

(** after the loop: HTTP/1.1 requires Host *)
(** [split]: outcome of urllib.parse.urlsplit('//' + host), raise-set {ValueError} (unbalanced IPv6 brackets):
    request.base is built from the Host value, so an authority urllib cannot split is refused here *)
Definition host_check (has_host proto11 : bool) (split : outcome) : res :=
  if negb has_host then (if proto11 then Reject 400 else Ok)
  else match split with
       | OOk => Ok
       | OExn e => translate [EValue] 400 e 5
       end.

(* ------------------------------------------------------------------ *)
(** * process_query_string / parse_query_string
    (the text-level parser is M_params'; here: which failures exist and who catches them) *)

Definition query (c : cfg) (qs : list Z) : res :=
  let s := M_params.recode qs in
  let plain := match M_params.parse_qs M_params.utf8_dec s with
               | Some _ => Ok
               | None => Reject 404                 (* except UnicodeDecodeError: HTTPError(404) *)
               end in
  if M_params.imap_full s then
    match split_on 44 s with
    | a :: b :: _ =>
      if too_long a || too_long b then
        (if f_imap c then plain else Crash EValue 10)   (* int(pm[0]) / int(pm[1]) *)
      else Ok
    | _ => Ok
    end
  else plain.

(* ------------------------------------------------------------------ *)
(** * AcceptElement.qvalue and where it is raised

    [qs]: for every element of the header, whether float() accepts its q parameter (float:
    raise-set {ValueError}).  With two or more elements sorted() compares qvalues, so the
    HTTPError(400) is raised inside headers.elements(); with one element only when the tool
    looks at .qvalue.  [stage]: 0 = the parser runs before the handler or as the handler
    (tools.accept, tools.encode, a handler using the API): the HTTPError is answered by
    Request.respond; 1 = it runs in a before_finalize hook (tools.gzip): respond() runs
    before_finalize again while finalizing the 400, the hook raises again and that second
    HTTPError is handled by nobody. *)

Definition qvalue_bad (qs : list bool) : bool := existsb negb qs.

Definition accept_q (c : cfg) (stage : Z) (qs : list bool) : res :=
  if negb (qvalue_bad qs) then Ok
  else if stage =? 0 then Reject 400
  else if f_gzipq c then Answer 400
  else Crash EHTTP 20.

(* ------------------------------------------------------------------ *)
(** * get_ranges: int() on the positions (everything else is M_ranges') *)

(** the pieces before the first one that contains an over-long digit run, and that piece *)
Fixpoint split_at_long (pieces : list (list Z)) (acc : list (list Z))
  : option (list (list Z) * list Z) :=
  match pieces with
  | [] => None
  | p :: r =>
    match M_ranges.scan_spec p with
    | Some (a, b) => if too_long a || too_long b then Some (rv acc, p) else split_at_long r (p :: acc)
    | None => split_at_long r (p :: acc)
    end
  end.

Fixpoint join (sep : Z) (ps : list (list Z)) : list Z :=
  match ps with
  | [] => []
  | [p] => p
  | p :: r => p ++ sep :: join sep r
  end.

Definition s_bytes_eq : list Z := [98;121;116;101;115;61].   (* "bytes=" *)

Definition ranges (c : cfg) (h : option (list Z)) (cl : Z) : res :=
  match h with
  | None | Some [] => Ok
  | Some hv =>
    match M_ranges.split1 M_ranges.ch_eq hv with
    | None => Ok
    | Some (u, rest) =>
      if negb (M_ranges.unit_is_bytes u) then Ok else
      match split_at_long (M_ranges.split_on M_ranges.ch_comma rest) [] with
      | None => Ok                                    (* no int() can fail: M_ranges.get_ranges never raises *)
      | Some (before, p) =>
        (* does the loop get as far as [p]?  only if every earlier spec is appended or skipped *)
        let reaches :=
          match before with
          | [] => true
          | _ => match M_ranges.get_ranges M_ranges.cfg_fixed (Some (s_bytes_eq ++ join 44 before)) cl with
                 | M_ranges.GrList _ => true
                 | _ => false
                 end
          end in
        if reaches then (if f_range c then Ok else Crash EValue 30)   (* int(start) / int(stop) *)
        else Ok
      end
    end
  end.

(* ------------------------------------------------------------------ *)
(** * caching.get: Cache-Control max-age on a cache hit

    [vals]: the element values in the order the loop sees them. *)

(** str.isdigit() below U+0100: ASCII digits and the superscripts 2, 3, 1 *)
Definition py_isdigit_char (ch : Z) : bool := is_digit ch || (ch =? 178) || (ch =? 179) || (ch =? 185).
Definition py_isdigit (s : list Z) : bool :=
  match s with [] => false | _ => forallb py_isdigit_char s end.
(** int() of a string that passed isdigit() *)
Definition int_ok_digits (s : list Z) : bool := forallb is_digit s && negb (too_long s).

Definition s_maxage : list Z := [109;97;120;45;97;103;101].      (* "max-age" *)
Definition s_nocache : list Z := [110;111;45;99;97;99;104;101].  (* "no-cache" *)

Fixpoint max_age (c : cfg) (vals : list (list Z)) : res :=
  match vals with
  | [] => Ok
  | v :: r =>
    match split1 61 v with
    | None =>
      if eqbZs v s_maxage then Reject 400               (* len(atoms) != 1 *)
      else if eqbZs v s_nocache then Ok
      else max_age c r
    | Some (d, a) =>
      if eqbZs d s_maxage then
        if negb (py_isdigit a) then Reject 400
        else if int_ok_digits a then Ok
        else if f_maxage c then Reject 400 else Crash EValue 40     (* int(atoms[0]) *)
      else if eqbZs d s_nocache then Ok
      else max_age c r
    end
  end.

(* ------------------------------------------------------------------ *)
(** * Content-Length, 411, 413 (Entity.__init__, RequestBody.process, SizedReader)

    [cl_ok]: int() accepts the Content-Length text (int: raise-set {ValueError}, caught in
    Entity.__init__: length stays None).  [reads_all]: the processor reads the whole body. *)

Definition body_length (has_cl has_te : bool) (maxbytes sent : Z) (reads_all : bool) : res :=
  if negb has_cl && negb has_te then Reject 411
  else if reads_all && (0 <? maxbytes) && (maxbytes <? sent) then Reject 413
  else Ok.

(* ------------------------------------------------------------------ *)
(** * Charset attempts of process_urlencoded / Entity.decode_entity

    codec kinds (the harness classifies a charset name with the codecs module):
    0 ascii, 1 utf-8, 2 latin-1 (never fails), 3 LookupError, 4 UnicodeError on every call,
    5 ValueError on every call, other: not modelled. *)

Definition codecs := list (list Z * Z).

Fixpoint codec_kind (t : codecs) (name : list Z) : Z :=
  match t with
  | [] => 9
  | (n, k) :: r => if eqbZs n name then k else codec_kind r name
  end.

(** what .decode(charset) does on every component of the body *)
Definition dec_of_kind (k : Z) : list Z -> option (list Z) :=
  match k with
  | 0 => M_params.ascii_dec
  | 1 => M_params.utf8_dec
  | 2 => M_params.latin1_dec
  | _ => fun _ => None
  end.

Definition kind_exn (k : Z) : exn :=
  match k with 3 => ELookup | 4 => EUnicode | 5 => EValue | _ => EUnicodeDecode end.

Definition charset_catch (c : cfg) : list exn :=
  if f_charset c then [ELookup; EValue] else [EUnicodeDecode].

(** [self.attempt_charsets = [dec] + [c for c in attempt_charsets if c != dec]] *)
Definition attempt_charsets (declared : option (list Z)) (defaults : list (list Z)) : list (list Z) :=
  match declared with
  | Some ((_ :: _) as d) => d :: filter (fun x => negb (eqbZs x d)) defaults
  | _ => defaults
  end.

(** process_urlencoded: for charset in attempt_charsets: try: ... decode ... *)
Fixpoint urlencoded_attempts (c : cfg) (t : codecs) (charsets : list (list Z)) (body : list Z) : res :=
  match charsets with
  | [] => Reject 400
  | cs :: r =>
    let k := codec_kind t cs in
    if (k <? 0) || (5 <? k) then Unmodelled else
    match M_params.parse_body_with (dec_of_kind k) body with
    | Some _ => Ok
    | None =>                                           (* a .decode(charset) raised *)
      if caught (kind_exn k) (charset_catch c) then urlencoded_attempts c t r body
      else Crash (kind_exn k) 50
    end
  end.

(** decode_entity(value): for charset in attempt_charsets: try: value.decode(charset) *)
Fixpoint decode_entity (c : cfg) (t : codecs) (charsets : list (list Z)) (value : list Z) : res :=
  match charsets with
  | [] => Reject 400
  | cs :: r =>
    let k := codec_kind t cs in
    if (k <? 0) || (5 <? k) then Unmodelled else
    match dec_of_kind k value with
    | Some _ => Ok
    | None =>
      if caught (kind_exn k) (charset_catch c) then decode_entity c t r value
      else Crash (kind_exn k) 51
    end
  end.

(** ResponseEncoder: the first acceptable charset name of Accept-Charset is handed to
    str.encode (raise-set by codec kind as above).  encode_string catches (LookupError,
    UnicodeError) and goes on to the next candidate; encode_stream does not try the name at
    all, the failure shows when the body is iterated. *)
Definition encode_charset (c : cfg) (stream : bool) (k : Z) : res :=
  if (k <? 3) || (5 <? k) then Ok
  else if stream then
    (if f_stream c then Ok else Crash (kind_exn k) 130)
  else if caught (kind_exn k) (if f_encnul c then [ELookup; EValue] else [ELookup; EUnicode]) then Ok
  else Crash (kind_exn k) 131.

Definition s_charset : list Z := [99;104;97;114;115;101;116].
Definition s_utf8 : list Z := [117;116;102;45;56].
Definition s_usascii : list Z := [117;115;45;97;115;99;105;105].
Definition s_latin1 : list Z := [73;83;79;45;56;56;53;57;45;49].   (* "ISO-8859-1" *)

Definition s_form : list Z :=   (* "application/x-www-form-urlencoded" *)
  [97;112;112;108;105;99;97;116;105;111;110;47;120;45;119;119;119;45;102;111;114;109;45;117;114;108;101;110;99;111;100;101;100].

(** a url-encoded request body: Content-Type header -> charset parameter -> attempts *)
Definition form_body (c : cfg) (t : codecs) (ctype : list Z) (body : list Z) : res :=
  match first_element (Some ctype) with
  | None => Ok
  | Some (v, ps) =>
    if eqbZs v s_form then urlencoded_attempts c t (attempt_charsets (lookup s_charset ps) [s_utf8]) body
    else Unmodelled
  end.

(* ------------------------------------------------------------------ *)
(** * Entity.__init__: Content-Disposition, filename*

    urllib.parse.unquote(filename, encoding) returns its argument when it holds no '%';
    otherwise it decodes with errors='replace', which fails only because of the codec itself:
    raise-set {LookupError, UnicodeError, ValueError} by codec kind. *)

Definition s_fnstar : list Z := [102;105;108;101;110;97;109;101;42].   (* "filename*" *)
Definition s_filename : list Z := [102;105;108;101;110;97;109;101].
Definition s_name : list Z := [110;97;109;101].

Definition fnstar_catch : list exn := [ELookup; EValue].

Definition unquote_outcome (t : codecs) (encoding filename : list Z) : option outcome :=
  if negb (existsb (fun ch => ch =? 37) filename) then Some OOk
  else match codec_kind t encoding with
       | 0 | 1 | 2 => Some OOk
       | 3 => Some (OExn ELookup)
       | 4 => Some (OExn EUnicode)
       | 5 => Some (OExn EValue)
       | _ => None
       end.

Definition disposition (c : cfg) (t : codecs) (cd : option (list Z)) : res :=
  match first_element cd with
  | None => Ok
  | Some (_, ps) =>
    match lookup s_fnstar ps with
    | None => Ok
    | Some v =>
      match split_on 39 v with
      | [enc; _; fname] =>
        match unquote_outcome t enc fname with
        | None => Unmodelled
        | Some OOk => Ok
        | Some (OExn e) => if f_fnstar c then (if caught e fnstar_catch then Ok else Crash e 61)
                           else Crash e 61                (* unquote(filename, encoding) *)
        end
      | _ => if f_fnstar c then Ok else Crash EValue 60   (* encoding, lang, filename = ....split("'") *)
      end
    end
  end.

(* ------------------------------------------------------------------ *)
(** * multipart: process_multipart, Part.read_headers, Part.read_lines_to_boundary

    The body is given as the list of lines readline() returns (each ends in LF except
    possibly the last).  [early_done]: the reader met the end of the input before the
    declared length, so [fp.done] is already set after the first part. *)

(** the boundary parameter after stripping double quotes:  ^[ -~]{0,200}[!-~]$ *)
Definition boundary_ok (ib : list Z) : bool :=
  match last_opt ib with
  | None => false
  | Some l => (33 <=? l) && (l <=? 126) && forallb (fun ch => (32 <=? ch) && (ch <=? 126)) ib
              && (lenZ ib <=? 201)
  end.

Definition s_boundary : list Z := [98;111;117;110;100;97;114;121].
Definition s_crlf : list Z := [13;10].
Definition s_dd : list Z := [45;45].

Definition mp_fail (c : cfg) (e : exn) (point : Z) : res :=
  if f_mp c then Reject 400 else Crash e point.

(** read_headers: the header block (name/value pairs, continuation lines joined with ", " are
    not needed here) and the remaining lines *)
Fixpoint read_headers (c : cfg) (lines : list (list Z)) (have_key : bool) (acc : list (list Z * list Z))
  : res * list (list Z * list Z) * list (list Z) :=
  match lines with
  | [] => (mp_fail c EEOF 70, acc, [])                         (* Illegal end of headers *)
  | line :: r =>
    if eqbZs line s_crlf then (Ok, acc, r)
    else if negb (suffix s_crlf line) then (mp_fail c EValue 71, acc, r)      (* CRLF terminators *)
    else match line with
         | ch :: _ =>
           if (ch =? 32) || (ch =? 9) then
             if have_key then
               match acc with
               | (k, v) :: acc' => read_headers c r true ((k, v ++ [44;32] ++ bstrip line) :: acc')
               | [] => read_headers c r true acc
               end
             else (mp_fail c EUnbound 72, acc, r)              (* k used before assignment *)
           else match split1 58 line with
                | None => (mp_fail c EValue 73, acc, r)        (* k, v = line.split(b':', 1) *)
                | Some (k, v) => read_headers c r true ((map (fun x => x) (bstrip k), bstrip v) :: acc)
                end
         | [] => (mp_fail c EValue 71, acc, r)
         end
  end.

(** str.title() for header names (HeaderMap keys), ASCII letters *)
Fixpoint title_go (s : list Z) (start : bool) : list Z :=
  match s with
  | [] => []
  | ch :: r =>
    let up := (97 <=? ch) && (ch <=? 122) in
    let lo := (65 <=? ch) && (ch <=? 90) in
    let alpha := up || lo in
    (if start then (if up then ch - 32 else ch) else (if lo then ch + 32 else ch)) :: title_go r (negb alpha)
  end.
Definition title (s : list Z) : list Z := title_go s true.

(** headers.get(name): values of repeated headers joined with ", " *)
Fixpoint header_get (name : list Z) (hs : list (list Z * list Z)) : option (list Z) :=
  match hs with
  | [] => None
  | (k, v) :: r =>
    let rest := header_get name r in
    if eqbZs (title k) name then
      match rest with
      | Some ((_ :: _) as e) => Some (e ++ [44;32] ++ v)
      | _ => Some v
      end
    else rest
  end.

Definition s_ctype : list Z := [67;111;110;116;101;110;116;45;84;121;112;101].   (* "Content-Type" *)
Definition s_cdisp : list Z :=   (* "Content-Disposition" *)
  [67;111;110;116;101;110;116;45;68;105;115;112;111;115;105;116;105;111;110].
Definition s_multipart : list Z := [109;117;108;116;105;112;97;114;116].
Definition s_textplain : list Z := [116;101;120;116;47;112;108;97;105;110].

(** read_lines_to_boundary: the content lines, whether the end marker was met, the rest *)
Fixpoint read_to_boundary (c : cfg) (b : list Z) (lines : list (list Z)) (prev_lf : bool) (acc : list Z) (delim : list Z)
  : res * list Z * bool * list (list Z) :=
  match lines with
  | [] => (mp_fail c EEOF 74, acc, false, [])                  (* Illegal end of multipart body *)
  | line :: r =>
    let is_delim := prefix s_dd line && prev_lf in
    if is_delim && eqbZs (bstrip line) b then (Ok, acc, negb (suffix [10] line), r)   (* no LF: the reader met the end *)
    else if is_delim && eqbZs (bstrip line) (b ++ s_dd) then (Ok, acc, true, r)
    else
      let l := delim ++ line in
      if suffix s_crlf l then read_to_boundary c b r true (acc ++ rv (tl (tl (rv l)))) s_crlf
      else if suffix [10] l then read_to_boundary c b r true (acc ++ rv (tl (rv l))) [10]
      else read_to_boundary c b r false (acc ++ l) []
  end.

(** a part's headers ran through Entity.__init__ ; then its processor *)
Definition registered (ct : list Z) : bool :=
  eqbZs ct s_form ||
  match split1 47 ct with
  | Some (top, _) => eqbZs top s_multipart
  | None => eqbZs ct s_multipart
  end.

(** [form]: multipart/form-data (fields are decoded with fullvalue()) *)
Fixpoint parts_loop (c : cfg) (t : codecs) (form : bool) (b : list Z) (early_done : bool)
         (fuel : list (list Z)) (lines : list (list Z)) : res :=
  match fuel with
  | [] => Unmodelled
  | _ :: fuel' =>
    match read_headers c lines false [] with
    | (Ok, hs, rest) =>
      let hs := rv hs in
      let cd := header_get s_cdisp hs in
      match disposition c t cd with
      | Ok =>
        let '(ctv, ctp) := match first_element (header_get s_ctype hs) with
                           | Some e => e
                           | None => (s_textplain, [])
                           end in
        if registered ctv then Unmodelled else
        match read_to_boundary c b rest true [] [] with
        | (Ok, content, is_end, rest') =>
          let dps := match first_element cd with Some (_, ps) => ps | None => [] end in
          let has_name := match lookup s_name dps with Some _ => true | None => false end in
          let fnstar_set := match lookup s_fnstar dps with
                            | Some v => match split_on 39 v with
                                        | [enc; _; fname] => match unquote_outcome t enc fname with
                                                             | Some OOk => true
                                                             | _ => false
                                                             end
                                        | _ => false
                                        end
                            | None => false
                            end in
          let has_file := match lookup s_filename dps with Some _ => true | None => fnstar_set end in
          (* process_multipart_form_data: named parts without filename are decoded (fullvalue);
             _old_process_multipart (the other multipart types): every part without filename *)
          let dec := if (if form then has_name else true) && negb has_file
                     then decode_entity c t (attempt_charsets (lookup s_charset ctp) [s_usascii; s_utf8]) content
                     else Ok in
          if is_end || early_done then dec
          else match parts_loop c t form b early_done fuel' rest' with
               | Ok => dec                     (* fields are decoded after all parts were read *)
               | r => r
               end
        | (r, _, _, _) => r
        end
      | r => r
      end
    | (r, _, _) => r
    end
  end.

Fixpoint skip_to_marker (b : list Z) (lines : list (list Z)) : option (list (list Z)) :=
  match lines with
  | [] => None
  | line :: r => if eqbZs (bstrip line) b then Some r else skip_to_marker b r
  end.

Definition multipart (c : cfg) (t : codecs) (ctype : list Z) (lines : list (list Z)) (early_done : bool) : res :=
  match first_element (Some ctype) with
  | None => Unmodelled
  | Some (v, ps) =>
    if negb (match split1 47 v with Some (top, _) => eqbZs top s_multipart | None => eqbZs v s_multipart end)
    then Unmodelled else
    let ib := match lookup s_boundary ps with
              | Some x => strip_by (fun ch => ch =? 34) x
              | None => []
              end in
    if negb (boundary_ok ib) then mp_fail c EValue 75
    else
      let b := s_dd ++ ib in
      match skip_to_marker b lines with
      | None => Ok                                   (* no first marker: no parts *)
      | Some rest => parts_loop c t (eqbZs v (s_multipart ++ [47;102;111;114;109;45;100;97;116;97]))
                                b early_done (rest ++ [[]]) rest
      end
  end.

(* ------------------------------------------------------------------ *)
(** * json_processor: json.decode(body.decode('utf-8')) — raise-set {ValueError (incl.
    JSONDecodeError, UnicodeDecodeError), RecursionError} *)

Definition json_catch (c : cfg) : list exn := if f_json c then [EValue; ERecursion] else [EValue].

Definition json_body (c : cfg) (cl_nonempty : bool) (o : outcome) : res :=
  if negb cl_nonempty then Reject 411
  else match o with
       | OOk => Ok
       | OExn e => translate (json_catch c) 400 e 80
       end.

(* ------------------------------------------------------------------ *)
(** * basic_auth

    [b64]: base64.b64decode (raise-set {binascii.Error, ValueError}); [ascii]: params.encode('ascii')
    (raise-set {UnicodeEncodeError <= UnicodeError}); the decoded text is split at ':'. *)

Definition basic_catch : list exn := [EValue; EBinascii].

Definition basic_auth (has_space scheme_basic : bool) (ascii b64 : outcome) (has_colon pw_ok : bool) : res :=
  if negb has_space then Reject 400                         (* scheme, params = header.split(' ', 1) *)
  else if negb scheme_basic then Reject 401
  else match ascii with
       | OExn e => translate basic_catch 400 e 90
       | OOk =>
         match b64 with
         | OExn e => translate basic_catch 400 e 91
         | OOk => if negb has_colon then Reject 400          (* username, password = ....split(':', 1) *)
                  else if pw_ok then Ok else Reject 401
         end
       end.

(* ------------------------------------------------------------------ *)
(** * digest_auth / HttpDigestAuthorization

    [keqv]: parse_http_list + parse_keqv_list (raise-set {ValueError, IndexError}); the fields it
    yields are given as flags / texts. *)

Record dfields := DFields {
  d_alg_ok : bool;          (* algorithm.upper() in valid_algorithms *)
  d_required : bool;        (* username, realm, nonce, uri, response all non-empty *)
  d_qop : option (list Z);  (* None: no qop parameter *)
  d_cnonce : bool;
  d_nc : bool;
}.

Definition s_auth : list Z := [97;117;116;104].
Definition s_authint : list Z := [97;117;116;104;45;105;110;116].

Definition qop_valid (q : list Z) : bool := eqbZs q s_auth || eqbZs q s_authint.

Definition digest_catch (c : cfg) : list exn := if f_keqv c then [EValue; EIndex] else [EValue].

(** HttpDigestAuthorization.__init__ after the scheme matched *)
Definition digest_init (c : cfg) (decode : outcome) (has_space : bool) (keqv : outcome) (f : dfields) : res :=
  match decode with
  | OExn e => translate (digest_catch c) 400 e 100          (* _try_decode_header *)
  | OOk =>
    if negb has_space then Reject 400                       (* scheme, params = header.split(' ', 1) *)
    else match keqv with
         | OExn e => translate (digest_catch c) 400 e 101    (* parse_keqv_list *)
         | OOk =>
           if negb (d_alg_ok f) then Reject 400
           else if negb (d_required f) then Reject 400
           else
             let checked := match d_qop f with
                            | None => false
                            | Some [] => f_qopempty c        (* if self.qop:  vs  is not None *)
                            | Some _ => true
                            end in
             if checked then
               match d_qop f with
               | Some q => if negb (qop_valid q) then Reject 400
                           else if negb (d_cnonce f && d_nc f) then Reject 400 else Ok
               | None => Ok
               end
             else if d_cnonce f || d_nc f then Reject 400 else Ok
         end
  end.

Definition digest_auth (c : cfg) (scheme_digest : bool) (decode : outcome) (has_space : bool) (keqv : outcome)
           (f : dfields) (nonce_ok user_known digest_ok stale : bool) : res :=
  if negb scheme_digest then Reject 401
  else match digest_init c decode has_space keqv f with
       | Ok =>
         if negb nonce_ok then Reject 401
         else if negb user_known then Reject 401
         else
           match d_qop f with
           | Some q =>
             if eqbZs q s_authint then
               (if f_authint c then Reject 400 else Crash EType 102)     (* md5_hex(request.body) *)
             else if eqbZs q s_auth then
               (if negb digest_ok then Reject 401 else if stale then Reject 401 else Ok)
             else Crash EValue 103                                       (* HA2: Unrecognized value for qop *)
           | None => if negb digest_ok then Reject 401 else if stale then Reject 401 else Ok
           end
       | r => r
       end.

(* ------------------------------------------------------------------ *)
(** * FileSession: the id from the cookie names a path below storage_path

    kind of what the path names: 0 nothing, 1 a regular file, 2 a directory;
    [escapes]: abspath leaves storage_path; [lock_name]: the id ends in ".lock". *)

Definition session_id (c : cfg) (escapes lock_name : bool) (kind : Z) : res :=
  if escapes then Reject 400
  else if lock_name then Ok                              (* never adopted: regenerated *)
  else if kind =? 2 then
    (if f_sessdir c then Ok else Crash EIsADir 110)      (* _save: open(path, 'wb') *)
  else Ok.

(* ------------------------------------------------------------------ *)
(** * PageHandler.__call__ / test_callable_spec

    The handler is a bound method [def h(self, a1..an, *args?, **kw?)] with [ndef] defaults;
    it is called with [npos] positional arguments (path segments) and keyword arguments
    [kws] (name, came-from-the-body?).  The call raises TypeError exactly when Python's
    argument binding fails; test_callable_spec then has to find the reason. *)

Record hspec := HSpec {
  h_self : list Z;             (* name of the bound first parameter *)
  h_args : list (list Z);      (* the other positional-or-keyword parameters *)
  h_ndef : Z;                  (* how many of them (the last ones) have defaults *)
  h_varargs : bool;
  h_varkw : bool;
}.

Definition mem (k : list Z) (l : list (list Z)) : bool := existsb (eqbZs k) l.

Fixpoint count_kw (k : list Z) (kws : list (list Z * bool)) : Z :=
  match kws with
  | [] => 0
  | (k', _) :: r => (if eqbZs k k' then 1 else 0) + count_kw k r
  end.

(** usage count of every declared argument: positional, then keywords, then defaults *)
Fixpoint usages (args : list (list Z)) (idx npos nargs ndef : Z) (kws : list (list Z * bool)) : list (list Z * Z) :=
  match args with
  | [] => []
  | a :: r =>
    let u := (if idx <? npos then 1 else 0) + count_kw a kws in
    let u := if (u =? 0) && (nargs - ndef <=? idx) then 1 else u in
    (a, u) :: usages r (idx + 1) npos nargs ndef kws
  end.

Definition from_qs (k : list Z) (kws : list (list Z * bool)) : bool :=
  existsb (fun kv => eqbZs (fst kv) k && negb (snd kv)) kws.

(** Python's binding of the call of a bound method with positional and keyword arguments *)
Definition call_fails (h : hspec) (npos : Z) (kws : list (list Z * bool)) : bool :=
  let nargs := lenZ (h_args h) in
  let us := usages (h_args h) 0 npos nargs (h_ndef h) kws in
  existsb (fun au => snd au =? 0) us                                     (* missing *)
  || existsb (fun au => 1 <? snd au) us                                  (* multiple values *)
  || (negb (h_varargs h) && (nargs <? npos))                             (* too many positional *)
  || (negb (h_varkw h) && existsb (fun kv => negb (mem (fst kv) (h_args h))) kws)   (* unexpected keyword *)
  || mem (h_self h) (map fst kws).                                       (* collides with the bound argument *)

Definition callable_spec (c : cfg) (h : hspec) (npos : Z) (kws : list (list Z * bool)) : res :=
  if negb (call_fails h npos kws) then Ok else
  let nargs := lenZ (h_args h) in
  let us := usages (h_args h) 0 npos nargs (h_ndef h) kws in
  let missing := existsb (fun au => snd au =? 0) us in
  let multiple := map fst (filter (fun au => 1 <? snd au) us) ++
                  (if f_kwself c && mem (h_self h) (map fst kws) then [h_self h] else []) in
  let extra := filter (fun kv => negb (mem (fst kv) (h_args h))) kws in
  if missing then Reject 404
  else if negb (h_varargs h) && (nargs <? npos) then Reject 404
  else match multiple with
       | _ :: _ => if existsb (fun k => from_qs k kws) multiple then Reject 404 else Reject 400
       | [] =>
         if negb (h_varkw h) then
           match extra with
           | _ :: _ => if existsb (fun kv => negb (snd kv)) extra then Reject 404 else Reject 400
           | [] => Crash EType 120
           end
         else Crash EType 120                                            (* the TypeError is re-raised *)
       end.

(* ------------------------------------------------------------------ *)
(** * The pipeline: which status the parsers' results add up to

    The stages of Request.respond in order; the first stage that does not answer [Ok] decides.
    [Reject c] is an HTTPError: respond() answers it with status c — unless it comes from a
    before_finalize hook ([bf = true]), which runs again while the error is finalized.
    [handler]: the status the (total) handler and tools produce when every parser is Ok. *)

Fixpoint pipeline (stages : list (bool * res)) (handler : Z) : Z :=
  match stages with
  | [] => handler
  | (bf, r) :: rest =>
    match r with
    | Ok => pipeline rest handler
    | Reject c => if bf then 500 else c
    | Answer c => c
    | Crash _ _ => 500
    | Unmodelled => 500
    end
  end.

(** what [c07_pipeline] asks of a stage *)
Definition stage_total (s : bool * res) : bool :=
  match s with
  | (true, Reject _) => false
  | (_, r) => total4xx r
  end.

(* ------------------------------------------------------------------ *)
(** * run_C07: (parser id, flags, input...) -> (kind, code / class, point)
    kind 0 Ok, 1 Reject, 2 Answer, 3 Crash, 4 Unmodelled *)

Definition of_res (r : res) : sx :=
  match r with
  | Ok => L [I 0; I 0; I 0]
  | Reject c => L [I 1; I c; I 0]
  | Answer c => L [I 2; I c; I 0]
  | Crash e p => L [I 3; I (exn_id e); I p]
  | Unmodelled => L [I 4; I 0; I 0]
  end.

Definition sx_cfg (s : sx) : cfg :=
  let b n := sx_bool (nth_sx n s) in
  Cfg (b 0%nat) (b 1%nat) (b 2%nat) (b 3%nat) (b 4%nat) (b 5%nat) (b 6%nat) (b 7%nat) (b 8%nat) (b 9%nat)
      (b 10%nat) (b 11%nat) (b 12%nat) (b 13%nat) (b 14%nat) (b 15%nat).

(** outcome: () = ok, (id) = raises class id *)
Definition sx_outcome (s : sx) : outcome :=
  match sx_optZ s with Some z => OExn (exn_of_id z) | None => OOk end.

Definition sx_optZs (s : sx) : option (list Z) :=
  match sx_opt s with Some x => Some (sx_Zs x) | None => None end.

Definition sx_dh (s : sx) : dh_answer :=
  match sx_Z (nth_sx 0 s) with
  | 0 => DHAtoms (map (fun a => (sx_bool (nth_sx 0 a), sx_Z (nth_sx 1 a), sx_outcome (nth_sx 2 a)))
                      (sx_list (nth_sx 1 s)))
                 (sx_outcome (nth_sx 2 s))
  | _ => DHRaise (exn_of_id (sx_Z (nth_sx 1 s)))
  end.

Definition sx_codecs (s : sx) : codecs :=
  map (fun e => (sx_Zs (nth_sx 0 e), sx_Z (nth_sx 1 e))) (sx_list s).

Definition sx_kws (s : sx) : list (list Z * bool) :=
  map (fun e => (sx_Zs (nth_sx 0 e), sx_bool (nth_sx 1 e))) (sx_list s).

Definition run_C07 (s : sx) : sx :=
  let c := sx_cfg (nth_sx 1 s) in
  let a n := nth_sx n s in
  of_res
  match sx_Z (nth_sx 0 s) with
  | 1 => process_header c (sx_bool (a 2%nat)) (sx_Zs (a 3%nat)) (sx_dh (a 4%nat)) (sx_outcome (a 5%nat))
  | 2 => host_check (sx_bool (a 2%nat)) (sx_bool (a 3%nat)) (sx_outcome (a 4%nat))
  | 3 => query c (sx_Zs (a 2%nat))
  | 4 => accept_q c (sx_Z (a 2%nat)) (map sx_bool (sx_list (a 3%nat)))
  | 5 => ranges c (sx_optZs (a 2%nat)) (sx_Z (a 3%nat))
  | 6 => max_age c (map sx_Zs (sx_list (a 2%nat)))
  | 7 => body_length (sx_bool (a 2%nat)) (sx_bool (a 3%nat)) (sx_Z (a 4%nat)) (sx_Z (a 5%nat)) (sx_bool (a 6%nat))
  | 8 => form_body c (sx_codecs (a 2%nat)) (sx_Zs (a 3%nat)) (sx_Zs (a 4%nat))
  | 9 => disposition c (sx_codecs (a 2%nat)) (sx_optZs (a 3%nat))
  | 10 => multipart c (sx_codecs (a 2%nat)) (sx_Zs (a 3%nat)) (map sx_Zs (sx_list (a 4%nat)))
                    (sx_bool (a 5%nat))
  | 11 => json_body c (sx_bool (a 2%nat)) (sx_outcome (a 3%nat))
  | 12 => basic_auth (sx_bool (a 2%nat)) (sx_bool (a 3%nat)) (sx_outcome (a 4%nat)) (sx_outcome (a 5%nat))
                     (sx_bool (a 6%nat)) (sx_bool (a 7%nat))
  | 13 => let f := a 6%nat in
          digest_auth c (sx_bool (a 2%nat)) (sx_outcome (a 3%nat)) (sx_bool (a 4%nat)) (sx_outcome (a 5%nat))
                      (DFields (sx_bool (nth_sx 0 f)) (sx_bool (nth_sx 1 f)) (sx_optZs (nth_sx 2 f))
                               (sx_bool (nth_sx 3 f)) (sx_bool (nth_sx 4 f)))
                      (sx_bool (a 7%nat)) (sx_bool (a 8%nat)) (sx_bool (a 9%nat)) (sx_bool (a 10%nat))
  | 14 => session_id c (sx_bool (a 2%nat)) (sx_bool (a 3%nat)) (sx_Z (a 4%nat))
  | 15 => let h := a 2%nat in
          callable_spec c (HSpec (sx_Zs (nth_sx 0 h)) (map sx_Zs (sx_list (nth_sx 1 h))) (sx_Z (nth_sx 2 h))
                                 (sx_bool (nth_sx 3 h)) (sx_bool (nth_sx 4 h)))
                        (sx_Z (a 3%nat)) (sx_kws (a 4%nat))
  | 16 => encode_charset c (sx_bool (a 2%nat)) (sx_Z (a 3%nat))
  | _ => Unmodelled
  end.
