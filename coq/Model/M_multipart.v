(** Model of the multipart code of cherrypy/_cpreqbody.py: process_multipart,
    process_multipart_form_data, _old_process_multipart, Part.from_fp,
    Part.read_headers, Entity.__init__ (Content-Type / Content-Disposition of a
    part), Part.default_proc / read_into_file / read_lines_to_boundary,
    Entity.fullvalue / decode_entity.  All reading goes through the SizedReader
    model of M_reader (readline only), so socket fragmentation and buffer size
    are part of the state.  Definitions only; proofs live in Proof/P_multipart*.v. *)
From Coq Require Import ZArith List Bool.
From CV Require Import Lib.Sx Lib.ListZ Model.M_reader.
Import ListNotations.
Open Scope Z_scope.

(* ---------- Python string primitives used by the code ---------- *)

(** bytes.strip(): ASCII white space *)
Definition is_ws (z : Z) : bool := (z =? 32) || ((9 <=? z) && (z <=? 13)).
(** str.strip() on text decoded from ISO-8859-1: Unicode white space < 256 *)
Definition is_uws (z : Z) : bool :=
  is_ws z || ((28 <=? z) && (z <=? 31)) || (z =? 133) || (z =? 160).

Fixpoint lstrip_by (f : Z -> bool) (l : list Z) : list Z :=
  match l with
  | [] => []
  | x :: r => if f x then lstrip_by f r else l
  end.

Fixpoint rstrip_by (f : Z -> bool) (l : list Z) : list Z :=
  match l with
  | [] => []
  | x :: r => match rstrip_by f r with
              | [] => if f x then [] else [x]
              | r' => x :: r'
              end
  end.

Definition strip_by (f : Z -> bool) (l : list Z) : list Z := rstrip_by f (lstrip_by f l).
Definition strip : list Z -> list Z := strip_by is_ws.
Definition ustrip : list Z -> list Z := strip_by is_uws.

(** list reversal in linear time ([List.rev] is quadratic); [rv l = rev l] *)
Definition rv (l : list Z) : list Z := rev_append l [].

Definition starts_dd (l : list Z) : bool :=
  match l with 45 :: 45 :: _ => true | _ => false end.

Definition ends_crlf (l : list Z) : bool :=
  match rv l with 10 :: 13 :: _ => true | _ => false end.

(** the tail of the loop body of read_lines_to_boundary:
    (line without its terminator, new delim, new prev_lf) *)
Definition split_term (l : list Z) : list Z * list Z * bool :=
  match rv l with
  | 10 :: 13 :: r => (rv r, [13; 10], true)
  | 10 :: r => (rv r, [10], true)
  | _ => (l, [], false)
  end.

(** s.split(sep, 1) when sep occurs *)
Fixpoint split1 (sep : Z) (l : list Z) : option (list Z * list Z) :=
  match l with
  | [] => None
  | x :: r => if x =? sep then Some ([], r)
              else match split1 sep r with
                   | Some (a, b) => Some (x :: a, b)
                   | None => None
                   end
  end.

Definition is_upper (z : Z) : bool := (65 <=? z) && (z <=? 90).
Definition is_lower (z : Z) : bool := (97 <=? z) && (z <=? 122).

(** str.title() on ASCII text *)
Fixpoint title_go (prev : bool) (l : list Z) : list Z :=
  match l with
  | [] => []
  | x :: r =>
    if is_upper x then (if prev then x + 32 else x) :: title_go true r
    else if is_lower x then (if prev then x else x - 32) :: title_go true r
    else x :: title_go false r
  end.
Definition title : list Z -> list Z := title_go false.
Definition lower_a (l : list Z) : list Z := map (fun z => if is_upper z then z + 32 else z) l.
Definition ascii_only (l : list Z) : bool := forallb (fun z => z <? 128) l.

(** insertion-ordered dict with list-of-code-point keys *)
Fixpoint aget {V} (k : list Z) (m : list (list Z * V)) : option V :=
  match m with
  | [] => None
  | (k', v) :: r => if eqbZs k k' then Some v else aget k r
  end.
Fixpoint aset {V} (k : list Z) (v : V) (m : list (list Z * V)) : list (list Z * V) :=
  match m with
  | [] => [(k, v)]
  | (k', v') :: r => if eqbZs k k' then (k', v) :: r else (k', v') :: aset k v r
  end.

(* ---------- results ---------- *)

Inductive mst :=
| MOk
| M413        (* HTTPError(413) from the reader *)
| M400        (* HTTPError(400): invalid boundary; end of data inside the part
                 headers or before a delimiter; a header line without CRLF or
                 without ':'; a continuation line before any header; a field
                 that cannot be decoded *)
| MProc       (* the part's Content-Type selects an Entity processor other than
                 default_proc (urlencoded / multipart): outside the model *)
| MUnsup      (* header syntax outside the modelled subset of parse_header *)
| MFuel.

Definition of_status (st : status) : mst :=
  match st with SOk => MOk | S413 => M413 | SFuel => MFuel | _ => MUnsup end.

Record part := Part {
  p_name : option (list Z);
  p_fname : option (list Z);
  p_ctype : list Z;                         (* content_type.value *)
  p_ctparams : list (list Z * list Z);       (* content_type.params *)
  p_body : list Z;                           (* .value, or the content of .file *)
  p_spooled : bool;                          (* .file is set *)
}.

(* ---------- Part.read_lines_to_boundary ---------- *)

(** 0: not a delimiter, 1: delimiter, 2: close delimiter *)
Definition bnd_test (b line : list Z) (prev_lf : bool) : Z :=
  if starts_dd line && prev_lf then
    let st := strip line in
    if eqbZs st b then 1 else if eqbZs st (b ++ [45; 45]) then 2 else 0
  else 0.

(** [b] is the boundary including the leading "--"; [isfile] says that output
    goes to fp_out (set from the start for a part with a filename, switched on
    when more than [maxram] bytes have been seen). *)
Fixpoint rlb_loop (fuel : nat) (c : cfg) (b : list Z) (maxram : Z)
         (delim : list Z) (prev_lf : bool) (seen : Z) (isfile : bool) (s : rd)
  : mst * list Z * bool * rd :=
  match fuel with
  | O => (MFuel, [], isfile, s)
  | S f =>
    match readline c (Some 65536) s with
    | (SOk, [], s1) => (M400, [], isfile, s1)
    | (SOk, line, s1) =>
      let t := bnd_test b line prev_lf in
      if t =? 1 then (MOk, [], isfile, s1)
      else if t =? 2 then (MOk, [], isfile, set_done s1)
      else
        let '(txt, delim', plf) := split_term (delim ++ line) in
        let seen' := if isfile then seen else seen + lenZ txt in
        let isfile' := isfile || (maxram <? seen') in
        let '(st, rest, isf, s2) := rlb_loop f c b maxram delim' plf seen' isfile' s1 in
        (st, txt ++ rest, isf, s2)
    | (st, _, s1) => (of_status st, [], isfile, s1)
    end
  end.

Definition read_lines_to_boundary (fuel : nat) (c : cfg) (b : list Z) (maxram : Z)
           (isfile : bool) (s : rd) : mst * list Z * bool * rd :=
  rlb_loop fuel c b maxram [] true 0 isfile s.

(* ---------- Part.read_headers ---------- *)

Definition hdrs := list (list Z * list Z).

Fixpoint rh_loop (fuel : nat) (c : cfg) (k : option (list Z)) (h : hdrs) (s : rd)
  : mst * hdrs * rd :=
  match fuel with
  | O => (MFuel, h, s)
  | S f =>
    match readline c None s with
    | (SOk, [], s1) => (M400, h, s1)
    | (SOk, line, s1) =>
      if eqbZs line [13; 10] then (MOk, h, s1)
      else if negb (ends_crlf line) then (M400, h, s1)
      else
        let kv :=
          match line with
          | x :: _ =>
            if (x =? 32) || (x =? 9) then
              match k with
              | Some k0 => inl (k0, strip line)
              | None => inr M400
              end
            else match split1 58 line with
                 | Some (a, b) => inl (strip a, strip b)
                 | None => inr M400
                 end
          | [] => inr M400
          end in
        match kv with
        | inr e => (e, h, s1)
        | inl (k1, v1) =>
          if negb (ascii_only k1) then (MUnsup, h, s1)
          else
            let key := title k1 in
            let v2 := match aget key h with
                      | Some (x :: e) => (x :: e) ++ [44; 32] ++ v1
                      | _ => v1
                      end in
            rh_loop f c (Some k1) (aset key v2 h) s1
        end
    | (st, _, s1) => (of_status st, h, s1)
    end
  end.

Definition read_headers (fuel : nat) (c : cfg) (s : rd) : mst * hdrs * rd :=
  rh_loop fuel c None [] s.

(* ---------- httputil.HeaderElement / parse_header (modelled subset) ---------- *)

(** split at [sep] outside double quotes *)
Fixpoint split_q (sep : Z) (l : list Z) (inq : bool) (cur : list Z) : list (list Z) :=
  match l with
  | [] => [rv cur]
  | x :: r =>
    if (x =? sep) && negb inq then rv cur :: split_q sep r false []
    else split_q sep r (if x =? 34 then negb inq else inq) (x :: cur)
  end.

Fixpoint odd_quotes (l : list Z) (acc : bool) : bool :=
  match l with
  | [] => acc
  | x :: r => odd_quotes r (if x =? 34 then negb acc else acc)
  end.

(** parse_header: a value of length >= 2 that starts and ends with a double quote loses both *)
Definition unq1 (v : list Z) : list Z :=
  match v with
  | 34 :: r => match rv r with 34 :: m => rv m | _ => v end
  | _ => v
  end.

(** Entity.__init__ uses the parsed parameter value as it is (the second strip of a leading and
    trailing double quote it used to apply is gone: fix 6dd6137) *)
Fixpoint parse_params (segs : list (list Z)) (acc : hdrs) : option hdrs :=
  match segs with
  | [] => Some acc
  | p :: r =>
    match split1 61 p with
    | None => parse_params r acc
    | Some (n, v) =>
      let name := ustrip n in
      if ascii_only name
      then parse_params r (aset (lower_a name) (unq1 (ustrip v)) acc)
      else None
    end
  end.

(** one header value -> (value, params); MUnsup outside the subset: a
    backslash, an unbalanced quote, or more than one comma-separated element *)
Definition parse_elem (v : list Z) : mst * (list Z * hdrs) :=
  if existsb (Z.eqb 92) v || odd_quotes v false then (MUnsup, ([], []))
  else match split_q 44 v false [] with
       | [_] =>
         match split_q 59 v false [] with
         | first :: rest =>
           match parse_params (map ustrip rest) [] with
           | Some ps => (MOk, (ustrip first, ps))
           | None => (MUnsup, ([], []))
           end
         | [] => (MUnsup, ([], []))
         end
       | _ => (MUnsup, ([], []))
       end.

Definition s_content_type : list Z := [67;111;110;116;101;110;116;45;84;121;112;101].
Definition s_content_disp : list Z :=
  [67;111;110;116;101;110;116;45;68;105;115;112;111;115;105;116;105;111;110].
Definition s_text_plain : list Z := [116;101;120;116;47;112;108;97;105;110].
Definition s_name : list Z := [110;97;109;101].
Definition s_filename : list Z := [102;105;108;101;110;97;109;101].
Definition s_filename_star : list Z := s_filename ++ [42].
Definition s_charset : list Z := [99;104;97;114;115;101;116].
Definition s_parts : list Z := [112;97;114;116;115].
Definition s_urlencoded : list Z :=
  [97;112;112;108;105;99;97;116;105;111;110;47;120;45;119;119;119;45;102;111;114;109;45;
   117;114;108;101;110;99;111;100;101;100].
Definition s_multipart : list Z := [109;117;108;116;105;112;97;114;116].

(** Entity.process: does the content type select a registered processor? *)
Definition before_slash (l : list Z) : list Z :=
  match split1 47 l with Some (a, _) => a | None => l end.
Definition is_processor (ct : list Z) : bool :=
  eqbZs ct s_urlencoded || eqbZs (before_slash ct) s_multipart.

Record meta := Meta {
  m_name : option (list Z);
  m_fname : option (list Z);
  m_ctype : list Z;
  m_ctparams : hdrs;
}.

(** Entity.__init__ for a Part *)
Definition mk_meta (h : hdrs) : mst * meta :=
  let bad := Meta None None [] [] in
  let '(st1, (ct, ctp)) :=
    match aget s_content_type h with
    | Some (x :: r) => parse_elem (x :: r)
    | _ => (MOk, (s_text_plain, []))
    end in
  match st1 with
  | MOk =>
    match aget s_content_disp h with
    | Some (x :: r) =>
      let '(st2, (_, dp)) := parse_elem (x :: r) in
      match st2 with
      | MOk =>
        match aget s_filename_star dp with
        | Some _ => (MUnsup, bad)
        | None => (MOk, Meta (aget s_name dp) (aget s_filename dp) ct ctp)
        end
      | e => (e, bad)
      end
    | _ => (MOk, Meta None None ct ctp)
    end
  | e => (e, bad)
  end.

(* ---------- process_multipart ---------- *)

(** [re.match('^[ -~]{0,200}[!-~]$', ib)] (for a value without line breaks) *)
Definition printable (z : Z) : bool := (32 <=? z) && (z <=? 126).
Definition valid_boundary (ib : list Z) : bool :=
  forallb printable ib && (lenZ ib <=? 201) &&
  match rv ib with x :: _ => negb (x =? 32) | [] => false end.

Fixpoint first_marker (fuel : nat) (c : cfg) (b : list Z) (s : rd) : mst * bool * rd :=
  match fuel with
  | O => (MFuel, false, s)
  | S f =>
    match readline c None s with
    | (SOk, [], s1) => (MOk, false, s1)
    | (SOk, line, s1) => if eqbZs (strip line) b then (MOk, true, s1)
                         else first_marker f c b s1
    | (st, _, s1) => (of_status st, false, s1)
    end
  end.

Fixpoint parts_loop (fuel fuel0 : nat) (c : cfg) (b : list Z) (maxram : Z) (s : rd)
  : mst * list part * rd :=
  match fuel with
  | O => (MFuel, [], s)
  | S f =>
    match read_headers fuel0 c s with
    | (MOk, h, s1) =>
      match mk_meta h with
      | (MOk, m) =>
        if is_processor (m_ctype m) then (MProc, [], s1)
        else
          let isfile := match m_fname m with Some (_ :: _) => true | _ => false end in
          match read_lines_to_boundary fuel0 c b maxram isfile s1 with
          | (MOk, body, spooled, s2) =>
            let p := Part (m_name m) (m_fname m) (m_ctype m) (m_ctparams m) body spooled in
            if done s2 then (MOk, [p], s2)
            else let '(st, ps, s3) := parts_loop f fuel0 c b maxram s2 in (st, p :: ps, s3)
          | (e, _, _, s2) => (e, [], s2)
          end
      | (e, _) => (e, [], s1)
      end
    | (e, _, s1) => (e, [], s1)
    end
  end.

Definition process_multipart (fuel : nat) (c : cfg) (ib : list Z) (maxram : Z) (s : rd)
  : mst * list part * rd :=
  if negb (valid_boundary ib) then (M400, [], s)
  else
    let b := 45 :: 45 :: ib in
    match first_marker fuel c b s with
    | (MOk, true, s1) => parts_loop fuel fuel c b maxram s1
    | (st, _, s1) => (st, [], s1)
    end.

(* ---------- fullvalue / decode_entity ---------- *)

Definition cont (z : Z) : bool := (128 <=? z) && (z <=? 191).
Definition within (lo hi z : Z) : bool := (lo <=? z) && (z <=? hi).

(** strict UTF-8 (bytes.decode('utf-8')); None = UnicodeDecodeError *)
Fixpoint utf8 (l : list Z) : option (list Z) :=
  match l with
  | [] => Some []
  | a :: r =>
    if a <? 128 then option_map (cons a) (utf8 r)
    else if within 194 223 a then
      match r with
      | b :: r1 => if cont b then option_map (cons ((a - 192) * 64 + (b - 128))) (utf8 r1)
                   else None
      | _ => None
      end
    else if within 224 239 a then
      match r with
      | b :: c :: r2 =>
        if within (if a =? 224 then 160 else 128) (if a =? 237 then 159 else 191) b && cont c
        then option_map (cons ((a - 224) * 4096 + (b - 128) * 64 + (c - 128))) (utf8 r2)
        else None
      | _ => None
      end
    else if within 240 244 a then
      match r with
      | b :: c :: d :: r3 =>
        if within (if a =? 240 then 144 else 128) (if a =? 244 then 143 else 191) b
           && cont c && cont d
        then option_map (cons ((a - 240) * 262144 + (b - 128) * 4096 + (c - 128) * 64 + (d - 128)))
                        (utf8 r3)
        else None
      | _ => None
      end
    else None
  end.

(** codec names the model knows (compared lower-cased): 1 = latin-1, 2 = utf-8 or ascii *)
Definition s_iso : list Z := [105;115;111;45;56;56;53;57;45;49].
Definition s_latin1 : list Z := [108;97;116;105;110;45;49].
Definition s_utf8 : list Z := [117;116;102;45;56].
Definition s_usascii : list Z := [117;115;45;97;115;99;105;105].
Definition s_ascii : list Z := [97;115;99;105;105].
Definition charset_kind (cs : list Z) : Z :=
  let l := lower_a cs in
  if eqbZs l s_iso || eqbZs l s_latin1 then 1
  else if eqbZs l s_utf8 || eqbZs l s_usascii || eqbZs l s_ascii then 2
  else 0.

(** Part.fullvalue(): attempt_charsets = [charset param] + ['us-ascii', 'utf-8'] *)
Definition decode_field (p : part) : mst * list Z :=
  let k := match aget s_charset (p_ctparams p) with
           | Some (x :: r) => charset_kind (x :: r)
           | _ => 2
           end in
  if k =? 0 then (MUnsup, [])
  else if k =? 1 then (MOk, p_body p)
  else match utf8 (p_body p) with
       | Some t => (MOk, t)
       | None => (M400, [])
       end.

(* ---------- process_multipart_form_data / _old_process_multipart ---------- *)

Inductive value := VField (t : list Z) | VPart (p : part).

(** name -> (is a list?, values in wire order) *)
Definition params := list (list Z * (bool * list value)).

Definition add_param (k : list Z) (v : value) (m : params) : params :=
  match aget k m with
  | Some (_, vs) => aset k (true, vs ++ [v]) m
  | None => m ++ [(k, (false, [v]))]
  end.

Definition part_value (p : part) : mst * value :=
  match p_fname p with
  | None => let '(st, t) := decode_field p in (st, VField t)
  | Some _ => (MOk, VPart p)
  end.

(** old = false: process_multipart_form_data (nameless parts are kept in
    entity.parts); old = true: _old_process_multipart (they go under 'parts',
    entity.parts keeps every part). *)
Fixpoint collect (old : bool) (ps : list part) (m : params) (kept : list part)
  : mst * params * list part :=
  match ps with
  | [] => (MOk, m, kept)
  | p :: r =>
    match p_name p, old with
    | None, false => collect old r m (kept ++ [p])
    | nm, _ =>
      let key := match nm with Some n => n | None => s_parts end in
      match part_value p with
      | (MOk, v) => collect old r (add_param key v m) (if old then kept ++ [p] else kept)
      | (e, _) => (e, m, kept)
      end
    end
  end.

Definition process_body (fuel : nat) (old : bool) (c : cfg) (ib : list Z) (maxram : Z) (s : rd)
  : mst * params * list part * rd :=
  match process_multipart fuel c ib maxram s with
  | (MOk, ps, s1) => let '(st, m, kept) := collect old ps [] [] in (st, m, kept, s1)
  | (e, _, s1) => (e, [], [], s1)
  end.

(* ---------- the printer ---------- *)

Definition CRLF : list Z := [13; 10].
Definition DD : list Z := [45; 45].

(** a part on the wire: its header block (every line CRLF-terminated, without
    the empty line) and its content *)
Definition encode_part (b : list Z) (hc : list Z * list Z) : list Z :=
  b ++ CRLF ++ fst hc ++ CRLF ++ snd hc ++ CRLF.

(** [pre]: preamble (complete lines); [tail]: what follows the close delimiter
    (CRLF, nothing, or CRLF and an epilogue) *)
Definition encode_raw (ib : list Z) (pre : list Z) (hcs : list (list Z * list Z)) (tail : list Z)
  : list Z :=
  let b := DD ++ ib in
  pre ++ concat (map (encode_part b) hcs) ++ b ++ DD ++ tail.

Definition s_cd_prefix : list Z :=  (* Content-Disposition: form-data *)
  s_content_disp ++ [58; 32; 102;111;114;109;45;100;97;116;97].
Definition quoted (l : list Z) : list Z := [34] ++ l ++ [34].

(** the header block the generator emits for (name, filename, content type) *)
Definition encode_headers (name fname : option (list Z)) (ct : option (list Z)) : list Z :=
  (match name, fname with
   | None, None => []
   | _, _ =>
     s_cd_prefix
     ++ match name with Some n => [59; 32] ++ s_name ++ [61] ++ quoted n | None => [] end
     ++ match fname with Some f => [59; 32] ++ s_filename ++ [61] ++ quoted f | None => [] end
     ++ CRLF
   end)
  ++ match ct with Some t => s_content_type ++ [58; 32] ++ t ++ CRLF | None => [] end.

Record spart := SPart {
  sp_name : option (list Z);
  sp_fname : option (list Z);
  sp_ct : option (list Z);        (* full Content-Type header value, if sent *)
  sp_body : list Z;
}.

Definition encode_mp (ib pre : list Z) (ps : list spart) (tail : list Z) : list Z :=
  encode_raw ib pre
    (map (fun p => (encode_headers (sp_name p) (sp_fname p) (sp_ct p), sp_body p)) ps) tail.

(* ---------- s-expression boundary ---------- *)

Definition enc_mst (e : mst) : sx :=
  I match e with
    | MOk => 0 | M413 => 413 | M400 => 400 | MProc => 4 | MUnsup => 5 | MFuel => 6
    end.

Definition of_optZs (o : option (list Z)) : sx :=
  match o with Some l => L [of_Zs l] | None => L [] end.
Definition sx_optZs (x : sx) : option (list Z) :=
  match x with L (y :: _) => Some (sx_Zs y) | _ => None end.

Definition enc_part (p : part) : sx :=
  L [ of_optZs (p_name p); of_optZs (p_fname p); of_Zs (p_ctype p);
      L (map (fun kv => L [of_Zs (fst kv); of_Zs (snd kv)]) (p_ctparams p));
      of_Zs (p_body p); of_bool (p_spooled p) ].

Definition enc_value (v : value) : sx :=
  match v with
  | VField t => L [I 0; of_Zs t]
  | VPart p => L [I 1; enc_part p]
  end.

Definition dec_spart (x : sx) : spart :=
  SPart (sx_optZs (nth_sx 0 x)) (sx_optZs (nth_sx 1 x)) (sx_optZs (nth_sx 2 x))
        (sx_Zs (nth_sx 3 x)).

(** case = (body frags (len?) bufsize maxram old ib (printer?))
      printer = (pre sparts tail): when present the result also says whether
      [encode_mp] prints exactly the first [len] bytes of [body]
    result = (status params kept taken done printer_ok) *)
Definition run_C04 (x : sx) : sx :=
  let body := sx_Zs (nth_sx 0 x) in
  let fr := sx_Zs (nth_sx 1 x) in
  let len := sx_optZ (nth_sx 2 x) in
  let c := Cfg len 0 (sx_Z (nth_sx 3 x)) true in
  let maxram := sx_Z (nth_sx 4 x) in
  let old := sx_bool (nth_sx 5 x) in
  let ib := sx_Zs (nth_sx 6 x) in
  let pr := match sx_opt (nth_sx 7 x) with
            | Some p =>
              let printed := encode_mp ib (sx_Zs (nth_sx 0 p))
                                       (map dec_spart (sx_list (nth_sx 1 p)))
                                       (sx_Zs (nth_sx 2 p)) in
              of_bool (eqbZs printed (match len with Some n => takeZ n body | None => body end))
            | None => L []
            end in
  let s0 := init body fr in
  let '(st, m, kept, s) := process_body (S (length body)) old c ib maxram s0 in
  match st with
  | MOk =>
    L [ enc_mst st;
        L (map (fun kv => L [of_Zs (fst kv); of_bool (fst (snd kv));
                              L (map enc_value (snd (snd kv)))]) m);
        L (map enc_part kept); I (taken s); of_bool (done s); pr ]
  | _ => L [ enc_mst st; L []; L []; I (taken s); of_bool (done s); pr ]
  end.
