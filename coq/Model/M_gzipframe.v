(** Model of cherrypy.lib.encoding.compress: the hand-rolled gzip member
    (RFC 1952) around zlib's raw deflate, as a chunk generator, together with
    an RFC 1952 member reader [gunzip] that serves as the specification.
    zlib itself is external: [zinit/zcompress/zflush/inflate] are section
    variables.  Definitions only; proofs live in Proof/P_gzipframe.v. *)
From Coq Require Import ZArith List Bool.
From CV Require Import Lib.Sx Lib.ListZ.
Import ListNotations.
Open Scope Z_scope.

(* ---------- 32-bit little-endian fields (struct.pack('<L', v)) ---------- *)

Definition mask32 : Z := 4294967295.          (* int('FFFFFFFF', 16) *)

Definition le32 (v : Z) : list Z :=
  [ v mod 256; (v / 256) mod 256; (v / 256 / 256) mod 256; (v / 256 / 256 / 256) mod 256 ].

Definition unle32 (b : list Z) : option Z :=
  match b with
  | [b0; b1; b2; b3] => Some (b0 + 256 * (b1 + 256 * (b2 + 256 * b3)))
  | _ => None
  end.

(* ---------- CRC-32 (zlib.crc32) as a fold over the bytes ---------- *)

Definition crc_poly : Z := 3988292384.        (* 0xEDB88320, reflected *)

Definition crc_shift (x : Z) : Z :=
  if Z.odd x then Z.lxor (Z.shiftr x 1) crc_poly else Z.shiftr x 1.

(** one byte into the (inverted) register *)
Definition crc_byte (reg b : Z) : Z :=
  crc_shift (crc_shift (crc_shift (crc_shift (crc_shift (crc_shift (crc_shift (crc_shift
    (Z.lxor reg b)))))))).

(** zlib.crc32(data, crc): pre- and post-inversion around the fold *)
Definition crc32_update (crc : Z) (data : list Z) : Z :=
  Z.lxor (fold_left crc_byte data (Z.lxor crc mask32)) mask32.

Definition crc32 (data : list Z) : Z := crc32_update 0 data.   (* zlib.crc32(b'') = 0 *)

(* ---------- the generator ---------- *)

Definition xfl_of_level (level : Z) : Z :=
  if level =? 9 then 2 else if level =? 1 then 4 else 0.

(** the ten header bytes, in the six pieces the generator yields *)
Definition gz_header (level now : Z) : list (list Z) :=
  [ [31; 139]; [8]; [0]; le32 (Z.land now mask32); [xfl_of_level level]; [255] ].

Section Zlib.
  Variable zst : Type.                                   (* state of a zlib.compressobj *)
  Variable zinit : Z -> zst.                             (* compressobj(level, DEFLATED, -MAX_WBITS, ..) *)
  Variable zcompress : zst -> list Z -> list Z * zst.    (* zobj.compress(line) *)
  Variable zflush : zst -> list Z.                       (* zobj.flush() *)
  (** a raw-deflate reader: the decoded bytes and the bytes behind the end of
      the (self-terminating) deflate stream *)
  Variable inflate : list Z -> option (list Z * list Z).

  (** the [for line in body] loop: (chunks yielded, crc, size) *)
  Fixpoint gz_loop (z : zst) (crc size : Z) (body : list (list Z))
    : list (list Z) * zst * Z * Z :=
    match body with
    | [] => ([], z, crc, size)
    | line :: rest =>
      let size' := size + lenZ line in
      let crc' := crc32_update crc line in
      let '(out, z') := zcompress z line in
      let '(outs, zf, crcf, sizef) := gz_loop z' crc' size' rest in
      (out :: outs, zf, crcf, sizef)
    end.

  (** compress(body, compress_level), [now] = int(time.time()) *)
  Definition compress (level now : Z) (body : list (list Z)) : list (list Z) :=
    let '(outs, zf, crc, size) := gz_loop (zinit level) (crc32 []) 0 body in
    gz_header level now ++ outs ++
    [ zflush zf; le32 (Z.land crc mask32); le32 (Z.land size mask32) ].

  (** what the deflate object emitted for a chunk list (ghost, for the hypothesis) *)
  Fixpoint zstream (z : zst) (body : list (list Z)) : list Z :=
    match body with
    | [] => zflush z
    | line :: rest => let '(out, z') := zcompress z line in out ++ zstream z' rest
    end.

  (* ---------- RFC 1952 member reader (the specification) ---------- *)

  Inductive gz_result :=
  | GzOk (data : list Z)
  | GzTruncated | GzBadMagic | GzBadMethod | GzReservedFlags
  | GzInflateError | GzBadTrailer | GzBadCRC | GzBadISIZE.

  (** skip a zero-terminated field (FNAME / FCOMMENT) *)
  Fixpoint skip_zstring (b : list Z) : option (list Z) :=
    match b with
    | [] => None
    | x :: r => if x =? 0 then Some r else skip_zstring r
    end.

  Definition skip_if (flag : bool) (f : list Z -> option (list Z)) (b : list Z) : option (list Z) :=
    if flag then f b else Some b.

  Definition skip_extra (b : list Z) : option (list Z) :=
    match b with
    | l0 :: l1 :: r => let n := l0 + 256 * l1 in
                       if lenZ r <? n then None else Some (dropZ n r)
    | _ => None
    end.

  Definition skip_hcrc (b : list Z) : option (list Z) :=
    match b with _ :: _ :: r => Some r | _ => None end.

  Definition bind {A B} (o : option A) (f : A -> option B) : option B :=
    match o with Some a => f a | None => None end.

  Definition gunzip (b : list Z) : gz_result :=
    match b with
    | id1 :: id2 :: cm :: flg :: _ :: _ :: _ :: _ :: _ :: _ :: rest =>
      if negb ((id1 =? 31) && (id2 =? 139)) then GzBadMagic
      else if negb (cm =? 8) then GzBadMethod
      else if negb (Z.land flg 224 =? 0) then GzReservedFlags
      else
        match bind (bind (bind (skip_if (Z.testbit flg 2) skip_extra rest)
                               (skip_if (Z.testbit flg 3) skip_zstring))
                         (skip_if (Z.testbit flg 4) skip_zstring))
                   (skip_if (Z.testbit flg 1) skip_hcrc) with
        | None => GzTruncated
        | Some payload =>
          match inflate payload with
          | None => GzInflateError
          | Some (data, trailer) =>
            match unle32 (takeZ 4 trailer), unle32 (dropZ 4 trailer) with
            | Some c, Some n =>
              if negb (c =? Z.land (crc32 data) mask32) then GzBadCRC
              else if negb (n =? (lenZ data) mod 4294967296) then GzBadISIZE
              else GzOk data
            | _, _ => GzBadTrailer       (* not exactly eight bytes behind the deflate stream *)
            end
          end
        end
    | _ => GzTruncated
    end.
End Zlib.

(* ---------- a concrete deflate: stored blocks only (RFC 1951, BTYPE=00) ----------
   Used to run the generator without zlib (the output is a stream any gzip
   reader accepts) and as the witness that the section hypothesis is satisfiable. *)

Definition st_block (final : Z) (data : list Z) : list Z :=
  let n := lenZ data in
  [final; n mod 256; n / 256; 255 - n mod 256; 255 - n / 256] ++ data.

(** a line of any length as non-final stored blocks of at most 65535 bytes;
    [fuel] bounds the number of blocks (length data + 1 suffices) *)
Fixpoint st_blocks (fuel : nat) (data : list Z) : list Z :=
  match fuel with
  | O => []
  | S f =>
    match data with
    | [] => []
    | _ => st_block 0 (takeZ 65535 data) ++ st_blocks f (dropZ 65535 data)
    end
  end.

Definition st_compress (z : unit) (line : list Z) : list Z * unit :=
  (st_blocks (S (length line)) line, tt).
Definition st_flush (z : unit) : list Z := st_block 1 [].
Definition st_init (level : Z) : unit := tt.

(** reader for streams of stored blocks; anything else is an error *)
Fixpoint st_inflate_go (fuel : nat) (acc : list Z) (b : list Z) : option (list Z * list Z) :=
  match fuel with
  | O => None
  | S f =>
    match b with
    | hd :: l0 :: l1 :: n0 :: n1 :: r =>
      let n := l0 + 256 * l1 in
      if negb ((hd =? 0) || (hd =? 1)) then None
      else if negb ((n0 =? 255 - l0) && (n1 =? 255 - l1)) then None
      else if lenZ r <? n then None
      else if hd =? 1 then Some (acc ++ takeZ n r, dropZ n r)
      else st_inflate_go f (acc ++ takeZ n r) (dropZ n r)
    | _ => None
    end
  end.
Definition st_inflate (b : list Z) : option (list Z * list Z) := st_inflate_go (S (length b)) [] b.

Definition compress_stored := compress unit st_init st_compress st_flush.
Definition gunzip_stored := gunzip st_inflate.

Definition enc_gz_result (r : gz_result) : sx :=
  match r with
  | GzOk d => L [I 0; of_Zs d]
  | GzTruncated => L [I 1] | GzBadMagic => L [I 2] | GzBadMethod => L [I 3]
  | GzReservedFlags => L [I 4] | GzInflateError => L [I 5] | GzBadTrailer => L [I 6]
  | GzBadCRC => L [I 7] | GzBadISIZE => L [I 8]
  end.
