(** C13 - session access is mutually exclusive and the lock is always released.

    (a) An interleaving transition system for the RAM backend (cherrypy/lib/sessions.py,
        RamSession) at the granularity of the *visible* steps of the anchored code (the
        park points of vcheck/impl/sched_c13.py): every fetch of the shared tables
        [cache] / [locks] for the dict operation that follows, and every acquire /
        acquire(blocking=False) / release of a per-id lock object.

          request thread:   Session.__init__ (id in cache? else generate) ;
                            acquire_lock ;  load ; n := n + 1 ; [regenerate] ; save() ; close()
          acquire_lock      locked := True ; L := locks.setdefault(id, RLock()) ; L.acquire()
            as written      ... done                                              [c_fixed = false]
            repaired        ... ; if locks.get(id) is L: done  else L.release() ; again   [c_fixed = true]
          release_lock      L := locks[id]  (KeyError) ; L.release() (RuntimeError) ; locked := False
          _regenerate       cache.pop(id) ; release_lock ; id := fresh ; id in cache? ; acquire_lock
          clean_up          first loop over a snapshot of cache (del cache[id]; locks[id].acquire(False);
                            locks.pop(id); release) and second loop over list(locks)
                            (id not in cache and locks[id].acquire(False); pop; release)

        Lock objects are re-entrant {owner; count}; the table maps ids to lock object
        numbers; a popped lock object keeps existing (a thread may still hold a reference).
        Session data of the RAM backend is a dict object SHARED between the cache entry and
        the session that loaded it: [heap] maps dict numbers to the counter stored in them.

    (b) The session hooks as data (point, callable, priority, failsafe) and the lock
        bookkeeping of ONE request driven by HookMap.run semantics, for every outcome.

    Definitions only. *)
From Coq Require Import ZArith List Bool.
From CV Require Import Lib.Sx Lib.ListZ.
Import ListNotations.
Open Scope Z_scope.

(* ------------------------------------------------------------------ *)
(** * insertion-ordered dicts with integer keys, Z-indexed arrays *)

Fixpoint aget {A} (k : Z) (l : list (Z * A)) : option A :=
  match l with
  | [] => None
  | (k', v) :: r => if k' =? k then Some v else aget k r
  end.
Fixpoint adel {A} (k : Z) (l : list (Z * A)) : list (Z * A) :=
  match l with
  | [] => []
  | (k', v) :: r => if k' =? k then adel k r else (k', v) :: adel k r
  end.
(** d[k] = v: in place when the key is present, else appended *)
Fixpoint aset {A} (k : Z) (v : A) (l : list (Z * A)) : list (Z * A) :=
  match l with
  | [] => [(k, v)]
  | (k', v') :: r => if k' =? k then (k, v) :: r else (k', v') :: aset k v r
  end.
Definition ahas {A} (k : Z) (l : list (Z * A)) : bool :=
  match aget k l with Some _ => true | None => false end.

Fixpoint updN {A} (n : Z) (f : A -> A) (l : list A) : list A :=
  match l with
  | [] => []
  | x :: r => if n =? 0 then f x :: r else x :: updN (n - 1) f r
  end.
Fixpoint seqN {A} (start : Z) (l : list A) : list Z :=
  match l with [] => [] | _ :: r => start :: seqN (start + 1) r end.
Definition b2z (b : bool) : Z := if b then 1 else 0.

(* ------------------------------------------------------------------ *)
(** * (a) the interleaving system *)

Record lockobj := LO { l_owner : option Z; l_count : Z }.
Definition free_for (me : Z) (o : lockobj) : bool :=
  match l_owner o with None => true | Some x => x =? me end.
Definition owned_by (me : Z) (o : lockobj) : bool :=
  match l_owner o with Some x => x =? me | None => false end.
Definition lock_acq (me : Z) (o : lockobj) : lockobj := LO (Some me) (l_count o + 1).
Definition lock_rel (o : lockobj) : lockobj :=
  if l_count o - 1 <=? 0 then LO None 0 else LO (l_owner o) (l_count o - 1).

Record centry := CE { c_data : Z (* dict object *); c_exp : bool (* expiration_time <= now *) }.

Inductive after := AfRegen | AfSave | AfClose.      (* which call of release_lock *)
Inductive rpc :=
| RBegin
| RExists (first : bool)       (* `self.id in self.cache` for the cookie id / for a generated id *)
| RSetdef                      (* locks.setdefault(id, RLock()) *)
| RAcquire (l : Z)             (* L.acquire() *)
| RCheck (l : Z)               (* locks.get(id) is L        (repaired acquire_lock only) *)
| RUndo (l : Z)                (* L.release() before the retry  (repaired only) *)
| RLoad                        (* cache.get(id) *)
| RDelete                      (* cache.pop(id, None) in _regenerate *)
| RRelLook (a : after)         (* locks[id] in release_lock *)
| RRelease (l : Z) (a : after) (* L.release() in release_lock *)
| RSave                        (* cache[id] = (data, expiry) *)
| RDone.

Record rthread := RT {
  r_pc : rpc;
  r_kind : Z;              (* 0 read-modify-write  1 handler fails after the write  2 regenerate mid-request  3 no access *)
  r_sid : Z;               (* Session.id *)
  r_locked : bool;         (* Session.locked *)
  r_loaded : bool;         (* Session.loaded *)
  r_data : Z;              (* Session._data : dict object *)
  r_gen : Z;               (* ids generated so far *)
  r_regen : bool;          (* inside the handler's regenerate() *)
  r_cs : bool;             (* ghost: between the return of acquire_lock and the release of the lock *)
  r_own : option Z;        (* ghost: the lock object this thread has acquired *)
  r_rd : option (Z * Z) }. (* ghost: (id, number of saves of id) when this thread loaded, until it saves *)

Inductive spc :=
| SBegin | SIdle | SCopy
| SDel (id : Z) | SLook1 (id : Z) | STry1 (id l : Z) | SPop1 (id l : Z) | SRel1 (l : Z)
| SList | SIn (id : Z) | SLook2 (id : Z) | STry2 (id l : Z) | SPop2 (id l : Z) | SRel2 (l : Z)
| SDone.

Record sweeper := SW {
  s_pc : spc;
  s_left : Z;                    (* clean_up() calls not yet begun *)
  s_todo1 : list (Z * bool);     (* rest of the snapshot cache.copy().items(): (id, expired) *)
  s_todo2 : list Z }.            (* rest of list(self.locks) *)

Record cfg := Cfg {
  c_fixed : bool;                (* repaired acquire_lock *)
  c_cookie : option Z }.         (* session id presented by every request; None = no cookie *)

Record st := St {
  cache : list (Z * centry);
  heap : list Z;                 (* dict object -> the counter 'n' stored in it *)
  table : list (Z * Z);          (* RamSession.locks : id -> lock object *)
  objs : list lockobj;           (* every lock object ever installed *)
  reqs : list rthread;
  sw : sweeper;
  jrn : list (list Z) }.         (* newest first *)

(** journal events
      [0; tid; id]        acquire_lock returned            [1; tid; id]      release_lock called
      [2; tid; id; v]     counter read after load          [3; tid; id; v]   counter saved
      [4; tid; code]      exception (1 KeyError, 2 RuntimeError)
      [5; tid; locked]    request over                     [6; tid; id]      cache entry removed
      [7; tid; id; l]     lock object popped               [8; tid; id; l]   lock object installed *)

Definition set_pc (p : rpc) (t : rthread) : rthread :=
  RT p (r_kind t) (r_sid t) (r_locked t) (r_loaded t) (r_data t) (r_gen t) (r_regen t) (r_cs t) (r_own t) (r_rd t).
Definition set_locked (b : bool) (t : rthread) : rthread :=
  RT (r_pc t) (r_kind t) (r_sid t) b (r_loaded t) (r_data t) (r_gen t) (r_regen t) (r_cs t) (r_own t) (r_rd t).
Definition set_regen (b : bool) (t : rthread) : rthread :=
  RT (r_pc t) (r_kind t) (r_sid t) (r_locked t) (r_loaded t) (r_data t) (r_gen t) b (r_cs t) (r_own t) (r_rd t).
Definition set_cs (b : bool) (t : rthread) : rthread :=
  RT (r_pc t) (r_kind t) (r_sid t) (r_locked t) (r_loaded t) (r_data t) (r_gen t) (r_regen t) b (r_own t) (r_rd t).
Definition set_own (o : option Z) (t : rthread) : rthread :=
  RT (r_pc t) (r_kind t) (r_sid t) (r_locked t) (r_loaded t) (r_data t) (r_gen t) (r_regen t) (r_cs t) o (r_rd t).
Definition set_rd (o : option (Z * Z)) (t : rthread) : rthread :=
  RT (r_pc t) (r_kind t) (r_sid t) (r_locked t) (r_loaded t) (r_data t) (r_gen t) (r_regen t) (r_cs t) (r_own t) o.
Definition set_loaded (d : Z) (t : rthread) : rthread :=
  RT (r_pc t) (r_kind t) (r_sid t) (r_locked t) true d (r_gen t) (r_regen t) (r_cs t) (r_own t) (r_rd t).
(** self.id = generate_id() *)
Definition new_id (tid : Z) (t : rthread) : rthread :=
  RT (r_pc t) (r_kind t) (100 + 10 * tid + r_gen t) (r_locked t) (r_loaded t) (r_data t) (r_gen t + 1)
     (r_regen t) (r_cs t) (r_own t) (r_rd t).
Definition set_sid (id : Z) (t : rthread) : rthread :=
  RT (r_pc t) (r_kind t) id (r_locked t) (r_loaded t) (r_data t) (r_gen t) (r_regen t) (r_cs t) (r_own t) (r_rd t).

Definition put (tid : Z) (t : rthread) (s : st) : st :=
  St (cache s) (heap s) (table s) (objs s) (updN tid (fun _ => t) (reqs s)) (sw s) (jrn s).
Definition emit (e : list Z) (s : st) : st :=
  St (cache s) (heap s) (table s) (objs s) (reqs s) (sw s) (e :: jrn s).
Definition set_cache (c : list (Z * centry)) (s : st) : st :=
  St c (heap s) (table s) (objs s) (reqs s) (sw s) (jrn s).
Definition set_heap (h : list Z) (s : st) : st :=
  St (cache s) h (table s) (objs s) (reqs s) (sw s) (jrn s).
Definition set_table (t : list (Z * Z)) (s : st) : st :=
  St (cache s) (heap s) t (objs s) (reqs s) (sw s) (jrn s).
Definition set_objs (o : list lockobj) (s : st) : st :=
  St (cache s) (heap s) (table s) o (reqs s) (sw s) (jrn s).
Definition set_sw (w : sweeper) (s : st) : st :=
  St (cache s) (heap s) (table s) (objs s) (reqs s) w (jrn s).

(** number of saves of session [id] so far (ghost, read off the journal) *)
Definition is_save (id : Z) (e : list Z) : bool :=
  match e with k :: _ :: id' :: _ => (k =? 3) && (id' =? id) | _ => false end.
Fixpoint count {A} (f : A -> bool) (l : list A) : Z :=
  match l with [] => 0 | x :: r => (if f x then 1 else 0) + count f r end.
Definition ver (s : st) (id : Z) : Z := count (is_save id) (jrn s).

Definition heap_get (d : Z) (s : st) : Z := match nthZ d (heap s) with Some v => v | None => 0 end.

(** ** request threads: continuations (what runs, within one step, after a visible instruction) *)

Definition finish (tid : Z) (t : rthread) (s : st) : st :=
  emit [5; tid; b2z (r_locked t)] (put tid (set_pc RDone t) s).

(** sessions.close() up to its first visible instruction *)
Definition do_close (tid : Z) (t : rthread) (s : st) : st :=
  if r_locked t then emit [1; tid; r_sid t] (put tid (set_pc (RRelLook AfClose) t) s)
  else finish tid t s.

(** sessions.save() -> Session.save() up to its first visible instruction *)
Definition do_save (tid : Z) (t : rthread) (s : st) : st :=
  if r_loaded t then put tid (set_pc RSave t) s
  else if r_locked t then emit [1; tid; r_sid t] (put tid (set_pc (RRelLook AfSave) t) s)
  else do_close tid t s.

(** release_lock raised: where the exception goes *)
Definition rel_fail (code : Z) (a : after) (tid : Z) (t : rthread) (s : st) : st :=
  let s1 := emit [4; tid; code] s in
  match a with
  | AfRegen => do_close tid (set_regen false t) s1   (* the handler failed: no save, close() still runs *)
  | AfSave => do_close tid t s1
  | AfClose => finish tid t s1
  end.

(** release_lock returned *)
Definition rel_done (a : after) (tid : Z) (t : rthread) (s : st) : st :=
  let t1 := set_rd None (set_own None (set_cs false (set_locked false t))) in
  match a with
  | AfRegen => put tid (set_pc (RExists false) (new_id tid t1)) s
  | AfSave => do_close tid t1 s
  | AfClose => finish tid t1 s
  end.

(** acquire_lock begins *)
Definition start_acquire (tid : Z) (t : rthread) (s : st) : st :=
  put tid (set_pc RSetdef (set_locked true t)) s.

(** acquire_lock returned *)
Definition after_acquire (tid : Z) (t : rthread) (s : st) : st :=
  let t1 := set_cs true t in
  let s1 := emit [0; tid; r_sid t] s in
  if r_regen t1 then do_save tid (set_regen false t1) s1         (* regenerate() and the handler return *)
  else if r_kind t1 =? 3 then do_save tid t1 s1
  else put tid (set_pc RLoad t1) s1.

Definition rstep (cf : cfg) (tid : Z) (t : rthread) (s : st) : option (Z * st) :=
  match r_pc t with
  | RBegin =>
    Some (0, match c_cookie cf with
             | Some id => put tid (set_pc (RExists true) (set_sid id t)) s
             | None => put tid (set_pc (RExists false) (new_id tid t)) s
             end)
  | RExists first =>
    Some (10,
      if ahas (r_sid t) (cache s)
      then if first then start_acquire tid t s else put tid (new_id tid t) s
      else if first then put tid (set_pc (RExists false) (new_id tid t)) s else start_acquire tid t s)
  | RSetdef =>
    Some (20,
      match aget (r_sid t) (table s) with
      | Some l => put tid (set_pc (RAcquire l) t) s
      | None =>
        let l := lenZ (objs s) in
        emit [8; tid; r_sid t; l]
             (put tid (set_pc (RAcquire l) t)
                  (set_table (table s ++ [(r_sid t, l)]) (set_objs (objs s ++ [LO None 0]) s)))
      end)
  | RAcquire l =>
    match nthZ l (objs s) with
    | Some o =>
      if free_for tid o then
        let s1 := set_objs (updN l (lock_acq tid) (objs s)) s in
        let t1 := set_own (Some l) t in
        Some (40, if c_fixed cf then put tid (set_pc (RCheck l) t1) s1 else after_acquire tid t1 s1)
      else None
    | None => None
    end
  | RCheck l =>
    Some (20, match aget (r_sid t) (table s) with
              | Some l' => if l' =? l then after_acquire tid t s else put tid (set_pc (RUndo l) t) s
              | None => put tid (set_pc (RUndo l) t) s
              end)
  | RUndo l =>
    Some (42, put tid (set_pc RSetdef (set_own None t)) (set_objs (updN l lock_rel (objs s)) s))
  | RLoad =>
    (* load(): data is the cache's own dict object unless absent or expired; then sess['n'] = v + 1 *)
    let '(d, s0) := match aget (r_sid t) (cache s) with
                    | Some e => if c_exp e then (lenZ (heap s), set_heap (heap s ++ [0]) s) else (c_data e, s)
                    | None => (lenZ (heap s), set_heap (heap s ++ [0]) s)
                    end in
    let v := heap_get d s0 in
    let s1 := emit [2; tid; r_sid t; v] (set_heap (updN d (fun _ => v + 1) (heap s0)) s0) in
    let t1 := set_rd (Some (r_sid t, ver s (r_sid t))) (set_loaded d t) in
    Some (11,
      if r_kind t =? 0 then do_save tid t1 s1
      else if r_kind t =? 1 then do_close tid t1 s1
      else put tid (set_pc RDelete (set_regen true t1)) s1)
  | RDelete =>
    let s1 := if ahas (r_sid t) (cache s) then emit [6; tid; r_sid t] (set_cache (adel (r_sid t) (cache s)) s)
              else s in
    Some (13, emit [1; tid; r_sid t] (put tid (set_pc (RRelLook AfRegen) (set_rd None t)) s1))
  | RRelLook a =>
    Some (21,
      match aget (r_sid t) (table s) with
      | None => rel_fail 1 a tid t s
      | Some l =>
        match nthZ l (objs s) with
        | Some o => if owned_by tid o then put tid (set_pc (RRelease l a) t) s else rel_fail 2 a tid t s
        | None => rel_fail 2 a tid t s
        end
      end)
  | RRelease l a =>
    Some (42, rel_done a tid t (set_objs (updN l lock_rel (objs s)) s))
  | RSave =>
    let s1 := emit [3; tid; r_sid t; heap_get (r_data t) s]
                   (set_cache (aset (r_sid t) (CE (r_data t) false) (cache s)) s) in
    let t1 := set_rd None t in
    Some (12,
      if r_locked t1 then emit [1; tid; r_sid t] (put tid (set_pc (RRelLook AfSave) t1) s1)
      else do_close tid t1 s1)
  | RDone => None
  end.

(** ** the sweeper: RamSession.clean_up *)

Definition sw_pc (p : spc) (w : sweeper) : sweeper := SW p (s_left w) (s_todo1 w) (s_todo2 w).

(** clean_up returned *)
Definition sweep_end (w : sweeper) : sweeper :=
  SW (if 0 <? s_left w then SIdle else SDone) (s_left w) [] [].

(** second loop: next id of list(self.locks) *)
Definition next2 (w : sweeper) : sweeper :=
  match s_todo2 w with
  | [] => sweep_end w
  | id :: r => SW (SIn id) (s_left w) (s_todo1 w) r
  end.

(** first loop: next expired item of the snapshot *)
Fixpoint skip_live (l : list (Z * bool)) : list (Z * bool) :=
  match l with
  | (_, false) :: r => skip_live r
  | _ => l
  end.
Definition next1 (w : sweeper) : sweeper :=
  match skip_live (s_todo1 w) with
  | [] => SW SList (s_left w) [] (s_todo2 w)
  | (id, _) :: r => SW (SDel id) (s_left w) r (s_todo2 w)
  end.

Definition sw_fail (code : Z) (tid : Z) (s : st) : st :=
  emit [4; tid; code] (set_sw (SW SDone 0 [] []) s).

(** acquire(blocking=False) of lock object l by the sweeper *)
Definition try_lock (tid l : Z) (s : st) : option st :=
  match nthZ l (objs s) with
  | Some o => if free_for tid o then Some (set_objs (updN l (lock_acq tid) (objs s)) s) else None
  | None => None
  end.

(** locks.pop(id) ; lock.release() up to its park point.  [caught]: the KeyError of pop is caught
    (first loop) or escapes clean_up (second loop). *)
Definition sw_pop (caught : bool) (rel : Z -> spc) (cont : sweeper -> sweeper) (tid id : Z) (s : st) : st :=
  match aget id (table s) with
  | Some l' =>
    let s1 := emit [7; tid; id; l'] (set_table (adel id (table s)) s) in
    match nthZ l' (objs s) with
    | Some o => if owned_by tid o then set_sw (sw_pc (rel l') (sw s)) s1 else sw_fail 2 tid s1
    | None => sw_fail 2 tid s1
    end
  | None => if caught then set_sw (cont (sw s)) s else sw_fail 1 tid s
  end.

Definition sstep (tid : Z) (s : st) : option (Z * st) :=
  let w := sw s in
  match s_pc w with
  | SBegin => Some (0, set_sw (sweep_end w) s)
  | SIdle => Some (1, set_sw (SW SCopy (s_left w - 1) [] []) s)
  | SCopy =>
    Some (30, set_sw (next1 (SW SCopy (s_left w) (map (fun p => (fst p, c_exp (snd p))) (cache s)) [])) s)
  | SDel id =>
    let s1 := if ahas id (cache s) then emit [6; tid; id] (set_cache (adel id (cache s)) s) else s in
    Some (30, set_sw (sw_pc (SLook1 id) w) s1)
  | SLook1 id =>
    Some (31, match aget id (table s) with
              | Some l => set_sw (sw_pc (STry1 id l) w) s
              | None => set_sw (next1 w) s              (* except KeyError: pass *)
              end)
  | STry1 id l =>
    Some (41, match try_lock tid l s with
              | Some s1 => set_sw (sw_pc (SPop1 id l) w) s1
              | None => set_sw (next1 w) s
              end)
  | SPop1 id l => Some (31, sw_pop true SRel1 next1 tid id s)
  | SRel1 l => Some (42, set_sw (next1 w) (set_objs (updN l lock_rel (objs s)) s))
  | SList => Some (31, set_sw (next2 (SW SList (s_left w) [] (map fst (table s)))) s)
  | SIn id =>
    Some (30, if ahas id (cache s) then set_sw (next2 w) s else set_sw (sw_pc (SLook2 id) w) s)
  | SLook2 id =>
    Some (31, match aget id (table s) with
              | Some l => set_sw (sw_pc (STry2 id l) w) s
              | None => sw_fail 1 tid s                   (* KeyError escapes clean_up *)
              end)
  | STry2 id l =>
    Some (41, match try_lock tid l s with
              | Some s1 => set_sw (sw_pc (SPop2 id l) w) s1
              | None => set_sw (next2 w) s
              end)
  | SPop2 id l => Some (31, sw_pop false SRel2 next2 tid id s)
  | SRel2 l => Some (42, set_sw (next2 w) (set_objs (updN l lock_rel (objs s)) s))
  | SDone => None
  end.

(** ** the system *)

(** thread ids: request i is thread i, the sweeper is thread [lenZ (reqs s)] *)
Definition step (cf : cfg) (tid : Z) (s : st) : option (Z * st) :=
  match nthZ tid (reqs s) with
  | Some t => rstep cf tid t s
  | None => if tid =? lenZ (reqs s) then sstep tid s else None
  end.

Definition new_thread (kind : Z) : rthread := RT RBegin kind 0 false false 0 0 false false None None.

(** [pre]: the session exists with counter n0, expired or live, with or without a lock object
    left in the table by an earlier request *)
Definition init (kinds : list Z) (sweeps : Z) (pre : option (Z * Z * bool * bool)) : st :=
  let ths := map new_thread kinds in
  let w := SW (if 0 <? sweeps then SBegin else SDone) sweeps [] [] in
  match pre with
  | Some (id, n0, expired, prelock) =>
    St [(id, CE 0 expired)] [n0] (if prelock then [(id, 0)] else []) (if prelock then [LO None 0] else [])
       ths w []
  | None => St [] [] [] [] ths w []
  end.

Definition is_enabled (cf : cfg) (s : st) (tid : Z) : bool :=
  match step cf tid s with Some _ => true | None => false end.
Definition all_tids (s : st) : list Z := seqN 0 (reqs s) ++ [lenZ (reqs s)].
Definition enabled (cf : cfg) (s : st) : list Z := filter (is_enabled cf s) (all_tids s).

Definition trace := list (Z * Z).    (* (tid, label), newest first *)

(** replay of a schedule: entries naming a thread that is not enabled are skipped *)
Fixpoint replay (cf : cfg) (sched : list Z) (cur : option Z) (s : st) (tr : trace) : option Z * st * trace :=
  match sched with
  | [] => (cur, s, tr)
  | x :: r =>
    match step cf x s with
    | Some (lab, s') => replay cf r (Some x) s' ((x, lab) :: tr)
    | None => replay cf r cur s tr
    end
  end.

(** then without pre-emption: the current thread while it is enabled, else the lowest enabled tid *)
Fixpoint tail (cf : cfg) (fuel : nat) (cur : option Z) (s : st) (tr : trace) : bool * st * trace :=
  match fuel with
  | O => (false, s, tr)
  | S f =>
    match enabled cf s with
    | [] => (true, s, tr)
    | e0 :: _ =>
      let x := match cur with
               | Some c => if existsb (Z.eqb c) (enabled cf s) then c else e0
               | None => e0
               end in
      match step cf x s with
      | Some (lab, s') => tail cf f (Some x) s' ((x, lab) :: tr)
      | None => (true, s, tr)
      end
    end
  end.

Definition run_locks (cf : cfg) (s0 : st) (sched : list Z) : bool * st * trace :=
  let '(cur, s, tr) := replay cf sched None s0 [] in
  tail cf 1000 cur s tr.

Definition all_done (s : st) : bool :=
  forallb (fun t => match r_pc t with RDone => true | _ => false end) (reqs s)
  && match s_pc (sw s) with SDone => true | _ => false end.

(** what the theorems speak about *)
Definition in_cs (s : st) (tid id : Z) : Prop :=
  exists t, nthZ tid (reqs s) = Some t /\ r_cs t = true /\ r_sid t = id.

(* ------------------------------------------------------------------ *)
(** * s-expression boundary *)

Definition enc_trace (tr : trace) : sx := L (map (fun p => L [I (fst p); I (snd p)]) (rev tr)).
Definition enc_lock (o : lockobj) : sx :=
  L [I (match l_owner o with Some x => x | None => -1 end); I (l_count o)].
Definition status (ok : bool) (s : st) : Z := if negb ok then 3 else if all_done s then 0 else 2.

(** case   = (0 fixed state n0 prelock (kind ...) sweeps (tid ...))
               state: 0 new (no cookie)  1 live  2 expired  3 missing (cookie names no stored session)
    result = (status trace journal cache locks objs locked)
               cache = ((id n expired) ...)  locks = ((id lockno) ...)  objs = ((owner count) ...)  *)
Definition run_ram (x : sx) : sx :=
  let fixed := sx_bool (nth_sx 1 x) in
  let state := sx_Z (nth_sx 2 x) in
  let n0 := sx_Z (nth_sx 3 x) in
  let prelock := sx_bool (nth_sx 4 x) in
  let kinds := sx_Zs (nth_sx 5 x) in
  let sweeps := sx_Z (nth_sx 6 x) in
  let sched := sx_Zs (nth_sx 7 x) in
  let cf := Cfg fixed (if state =? 0 then None else Some 1) in
  let pre := if (state =? 1) || (state =? 2) then Some (1, n0, state =? 2, prelock) else None in
  let '(ok, s, tr) := run_locks cf (init kinds sweeps pre) sched in
  L [I (status ok s); enc_trace tr; L (map of_Zs (rev (jrn s)));
     L (map (fun p => L [I (fst p); I (heap_get (c_data (snd p)) s); of_bool (c_exp (snd p))]) (cache s));
     L (map (fun p => L [I (fst p); I (snd p)]) (table s));
     L (map enc_lock (objs s));
     L (map (fun t => of_bool (r_locked t)) (reqs s))].

(* ------------------------------------------------------------------ *)
(** * (b) the session hooks as data and the lock bookkeeping of one request *)

(** hook points: 1 before_request_body  2 before_handler  3 before_finalize  4 on_end_resource  5 on_end_request
    callables:   1 sessions.init  2 SessionTool._lock_session  3 sessions.save  4 sessions.close
                 5 Session.save (re-attached by sessions.save when the body is streamed)
                 9 a user hook that raises   10 + i  probe i of the harness *)
Record hrow := HR {
  h_when : Z;        (* 0 always   1 locking == 'implicit'   2 locking == 'early' *)
  h_point : Z;
  h_call : Z;
  h_prio : Z;
  h_safe : bool }.   (* failsafe *)

(** what SessionTool._setup attaches (tie_sessiontool_setup: regenerated from the source on every run) *)
Definition session_hooks : list hrow :=
  [ HR 0 1 1 50 false;      (* hooks.attach(self._point, self.callable, priority=p) : init, default priority *)
    HR 1 2 2 50 false;      (* implicit: hooks.attach('before_handler', self._lock_session) *)
    HR 2 1 2 60 false;      (* early:    hooks.attach('before_request_body', self._lock_session, priority=60) *)
    HR 0 3 3 50 true;       (* hooks.attach('before_finalize', _sessions.save)     save.failsafe = True *)
    HR 0 5 4 90 true ].     (* hooks.attach('on_end_request', _sessions.close)     close.failsafe, priority 90 *)
(** request.hooks.attach('on_end_request', cherrypy.session.save) in sessions.save *)
Definition reattach_hook : hrow := HR 0 5 5 50 false.
(** structure of Session.save / sessions.close (tie_session_save, tie_close):
    release in a [finally] guarded by [self.locked]; close releases iff [locked] *)
Definition save_releases_in_finally : bool := true.
Definition close_releases_if_locked : bool := true.
(** Session._regenerate: release_lock before the new id, acquire_lock after it, both iff it was locked *)
Definition regenerate_relocks : bool := true.

Inductive mode := Implicit | Early | Explicit.
Inductive outcome :=
| OOk | OHttpErr | ORedirect | OExc | OStreamDone | OStreamAbandon | ORegen | OBodyErr | OIntRedir.
Record faults := FL {
  f_end : bool;      (* a user hook at on_end_request, priority 10, raises *)
  f_save : bool;     (* Session._save raises (file backend: data that cannot be pickled) *)
  f_fin : bool }.    (* a user hook at before_finalize, priority 60, raises *)

Record bk := BK {
  b_has : bool;              (* cherrypy.serving.session exists *)
  b_locked : bool;           (* Session.locked *)
  b_count : Z;               (* acquisitions of the current id's lock not yet released *)
  b_leak : Z;                (* acquisitions left behind on the lock of an id the session no longer has *)
  b_loaded : bool;
  b_saved : bool;            (* request._sessionsaved *)
  b_dyn : list hrow;         (* hooks attached while the request runs *)
  b_obs : list (list Z) }.   (* probe observations [probe; locked; count], newest first *)

Definition bk0 : bk := BK false false 0 0 false false [] [].

Definition mode_code (m : mode) : Z := match m with Implicit => 1 | Early => 2 | Explicit => 3 end.
Definition row_active (m : mode) (r : hrow) : bool := (h_when r =? 0) || (h_when r =? mode_code m).

(** sorted(self[point]): stable, ascending priority *)
Fixpoint hinsert (h : hrow) (l : list hrow) : list hrow :=
  match l with
  | [] => [h]
  | x :: r => if h_prio h <=? h_prio x then h :: l else x :: hinsert h r
  end.
Definition hsort (l : list hrow) : list hrow := fold_right hinsert [] l.

Definition b_acquire (b : bk) : bk :=
  BK (b_has b) true (b_count b + 1) (b_leak b) (b_loaded b) (b_saved b) (b_dyn b) (b_obs b).
(** release_lock: RuntimeError (3) when the lock is not held *)
Definition b_release (b : bk) : bk * option Z :=
  if b_count b <=? 0 then (b, Some 3)
  else (BK (b_has b) false (b_count b - 1) (b_leak b) (b_loaded b) (b_saved b) (b_dyn b) (b_obs b), None).
Definition b_probe (i : Z) (b : bk) : bk :=
  BK (b_has b) (b_locked b) (b_count b) (b_leak b) (b_loaded b) (b_saved b) (b_dyn b)
     ([i; b2z (b_locked b); b_count b] :: b_obs b).

(** Session.save: try: if loaded: _save()  finally: if locked: release_lock() *)
Definition session_save (infinally : bool) (fl : faults) (b : bk) : bk * option Z :=
  let failed := b_loaded b && f_save fl in
  if failed && negb infinally then (b, Some 3)
  else
    let '(b1, e) := if b_locked b then b_release b else (b, None) in
    (b1, match e with Some x => Some x | None => if failed then Some 3 else None end).

Definition call_hook (fl : faults) (k : Z) (b : bk) : bk * option Z :=
  if k =? 1 then          (* init: guarded by request._session_init_flag *)
    (if b_has b then b else BK true false (b_count b) (b_leak b) false (b_saved b) (b_dyn b) (b_obs b), None)
  else if k =? 2 then (b_acquire b, None)
  else if k =? 3 then     (* sessions.save *)
    if negb (b_has b) || b_saved b then (b, None)
    else
      let b1 := BK (b_has b) (b_locked b) (b_count b) (b_leak b) (b_loaded b) true (b_dyn b) (b_obs b) in
      (b1, None)
  else if k =? 4 then     (* sessions.close *)
    if b_has b && b_locked b && close_releases_if_locked then b_release b else (b, None)
  else if k =? 5 then session_save save_releases_in_finally fl b
  else if k =? 9 then (b, Some 3)
  else (b_probe (k - 10) b, None).

(** sessions.save, second half: stream -> re-attach Session.save at on_end_request, else save now *)
Definition call_save (stream : bool) (fl : faults) (b : bk) : bk * option Z :=
  if negb (b_has b) || b_saved b then (b, None)
  else
    let b1 := BK (b_has b) (b_locked b) (b_count b) (b_leak b) (b_loaded b) true (b_dyn b) (b_obs b) in
    if stream
    then (BK (b_has b1) (b_locked b1) (b_count b1) (b_leak b1) (b_loaded b1) true (b_dyn b1 ++ [reattach_hook])
             (b_obs b1), None)
    else session_save save_releases_in_finally fl b1.

(** HookMap.run_hooks: after a failure only failsafe hooks run; the last exception propagates *)
Fixpoint run_hooks (stream : bool) (fl : faults) (safe_only : bool) (hs : list hrow) (b : bk) : bk * option Z :=
  match hs with
  | [] => (b, None)
  | h :: r =>
    if safe_only && negb (h_safe h) then run_hooks stream fl safe_only r b
    else
      let '(b1, e) := if h_call h =? 3 then call_save stream fl b else call_hook fl (h_call h) b in
      match e with
      | None => run_hooks stream fl safe_only r b1
      | Some x =>
        let '(b2, e2) := run_hooks stream fl true r b1 in
        (b2, Some (match e2 with Some y => y | None => x end))
      end
  end.

(** probes and fault hooks of the harness *)
Definition harness_hooks (fl : faults) : list hrow :=
  [ HR 0 1 10 90 true; HR 0 2 11 90 true; HR 0 3 13 90 true; HR 0 4 14 50 true; HR 0 5 15 95 true ]
  ++ (if f_end fl then [HR 0 5 9 10 false] else [])
  ++ (if f_fin fl then [HR 0 3 9 60 false] else []).

Definition run_point (tbl : list hrow) (m : mode) (stream : bool) (fl : faults) (p : Z) (b : bk) : bk * option Z :=
  let hs := filter (fun r => row_active m r && (h_point r =? p)) (tbl ++ harness_hooks fl ++ b_dyn b) in
  run_hooks stream fl false (hsort hs) b.

Definition is_stream (o : outcome) : bool :=
  match o with OStreamDone | OStreamAbandon => true | _ => false end.

(** Session.regenerate with the lock held: release the old id's lock, acquire the new id's *)
Definition b_regen (b : bk) : bk * option Z :=
  if b_locked b && regenerate_relocks then
    let '(b1, e) := b_release b in
    match e with
    | Some x => (b1, Some x)
    | None => (b_acquire (BK (b_has b1) (b_locked b1) 0 (b_leak b1 + b_count b1) (b_loaded b1) (b_saved b1)
                             (b_dyn b1) (b_obs b1)), None)
    end
  else (b, None).

Definition handler (m : mode) (o : outcome) (b : bk) : bk * option Z :=
  let b1 := b_probe 2 b in
  let b2 := match m with Explicit => b_acquire b1 | _ => b1 end in
  let b3 := b_probe 6 (BK (b_has b2) (b_locked b2) (b_count b2) (b_leak b2) true (b_saved b2) (b_dyn b2) (b_obs b2)) in
  let '(b4, e) := match o with ORegen => b_regen b3 | _ => (b3, None) end in
  (b4, match e with
       | Some x => Some x
       | None => match o with
                 | OHttpErr => Some 1 | ORedirect => Some 2 | OExc => Some 3 | OIntRedir => Some 4 | _ => None
                 end
       end).

(** Request._do_respond, from the first hook point that has a session hook *)
Definition do_respond (tbl : list hrow) (m : mode) (o : outcome) (fl : faults) (b : bk) : bk * option Z :=
  let st := is_stream o in
  let '(b1, e1) := run_point tbl m st fl 1 b in
  match e1 with Some x => (b1, Some x) | None =>
  match o with OBodyErr => (b1, Some 1) | _ =>
  let '(b2, e2) := run_point tbl m st fl 2 b1 in
  match e2 with Some x => (b2, Some x) | None =>
  let '(b3, e3) := handler m o b2 in
  match e3 with Some x => (b3, Some x) | None =>
  run_point tbl m st fl 3 b3
  end end end end.

(** Request.respond + handle_error: the exception that leaves respond (only InternalRedirect can) *)
Definition respond (tbl : list hrow) (m : mode) (o : outcome) (fl : faults) (b : bk) : bk * option Z :=
  let st := is_stream o in
  let '(b1, e1) := do_respond tbl m o fl b in
  let '(b2, e2) := match e1 with
                   | Some 1 | Some 2 => run_point tbl m st fl 3 b1     (* set_response; before_finalize; finalize *)
                   | _ => (b1, e1)
                   end in
  let '(b3, e3) := run_point tbl m st fl 4 b2 in                       (* finally: on_end_resource *)
  let e := match e3 with Some x => Some x | None => e2 end in
  (b3, match e with Some 4 => Some 4 | _ => None end).                 (* anything else: handle_error *)

(** one WSGI call: respond, write the body out (or abandon it), close() = on_end_request;
    an InternalRedirect closes the request and runs a second one (GET on the new path) *)
Definition one_request (tbl : list hrow) (m : mode) (o : outcome) (fl : faults) (b : bk) : bk * option Z :=
  let '(b1, e) := respond tbl m o fl b in
  let '(b2, _) := run_point tbl m (is_stream o) fl 5 b1 in             (* errors are logged by release_serving *)
  (b2, e).

Definition fresh_request (b : bk) : bk := BK false false (b_count b) (b_leak b) false false [] (b_obs b).

Definition run_request (tbl : list hrow) (m : mode) (o : outcome) (fl : faults) : bk :=
  let '(b1, e) := one_request tbl m o fl bk0 in
  match e with
  | Some _ => fst (one_request tbl m OOk fl (fresh_request b1))
  | None => b1
  end.

Definition dec_mode (z : Z) : mode := if z =? 0 then Implicit else if z =? 1 then Early else Explicit.
Definition dec_outcome (z : Z) : outcome :=
  if z =? 0 then OOk else if z =? 1 then OHttpErr else if z =? 2 then ORedirect else if z =? 3 then OExc
  else if z =? 4 then OStreamDone else if z =? 5 then OStreamAbandon else if z =? 6 then ORegen
  else if z =? 7 then OBodyErr else OIntRedir.

(** case = (1 mode outcome f_end f_save f_fin)    result = (((probe locked count) ...) locked count leak) *)
Definition run_hooks_case (x : sx) : sx :=
  let b := run_request session_hooks (dec_mode (sx_Z (nth_sx 1 x))) (dec_outcome (sx_Z (nth_sx 2 x)))
                       (FL (sx_bool (nth_sx 3 x)) (sx_bool (nth_sx 4 x)) (sx_bool (nth_sx 5 x))) in
  L [L (map of_Zs (rev (b_obs b))); of_bool (b_locked b); I (b_count b); I (b_leak b)].

Definition run_C13 (x : sx) : sx :=
  match sx_Z (nth_sx 0 x) with
  | 0 => run_ram x
  | _ => run_hooks_case x
  end.
