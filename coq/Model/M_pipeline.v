(** Hand-written skeletons of the request pipeline: the terms the C01/C09
    theorems are about.  They were produced by reading the functions named in
    the comments; vcheck/translate/pyflow.py regenerates the same terms from
    /repo's current source on every run and a tie lemma proves equality
    (G_x = sk_x) by reflexivity.  Definitions only. *)
From Coq Require Import ZArith List Bool.
Import ListNotations.
From CV Require Import Lib.Sx Model.M_flow.
Open Scope Z_scope.

(* _cprequest.Request.run *)
Definition sk_request_run : stmt :=
  Seq (Try (Seq (Act SetDefaultErrorResponse) (Seq (Act Other) (Call F_respond))) [(PThrows, Raise None); (PException, If (CFlag FThrowErrors) (Raise None) (Seq (If (CFlag FShowTracebacksReq) (Act FormatExcBody) (Act ClearBody)) (Seq (Act BareError) (Act InstallBareError))))] (Skip) (Skip)) (Seq (If (CFlag FMethodHead) (Act DropBody) (Skip)) (Seq (Try (Act LogAccess) [(PException, Skip)] (Skip) (Skip)) (Return))).

(* _cprequest.Request.respond *)
Definition sk_respond : stmt :=
  Try (Try (Try (Call F_do_respond) [(PHTTPRedirectOrError, Seq (Act SetResponseOfExc) (Seq (Act (RunHooks BeforeFinalize)) (Act Finalize)))] (Skip) (Skip)) [] (Skip) (Act (RunHooks OnEndResource))) [(PThrows, Raise None); (PException, Seq (If (CFlag FThrowErrors) (Raise None) (Skip)) (Call F_handle_error))] (Skip) (Skip).

(* _cprequest.Request._do_respond *)
Definition sk_do_respond : stmt :=
  Seq (If (CFlag FAppNone) (Raise (Some XHTTPError)) (Skip)) (Seq (Act CopyHooks) (Seq (Act ProcessHeaders) (Seq (Act GetResource) (Seq (Act MakeBody) (Seq (Act Namespaces) (Seq (Act (RunHooks OnStartResource)) (Seq (Act ProcessQueryString) (Seq (Act (RunHooks BeforeRequestBody)) (Seq (If (CFlag FProcessBody) (Act BodyProcess) (Skip)) (Seq (Act (RunHooks BeforeHandler)) (Seq (If (CFlag FHandlerSet) (Act Handler) (Skip)) (Seq (Act (RunHooks BeforeFinalize)) (Act Finalize))))))))))))).

(* _cprequest.Request.handle_error *)
Definition sk_handle_error : stmt :=
  Try (Seq (Act (RunHooks BeforeErrorResponse)) (Seq (If (CFlag FErrorResponseSet) (Act ErrorResponse) (Skip)) (Seq (Act (RunHooks AfterErrorResponse)) (Act Finalize)))) [(PHTTPRedirect, Seq (Act SetResponseOfExc) (Act Finalize))] (Skip) (Skip).

(* _cprequest.Request.close *)
Definition sk_request_close : stmt :=
  If (CNot (CFlag FClosed)) (Seq (Act SetClosed) (Act (RunHooks OnEndRequest))) (Skip).

(* _cptree.Application.get_serving *)
Definition sk_get_serving : stmt :=
  Seq (Act NewRequest) (Seq (Act NewResponse) (Seq (Act LoadServing) (Seq (Act PublishEngine) (Seq (Act PublishEngine) (Return))))).

(* _cptree.Application.release_serving *)
Definition sk_release_serving : stmt :=
  Seq (Act PublishEngine) (Seq (Try (Call F_request_close) [(PException, Skip)] (Skip) (Skip)) (Act ClearServing)).

(* _cpwsgi.AppResponse.__init__ *)
Definition sk_appresponse_init : stmt :=
  Try (Seq (Call F_appresponse_run) (Seq (If (CNot (CFlag FStatusIsBytes)) (Raise (Some XException)) (Skip)) (Seq (ForLoop (Seq (If (CNot (CFlag FHeaderKeyIsBytes)) (Raise (Some XException)) (Skip)) (If (CNot (CFlag FHeaderValIsBytes)) (Raise (Some XException)) (Skip)))) (Seq (Act IterBody) (Act StartResponse))))) [(PBaseException, Seq (Call F_appresponse_close_init) (Raise None))] (Skip) (Skip).

(* _cpwsgi.AppResponse.close *)
Definition sk_appresponse_close : stmt :=
  Seq (Assign FStreaming) (Seq (Call F_release_serving) (If (CFlag FStreaming) (Try (Act IterClose) [(PException, Skip)] (Skip) (Skip)) (Skip))).

(* _cpwsgi.AppResponse.close as called from AppResponse.__init__'s except clause: self.iter_response may not
   exist yet.  (When the server calls close(), __init__ has returned, so the attribute exists: an object whose
   __init__ raised is never handed to the caller.) *)
Definition sk_appresponse_close_init : stmt :=
  Seq (Assign FStreaming) (Seq (Call F_release_serving) (If (CFlag FStreaming) (Seq (Act ReadIterResponse) (Try (Act IterClose) [(PException, Skip)] (Skip) (Skip))) (Skip))).

(* _cpwsgi.AppResponse.run *)
Definition sk_appresponse_run : stmt :=
  Seq (Act Other) (Seq (Call F_get_serving) (Seq (Act Other) (Call F_request_run))).

(* _cpwsgi.InternalRedirector.__call__ *)
Definition sk_redirector_call : stmt :=
  Loop (Try (Seq (Call F_appresponse_init) Return) [(PInternalRedirect, Seq (Act BindIr) (Seq (Act Other) (Seq (Act RecordUri) (Seq (If (CNot (CFlag FRecursive)) (Seq (Act Other) (If (CFlag FVisitedBefore) (Seq (Call F_ir_request_close) (Raise (Some XException))) (Skip))) (Skip)) (Act Other)))))] (Skip) (Skip)).

(* _cpwsgi._TrappedResponse.trap *)
Definition sk_trap : stmt :=
  Try (Seq CallParam Return) [(PTrapThrows, Raise None); (PStopIteration, Raise None); (PException, Seq (Act FormatExcTb) (Seq (If (CNot (CFlag FShowTracebacksServing)) (Act ClearTb) (Skip)) (Seq (Act BareErrorTrap) (Seq (If (CFlag FStartedResponse) (Act EmptyIter) (Act ErrorIter)) (Seq (Try (Act StartResponseExc) [(PException, Raise None)] (Skip) (Skip)) (If (CFlag FStartedResponse) (Return) (Return)))))))] (Skip) (Skip).

(* _cpwsgi._TrappedResponse.__init__ *)
Definition sk_trapped_init : stmt :=
  Call F_trap_init.

(* _cpwsgi._TrappedResponse.__next__ *)
Definition sk_trapped_next : stmt :=
  Seq (Call F_trap_next) Return.

(* _cpwsgi._TrappedResponse.close *)
Definition sk_trapped_close : stmt :=
  If (CFlag FResponseHasClose) (Call F_appresponse_close) (Skip).

(** function table *)
Definition prog (f : fname) : stmt :=
  match f with
  | F_request_run => sk_request_run
  | F_respond => sk_respond
  | F_do_respond => sk_do_respond
  | F_handle_error => sk_handle_error
  | F_request_close | F_ir_request_close => sk_request_close
  | F_get_serving => sk_get_serving
  | F_release_serving => sk_release_serving
  | F_appresponse_init => sk_appresponse_init
  | F_appresponse_close => sk_appresponse_close
  | F_appresponse_close_init => sk_appresponse_close_init
  | F_appresponse_run => sk_appresponse_run
  | F_redirector_call => sk_redirector_call
  | F_trap_init | F_trap_next => sk_trap
  | F_trapped_init => sk_trapped_init
  | F_trapped_next => sk_trapped_next
  | F_trapped_close => sk_trapped_close
  end.

(** what `func` is in each use of _TrappedResponse.trap *)
Definition pparam (f : fname) : stmt :=
  match f with
  | F_trap_init => Call F_redirector_call     (* trap(self.nextapp, environ, start_response) *)
  | F_trap_next => Act NextChunk              (* trap(next, self.iter_response) *)
  | _ => Skip
  end.

(** A PEP 3333 server: call the application; if that returned, iterate the
    result until StopIteration or until it loses interest, and always call
    close() (at least once) afterwards. *)
Definition server_session : stmt :=
  Seq (Call F_trapped_init)
      (Try (Try (Loop (Seq (Act ServerNext) (Call F_trapped_next))) [(PStopIteration, Skip)] Skip Skip)
           [] Skip
           (Seq (Call F_trapped_close)
                (Try (Loop (Seq (Act ServerCloseAgain) (Call F_trapped_close))) [(PStopIteration, Skip)] Skip Skip))).

Definition run_flow (E : env) (fuel : nat) (s : stmt) (st : state) : outcome * state :=
  exec prog pparam E fuel Skip s st.
