(** Model of cherrypy.lib.caching (MemoryCache get/put/delete/expire_cache,
    AntiStampedeCache placeholders in sequential histories, caching.get,
    tee_output) as wired by _cptools.CachingTool._wrapper.
    Definitions only; proofs live in Proof/P_cache*.v.

    Strings (header names and values, URIs, directive elements) are lists of
    code points.  Time is an integer number of ticks, [c_tps] ticks per second
    (the harness uses 1, 2 or 4 so that the float clock of the real code is
    exact).  The handler is an oracle: every call gets a fresh generation
    number and is appended to the ghost log [s_log]. *)
From Coq Require Import ZArith List Bool.
From CV Require Import Lib.Sx Lib.ListZ.
Import ListNotations.
Open Scope Z_scope.

Definition str := list Z.

(* ---------- Python string primitives used by the anchored code ---------- *)

(** Python [a < b] on str (code point order). *)
Fixpoint str_ltb (a b : str) : bool :=
  match a, b with
  | _, [] => false
  | [], _ :: _ => true
  | x :: a', y :: b' =>
    if x <? y then true else if y <? x then false else str_ltb a' b'
  end.

Fixpoint insert (x : str) (l : list str) : list str :=
  match l with
  | [] => [x]
  | y :: r => if str_ltb x y then x :: y :: r else y :: insert x r
  end.

(** [sorted(l)] *)
Fixpoint sort_asc (l : list str) : list str :=
  match l with [] => [] | x :: r => insert x (sort_asc r) end.

(** [list(reversed(sorted(l)))]: the order in which httputil.header_elements
    returns the elements of a non-Accept header. *)
Definition sort_desc (l : list str) : list str := rev (sort_asc l).

Fixpoint mem (x : str) (l : list str) : bool :=
  match l with [] => false | y :: r => eqbZs x y || mem x r end.

(** [v.split('=', 1)]: (part before the first '=', part after it if any) *)
Fixpoint split_eq (v : str) : str * option str :=
  match v with
  | [] => ([], None)
  | x :: r => if x =? 61 then ([], Some r)
              else let '(a, b) := split_eq r in (x :: a, b)
  end.

Definition is_digit (x : Z) : bool := (48 <=? x) && (x <=? 57).
(** [s.isdigit()] (ASCII digits; other Unicode digits are not generated) *)
Definition isdigit (s : str) : bool :=
  match s with [] => false | _ => forallb is_digit s end.
Definition to_int (s : str) : Z := fold_left (fun acc d => acc * 10 + (d - 48)) s 0.

Definition s_max_age : str := [109;97;120;45;97;103;101].
Definition s_no_cache : str := [110;111;45;99;97;99;104;101].
Definition s_no_store : str := [110;111;45;115;116;111;114;101].

(* ---------- association lists (Python dicts, insertion ordered) ---------- *)

Section Assoc.
  Context {K V : Type} (eqb : K -> K -> bool).
  Fixpoint aget (k : K) (l : list (K * V)) : option V :=
    match l with
    | [] => None
    | (k', v) :: r => if eqb k k' then Some v else aget k r
    end.
  Fixpoint aset (k : K) (v : V) (l : list (K * V)) : list (K * V) :=
    match l with
    | [] => [(k, v)]
    | (k', v') :: r => if eqb k k' then (k', v) :: r else (k', v') :: aset k v r
    end.
  Fixpoint adel (k : K) (l : list (K * V)) : list (K * V) :=
    match l with
    | [] => []
    | (k', v') :: r => if eqb k k' then adel k r else (k', v') :: adel k r
    end.
End Assoc.

Definition key := list str.
Fixpoint eqb_key (a b : key) : bool :=
  match a, b with
  | [], [] => true
  | x :: a', y :: b' => eqbZs x y && eqb_key a' b'
  | _, _ => false
  end.

(* ---------- configuration, requests, state ---------- *)

Record cfg := Cfg {
  c_delay : Z;         (* seconds *)
  c_maxobjects : Z;
  c_maxobj_size : Z;
  c_maxsize : Z;
  c_tps : Z;           (* clock ticks per second, >= 1 *)
  c_keyfix : bool;     (* false: variant key = tuple(sorted(values)) (as written);
                          true: tuple(values) in selecting-header order (repaired) *)
  c_agefix : bool;     (* false: a request max-age REPLACES the delay (as written);
                          true: min(delay, max-age) (repaired) *)
  c_expfix : bool;     (* false: expiry buckets hold the selecting header NAMES (as
                          written); true: they hold the variant key *)
}.

(** What the handler will do if it is called for this request. *)
Record plan := Plan {
  p_status : Z;
  p_size : Z;                 (* body length; 0 = empty body *)
  p_vary : list str;          (* names in the response's Vary *)
  p_rpragma : list str;       (* elements of the response's Pragma *)
  p_rcc : list str;           (* elements of the response's Cache-Control *)
  p_lastmod : Z;              (* Last-Modified of the response: 0 = none, else an id of the date string *)
}.

Record request := Req {
  r_meth : Z;                 (* 0 GET 1 HEAD 2 POST 3 PUT 4 DELETE *)
  r_uri : str;                (* cherrypy.url(qs=query_string) *)
  r_hdrs : list (str * str);  (* request headers (name, value) *)
  r_pragma : list str;        (* elements of Pragma *)
  r_cc : list str;            (* elements of Cache-Control *)
  r_plan : plan;
  r_ims : Z;                  (* If-Modified-Since: 0 = absent, else an id of the date string *)
  r_ius : Z;                  (* If-Unmodified-Since, likewise *)
}.

Record variant := Var {
  v_status : Z;
  v_gen : Z;                  (* generation number in body and X-Gen header *)
  v_size : Z;
  v_created : Z;              (* response.time of the producing request, ticks *)
  v_lastmod : Z;              (* stored Last-Modified header (0 = none) *)
}.

(** A slot of an AntiStampedeCache: a stored response, or the Event placeholder
    a miss leaves behind (in a sequential history its result is always None). *)
Inductive slot := SEvent | SVar (v : variant).

Record ucache := UC { uc_sel : list str; uc_ents : list (key * slot) }.

(** handler call record (ghost) *)
Record call := Call { k_gen : Z; k_time : Z; k_req : request }.

Record st := St {
  s_store : list (str * ucache);
  s_exp : list (Z * list (Z * str * list str));   (* expiration_time -> bucket *)
  s_cursize : Z;
  s_now : Z;
  s_gen : Z;
  s_log : list call;
}.

Definition init : st := St [] [] 0 0 0 [].

Definition set_store (x : list (str * ucache)) (s : st) : st :=
  St x (s_exp s) (s_cursize s) (s_now s) (s_gen s) (s_log s).

(** [request.headers.get(h, '')] *)
Fixpoint hget (h : list (str * str)) (n : str) : str :=
  match h with
  | [] => []
  | (k, v) :: r => if eqbZs k n then v else hget r n
  end.

Definition mkkey (c : cfg) (hdrs : list (str * str)) (sel : list str) : key :=
  let vals := map (hget hdrs) sel in
  if c_keyfix c then vals else sort_asc vals.

(* ---------- MemoryCache ---------- *)

(** MemoryCache.get (with AntiStampedeCache.wait, timeout not None, no other thread) *)
Definition cache_get (c : cfg) (r : request) (s : st) : st * option variant :=
  match aget eqbZs (r_uri r) (s_store s) with
  | None => (s, None)
  | Some uc =>
    let k := mkkey c (r_hdrs r) (uc_sel uc) in
    match aget eqb_key k (uc_ents uc) with
    | Some (SVar v) => (s, Some v)
    | Some SEvent => (s, None)
    | None =>
      (set_store (aset eqbZs (r_uri r) (UC (uc_sel uc) (aset eqb_key k SEvent (uc_ents uc)))
                       (s_store s)) s, None)
    end
  end.

(** [self.expirations.setdefault(t, []).append(o)] *)
Fixpoint bucket_add (t : Z) (o : Z * str * list str) (e : list (Z * list (Z * str * list str)))
  : list (Z * list (Z * str * list str)) :=
  match e with
  | [] => [(t, [o])]
  | (t', b) :: r => if t =? t' then (t', b ++ [o]) :: r else (t', b) :: bucket_add t o r
  end.

(** MemoryCache.put *)
Definition cache_put (c : cfg) (r : request) (v : variant) (size : Z) (s : st) : st :=
  let uri := r_uri r in
  let '(uc, store1) :=
    match aget eqbZs uri (s_store s) with
    | Some uc => (uc, s_store s)
    | None => let uc := UC (sort_desc (p_vary (r_plan r))) [] in
              (uc, aset eqbZs uri uc (s_store s))
    end in
  if lenZ store1 <? c_maxobjects c then
    let total := s_cursize s + size in
    if (size <? c_maxobj_size c) && (total <? c_maxsize c) then
      let k := mkkey c (r_hdrs r) (uc_sel uc) in
      let exp1 := bucket_add (s_now s + c_delay c * c_tps c)
                             (size, uri, if c_expfix c then k else uc_sel uc) (s_exp s) in
      St (aset eqbZs uri (UC (uc_sel uc) (aset eqb_key k (SVar v) (uc_ents uc))) store1)
         exp1 total (s_now s) (s_gen s) (s_log s)
    else set_store store1 s
  else set_store store1 s.

(** MemoryCache.delete *)
Definition cache_delete (uri : str) (s : st) : st :=
  set_store (adel eqbZs uri (s_store s)) s.

(** one object of an expired bucket: [del self.store[uri][tuple(names)]] *)
Definition expire_obj (o : Z * str * list str) (sc : list (str * ucache) * Z)
  : list (str * ucache) * Z :=
  let '(size, uri, k) := o in
  let '(store, cur) := sc in
  match aget eqbZs uri store with
  | None => sc
  | Some uc =>
    match aget eqb_key k (uc_ents uc) with
    | None => sc
    | Some _ => (aset eqbZs uri (UC (uc_sel uc) (adel eqb_key k (uc_ents uc))) store, cur - size)
    end
  end.

Fixpoint expire_objs (os : list (Z * str * list str)) (sc : list (str * ucache) * Z) :=
  match os with [] => sc | o :: r => expire_objs r (expire_obj o sc) end.

(** one pass of the loop body of MemoryCache.expire_cache at time [now] *)
Fixpoint sweep_buckets (now : Z) (e : list (Z * list (Z * str * list str)))
         (sc : list (str * ucache) * Z)
  : list (Z * list (Z * str * list str)) * (list (str * ucache) * Z) :=
  match e with
  | [] => ([], sc)
  | (t, b) :: r =>
    if t <=? now then sweep_buckets now r (expire_objs b sc)
    else let '(e1, sc1) := sweep_buckets now r sc in ((t, b) :: e1, sc1)
  end.

Definition sweep (s : st) : st :=
  let '(e1, (store1, cur1)) := sweep_buckets (s_now s) (s_exp s) (s_store s, s_cursize s) in
  St store1 e1 cur1 (s_now s) (s_gen s) (s_log s).

(* ---------- caching.get / tee_output / CachingTool._wrapper ---------- *)

Inductive ccres := CCDefault | CCMaxAge (n : Z) | CCBad | CCNoCache.

(** the [for v in ... elements('Cache-Control')] loop of caching.get *)
Fixpoint cc_scan (l : list str) : ccres :=
  match l with
  | [] => CCDefault
  | v :: r =>
    let '(d, arg) := split_eq v in
    if eqbZs d s_max_age then
      match arg with
      | Some a => if isdigit a then CCMaxAge (to_int a) else CCBad
      | None => CCBad
      end
    else if eqbZs d s_no_cache then CCNoCache
    else cc_scan r
  end.

Definition is_invalidating (m : Z) : bool := (m =? 2) || (m =? 3) || (m =? 4).

(** the page handler: a fresh generation per call *)
Definition handler (r : request) (s : st) : st * Z :=
  let g := s_gen s + 1 in
  (St (s_store s) (s_exp s) (s_cursize s) (s_now s) g (Call g (s_now s) r :: s_log s), g).

(** tee_output + the generator it installs, run to completion by finalize *)
Definition tee (c : cfg) (r : request) (g : Z) (s : st) : st :=
  let p := r_plan r in
  if mem s_no_store (r_cc r) then s
  else if mem s_no_cache (p_rpragma p) || mem s_no_store (p_rcc p) then s
  else if p_size p <=? 0 then cache_delete (r_uri r) s
  else cache_put c r (Var (p_status p) g (p_size p) (s_now s) (p_lastmod p)) (p_size p) s.

Inductive outcome :=
| OMiss (g : Z)                     (* the handler ran and produced generation g *)
| OHit (v : variant) (age : Z)      (* served from the cache *)
| O304 (v : variant) (age : Z)      (* fresh stored variant, If-Modified-Since matches: 304 *)
| O412 (v : variant)                (* fresh stored variant, precondition failed: 412 *)
| O400.                             (* malformed max-age on a stored variant *)

Definition miss (c : cfg) (r : request) (s : st) : outcome * bool * st :=
  let '(s1, g) := handler r s in (OMiss g, false, tee c r g s1).

Definition max_age_of (c : cfg) (res : ccres) : Z :=
  match res with
  | CCMaxAge n => if c_agefix c then Z.min (c_delay c) n else n
  | _ => c_delay c
  end.

Definition age_of (c : cfg) (now created : Z) : Z := (now - created) / c_tps c.

(** cptools.validate_since as called by caching.get on a fresh stored variant:
    response.headers are the stored ones, response.status is still unset (so it
    counts as 200 whatever the stored status is); dates are compared as strings. *)
Inductive reval := RVServe | RV304 | RV412.
Definition validate_since (r : request) (v : variant) : reval :=
  if v_lastmod v =? 0 then RVServe
  else if negb (r_ius r =? 0) && negb (r_ius r =? v_lastmod v) then RV412
  else if negb (r_ims r =? 0) && (r_ims r =? v_lastmod v) then
    (if (r_meth r =? 0) || (r_meth r =? 1) then RV304 else RV412)
  else RVServe.

(** one request through the caching tool; the bool is [request.cached] *)
Definition do_req (c : cfg) (r : request) (s : st) : outcome * bool * st :=
  if is_invalidating (r_meth r) then
    let '(s1, g) := handler r (cache_delete (r_uri r) s) in (OMiss g, false, s1)
  else if mem s_no_cache (r_pragma r) then miss c r s
  else
    let '(s1, ov) := cache_get c r s in
    match ov with
    | None => miss c r s1
    | Some v =>
      match cc_scan (sort_desc (r_cc r)) with
      | CCNoCache => miss c r s1
      | CCBad => (O400, true, s1)
      | res =>
        let age := age_of c (s_now s1) (v_created v) in
        if max_age_of c res <? age then miss c r s1
        else match validate_since r v with
             | RVServe => (OHit v age, true, s1)
             | RV304 => (O304 v age, true, s1)
             | RV412 => (O412 v, true, s1)
             end
      end
    end.

Inductive op :=
| OReq (r : request)
| OTick (n : Z)           (* the clock advances by max(n, 0) ticks *)
| OSweep.                 (* the expiry thread runs one pass *)

Definition tick (n : Z) (s : st) : st :=
  St (s_store s) (s_exp s) (s_cursize s) (s_now s + Z.max 0 n) (s_gen s) (s_log s).

Definition step (c : cfg) (o : op) (s : st) : option (outcome * bool) * st :=
  match o with
  | OReq r => let '(ou, fl, s1) := do_req c r s in (Some (ou, fl), s1)
  | OTick n => (None, tick n s)
  | OSweep => (None, sweep s)
  end.

Fixpoint run (c : cfg) (ops : list op) (s : st) : list (option (outcome * bool)) * st :=
  match ops with
  | [] => ([], s)
  | o :: r =>
    let '(ou, s1) := step c o s in
    let '(outs, s2) := run c r s1 in (ou :: outs, s2)
  end.

(* ---------- s-expression boundary ---------- *)

Definition sx_strs (x : sx) : list str := map sx_Zs (sx_list x).

Definition dec_plan (x : sx) : plan :=
  Plan (sx_Z (nth_sx 0 x)) (sx_Z (nth_sx 1 x)) (sx_strs (nth_sx 2 x))
       (sx_strs (nth_sx 3 x)) (sx_strs (nth_sx 4 x)) (sx_Z (nth_sx 5 x)).

Definition dec_op (x : sx) : op :=
  match sx_list x with
  | I 0 :: m :: uri :: hdrs :: pragma :: cc :: pl :: _ =>
    OReq (Req (sx_Z m) (sx_Zs uri)
              (map (fun h => (sx_Zs (nth_sx 0 h), sx_Zs (nth_sx 1 h))) (sx_list hdrs))
              (sx_strs pragma) (sx_strs cc) (dec_plan pl) (sx_Z (nth_sx 7 x)) (sx_Z (nth_sx 8 x)))
  | I 1 :: n :: _ => OTick (sx_Z n)
  | _ => OSweep
  end.

Definition dec_cfg (x : sx) : cfg :=
  Cfg (sx_Z (nth_sx 0 x)) (sx_Z (nth_sx 1 x)) (sx_Z (nth_sx 2 x)) (sx_Z (nth_sx 3 x))
      (sx_Z (nth_sx 4 x)) (sx_bool (nth_sx 5 x)) (sx_bool (nth_sx 6 x)) (sx_bool (nth_sx 7 x)).

(** per request: (kind gen age cached status size), kind 0 miss / 1 hit / 2 400 / 3 304 / 4 412 *)
Definition enc_out (o : option (outcome * bool)) : sx :=
  match o with
  | None => L []
  | Some (OMiss g, fl) => L [I 0; I g; I 0; of_bool fl; I 0; I 0]
  | Some (OHit v age, fl) => L [I 1; I (v_gen v); I age; of_bool fl; I (v_status v); I (v_size v)]
  | Some (O400, fl) => L [I 2; I 0; I 0; of_bool fl; I 400; I 0]
  | Some (O304 v age, fl) => L [I 3; I (v_gen v); I age; of_bool fl; I 304; I 0]
  | Some (O412 v, fl) => L [I 4; I (v_gen v); I 0; of_bool fl; I 412; I 0]
  end.

Definition count_slots (s : st) : Z * Z :=
  fold_left (fun acc uv =>
               fold_left (fun a kv => match snd kv with
                                      | SVar _ => (fst a + 1, snd a)
                                      | SEvent => (fst a, snd a + 1)
                                      end) (uc_ents (snd uv)) acc)
            (s_store s) (0, 0).

(** case = (cfg ops); op = (0 meth uri hdrs pragma cc plan ims ius) | (1 n) | (2);
    plan = (status size vary rpragma rcc lastmod);
    result = (outs cursize |store| #variants #events #buckets #bucket-objects handler-calls) *)
Definition run_C15 (x : sx) : sx :=
  let c := dec_cfg (nth_sx 0 x) in
  let ops := map dec_op (sx_list (nth_sx 1 x)) in
  let '(outs, s) := run c ops init in
  let '(nv, ne) := count_slots s in
  L [ L (map enc_out outs); I (s_cursize s); I (lenZ (s_store s)); I nv; I ne;
      I (lenZ (s_exp s)); I (fold_left (fun a b => a + lenZ (snd b)) (s_exp s) 0);
      I (s_gen s) ].
