(** Model of the output sinks of C12:
    cherrypy.lib.httputil.HeaderMap.{encode, encode_header_item, output},
    cherrypy._cprequest.Response.finalize (status line and cookie lines),
    html.escape(quote=False), xml.sax.saxutils.quoteattr,
    cherrypy._cperror.{get_error_page, HTTPRedirect.set_response} (page bodies),
    cherrypy._cplogging.LogManager.access (atom escaping and the record),
    httputil.SanitizedHost, base64 and UTF-8.
    Strings are lists of code points, byte strings lists of 0..255.
    Definitions only; proofs live in Proof/P_headers*.v. *)
From Coq Require Import ZArith List Bool.
From CV Require Import Lib.Sx Lib.ListZ.
Import ListNotations.
Open Scope Z_scope.

(** Results of operations that can raise. *)
Inductive res (A : Type) : Type :=
| Ok (a : A)
| EUnicode            (* UnicodeEncodeError *)
| EValue.             (* ValueError *)
Arguments Ok {A} a.
Arguments EUnicode {A}.
Arguments EValue {A}.

Definition bind {A B} (r : res A) (f : A -> res B) : res B :=
  match r with Ok a => f a | EUnicode => EUnicode | EValue => EValue end.

Fixpoint memZ (x : Z) (l : list Z) : bool :=
  match l with [] => false | y :: r => (x =? y) || memZ x r end.

(** [prefixb p l]: l starts with p *)
Fixpoint prefixb (p l : list Z) : bool :=
  match p with
  | [] => true
  | x :: p' => match l with [] => false | y :: l' => (x =? y) && prefixb p' l' end
  end.

(** * UTF-8 *)
Definition is_surrogate (c : Z) : bool := (55296 <=? c) && (c <=? 57343).

Definition utf8_cp (c : Z) : option (list Z) :=
  if c <? 0 then None
  else if c <? 128 then Some [c]
  else if c <? 2048 then Some [192 + c / 64; 128 + c mod 64]
  else if c <? 65536 then
    if is_surrogate c then None
    else Some [224 + c / 4096; 128 + (c / 64) mod 64; 128 + c mod 64]
  else if c <? 1114112 then
    Some [240 + c / 262144; 128 + (c / 4096) mod 64; 128 + (c / 64) mod 64; 128 + c mod 64]
  else None.

(** str.encode('utf-8'); None = UnicodeEncodeError (lone surrogate) *)
Fixpoint utf8 (s : list Z) : option (list Z) :=
  match s with
  | [] => Some []
  | c :: r => match utf8_cp c, utf8 r with
              | Some a, Some b => Some (a ++ b)
              | _, _ => None
              end
  end.

Definition is_cont (b : Z) : bool := (128 <=? b) && (b <? 192).

(** strict decoder (shortest form, no surrogates, <= U+10FFFF) *)
Fixpoint utf8_dec (l : list Z) : option (list Z) :=
  match l with
  | [] => Some []
  | b0 :: r0 =>
    if (0 <=? b0) && (b0 <? 128) then
      match utf8_dec r0 with Some t => Some (b0 :: t) | None => None end
    else match r0 with
    | [] => None
    | b1 :: r1 =>
      if (192 <=? b0) && (b0 <? 224) then
        let c := (b0 - 192) * 64 + (b1 - 128) in
        if is_cont b1 && (128 <=? c) then
          match utf8_dec r1 with Some t => Some (c :: t) | None => None end
        else None
      else match r1 with
      | [] => None
      | b2 :: r2 =>
        if (224 <=? b0) && (b0 <? 240) then
          let c := (b0 - 224) * 4096 + (b1 - 128) * 64 + (b2 - 128) in
          if is_cont b1 && is_cont b2 && (2048 <=? c) && negb (is_surrogate c) then
            match utf8_dec r2 with Some t => Some (c :: t) | None => None end
          else None
        else match r2 with
        | [] => None
        | b3 :: r3 =>
          if (240 <=? b0) && (b0 <? 248) then
            let c := (b0 - 240) * 262144 + (b1 - 128) * 4096 + (b2 - 128) * 64 + (b3 - 128) in
            if is_cont b1 && is_cont b2 && is_cont b3 && (65536 <=? c) && (c <? 1114112) then
              match utf8_dec r3 with Some t => Some (c :: t) | None => None end
            else None
          else None
        end
      end
    end
  end.

(** * base64 (binascii.b2a_base64 without its trailing newline, which
      HeaderMap.encode strips again; the alphabet contains no newline) *)
Definition b64char (n : Z) : Z :=
  if n <? 26 then 65 + n
  else if n <? 52 then 71 + n
  else if n <? 62 then n - 4
  else if n =? 62 then 43 else 47.

Definition b64val (c : Z) : option Z :=
  if (65 <=? c) && (c <=? 90) then Some (c - 65)
  else if (97 <=? c) && (c <=? 122) then Some (c - 71)
  else if (48 <=? c) && (c <=? 57) then Some (c + 4)
  else if c =? 43 then Some 62
  else if c =? 47 then Some 63
  else None.

Fixpoint b64enc (l : list Z) : list Z :=
  match l with
  | [] => []
  | a :: l1 =>
    match l1 with
    | [] => [b64char ((a / 4) mod 64); b64char ((a mod 4 * 16) mod 64); 61; 61]
    | b :: l2 =>
      match l2 with
      | [] => [b64char ((a / 4) mod 64); b64char ((a mod 4 * 16 + b / 16) mod 64);
               b64char ((b mod 16 * 4) mod 64); 61]
      | c :: r =>
        b64char ((a / 4) mod 64) :: b64char ((a mod 4 * 16 + b / 16) mod 64)
        :: b64char ((b mod 16 * 4 + c / 64) mod 64) :: b64char (c mod 64) :: b64enc r
      end
    end
  end.

Fixpoint b64dec (l : list Z) : option (list Z) :=
  match l with
  | [] => Some []
  | c1 :: l1 =>
    match l1 with
    | [] => None
    | c2 :: l2 =>
      match l2 with
      | [] => None
      | c3 :: l3 =>
        match l3 with
        | [] => None
        | c4 :: r =>
          match b64val c1, b64val c2 with
          | Some v1, Some v2 =>
            if (c3 =? 61) && (c4 =? 61) then
              match r with [] => Some [v1 * 4 + v2 / 16] | _ => None end
            else
              match b64val c3 with
              | Some v3 =>
                if c4 =? 61 then
                  match r with
                  | [] => Some [v1 * 4 + v2 / 16; (v2 mod 16) * 16 + v3 / 4]
                  | _ => None
                  end
                else
                  match b64val c4, b64dec r with
                  | Some v4, Some t =>
                    Some (v1 * 4 + v2 / 16 :: (v2 mod 16) * 16 + v3 / 4 :: (v3 mod 4) * 64 + v4 :: t)
                  | _, _ => None
                  end
              | None => None
              end
          | _, _ => None
          end
        end
      end
    end
  end.

(** * HeaderMap.encode / encode_header_item / output *)
Definition is_latin1 (s : list Z) : bool :=
  forallb (fun c => (0 <=? c) && (c <? 256)) s.

Definition ew_prefix : list Z := [61;63;117;116;102;45;56;63;98;63].   (* =?utf-8?b? *)
Definition ew_suffix : list Z := [63;61].                               (* ?= *)

(** [rfc2047] is [cls.protocol == (1, 1) and cls.use_rfc_2047]: both are read
    from the CLASS, so it is true whatever the protocol of the request. *)
Definition encode (rfc2047 : bool) (v : list Z) : res (list Z) :=
  if is_latin1 v then Ok v
  else if rfc2047 then
    match utf8 v with
    | Some bs => Ok (ew_prefix ++ b64enc bs ++ ew_suffix)
    | None => EUnicode
    end
  else EValue.

(** header_translate_deletechars as it stands in httputil.py (tie_deletechars) *)
Definition deletechars : list Z :=
  [0;1;2;3;4;5;6;7;8;9;10;11;12;13;14;15;16;17;18;19;20;21;22;23;24;25;26;27;28;29;30;31;127].

(** bytes.translate(None, del) *)
Definition delete (del : list Z) (bs : list Z) : list Z :=
  filter (fun b => negb (memZ b del)) bs.

(** an item is a str ([isbytes = false]) or already bytes *)
Definition encode_header_item (del : list Z) (isbytes : bool) (item : list Z) : res (list Z) :=
  if isbytes then Ok (delete del item)
  else bind (encode true item) (fun bs => Ok (delete del bs)).

Record hitem := HItem { h_nb : bool; h_name : list Z; h_vb : bool; h_val : list Z }.

(** HeaderMap.output (non str/bytes values have been str()ed by the caller) *)
Fixpoint output (del : list Z) (items : list hitem) : res (list (list Z * list Z)) :=
  match items with
  | [] => Ok []
  | it :: r =>
    bind (encode_header_item del (h_nb it) (h_name it)) (fun n =>
    bind (encode_header_item del (h_vb it) (h_val it)) (fun v =>
    bind (output del r) (fun t => Ok ((n, v) :: t))))
  end.

(** * Response.finalize: status line and cookie lines *)
Definition dec3 (c : Z) : list Z := [48 + c / 100; 48 + (c / 10) mod 10; 48 + c mod 10].

(** the code as written: [headers.encode(reason)], no deletion;
    repaired: [headers.encode_header_item(reason)] *)
Definition status_line (repaired : bool) (del : list Z) (code : Z) (reason : list Z) : res (list Z) :=
  bind (if repaired then encode_header_item del false reason else encode true reason)
       (fun r => Ok (dec3 code ++ 32 :: r)).

Definition set_cookie : list Z := [83;101;116;45;67;111;111;107;105;101].   (* Set-Cookie *)

(** BaseCookie.output(): "Set-Cookie: " + OutputString joined with CRLF *)
Fixpoint cookie_output (morsels : list (list Z)) : list Z :=
  match morsels with
  | [] => []
  | [m] => set_cookie ++ [58;32] ++ m
  | m :: r => set_cookie ++ [58;32] ++ m ++ [13;10] ++ cookie_output r
  end.

(** str.split('\r\n') *)
Fixpoint split_crlf (cur : list Z) (l : list Z) : list (list Z) :=
  match l with
  | [] => [rev cur]
  | x :: r =>
    match r with
    | y :: r' => if (x =? 13) && (y =? 10) then rev cur :: split_crlf [] r'
                 else split_crlf (x :: cur) r
    | [] => split_crlf (x :: cur) r
    end
  end.

(** line.split(': ', 1) -> Some (name, value), None when the separator is absent *)
Fixpoint split_colon (cur : list Z) (l : list Z) : option (list Z * list Z) :=
  match l with
  | [] => None
  | x :: r =>
    match r with
    | y :: r' => if (x =? 58) && (y =? 32) then Some (rev cur, r')
                 else split_colon (x :: cur) r
    | [] => None
    end
  end.

Fixpoint cookie_lines_written (lines : list (list Z)) : res (list (list Z * list Z)) :=
  match lines with
  | [] => Ok []
  | ln :: r =>
    match split_colon [] ln with
    | None => EValue                                   (* name, value = [x] *)
    | Some (n, v) =>
      if is_latin1 n then
        bind (encode true v) (fun v' =>
        bind (cookie_lines_written r) (fun t => Ok ((n, v') :: t)))
      else EUnicode
    end
  end.

Fixpoint cookie_lines_repaired (del : list Z) (morsels : list (list Z))
  : res (list (list Z * list Z)) :=
  match morsels with
  | [] => Ok []
  | m :: r =>
    bind (encode_header_item del false set_cookie) (fun n =>
    bind (encode_header_item del false m) (fun v =>
    bind (cookie_lines_repaired del r) (fun t => Ok ((n, v) :: t))))
  end.

Definition cookie_lines (repaired : bool) (del : list Z) (morsels : list (list Z))
  : res (list (list Z * list Z)) :=
  if repaired then cookie_lines_repaired del morsels
  else match morsels with
       | [] => Ok []                                   (* if cookie: *)
       | _ => cookie_lines_written (split_crlf [] (cookie_output morsels))
       end.

(** what finalize leaves in output_status and header_list *)
Definition finalize (repaired : bool) (del : list Z) (code : Z) (reason : list Z)
           (items : list hitem) (morsels : list (list Z))
  : res (list Z * list (list Z * list Z)) :=
  bind (status_line repaired del code reason) (fun st =>
  bind (output del items) (fun hs =>
  bind (cookie_lines repaired del morsels) (fun cs => Ok (st, hs ++ cs)))).

(** * html.escape(quote=False), saxutils.quoteattr *)
Definition replace1 (x : Z) (rep : list Z) (s : list Z) : list Z :=
  flat_map (fun c => if c =? x then rep else [c]) s.

Definition s_amp : list Z := [38;97;109;112;59].
Definition s_lt : list Z := [38;108;116;59].
Definition s_gt : list Z := [38;103;116;59].

(** s.replace("&", "&amp;").replace("<", "&lt;").replace(">", "&gt;") *)
Definition escape (s : list Z) : list Z :=
  replace1 62 s_gt (replace1 60 s_lt (replace1 38 s_amp s)).

(** the inverse scanner used to state the round trip *)
Fixpoint unesc (skip : nat) (l : list Z) : list Z :=
  match l with
  | [] => []
  | c :: r =>
    match skip with
    | S k => unesc k r
    | O =>
      if c =? 38 then
        if prefixb [97;109;112;59] r then 38 :: unesc 4 r
        else if prefixb [108;116;59] r then 60 :: unesc 3 r
        else if prefixb [103;116;59] r then 62 :: unesc 3 r
        else c :: unesc 0 r
      else c :: unesc 0 r
    end
  end.
Definition unescape (l : list Z) : list Z := unesc 0 l.

(** every '&' is the start of &amp; &lt; or &gt; *)
Fixpoint amps_ok (l : list Z) : bool :=
  match l with
  | [] => true
  | c :: r =>
    (if c =? 38 then prefixb [97;109;112;59] r || prefixb [108;116;59] r || prefixb [103;116;59] r
     else true) && amps_ok r
  end.

(** saxutils.escape(data, {'\n': '&#10;', '\r': '&#13;', '\t': '&#9;'}) then the quoting *)
Definition quoteattr (s : list Z) : list Z :=
  let d := replace1 60 s_lt (replace1 62 s_gt (replace1 38 s_amp s)) in
  let d := replace1 9 [38;35;57;59] (replace1 13 [38;35;49;51;59] (replace1 10 [38;35;49;48;59] d)) in
  if memZ 34 d then
    if memZ 39 d then 34 :: replace1 34 [38;113;117;111;116;59] d ++ [34]
    else 39 :: d ++ [39]
  else 34 :: d ++ [34].

(** * get_error_page: the escaping loop and the template substitution *)
Inductive piece := Lit (l : list Z) | Field (k : Z).   (* 0 status 1 message 2 traceback 3 version *)

Record kwargs := KW { k_status : list Z; k_message : list Z; k_traceback : list Z; k_version : list Z }.

Definition kw_get (kw : kwargs) (k : Z) : list Z :=
  if k =? 0 then k_status kw else if k =? 1 then k_message kw
  else if k =? 2 then k_traceback kw else k_version kw.

Definition or_default (o : option (list Z)) (d : list Z) : list Z :=
  match o with Some v => v | None => d end.

(** defaults for None, then [kwargs[k] = html.escape(kwargs[k], quote=False)] for every k *)
Definition error_kwargs (status_str defmsg version : list Z)
           (o_status o_message o_traceback o_version : option (list Z)) : kwargs :=
  let kw := KW (or_default o_status status_str) (or_default o_message defmsg)
               (or_default o_traceback []) (or_default o_version version) in
  KW (escape (k_status kw)) (escape (k_message kw)) (escape (k_traceback kw)) (escape (k_version kw)).

(** template % kwargs *)
Definition render (tmpl : list piece) (kw : kwargs) : list Z :=
  flat_map (fun p => match p with Lit l => l | Field k => kw_get kw k end) tmpl.

Definition error_page (tmpl : list piece) (status_str defmsg version : list Z)
           (o_status o_message o_traceback o_version : option (list Z)) : res (list Z) :=
  match utf8 (render tmpl (error_kwargs status_str defmsg version
                                        o_status o_message o_traceback o_version)) with
  | Some bs => Ok bs
  | None => EUnicode
  end.

(** * HTTPRedirect.set_response: the body *)
Definition redirect_msg (status : Z) : option (list Z) :=
  if (status =? 300) || (status =? 303) then
    Some [84;104;105;115;32;114;101;115;111;117;114;99;101;32;99;97;110;32;98;101;32;102;111;117;110;100;32;97;116;32]
  else if status =? 301 then
    Some [84;104;105;115;32;114;101;115;111;117;114;99;101;32;104;97;115;32;112;101;114;109;97;110;101;110;116;108;121;32;109;111;118;101;100;32;116;111;32]
  else if status =? 302 then
    Some [84;104;105;115;32;114;101;115;111;117;114;99;101;32;114;101;115;105;100;101;115;32;116;101;109;112;111;114;97;114;105;108;121;32;97;116;32]
  else if status =? 307 then
    Some [84;104;105;115;32;114;101;115;111;117;114;99;101;32;104;97;115;32;109;111;118;101;100;32;116;101;109;112;111;114;97;114;105;108;121;32;116;111;32]
  else if status =? 308 then
    Some [84;104;105;115;32;114;101;115;111;117;114;99;101;32;104;97;115;32;98;101;101;110;32;109;111;118;101;100;32;116;111;32]
  else None.

(** msg + '<a href=%s>%s</a>.' % (quoteattr(u), html.escape(u, quote=False)) *)
Definition redirect_item (msg u : list Z) : list Z :=
  msg ++ [60;97;32;104;114;101;102;61] ++ quoteattr u ++ [62] ++ escape u ++ [60;47;97;62;46].

Fixpoint join_br (l : list (list Z)) : list Z :=
  match l with
  | [] => []
  | [x] => x
  | x :: r => x ++ [60;98;114;32;47;62;10] ++ join_br r      (* '<br />\n' *)
  end.

(** Ok (Some body) / Ok None (body = None for 304, 305) / EValue for an unknown 3xx *)
Definition redirect_body (status : Z) (urls : list (list Z)) : res (option (list Z)) :=
  match redirect_msg status with
  | Some msg =>
    match utf8 (join_br (map (redirect_item msg) urls)) with
    | Some bs => Ok (Some bs)
    | None => EUnicode
    end
  | None =>
    if status =? 304 then Ok None
    else if status =? 305 then
      match urls with
      | u :: _ => match utf8 u with Some _ => Ok None | None => EUnicode end
      | [] => EValue
      end
    else EValue
  end.

(** * LogManager.access: atom escaping *)
Definition hexdigit (n : Z) : Z := if n <? 10 then 48 + n else 87 + n.

(** one byte of repr(bytes) with quote character q *)
Definition repr_byte (q : Z) (b : Z) : list Z :=
  if (b =? q) || (b =? 92) then [92; b]
  else if b =? 9 then [92; 116]
  else if b =? 10 then [92; 110]
  else if b =? 13 then [92; 114]
  else if (b <? 32) || (127 <=? b) then [92; 120; hexdigit ((b / 16) mod 16); hexdigit (b mod 16)]
  else [b].

(** repr(bs)[2:-1]: the quote is the apostrophe unless bs contains an apostrophe and no
    double quote (then it is the double quote) *)
Definition repr_quote (bs : list Z) : Z :=
  if memZ 39 bs && negb (memZ 34 bs) then 34 else 39.
Definition repr_body (bs : list Z) : list Z :=
  flat_map (repr_byte (repr_quote bs)) bs.

(** v.replace(BACKSLASH BACKSLASH, BACKSLASH): leftmost non-overlapping pairs *)
Fixpoint replace_bsbs (l : list Z) : list Z :=
  match l with
  | [] => []
  | x :: r =>
    match r with
    | y :: r' => if (x =? 92) && (y =? 92) then 92 :: replace_bsbs r' else x :: replace_bsbs r
    | [] => [x]
    end
  end.

(** v.replace(DQUOTE, BACKSLASH DQUOTE).encode('utf8'); repr(v)[2:-1];
    v.replace(BACKSLASH BACKSLASH, BACKSLASH) *)
Definition log_atom (v : list Z) : option (list Z) :=
  match utf8 (replace1 34 [92; 34] v) with
  | Some bs => Some (replace_bsbs (repr_body bs))
  | None => None
  end.

(** access_log_format.format( **atoms ) with the default
    {h} {l} {u} {t} "{r}" {s} {b} "{f}" "{a}" *)
Record atoms := Atoms { a_h : list Z; a_l : list Z; a_u : list Z; a_t : list Z; a_r : list Z;
                        a_s : list Z; a_b : list Z; a_f : list Z; a_a : list Z;
                        a_o : list Z   (* Host: escaped like the others (so it can raise), not in the default format *) }.

Definition access_format (x : atoms) : list Z :=
  a_h x ++ [32] ++ a_l x ++ [32] ++ a_u x ++ [32] ++ a_t x ++ [32;34] ++ a_r x ++ [34;32]
  ++ a_s x ++ [32] ++ a_b x ++ [32;34] ++ a_f x ++ [34;32;34] ++ a_a x ++ [34].

Definition obind {A B} (o : option A) (f : A -> option B) : option B :=
  match o with Some a => f a | None => None end.

Definition access_line (x : atoms) : option (list Z) :=
  match log_atom (a_h x), log_atom (a_l x), log_atom (a_u x), log_atom (a_t x), log_atom (a_r x),
        log_atom (a_s x), log_atom (a_b x), log_atom (a_f x), log_atom (a_a x), log_atom (a_o x) with
  | Some h, Some l, Some u, Some t, Some r, Some s, Some b, Some f, Some a, Some o =>
    Some (access_format (Atoms h l u t r s b f a o))
  | _, _, _, _, _, _, _, _, _, _ => None
  end.

(** * SanitizedHost: re.sub('[\n\r]', '', raw) *)
Definition sanitize_host (raw : list Z) : list Z :=
  filter (fun c => negb ((c =? 10) || (c =? 13))) raw.

(** * an emitted encoded word decoded again (what a recipient reads) *)
Fixpoint strip_suffix2 (l : list Z) : option (list Z) :=
  match l with
  | [] => None
  | x :: r =>
    match r with
    | [y] => if (x =? 63) && (y =? 61) then Some [] else None
    | _ => match strip_suffix2 r with Some t => Some (x :: t) | None => None end
    end
  end.

Definition decode_word (bs : list Z) : option (list Z) :=
  if prefixb ew_prefix bs then
    obind (strip_suffix2 (dropZ 10 bs)) (fun p => obind (b64dec p) utf8_dec)
  else None.

(** * s-expression interface: a case is a list of jobs *)
Definition sx_str (s : sx) : list Z := sx_Zs s.
Definition sx_optstr (s : sx) : option (list Z) :=
  match s with L (x :: _) => Some (sx_Zs x) | _ => None end.

Definition enc_res {A} (f : A -> list sx) (r : res A) : sx :=
  match r with
  | Ok a => L (I 0 :: f a)
  | EUnicode => L [I 1]
  | EValue => L [I 2]
  end.

Definition enc_pairs (l : list (list Z * list Z)) : sx :=
  L (map (fun '(n, v) => L [of_Zs n; of_Zs v]) l).

Definition dec_item (s : sx) : hitem :=
  HItem (sx_bool (nth_sx 0 s)) (sx_str (nth_sx 1 s)) (sx_bool (nth_sx 2 s)) (sx_str (nth_sx 3 s)).

Definition dec_piece (s : sx) : piece :=
  if sx_Z (nth_sx 0 s) =? 0 then Lit (sx_str (nth_sx 1 s)) else Field (sx_Z (nth_sx 1 s)).

Definition enc_fin (r : res (list Z * list (list Z * list Z))) : sx :=
  enc_res (fun '(st, hs) => [of_Zs st; enc_pairs hs]) r.

Definition enc_opt (o : option (list Z)) : sx :=
  match o with Some l => L [I 0; of_Zs l] | None => L [I 1] end.

Definition run_job (j : sx) : sx :=
  let k := sx_Z (nth_sx 0 j) in
  if k =? 0 then
    (* finalize: code reason items morsels -> (repaired, as written) *)
    let code := sx_Z (nth_sx 1 j) in
    let reason := sx_str (nth_sx 2 j) in
    let items := map dec_item (sx_list (nth_sx 3 j)) in
    let morsels := map sx_str (sx_list (nth_sx 4 j)) in
    L [enc_fin (finalize true deletechars code reason items morsels);
       enc_fin (finalize false deletechars code reason items morsels)]
  else if k =? 1 then
    (* error page: tmpl status_str defmsg version o_status o_message o_traceback o_version *)
    enc_res (fun b => [of_Zs b])
      (error_page (map dec_piece (sx_list (nth_sx 1 j))) (sx_str (nth_sx 2 j)) (sx_str (nth_sx 3 j))
                  (sx_str (nth_sx 4 j)) (sx_optstr (nth_sx 5 j)) (sx_optstr (nth_sx 6 j))
                  (sx_optstr (nth_sx 7 j)) (sx_optstr (nth_sx 8 j)))
  else if k =? 2 then
    (* redirect body: status urls *)
    enc_res (fun o => match o with Some b => [I 1; of_Zs b] | None => [I 0] end)
      (redirect_body (sx_Z (nth_sx 1 j)) (map sx_str (sx_list (nth_sx 2 j))))
  else if k =? 3 then
    (* access-log record: the nine atoms of the format and Host *)
    let a := fun n => sx_str (nth_sx n (nth_sx 1 j)) in
    enc_opt (access_line (Atoms (a 0%nat) (a 1%nat) (a 2%nat) (a 3%nat) (a 4%nat) (a 5%nat)
                                (a 6%nat) (a 7%nat) (a 8%nat) (a 9%nat)))
  else if k =? 4 then
    (* an emitted header value read back as an encoded word *)
    enc_opt (decode_word (sx_str (nth_sx 1 j)))
  else if k =? 5 then
    of_Zs (sanitize_host (sx_str (nth_sx 1 j)))
  else if k =? 6 then
    (* primitives: escape, unescape∘escape, quoteattr, log_atom, b64dec∘b64enc of the bytes *)
    let s := sx_str (nth_sx 1 j) in
    L [of_Zs (escape s); of_Zs (unescape (escape s)); of_Zs (quoteattr s); enc_opt (log_atom s);
       enc_opt (obind (utf8 s) (fun b => b64dec (b64enc b)))]
  else L [].

Definition run_C12 (x : sx) : sx := L (map run_job (sx_list x)).
