#!/bin/sh
# regenerate _CoqProject and Makefile from the files present
cd "$(dirname "$0")"
{ cat _CoqProject.head; ls Lib/*.v LibP/*.v Model/*.v Proof/*.v Props/*.v Refuted/*.v Extract/*.v 2>/dev/null; } > _CoqProject
coq_makefile -f _CoqProject -o Makefile >/dev/null
