(** The two spots of the parameter handling that did not satisfy C03 as the code
    stood before commits 1dd07ce (image map) and d30c7aa (merge), kept as a record
    of the repaired defects: concrete witnesses on the faithful model
    ([c_imap_full = false]: image_map_pattern.match, a prefix match;
     [c_merge_flat = false]: RequestBody.process appends a list value as ONE element). *)
From Coq Require Import ZArith List Bool.
From CV Require Import Lib.Sx Lib.ListZ Model.M_params.
Import ListNotations.
Open Scope Z_scope.

Definition st_plain : style := Style (fun _ => true) true true false false.
Definition enc_id (s : list Z) : list Z := s.

(** The one-pair multimap {"1,2x": ""} sent as the query string "1,2x=" is not
    delivered: the request is answered 500 (ValueError from int("2x=")). *)
Theorem c03_imagemap_prefix_refuted :
  exists m st sep,
    request (Cfg false true) (encode enc_id true st sep m) None None None <> (200, to_dict m)
    /\ request (Cfg false true) (encode enc_id true st sep m) None None None = (500, []).
Proof.
  exists [([49;44;50;120], [])], st_plain, 38.
  split; vm_compute; [discriminate | reflexivity].
Qed.
Print Assumptions c03_imagemap_prefix_refuted.

(** "1,2,3" is read as the image-map click (1, 2) although the query is not solely N,M. *)
Theorem c03_imagemap_three_refuted :
  request (Cfg false true) [49;44;50;44;51] None None None = (200, [(key_x, PInt 1); (key_y, PInt 2)]).
Proof. vm_compute. reflexivity. Qed.
Print Assumptions c03_imagemap_three_refuted.

(** Query a=1, body a=2&a=3: the handler receives a = ['1', ['2', '3']], not the
    list ['1', '2', '3'] of the multimap. *)
Theorem c03_merge_nested_refuted :
  exists mq mb st,
    request (Cfg true false) (encode enc_id true st 38 mq) (Some (encode enc_id false st 38 mb)) None None
    = (200, [([97], PList [PStr [49]; PList [PStr [50]; PStr [51]]])])
    /\ to_dict (mq ++ mb) = [([97], PList [PStr [49]; PStr [50]; PStr [51]])].
Proof.
  exists [([97], [49])], [([97], [50]); ([97], [51])], st_plain.
  split; vm_compute; reflexivity.
Qed.
Print Assumptions c03_merge_nested_refuted.
