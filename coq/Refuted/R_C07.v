(** The code as written ([cfg_written]) does not satisfy C07: for every parser that had a
    crash point reachable from client input, a concrete input (and oracle answers inside the
    declared raise-sets) on which the model of the unrepaired code crashes - evaluated by the
    kernel.  Each corresponds to one fixes/C07-*.diff. *)
From Coq Require Import ZArith List Bool.
From CV Require Import Lib.Sx Lib.ListZ Model.M_malformed Proof.P_malformed.
From CV Require Model.M_params Model.M_ranges.
Import ListNotations.
Open Scope Z_scope.

(** 2^13 nines: more digits than int() converts *)
Fixpoint dbl (n : nat) (l : list Z) : list Z := match n with O => l | S k => dbl k (l ++ l) end.
Definition nines : list Z := dbl 13 [57].

(** X-Custom: =?nope?q?x?=  (LookupError),  "abc =?utf-8?q?x?=" (str + bytes: TypeError),
    =?utf-8?b?Q?= (HeaderParseError) *)
Theorem c07_decode_text_refuted :
  process_header cfg_written false [61;63;110;111;112;101;63;113;63;120;63;61] (DHAtoms [(true, 2, OExn ELookup)] OOk) OOk = Crash ELookup 1
  /\ process_header cfg_written false [97;98;99;32;61;63;117;116;102;45;56;63;113;63;120;63;61] (DHAtoms [(true, 0, OOk); (true, 2, OOk)] OOk) OOk = Crash EType 2
  /\ process_header cfg_written false [61;63;117;116;102;45;56;63;98;63;81;63;61] (DHRaise EHeaderParse) OOk = Crash EHeaderParse 0.
Proof. repeat split; vm_compute; reflexivity. Qed.
Print Assumptions c07_decode_text_refuted.

(** GET /?<8192 nines>,1 *)
Theorem c07_query_refuted : query cfg_written (nines ++ [44; 49]) = Crash EValue 10.
Proof. vm_compute; reflexivity. Qed.
Print Assumptions c07_query_refuted.

(** Accept-Encoding: gzip;q=x with tools.gzip: the HTTPError(400) is raised again while it is finalized *)
Theorem c07_qvalue_refuted :
  accept_q cfg_written 1 [false] = Crash EHTTP 20 /\ pipeline [(true, Reject 400)] 200 = 500.
Proof. split; vm_compute; reflexivity. Qed.
Print Assumptions c07_qvalue_refuted.

(** Range: bytes=<8192 nines>- *)
Theorem c07_get_ranges_refuted :
  ranges cfg_written (Some ([98;121;116;101;115;61] ++ nines ++ [45])) 14 = Crash EValue 30.
Proof. vm_compute; reflexivity. Qed.
Print Assumptions c07_get_ranges_refuted.

(** Cache-Control: max-age=<superscript two> *)
Theorem c07_max_age_refuted : max_age cfg_written [[109;97;120;45;97;103;101] ++ [61; 178]] = Crash EValue 40.
Proof. vm_compute; reflexivity. Qed.
Print Assumptions c07_max_age_refuted.

(** Content-Type: application/x-www-form-urlencoded; charset=nope, body a=1;
    a multipart field with charset=undefined *)
Theorem c07_charset_refuted :
  form_body cfg_written [([110;111;112;101], 3); ([117;116;102;45;56], 1); ([117;115;45;97;115;99;105;105], 0); ([117;110;100;101;102;105;110;101;100], 4)] [97;112;112;108;105;99;97;116;105;111;110;47;120;45;119;119;119;45;102;111;114;109;45;117;114;108;101;110;99;111;100;101;100;59;32;99;104;97;114;115;101;116;61;110;111;112;101] [97;61;49] = Crash ELookup 50
  /\ decode_entity cfg_written [([110;111;112;101], 3); ([117;116;102;45;56], 1); ([117;115;45;97;115;99;105;105], 0); ([117;110;100;101;102;105;110;101;100], 4)] [[117;110;100;101;102;105;110;101;100]; [117;115;45;97;115;99;105;105]] [97] = Crash EUnicode 51
  /\ encode_charset cfg_written true 3 = Crash ELookup 130
  /\ encode_charset cfg_written false 5 = Crash EValue 131.
Proof. repeat split; vm_compute; reflexivity. Qed.
Print Assumptions c07_charset_refuted.

(** Content-Disposition: x; filename*=x   and   x; filename*=nope''%41 *)
Theorem c07_entity_init_refuted :
  disposition cfg_written [([110;111;112;101], 3); ([117;116;102;45;56], 1); ([117;115;45;97;115;99;105;105], 0); ([117;110;100;101;102;105;110;101;100], 4)] (Some [120;59;32;102;105;108;101;110;97;109;101;42;61;120]) = Crash EValue 60
  /\ disposition cfg_written [([110;111;112;101], 3); ([117;116;102;45;56], 1); ([117;115;45;97;115;99;105;105], 0); ([117;110;100;101;102;105;110;101;100], 4)] (Some [120;59;32;102;105;108;101;110;97;109;101;42;61;110;111;112;101;39;39;37;52;49]) = Crash ELookup 61.
Proof. split; vm_compute; reflexivity. Qed.
Print Assumptions c07_entity_init_refuted.

(** multipart: no boundary parameter; a body cut off inside a part; part headers that start
    with a continuation line; a part header line without ":" *)
Theorem c07_multipart_refuted :
  multipart cfg_written [([110;111;112;101], 3); ([117;116;102;45;56], 1); ([117;115;45;97;115;99;105;105], 0); ([117;110;100;101;102;105;110;101;100], 4)] [109;117;108;116;105;112;97;114;116;47;102;111;114;109;45;100;97;116;97] [] false = Crash EValue 75
  /\ multipart cfg_written [([110;111;112;101], 3); ([117;116;102;45;56], 1); ([117;115;45;97;115;99;105;105], 0); ([117;110;100;101;102;105;110;101;100], 4)] [109;117;108;116;105;112;97;114;116;47;102;111;114;109;45;100;97;116;97;59;32;98;111;117;110;100;97;114;121;61;98] [[45;45;98;13;10]; [67;111;110;116;101;110;116;45;68;105;115;112;111;115;105;116;105;111;110;58;32;102;111;114;109;45;100;97;116;97;59;32;110;97;109;101;61;34;97;34;13;10]; [13;10]; [49]] false = Crash EEOF 74
  /\ multipart cfg_written [([110;111;112;101], 3); ([117;116;102;45;56], 1); ([117;115;45;97;115;99;105;105], 0); ([117;110;100;101;102;105;110;101;100], 4)] [109;117;108;116;105;112;97;114;116;47;102;111;114;109;45;100;97;116;97;59;32;98;111;117;110;100;97;114;121;61;98] [[45;45;98;13;10]; [32;99;111;110;116;105;110;117;97;116;105;111;110;13;10]; [13;10]; [49;13;10]; [45;45;98;45;45;13;10]] false = Crash EUnbound 72
  /\ multipart cfg_written [([110;111;112;101], 3); ([117;116;102;45;56], 1); ([117;115;45;97;115;99;105;105], 0); ([117;110;100;101;102;105;110;101;100], 4)] [109;117;108;116;105;112;97;114;116;47;102;111;114;109;45;100;97;116;97;59;32;98;111;117;110;100;97;114;121;61;98] [[45;45;98;13;10]; [67;111;110;116;101;110;116;45;68;105;115;112;111;115;105;116;105;111;110;32;102;111;114;109;45;100;97;116;97;13;10]; [13;10]; [49;13;10]; [45;45;98;45;45;13;10]] false = Crash EValue 73
  /\ multipart cfg_written [([110;111;112;101], 3); ([117;116;102;45;56], 1); ([117;115;45;97;115;99;105;105], 0); ([117;110;100;101;102;105;110;101;100], 4)] [109;117;108;116;105;112;97;114;116;47;102;111;114;109;45;100;97;116;97;59;32;98;111;117;110;100;97;114;121;61;98] [[45;45;98;13;10]] false = Crash EEOF 70.
Proof. repeat split; vm_compute; reflexivity. Qed.
Print Assumptions c07_multipart_refuted.

(** json_in: a document nested too deeply *)
Theorem c07_json_refuted :
  in_set (OExn ERecursion) json_raises = true /\ json_body cfg_written true (OExn ERecursion) = Crash ERecursion 80.
Proof. split; vm_compute; reflexivity. Qed.
Print Assumptions c07_json_refuted.

(** digest: "Digest a=" (IndexError in parse_keqv_list); qop=auth-int with a valid nonce and
    user; qop="" *)
Theorem c07_digest_refuted :
  digest_auth cfg_written true OOk true (OExn EIndex) (DFields false false None false false) false false false false
    = Crash EIndex 101
  /\ digest_auth cfg_written true OOk true OOk (DFields true true (Some [97;117;116;104;45;105;110;116]) true true) true true false false
    = Crash EType 102
  /\ digest_auth cfg_written true OOk true OOk (DFields true true (Some []) false false) true true false false
    = Crash EValue 103.
Proof. repeat split; vm_compute; reflexivity. Qed.
Print Assumptions c07_digest_refuted.

(** Cookie: session_id=dir where storage_path/session-dir is a directory *)
Theorem c07_session_id_refuted : session_id cfg_written false false 2 = Crash EIsADir 110.
Proof. vm_compute; reflexivity. Qed.
Print Assumptions c07_session_id_refuted.

(** GET /page?self=1 on def page(self, **kwargs) *)
Theorem c07_callable_spec_refuted :
  callable_spec cfg_written (HSpec [115;101;108;102] [] 0 true true) 0 [([115;101;108;102], false)] = Crash EType 120.
Proof. vm_compute; reflexivity. Qed.
Print Assumptions c07_callable_spec_refuted.
