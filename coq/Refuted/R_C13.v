(** The code as written ([c_fixed = false]: acquire_lock = setdefault; acquire) does not satisfy
    C13: concrete schedules, replayed through the faithful model by [vm_compute].  The same
    schedules reproduce on the real threads (corpus/C13, vcheck/props/c13.py). *)
From Coq Require Import ZArith List Bool.
From CV Require Import Lib.Sx Lib.ListZ Model.M_locks Proof.P_locks Proof.P_locks_hooks.
Import ListNotations.
Open Scope Z_scope.

(** The sweep race.  An expired session 1 with its lock object L0 in the table; requests 0 and 1
    present the cookie.  Request 1 takes L0 out of the table (setdefault), the sweep acquires L0
    without blocking, pops it and releases it, request 0 finds the table empty and installs a
    fresh lock object L1: request 0 holds L1, request 1 holds L0 - both are between a completed
    acquire_lock and their release_lock for session 1 in the same state. *)
Theorem c13_sweep_race_refuted :
  exists sched cur s tr,
    replay (Cfg false (Some 1)) sched None (init [0; 0] 1 (Some (1, 5, true, true))) [] = (cur, s, tr)
    /\ reach (Cfg false (Some 1)) (init [0; 0] 1 (Some (1, 5, true, true))) s
    /\ in_cs s 0 1 /\ in_cs s 1 1.
Proof.
  exists [0;0; 1;1;1; 2;2;2;2;2;2;2;2; 0;0; 1].
  destruct (replay (Cfg false (Some 1)) [0;0; 1;1;1; 2;2;2;2;2;2;2;2; 0;0; 1] None
                   (init [0; 0] 1 (Some (1, 5, true, true))) []) as [[cur s] tr] eqn:E.
  exists cur, s, tr. split; [reflexivity|].
  split; [eapply replay_reach; [apply reach_init|exact E]|].
  vm_compute in E. injection E as _ <- _.
  split; eexists; (split; [vm_compute; reflexivity|split; reflexivity]).
Qed.
Print Assumptions c13_sweep_race_refuted.

(** ... the run goes on: both load the flushed session, both save counter 1 (one update is lost),
    request 1 then finds request 0's lock object under its id and raises RuntimeError in
    release_lock: its `locked` flag stays up and L0 stays owned by a request that is over. *)
Theorem c13_lost_update_refuted :
  exists sched ok s tr t1 o0,
    run_locks (Cfg false (Some 1)) (init [0; 0] 1 (Some (1, 5, true, true))) sched = (ok, s, tr)
    /\ ok = true /\ all_done s = true
    /\ ver s 1 = 2 /\ map (fun p => heap_get (c_data (snd p)) s) (cache s) = [1]
    /\ nthZ 1 (reqs s) = Some t1 /\ r_pc t1 = RDone /\ r_locked t1 = true
    /\ nthZ 0 (objs s) = Some o0 /\ l_owner o0 = Some 1.
Proof.
  exists [0;0; 1;1;1; 2;2;2;2;2;2;2;2;2; 0;0;0; 1;1]. do 5 eexists.
  split; [vm_compute; reflexivity|]. repeat split; vm_compute; reflexivity.
Qed.
Print Assumptions c13_lost_update_refuted.

(** Same race with two pre-emptions only: both requests fetch L0, the sweep pops it; request 0
    acquires it, saves, and release_lock raises KeyError (no lock object under its id): L0 is never
    released and request 1 blocks on it for ever - no thread is enabled, not all are over. *)
Theorem c13_lock_never_released_refuted :
  exists sched ok s tr t1,
    run_locks (Cfg false (Some 1)) (init [0; 0] 1 (Some (1, 5, true, true))) sched = (ok, s, tr)
    /\ ok = true /\ all_done s = false /\ enabled (Cfg false (Some 1)) s = []
    /\ nthZ 1 (reqs s) = Some t1 /\ r_pc t1 = RAcquire 0
    /\ In [4; 0; 1] (jrn s).
Proof.
  exists [1;1;1; 0;0;0; 2;2;2;2;2;2;2;2;2; 0;0;0;0;0]. do 4 eexists.
  split; [vm_compute; reflexivity|]. repeat split; try (vm_compute; reflexivity).
  vm_compute. auto 10.
Qed.
Print Assumptions c13_lock_never_released_refuted.

(** A single request without a cookie against one sweep: the sweep removes the lock object of the
    brand-new session between setdefault and acquire; the request ends with KeyError from
    release_lock (twice: in save() and in close()) and with `locked` still True. *)
Theorem c13_new_session_keyerror_refuted :
  exists sched ok s tr t0,
    run_locks (Cfg false None) (init [0] 1 None) sched = (ok, s, tr)
    /\ all_done s = true /\ nthZ 0 (reqs s) = Some t0 /\ r_locked t0 = true
    /\ count (fun e => match e with [4; 0; 1] => true | _ => false end) (jrn s) = 2.
Proof.
  exists [0;0;0; 1;1;1;1;1;1;1;1;1; 0]. do 4 eexists.
  split; [vm_compute; reflexivity|]. repeat split; vm_compute; reflexivity.
Qed.
Print Assumptions c13_new_session_keyerror_refuted.

(** Part (b) depends on the hook table: if sessions.close were not failsafe, a failing user hook at
    on_end_request would leave the lock held after the request (mutation target of Appendix B). *)
Theorem c13_close_must_be_failsafe_refuted :
  exists m o fl, b_count (run_request hooks_close_not_failsafe m o fl) = 1
                 /\ b_locked (run_request hooks_close_not_failsafe m o fl) = true.
Proof. exists Implicit, OExc, (FL true false false). split; vm_compute; reflexivity. Qed.
Print Assumptions c13_close_must_be_failsafe_refuted.
