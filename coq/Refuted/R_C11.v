(** The containment tests as the code wrote them - string prefix:
    normpath(filename).startswith(normpath(dir)) in staticdir,
    abspath(f).startswith(storage_path) in FileSession._get_file_path
    (strict = false) - do not satisfy C11: a sibling whose name starts with
    the root's name passes.  Concrete witnesses on the tree
    /r/s/a /r/s/d/i /r/sx/f /p/session-d/ /p/session-a /px/x. *)
From Coq Require Import ZArith List Bool.
From CV Require Import Lib.Sx Lib.ListZ Model.M_paths Proof.P_paths Proof.P_paths_thm.
Import ListNotations.
Open Scope Z_scope.

(** dir /r/s mounted at /static, request /static/../sx/f: 200, /r/sx/f opened *)
Theorem c11_static_refuted :
  exists path_info tag ops p,
    staticdir false s_static path_info s_rs [] [] ex_fs = (tag, 200, ops)
    /\ eff_dir s_rs [] = Some s_rs
    /\ In (1, p) ops
    /\ ~ SegPrefix (segments (normpath s_rs)) (resolve p).
Proof.
  exists (s_static ++ [47; 46; 46; 47; 115; 120; 47; 102]). eexists. eexists. eexists.
  split; [vm_compute; reflexivity|]. split; [reflexivity|].
  split; [right; left; reflexivity|].
  intro H. apply seg_prefixb_complete in H. vm_compute in H. discriminate.
Qed.
Print Assumptions c11_static_refuted.

(** storage /p, cookie session_id="d/../../px/x": the id is adopted, and
    /px/x(.lock) is locked, read and rewritten *)
Theorem c11_session_refuted :
  exists id tag ops p,
    sess_request false s_p s_p (Some id) 1 [[103]] ex_fs = (tag, 200, ops)
    /\ isabs s_p = true
    /\ In (2, p) ops
    /\ In (4, p ++ s_lock) ops
    /\ ~ SegPrefix (segments (abspath s_p s_p)) (resolve p).
Proof.
  exists id_evil. eexists. eexists. eexists.
  split; [vm_compute; reflexivity|]. split; [reflexivity|].
  split; [right; right; right; left; reflexivity|].
  split; [right; left; reflexivity|].
  intro H. apply seg_prefixb_complete in H. vm_compute in H. discriminate.
Qed.
Print Assumptions c11_session_refuted.
