(** The full statement of C04 takes the RFC 2046 delimiter as precondition (the
    content does not contain CRLF "--" boundary).  For the faithful model of
    Part.read_lines_to_boundary that statement is false: a line "--boundary"
    that follows a bare LF is taken for a delimiter.  Witness: content
    x LF --b CRLF y.  (Recorded as a known finding; the theorem in Props/C04.v is
    proved under the weakest precondition [no_delim_line].) *)
From Coq Require Import ZArith List Bool.
From CV Require Import Lib.Sx Lib.ListZ Model.M_reader Proof.P_reader Model.M_multipart Proof.P_multipart.
Import ListNotations.
Open Scope Z_scope.

Theorem c04_rfc_precondition_refuted :
  exists c b content body fr,
    WF c /\ b_ok b /\ rfc_ok b content = true
    /\ body = content ++ [13; 10] ++ (b ++ [45; 45]) ++ [13; 10]
    /\ c_len c = Some (lenZ body)
    /\ exists out isf s',
         read_lines_to_boundary (S (length body)) c b 1000 false (init body fr) = (MOk, out, isf, s')
         /\ out <> content.
Proof.
  exists (Cfg (Some 17) 0 8192 true), [45; 45; 98], [120; 10; 45; 45; 98; 13; 10; 121].
  eexists. exists [].
  split.
  { constructor; cbn; try reflexivity; try discriminate. intros cl E. inversion E. discriminate. }
  split; [exists [98]; split; reflexivity|].
  split; [reflexivity|]. split; [reflexivity|]. split; [reflexivity|].
  eexists. eexists. eexists. split; [vm_compute; reflexivity|]. discriminate.
Qed.
Print Assumptions c04_rfc_precondition_refuted.

(** the same content violates the weakest precondition, as it must *)
Example c04_witness_has_delim_line :
  ndl [45; 45; 98] [] [120; 10; 45; 45; 98; 13; 10; 121] = false.
Proof. reflexivity. Qed.
