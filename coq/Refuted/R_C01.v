(** C01, no-leak clause: refuted for the faithful model of the code as it is (known finding
    `trap-outside-request-leaks-traceback`).  A handler that raises InternalRedirect to a URL already
    visited makes InternalRedirector raise RuntimeError after AppResponse.__init__ released the serving
    slot; _TrappedResponse.trap then reads cherrypy.request.show_tracebacks from the class default (True). *)
From Coq Require Import ZArith List Bool.
Import ListNotations.
From CV Require Import Model.M_flow Model.M_pipeline Model.M_aflow Proof.P_flow_thm.
Open Scope Z_scope.

Theorem c01_trap_leak_refuted :
  exists E st', env_ok E /\ p_showtb E = false /\ p_throw E = false
    /\ run_flow E 200 server_session init_state = (Normal, st')
    /\ out_taint (sfin st') = true /\ out_status (sfin st') = 5.
Proof.
  exists leak_env. destruct leak_witness as (st' & H & Ht & Hs & _). exists st'.
  split; [exact leak_env_ok|]. repeat split; assumption.
Qed.
Print Assumptions c01_trap_leak_refuted.
