(** The code as written (cfg_written: no syntax check, no clamping) does not satisfy C16:
    concrete witnesses, evaluated by the kernel. *)
From Coq Require Import ZArith List Bool.
From CV Require Import Lib.Sx Lib.ListZ Model.M_ranges Model.M_validators.
Import ListNotations.
Open Scope Z_scope.

(** "Hello, world\r\n" *)
Definition hello : list Z := [72;101;108;108;111;44;32;119;111;114;108;100;13;10].

(** Range: bytes=0-100,2-3 on 14 bytes: the first part announces "bytes 0-100/14";
    Range: bytes=-0 on 14 bytes: 206 with "bytes 14-13/14" and no byte;
    Range: bytes=-5 on the empty file: 206 with "bytes 0--1/0". *)
Theorem c16_content_range_refuted :
  (exists body,
      serve cfg_written true (Some [98;121;116;101;115;61;48;45;49;48;48;44;50;45;51]) hello [116] [66]
      = SvMulti (s_mp_ct ++ [66]) body
      /\ firstn 53 body
         = s_crlf ++ s_dd ++ [66] ++ s_ctype_hdr ++ [116] ++ s_crange_hdr ++ [48;45;49;48;48;47;49;52] (* 0-100/14 *))
  /\ serve cfg_written true (Some [98;121;116;101;115;61;45;48]) hello [116] [66]
     = SvSingle [98;121;116;101;115;32;49;52;45;49;51;47;49;52] (* bytes 14-13/14 *) 0 []
  /\ serve cfg_written true (Some [98;121;116;101;115;61;45;53]) [] [116] [66]
     = SvSingle [98;121;116;101;115;32;48;45;45;49;47;48] (* bytes 0--1/0 *) 0 [].
Proof.
  split; [eexists; split; vm_compute; reflexivity|].
  split; vm_compute; reflexivity.
Qed.
Print Assumptions c16_content_range_refuted.

(** Range: bytes=abc, Range: bytes, Range: bytes=1-2x: a ValueError escapes (500) instead of
    the header being ignored. *)
Theorem c16_invalid_ignored_refuted :
  (exists w, serve cfg_written true (Some [98;121;116;101;115;61;97;98;99]) hello [116] [66] = SvCrash w)
  /\ (exists w, serve cfg_written true (Some [98;121;116;101;115]) hello [116] [66] = SvCrash w)
  /\ (exists w, serve cfg_written true (Some [98;121;116;101;115;61;49;45;50;120]) hello [116] [66] = SvCrash w).
Proof. repeat split; eexists; vm_compute; reflexivity. Qed.
Print Assumptions c16_invalid_ignored_refuted.
