(** The builder as found (no [build_Sub], [c_sub = false]) cannot read back the repr of a
    complex number with a negative imaginary part. *)
From Coq Require Import ZArith List Bool.
From CV Require Import Lib.Sx Lib.ListZ Model.M_unrepr.
Import ListNotations.
Open Scope Z_scope.

(** (1-2j) *)
Theorem c08_unrepr_refuted :
  exists v, build (Cfg false) (Env [] [] []) (to_ast v) = Err ENoBuilder.
Proof. exists (VComplex (Fl false (MInt 1)) (Fl true (MInt 2))). vm_compute. reflexivity. Qed.
Print Assumptions c08_unrepr_refuted.
