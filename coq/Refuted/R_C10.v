(** The checker is not vacuous: for the table of the current sources with ONE
    entry flipped to AliasOfClassAttr there is a two-request history whose second
    observation differs from what that request observes alone, the class-level
    root is written, and concurrent threads see each other. *)
From Coq Require Import ZArith List Bool.
From CV Require Import Lib.Sx Lib.ListZ Model.M_isolation.
Import ListNotations.
Open Scope Z_scope.

Definition good_table : table :=
  [(0, FreshCopy); (1, FreshCopy); (2, FreshCopy); (3, FreshEmpty); (4, FreshEmpty); (5, FreshEmpty);
   (6, FreshEmpty); (7, FreshEmpty); (8, FreshCopy); (9, FreshEmpty); (10, FreshEmpty); (11, FreshEmpty);
   (12, FreshCopy); (13, FreshCopy); (14, FreshCopy); (15, FreshEmpty); (16, FreshEmpty); (17, FreshCopy);
   (18, FreshCopy); (19, FreshCopy); (20, FreshCopy); (21, FreshCopy)].

(** [self.hooks = self.__class__.hooks] (the .copy() removed), or [self.toolmaps = {}] removed, ... *)
Definition flip (f : Z) (tbl : table) : table :=
  map (fun e => if fst e =? f then (fst e, AliasOfClassAttr) else e) tbl.

Theorem c10_alias_refuted :
  forall f, In f all_fields ->
  let tbl := flip f good_table in
  (* the tie obligation fails *)
  forallb is_fresh_entry tbl = false
  (* history dependence: the second request observes the first one's mark *)
  /\ outputs tbl [] ([(1, [OMut f 100; OObserve; OEnd])] ++ [(1, [OObserve; OEnd])])
     <> outputs tbl [] [(1, [OMut f 100; OObserve; OEnd])] ++ outputs tbl [] [(1, [OObserve; OEnd])]
  (* a class-level root is written *)
  /\ hget (heap_of (fst (run tbl (init []) (sched_of [(1, [OMut f 100; OObserve; OEnd])])))) (root f) <> []
  (* not thread local: thread 2 sees what thread 1 set concurrently *)
  /\ outs_of 2 (snd (run tbl (init []) [(1, OBegin); (2, OBegin); (1, OMut f 100); (2, OObserve)]))
     <> snd (run tbl (init []) (proj 2 [(1, OBegin); (2, OBegin); (1, OMut f 100); (2, OObserve)])).
Proof.
  intros f Hf. unfold all_fields in Hf. cbn [In] in Hf.
  repeat (destruct Hf as [Hf|Hf]; [subst f; vm_compute; repeat split; discriminate|]).
  contradiction.
Qed.
Print Assumptions c10_alias_refuted.

(** a missing row is an alias too (no per-instance assignment at all: Python's
    attribute lookup falls through to the class) - e.g. toolmaps made class-level *)
Theorem c10_missing_row_refuted :
  let tbl := filter (fun e => negb (fst e =? 3)) good_table in
  covers tbl = false
  /\ outputs tbl [] ([(1, [OMut 3 100; OObserve; OEnd])] ++ [(2, [OObserve; OEnd])])
     <> outputs tbl [] [(1, [OMut 3 100; OObserve; OEnd])] ++ outputs tbl [] [(2, [OObserve; OEnd])].
Proof. vm_compute. split; [reflexivity|discriminate]. Qed.
Print Assumptions c10_missing_row_refuted.
