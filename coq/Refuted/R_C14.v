(** FileSession._load as it was before commit 88ca67f ("except (IOError,
    EOFError)", [c_repaired = false]) does not satisfy the torn-file clause of C14: a file on which
    pickle.load raises UnpicklingError (class 2 - what a truncated pickle does
    at all but two offsets) makes the request presenting its id fail, and ends
    the sweep before it reaches the expired session listed after it. *)
From Coq Require Import ZArith List Bool.
From CV Require Import Lib.Sx Lib.ListZ Model.M_session Proof.P_session.
Import ListNotations.
Open Scope Z_scope.

Theorem c14_torn_refuted :
  exists c w i j d e,
    c_repaired c = false /\ c_file c = true
    /\ raise_set_ok (w_store w)
    /\ lookup i (w_store w) = Some (Bad 2)
    /\ lookup j (w_store w) = Some (Good d e) /\ e < w_now w
    (* UnpicklingError escapes _load ... *)
    /\ load_raw c i (w_store w) = LRaise 2
    (* ... the request presenting the id is answered 500 ... *)
    /\ r_status (fst (do_req c w (Some i) [ARead])) = SRaised 2
    (* ... and the sweep ends there: the expired session is still stored *)
    /\ fst (sweep c w) = SRaised 2
    /\ lookup j (w_store (snd (sweep c w))) = Some (Good d e).
Proof.
  exists (Cfg true 60 false), (W [(11, Bad 2); (12, Good [(0, 5)] 60)] 122 [13; 14]), 11, 12, [(0, 5)], 60.
  split; [reflexivity|]. split; [reflexivity|].
  split.
  { intros k cls Hin. cbn in Hin. destruct Hin as [Hin|[Hin|[]]]; [|discriminate].
    injection Hin as <- <-. split; discriminate. }
  repeat split; vm_compute; reflexivity.
Qed.
Print Assumptions c14_torn_refuted.
