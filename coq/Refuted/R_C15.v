(** The cache as written (variant key = tuple(sorted(values)); a request max-age
    REPLACES the delay) does not satisfy C15: concrete witnesses on the faithful
    model ([c_keyfix = false], [c_agefix = false]). *)
From Coq Require Import ZArith List Bool.
From CV Require Import Lib.Sx Lib.ListZ Model.M_cache.
Import ListNotations.
Open Scope Z_scope.

Definition xa : str := [88;45;65].   (* X-A *)
Definition xb : str := [88;45;66].   (* X-B *)
Definition one : str := [49].
Definition two : str := [50].
Definition u0 : str := [47;114;48].  (* /r0 *)
Definition pl : plan := Plan 200 5 [xa; xb] [] [] 0.
Definition big : Z := 1000000.

(** Vary: X-A, X-B.  GET with (X-A=1, X-B=2), then GET with (X-A=2, X-B=1): the
    second request is served, from the cache, the response the handler made
    for the first one, although it differs in the value of X-A. *)
Theorem c15_vary_permutation_refuted :
  exists (r1 r2 : request) outs s v age,
    run (Cfg 10 big big big 1 false true false) [OReq r1; OReq r2] init = (outs, s)
    /\ outs = [Some (OMiss 1, false); Some (OHit v age, true)]
    /\ v_gen v = 1
    /\ r_uri r1 = r_uri r2 /\ p_vary (r_plan r1) = [xa; xb]
    /\ hget (r_hdrs r1) xa <> hget (r_hdrs r2) xa.
Proof.
  exists (Req 0 u0 [(xa, one); (xb, two)] [] [] pl 0 0).
  exists (Req 0 u0 [(xa, two); (xb, one)] [] [] pl 0 0).
  do 4 eexists. split; [vm_compute; reflexivity|].
  repeat split; try reflexivity. vm_compute. discriminate.
Qed.
Print Assumptions c15_vary_permutation_refuted.

(** delay = 10 s.  GET; 15 s pass; GET with Cache-Control: max-age=100 is served
    the 15 s old response: the larger max-age extended the configured delay. *)
Theorem c15_maxage_extends_refuted :
  exists (r1 r2 : request) outs s v age,
    let c := Cfg 10 big big big 1 true false false in
    run c [OReq r1; OTick 15; OReq r2] init = (outs, s)
    /\ outs = [Some (OMiss 1, false); None; Some (OHit v age, true)]
    /\ v_gen v = 1 /\ age = 15 /\ c_delay c < age.
Proof.
  exists (Req 0 u0 [] [] [] (Plan 200 5 [] [] [] 0) 0 0).
  exists (Req 0 u0 [] [] [[109;97;120;45;97;103;101;61;49;48;48]] (Plan 200 5 [] [] [] 0) 0 0).
  do 4 eexists. cbv zeta. split; [vm_compute; reflexivity|].
  repeat split; reflexivity.
Qed.
Print Assumptions c15_maxage_extends_refuted.
