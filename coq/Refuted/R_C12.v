(** Response.finalize as written (variant [repaired = false]: the reason phrase goes
    through [headers.encode] only, and [cookie.output()] is split on CRLF and each
    value is [headers.encode]d only) does not satisfy C12: concrete witnesses. *)
From Coq Require Import ZArith List Bool.
From CV Require Import Lib.Sx Lib.ListZ Model.M_headers Proof.P_headers.
Import ListNotations.
Open Scope Z_scope.

(** reason "OK\r\nX: y": the status line carries CR LF *)
Theorem c12_status_refuted :
  exists code reason st,
    100 <= code <= 599 /\
    status_line false deletechars code reason = Ok st /\ In 13 st /\ In 10 st /\ ~ Forall clean st.
Proof.
  exists 200, [79;75;13;10;88;58;32;121]. eexists.
  split; [split; discriminate|].
  split; [vm_compute; reflexivity|].
  split; [cbn; tauto|]. split; [cbn; tauto|].
  intros H. rewrite Forall_forall in H. specialize (H 13). unfold clean in H.
  assert (In 13 [50; 48; 48; 32; 79; 75; 13; 10; 88; 58; 32; 121]) as Hin by (cbn; tauto).
  specialize (H Hin). destruct H as [H _]. apply H. reflexivity.
Qed.
Print Assumptions c12_status_refuted.

(** cookie a=v with Path "/\nX-Inj: 1": the Set-Cookie value carries LF;
    with Path "/\r\nX-Inj: 1" the attribute becomes a header of its own *)
Theorem c12_cookie_attr_refuted :
  (exists morsel hs v,
      cookie_lines false deletechars [morsel] = Ok hs /\ hs = [(set_cookie, v)] /\ In 10 v)
  /\
  (exists morsel hs,
      cookie_lines false deletechars [morsel] = Ok hs /\ length hs = 2%nat /\
      nth 1 hs ([], []) = ([88;45;73;110;106], [49])).
Proof.
  split.
  - exists [97;61;118;59;32;80;97;116;104;61;47;10;88;45;73;110;106;58;32;49].
    eexists. eexists. split; [vm_compute; reflexivity|]. split; [reflexivity|]. cbn; tauto.
  - exists [97;61;118;59;32;80;97;116;104;61;47;13;10;88;45;73;110;106;58;32;49].
    eexists. split; [vm_compute; reflexivity|]. split; reflexivity.
Qed.
Print Assumptions c12_cookie_attr_refuted.
