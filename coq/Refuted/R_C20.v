(** The code as written (commit 038f4a1..; [c_fixed = false], [fixed = false]) does not
    satisfy C20: concrete schedules, replayed through the faithful model by [vm_compute].
    The same schedules reproduce on the real threads (vcheck/props/c20.py). *)
From Coq Require Import ZArith List Bool.
From CV Require Import Lib.Sx Lib.ListZ Model.M_monitor.
Import ListNotations.
Open Scope Z_scope.

(** start(); stop() run to completion before the worker's first instruction; then the
    worker sets [running := True] itself: the cancel is lost, the callback keeps firing
    after stop() has returned (3 times within a budget of 3 sleeps), and the cancelled
    worker's flag is up. *)
Theorem c20_lost_cancel_refuted :
  exists sched ok s tr,
    run_monitor (Cfg false true 3 7) [OStart; OStop] sched = (ok, s, tr)
    /\ 2 <= invs_after 0 (jrn s)
    /\ exists t, nthZ 0 (tasks s) = Some t /\ t_canc t = true /\ t_run t = true.
Proof.
  exists [0;0;0;0;0;0;0;0]. eexists. eexists. eexists.
  split; [vm_compute; reflexivity|].
  split; [vm_compute; discriminate|].
  eexists. split; [vm_compute; reflexivity|]. split; reflexivity.
Qed.
Print Assumptions c20_lost_cancel_refuted.

(** start(); stop(); start(): the zombie of the first start and the second worker both run
    with their flag set. *)
Theorem c20_two_live_workers_refuted :
  exists sched ok s tr t1 t2,
    run_monitor (Cfg false true 2 7) [OStart; OStop; OStart] sched = (ok, s, tr)
    /\ nthZ 0 (tasks s) = Some t1 /\ nthZ 1 (tasks s) = Some t2
    /\ liveb t1 = true /\ liveb t2 = true.
Proof.
  exists [0;0;0;0;0;0;0;0;0;0;0;1;1;2;2]. do 5 eexists.
  split; [vm_compute; reflexivity|].
  split; [vm_compute; reflexivity|]. split; [vm_compute; reflexivity|]. split; reflexivity.
Qed.
Print Assumptions c20_two_live_workers_refuted.

(** ThreadManager.stop as written, one request thread that releases itself while the bus
    stops: stop_thread is published twice for the same registration ... *)
Theorem c20_stop_thread_twice_refuted :
  exists sched ok s tr,
    run_tm false 1 [[RAcq; RRel]] sched = (ok, s, tr)
    /\ cnt (is_tstart 0) (tj s) = 1 /\ cnt (is_tstop 0) (tj s) = 2.
Proof.
  exists [1;1;1;1;1;1;0;0;0;0;1;1;1;0]. do 3 eexists.
  split; [vm_compute; reflexivity|]. split; vm_compute; reflexivity.
Qed.
Print Assumptions c20_stop_thread_twice_refuted.

(** ... or stop() raises RuntimeError (dictionary changed size during iteration) and a
    registered thread never gets its stop_thread. *)
Theorem c20_stop_raises_refuted :
  exists sched ok s tr,
    run_tm false 1 [[RAcq]; [RAcq; RRel]] sched = (ok, s, tr)
    /\ In (TExc 0) (tj s)
    /\ cnt (is_tstart 0) (tj s) = 1 /\ cnt (is_tstop 0) (tj s) = 0 /\ cnt (live_g 0) (ents s) = 1.
Proof.
  exists [1;1;1;1;1;1;2;2;2;2;2;2;0;0;0;2;2;0]. do 3 eexists.
  split; [vm_compute; reflexivity|].
  split; [vm_compute; auto|]. repeat split; vm_compute; reflexivity.
Qed.
Print Assumptions c20_stop_raises_refuted.
