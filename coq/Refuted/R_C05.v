(** The reader as it was before commit 7a824ff (push-back appended behind the
    unread buffer tail, [c_front = false]) does not satisfy C05: a concrete
    witness, kept as a record of the repaired defect. *)
From Coq Require Import ZArith List Bool.
From CV Require Import Lib.Sx Lib.ListZ Model.M_reader Proof.P_reader.
Import ListNotations.
Open Scope Z_scope.

Theorem c05_pushback_refuted :
  exists body ops outs s,
    run (Cfg (Some 11) 0 8192 false) ops (init body []) = (outs, s)
    /\ all_ok outs
    /\ ~ (exists rest, delivered outs ++ rest = body).
Proof.
  exists [97;98;99;10;100;101;102;10;103;104;105].
  exists [OReadline None; OReadline (Some 5); ORead None].
  eexists. eexists. split; [vm_compute; reflexivity|].
  split; [repeat constructor|].
  intros [rest H]. vm_compute in H. discriminate.
Qed.
Print Assumptions c05_pushback_refuted.
