(** The code as it was before the C17 repairs, and the streamed path as it
    still is, do not satisfy C17: concrete witnesses on the faithful variants
    of the model (flags false). *)
From Coq Require Import ZArith List Bool.
From CV Require Import Lib.Sx Lib.ListZ Model.M_gzipframe Model.M_negotiate
     Proof.P_negotiate Proof.P_negotiate_cs.
Import ListNotations.
Open Scope Z_scope.

(** "Accept-Encoding: deflate": 406 although identity was not refused
    (repaired by 4aa5a4f). *)
Theorem c17_406_refuted :
  exists els, WFq els
    /\ gzip_tool false false false (Some els) s_text_plain [s_text_plain] = G406
    /\ ~ identity_refused_by els.
Proof.
  exists [el s_deflate 1000]. split; [|split].
  - intros e [<-|[]]. cbn. discriminate.
  - vm_compute. reflexivity.
  - intros (e & [<-|[]] & [H|H] & _); cbn in H; discriminate H.
Qed.
Print Assumptions c17_406_refuted.

(** "Accept-Charset: utf-8;q=0, *": utf-8 announced although refused
    (repaired by 0380baa). *)
Theorem c17_charset_q0_refuted :
  exists els, q_zero s_utf8 els = true
    /\ encode_tool Z ex_enc ex_usable (ex_cfg false false true) false (Some s_text_plain) (Some els) [CText 1]
       = CChosen s_utf8 0.
Proof. exists [el s_utf8 0; el s_star 1000]. split; vm_compute; reflexivity. Qed.
Print Assumptions c17_charset_q0_refuted.

(** A generator body and "Accept-Charset: iso-8859-1, utf-8;q=0.5": the failed
    first attempt consumed the generator, both chunks are lost
    (repaired by b424a50). *)
Theorem c17_generator_refuted :
  exists els dropped, 0 < dropped
    /\ encode_tool Z ex_enc ex_usable (ex_cfg false true false) true (Some s_text_plain) (Some els)
         [CText 0; CText 1] = CChosen s_utf8 dropped.
Proof.
  exists [el s_iso 1000; el s_utf8 500], 2. split; [reflexivity|]. vm_compute. reflexivity.
Qed.
Print Assumptions c17_generator_refuted.

(** Streamed body (known finding charset:stream-unencodable): iso-8859-1 is
    announced although the second chunk cannot be encoded with it. *)
Theorem c17_stream_refuted :
  exists els, encode_tool Z ex_enc ex_usable (ex_cfg true true true) true (Some s_text_plain) (Some els)
                [CText 0; CText 1] = CChosen s_iso 0
    /\ stream_fail Z ex_enc s_iso [CText 0; CText 1] 0 = Some 1.
Proof. exists [el s_iso 1000; el s_utf8 500]. split; vm_compute; reflexivity. Qed.
Print Assumptions c17_stream_refuted.
