(** Witnesses that the code as it was / as it is violates C18 in two places.
    1. stop() before fix 3447e6b ([c_fix_stop = false]): a raising stop listener leaves the bus in
       STOPPING for good.
    2. recorded finding log-listener-raises: a listener on the log channel that raises makes the log
       call inside publish()'s except handler raise; the exception escapes and the remaining
       listeners of the channel are never called (and start() aborts in STARTING). *)
From Coq Require Import ZArith List Bool.
From CV Require Import Lib.Sx Lib.ListZ Model.M_bus Proof.P_bus Proof.P_bus_thm.
Import ListNotations.
Open Scope Z_scope.

Definition r_c (fx : bool) : cfg := Cfg fx [([], Exc); ([], Ok); ([], Exc)] [].
Definition r_subs (fx : bool) (l : list (Z * Z * Z)) : world :=
  set_subs (fold_left (fun acc '(ch, id, p) => subscribe (r_c fx) ch id p acc) l []) init.

Theorem c18_stop_failure_state_refuted :
  exists w w' ids,
    w = r_subs false [(CH_STOP, 0, 50)] /\ LQ (r_c false) w /\
    do_stop (r_c false) w = (w', CFail ids) /\
    ~ (w_state w' = STARTED \/ w_state w' = STOPPED \/ w_state w' = EXITING).
Proof.
  eexists. eexists. eexists. split; [reflexivity|].
  split; [split; [reflexivity|repeat constructor; intros; discriminate]|].
  split; [vm_compute; reflexivity|].
  vm_compute. intros [H|[H|H]]; discriminate.
Qed.
Print Assumptions c18_stop_failure_state_refuted.

(** history (b): subscribe('log', L2 raising); subscribe('c6', L0 raising, 10); subscribe('c6', L1, 50);
    publish('c6') raises ChannelFailures carrying L2's exception only, L1 is never called *)
Theorem c18_log_failure_refuted :
  exists w w',
    w = r_subs true [(CH_LOG, 2, 50); (6, 0, 10); (6, 1, 50)] /\
    publish (r_c true) FUEL 1 6 w = (w', PFail [2]) /\
    In (50, 1) (snapshot 6 w) /\
    ~ In 1 (map j_id (w_journal w')).
Proof.
  eexists. eexists. split; [reflexivity|].
  split; [vm_compute; reflexivity|].
  split; [vm_compute; tauto|].
  vm_compute. intros [H|[H|H]]; try discriminate; exact H.
Qed.
Print Assumptions c18_log_failure_refuted.

(** history (a): with the same log listener start() raises from its first log call: no start
    listener runs and the bus stays in STARTING *)
Theorem c18_log_failure_start_refuted :
  exists w w' ids,
    w = r_subs true [(CH_LOG, 2, 50); (CH_START, 1, 50)] /\
    do_start (r_c true) w = (w', CFail ids) /\
    w_state w' = STARTING /\ ~ In 1 (map j_id (w_journal w')).
Proof.
  eexists. eexists. eexists. split; [reflexivity|].
  split; [vm_compute; reflexivity|].
  split; [vm_compute; reflexivity|].
  vm_compute. intros [H|H]; try discriminate; exact H.
Qed.
Print Assumptions c18_log_failure_start_refuted.
