From Coq Require Import ZArith List Bool Lia.
From CV Require Import Lib.ListZ.
Import ListNotations.
Open Scope Z_scope.

Lemma lenZ_acc_spec {A} (l : list A) acc : lenZ_acc l acc = acc + Z.of_nat (length l).
Proof.
  revert acc; induction l as [|x r IH]; intros acc; cbn [lenZ_acc length].
  - lia.
  - rewrite IH. lia.
Qed.

Lemma lenZ_spec {A} (l : list A) : lenZ l = Z.of_nat (length l).
Proof. unfold lenZ. rewrite lenZ_acc_spec. lia. Qed.

Lemma lenZ_nonneg {A} (l : list A) : 0 <= lenZ l.
Proof. rewrite lenZ_spec. lia. Qed.

Lemma lenZ_nil {A} : lenZ (@nil A) = 0.
Proof. reflexivity. Qed.

Lemma lenZ_cons {A} (x : A) l : lenZ (x :: l) = 1 + lenZ l.
Proof. rewrite !lenZ_spec. cbn [length]. lia. Qed.

Lemma lenZ_app {A} (a b : list A) : lenZ (a ++ b) = lenZ a + lenZ b.
Proof. rewrite !lenZ_spec, app_length. lia. Qed.

Lemma lenZ_zero_nil {A} (l : list A) : lenZ l = 0 -> l = [].
Proof. rewrite lenZ_spec. destruct l; cbn [length]; [reflexivity | lia]. Qed.

Lemma takeZ_firstn {A} (l : list A) n : takeZ n l = firstn (Z.to_nat n) l.
Proof.
  revert n; induction l as [|x r IH]; intros n; cbn [takeZ].
  - now rewrite firstn_nil.
  - destruct (0 <? n) eqn:E.
    + apply Z.ltb_lt in E. replace (Z.to_nat n) with (S (Z.to_nat (n - 1))) by lia.
      cbn [firstn]. now rewrite IH.
    + apply Z.ltb_ge in E. replace (Z.to_nat n) with O by lia. reflexivity.
Qed.

Lemma dropZ_skipn {A} (l : list A) n : dropZ n l = skipn (Z.to_nat n) l.
Proof.
  revert n; induction l as [|x r IH]; intros n; cbn [dropZ].
  - now rewrite skipn_nil.
  - destruct (0 <? n) eqn:E.
    + apply Z.ltb_lt in E. replace (Z.to_nat n) with (S (Z.to_nat (n - 1))) by lia.
      cbn [skipn]. now rewrite IH.
    + apply Z.ltb_ge in E. replace (Z.to_nat n) with O by lia. reflexivity.
Qed.

Lemma take_drop {A} (l : list A) n : takeZ n l ++ dropZ n l = l.
Proof. rewrite takeZ_firstn, dropZ_skipn. apply firstn_skipn. Qed.

Lemma lenZ_takeZ {A} (l : list A) n : lenZ (takeZ n l) = Z.min (Z.max 0 n) (lenZ l).
Proof. rewrite takeZ_firstn, !lenZ_spec, firstn_length. lia. Qed.

Lemma lenZ_dropZ {A} (l : list A) n : lenZ (dropZ n l) = lenZ l - Z.min (Z.max 0 n) (lenZ l).
Proof. rewrite dropZ_skipn, !lenZ_spec, skipn_length. lia. Qed.

Lemma takeZ_all {A} (l : list A) n : lenZ l <= n -> takeZ n l = l.
Proof. intros H. rewrite takeZ_firstn. apply firstn_all2. rewrite lenZ_spec in H. lia. Qed.

Lemma dropZ_all {A} (l : list A) n : lenZ l <= n -> dropZ n l = [].
Proof. intros H. rewrite dropZ_skipn. apply skipn_all2. rewrite lenZ_spec in H. lia. Qed.

Lemma takeZ_nonpos {A} (l : list A) n : n <= 0 -> takeZ n l = [].
Proof. intros H. rewrite takeZ_firstn. replace (Z.to_nat n) with O by lia. reflexivity. Qed.

Lemma dropZ_nonpos {A} (l : list A) n : n <= 0 -> dropZ n l = l.
Proof. intros H. rewrite dropZ_skipn. replace (Z.to_nat n) with O by lia. reflexivity. Qed.

Lemma takeZ_app_le {A} (a b : list A) n : n <= lenZ a -> takeZ n (a ++ b) = takeZ n a.
Proof.
  intros H. rewrite !takeZ_firstn. rewrite lenZ_spec in H.
  rewrite firstn_app. replace (Z.to_nat n - length a)%nat with O by lia.
  cbn [firstn]. now rewrite app_nil_r.
Qed.

Lemma takeZ_takeZ {A} (l : list A) n m : takeZ n (takeZ m l) = takeZ (Z.min n m) l.
Proof.
  rewrite !takeZ_firstn, firstn_firstn. f_equal. lia.
Qed.

Lemma takeZ_add {A} (l : list A) n m : 0 <= n -> 0 <= m ->
  takeZ (n + m) l = takeZ n l ++ takeZ m (dropZ n l).
Proof.
  intros Hn Hm. rewrite !takeZ_firstn, dropZ_skipn.
  replace (Z.to_nat (n + m)) with (Z.to_nat n + Z.to_nat m)%nat by lia.
  revert l. induction (Z.to_nat n) as [|k IH]; intros l; cbn [Nat.add firstn skipn app].
  - reflexivity.
  - destruct l as [|x r]; cbn [firstn skipn app].
    + now rewrite firstn_nil.
    + now rewrite IH.
Qed.

Lemma skipn_skipn' {A} (l : list A) a b : skipn b (skipn a l) = skipn (a + b) l.
Proof.
  revert l; induction a as [|a IH]; intros l; cbn [skipn Nat.add].
  - reflexivity.
  - destruct l as [|x r]; [now rewrite !skipn_nil | apply IH].
Qed.

Lemma dropZ_dropZ {A} (l : list A) n m : 0 <= n -> 0 <= m -> dropZ m (dropZ n l) = dropZ (n + m) l.
Proof.
  intros Hn Hm. rewrite !dropZ_skipn, skipn_skipn'. f_equal. lia.
Qed.
