(** The gzip negotiation model only compares weights: multiplying every qvalue
    by one positive constant changes nothing.  This is what lets the harness
    hand qvalues over in any fixed-point scale (millionths since round 5). *)
From Coq Require Import ZArith List Bool Lia.
From CV Require Import Lib.Sx Lib.ListZ Model.M_negotiate.
Import ListNotations.
Open Scope Z_scope.

Definition scale (k : Z) (e : elem) : elem := Elem (e_val e) (k * e_q e) (e_str e).

Section Scale.
Variable k : Z.
Hypothesis Hk : 0 < k.

Lemma scale_eqb a b : (k * a =? k * b) = (a =? b).
Proof. destruct (Z.eqb_spec a b) as [->|Hn]; [apply Z.eqb_refl|]. apply Z.eqb_neq. nia. Qed.

Lemma scale_ltb a b : (k * a <? k * b) = (a <? b).
Proof. destruct (Z.ltb_spec a b) as [H|H]; [apply Z.ltb_lt|apply Z.ltb_ge]; nia. Qed.

Lemma scale_eq0 a : (k * a =? 0) = (a =? 0).
Proof. rewrite <- (scale_eqb a 0). now rewrite Z.mul_0_r. Qed.

Lemma scale_pos a : (0 <? k * a) = (0 <? a).
Proof. rewrite <- (scale_ltb 0 a). now rewrite Z.mul_0_r. Qed.

Lemma elem_lt_scale a b : elem_lt (scale k a) (scale k b) = elem_lt a b.
Proof. unfold elem_lt, scale; cbn [e_q e_str]. now rewrite scale_eqb, scale_ltb. Qed.

Lemma insert_scale x l : insert (scale k x) (map (scale k) l) = map (scale k) (insert x l).
Proof.
  induction l as [|y r IH]; [reflexivity|].
  cbn [map insert]. rewrite elem_lt_scale. destruct (elem_lt x y); cbn [map]; [reflexivity|].
  now rewrite IH.
Qed.

Lemma sorted_scale_acc l : forall acc,
  fold_left (fun acc x => insert x acc) (map (scale k) l) (map (scale k) acc)
  = map (scale k) (fold_left (fun acc x => insert x acc) l acc).
Proof.
  induction l as [|x r IH]; intros acc; [reflexivity|].
  cbn [map fold_left]. rewrite insert_scale. apply IH.
Qed.

Lemma header_order_scale l : header_order (map (scale k) l) = map (scale k) (header_order l).
Proof.
  unfold header_order, sorted_asc. change (@nil elem) with (map (scale k) []) at 1.
  rewrite (sorted_scale_acc l []). now rewrite map_rev.
Qed.

Lemma identity_refused_scale l : identity_refused (map (scale k) l) = identity_refused l.
Proof.
  unfold identity_refused. induction l as [|e r IH]; [reflexivity|].
  cbn [map existsb]. rewrite IH. unfold scale at 1 2 3; cbn [e_val e_q]. now rewrite scale_eq0.
Qed.

Lemma star_pos_scale l : star_pos (map (scale k) l) = star_pos l.
Proof.
  unfold star_pos. induction l as [|e r IH]; [reflexivity|].
  cbn [map existsb]. rewrite IH. unfold scale at 1 2; cbn [e_val e_q]. now rewrite scale_eq0.
Qed.

Lemma falloff_scale rep l : falloff rep (map (scale k) l) = falloff rep l.
Proof. unfold falloff. now rewrite identity_refused_scale, star_pos_scale. Qed.

Lemma gz_loop_scale rep all ct mts els :
  gz_loop_dec rep (map (scale k) all) ct mts (map (scale k) els) = gz_loop_dec rep all ct mts els.
Proof.
  induction els as [|e r IH]; cbn [map gz_loop_dec]; [apply falloff_scale|].
  unfold scale at 1 2 3 4; cbn [e_val e_q]. rewrite scale_eq0, falloff_scale, IH. reflexivity.
Qed.

Theorem gzip_tool_scale rep falsy cached ae ctv mts :
  gzip_tool rep falsy cached (option_map (map (scale k)) ae) ctv mts = gzip_tool rep falsy cached ae ctv mts.
Proof.
  unfold gzip_tool. destruct falsy; [reflexivity|]. destruct cached; [reflexivity|].
  destruct ae as [els|]; [|reflexivity]. cbn [option_map]. rewrite header_order_scale.
  destruct (header_order els) as [|e r]; [reflexivity|].
  change (scale k e :: map (scale k) r) with (map (scale k) (e :: r)).
  cbn [map]. change (scale k e :: map (scale k) r) with (map (scale k) (e :: r)).
  apply gz_loop_scale.
Qed.
End Scale.

(* ---------- charset negotiation ---------- *)
Section ScaleCs.
Variable k : Z.
Hypothesis Hk : 0 < k.
Variable T : Type.
Variable encodable : list Z -> T -> bool.
Variable usable : list Z -> bool.

Lemma names_scale (l : list elem) :
  map (fun e => lower (e_val e)) (map (scale k) l) = map (fun e => lower (e_val e)) l.
Proof. rewrite map_map. reflexivity. Qed.

Lemma q_pos_scale name l : q_pos name (map (scale k) l) = q_pos name l.
Proof.
  unfold q_pos. induction l as [|e r IH]; [reflexivity|].
  cbn [map existsb]. rewrite IH. unfold scale at 1 2; cbn [e_val e_q]. now rewrite (scale_pos k Hk).
Qed.

Lemma q_zero_scale name l : q_zero name (map (scale k) l) = q_zero name l.
Proof.
  unfold q_zero. induction l as [|e r IH]; [reflexivity|].
  cbn [map existsb]. rewrite IH. unfold scale at 1 2; cbn [e_val e_q]. now rewrite (scale_eq0 k Hk).
Qed.

Lemma listed_scale name l : listed name (map (scale k) l) = listed name l.
Proof. unfold listed. now rewrite names_scale. Qed.

Lemma forced_acceptable_scale rep enc l :
  forced_acceptable rep enc (map (scale k) l) = forced_acceptable rep enc l.
Proof.
  unfold forced_acceptable. rewrite names_scale, !q_pos_scale, q_zero_scale.
  destruct l; reflexivity.
Qed.

Lemma find_loop_scale c (try : list Z -> est T -> bool * est T) all els s :
  find_loop T c try (map (scale k) all) (map (scale k) els) s = find_loop T c try all els s.
Proof.
  revert s. induction els as [|e r IH]; intros s; [reflexivity|].
  cbn [map find_loop]. change (e_val (scale k e)) with (e_val e). change (e_q (scale k e)) with (k * e_q e).
  rewrite (scale_pos k Hk), listed_scale.
  destruct (0 <? e_q e); [|apply IH].
  destruct (eqbZs (e_val e) s_star).
  - destruct (c_rep_q0 c && listed (lower (c_default c)) all); [apply IH|].
    destruct (try (c_default c) s) as [ok s1]. destruct ok; [reflexivity|apply IH].
  - destruct (try (e_val e) s) as [ok s1]. destruct ok; [reflexivity|apply IH].
Qed.

Lemma find_charset_scale c oneshot ac b :
  find_charset T encodable usable c oneshot (option_map (map (scale k)) ac) b
  = find_charset T encodable usable c oneshot ac b.
Proof.
  unfold find_charset.
  assert (He : match option_map (map (scale k)) ac with None => [] | Some els => header_order els end
               = map (scale k) (match ac with None => [] | Some els => header_order els end)).
  { destruct ac as [els|]; [|reflexivity]. cbn [option_map]. apply (header_order_scale k Hk). }
  rewrite He. clear He.
  set (encs := match ac with None => [] | Some els => header_order els end).
  rewrite names_scale. destruct (c_forced c) as [f|].
  - now rewrite forced_acceptable_scale.
  - rewrite find_loop_scale. destruct encs; reflexivity.
Qed.

Theorem encode_tool_scale c oneshot ct ac b :
  encode_tool T encodable usable c oneshot ct (option_map (map (scale k)) ac) b
  = encode_tool T encodable usable c oneshot ct ac b.
Proof. unfold encode_tool. now rewrite find_charset_scale. Qed.
End ScaleCs.
