(** on_end_request runs at most once per request object, in every execution of every skeleton program in
    which `hooks.run('on_end_request')` occurs only in the idiom of Request.close():
        if not self.closed: self.closed = True; self.hooks.run('on_end_request')                     *)
From Coq Require Import ZArith List Bool Lia.
Import ListNotations.
From CV Require Import Model.M_flow Model.M_pipeline.
Open Scope Z_scope.

Definition close_idiom : stmt :=
  If (CNot (CFlag FClosed)) (Seq (Act SetClosed) (Act (RunHooks OnEndRequest))) Skip.

Definition is_oerq (a : action) : bool :=
  match a with RunHooks OnEndRequest => true | _ => false end.

(** [safe s]: on_end_request is run only inside the idiom *)
Fixpoint safe (s : stmt) : bool :=
  match s with
  | If (CNot (CFlag FClosed)) (Seq (Act SetClosed) (Act (RunHooks OnEndRequest))) Skip => true
  | Act a => negb (is_oerq a)
  | Seq a b => safe a && safe b
  | Try b hs o f =>
    safe b && (fix sh (l : list (pat * stmt)) := match l with [] => true | h :: r => safe (snd h) && sh r end) hs
    && safe o && safe f
  | If _ a b => safe a && safe b
  | Loop b | ForLoop b => safe b
  | _ => true
  end.

Fixpoint countr (r : Z) (j : list (Z * action)) : nat :=
  match j with
  | [] => O
  | (q, a) :: t => (if (q =? r) && is_oerq a then 1 else 0) + countr r t
  end.

Definition J (st : state) : Prop :=
  forall r, (countr r (journal st) <= if memZ r (closed (sid st)) then 1 else 0)%nat.

Lemma safe_If_cases c s1 s2 :
  safe (If c s1 s2) = true -> If c s1 s2 = close_idiom \/ (safe s1 = true /\ safe s2 = true).
Proof.
  intros H.
  assert (Hgen : safe s1 && safe s2 = true -> safe s1 = true /\ safe s2 = true) by (intros X; now apply andb_prop).
  destruct c as [|f|c'|]; try (right; apply Hgen; exact H).
  destruct c' as [|f|c''|]; try (right; apply Hgen; exact H).
  destruct f; try (right; apply Hgen; exact H).
  destruct s1 as [|a|a b|? ? ? ?|? ? ?|?|?| |?|?|?|]; try (right; apply Hgen; exact H).
  destruct a as [|x|? ?|? ? ? ?|? ? ?|?|?| |?|?|?|]; try (right; apply Hgen; exact H).
  destruct x; try (right; apply Hgen; exact H).
  destruct b as [|y|? ?|? ? ? ?|? ? ?|?|?| |?|?|?|]; try (right; apply Hgen; exact H).
  destruct y; try (right; apply Hgen; exact H).
  match goal with p : hookpoint |- _ => destruct p end; try (right; apply Hgen; exact H).
  destruct s2; try (right; apply Hgen; exact H).
  left. reflexivity.
Qed.

Section EndReq.
  Variable prog : fname -> stmt.      (* any program: the hand-written skeletons or the regenerated ones *)
  Variable pparam : fname -> stmt.
  Variable E : env.
  Notation EX := (exec prog pparam E).

  Lemma J_log_other a st : is_oerq a = false -> J st -> J (log_action a st).
  Proof.
    intros Ha HJ r. specialize (HJ r). unfold log_action. cbn [journal sid countr]. rewrite Ha, andb_false_r. exact HJ.
  Qed.

  Lemma closed_effect_mono a i r : memZ r (closed i) = true -> memZ r (closed (ids_effect a i)) = true.
  Proof.
    intros H. destruct a; try exact H. cbn [ids_effect closed]. unfold memZ in *. cbn [existsb]. rewrite H. apply orb_true_r.
  Qed.

  Lemma J_effect a st : J st -> J (effect E a st).
  Proof.
    intros HJ r. specialize (HJ r). unfold effect. cbn [journal sid].
    destruct (memZ r (closed (sid st))) eqn:Hm.
    - rewrite (closed_effect_mono a _ r Hm). exact HJ.
    - destruct (memZ r (closed (ids_effect a (sid st)))); lia.
  Qed.

  Lemma J_log_raise a e st : J st -> J (log_raise a e st).
  Proof. intros HJ r. specialize (HJ r). exact HJ. Qed.

  Lemma J_same st st' : journal st' = journal st -> closed (sid st') = closed (sid st) -> J st -> J st'.
  Proof. intros Hj Hc HJ r. rewrite Hj, Hc. apply HJ. Qed.

  (** executing any action other than on_end_request hooks keeps J *)
  Lemma J_act f param a st o st' :
    is_oerq a = false -> J st -> EX (S f) param (Act a) st = (o, st') -> J st'.
  Proof.
    intros Ha HJ H. cbn [exec] in H.
    assert (Hc : (o, st') = (Normal, effect E a (log_action a st))
                 \/ exists e, (o, st') = (Raised e, log_raise a e (log_action a st))).
    { destruct (e_act E (occ a (journal st)) a) as [e|] eqn:He.
      - destruct a; try (right; exists e; symmetry; exact H); left; symmetry; exact H.
      - left. destruct a; symmetry; exact H. }
    destruct Hc as [Hc|[e Hc]]; inversion Hc; subst.
    - apply J_effect, J_log_other; assumption.
    - apply J_log_raise, J_log_other; assumption.
  Qed.

  (** the idiom keeps J, however far it gets *)
  Lemma J_idiom f param st o st' : J st -> EX f param close_idiom st = (o, st') -> J st'.
  Proof.
    intros HJ H.
    destruct f as [|f]; [cbn in H; inversion H; subst; exact HJ|].
    unfold close_idiom in H. cbn [exec eval_cond eval_flag] in H.
    destruct (memZ (self_req (sid st)) (closed (sid st))) eqn:Hcl; cbn [negb] in H.
    - (* already closed: Skip *)
      destruct f as [|f]; cbn in H; inversion H; subst; exact HJ.
    - (* not closed: SetClosed; RunHooks OnEndRequest *)
      destruct f as [|f]; [cbn in H; inversion H; subst; exact HJ|].
      cbn [exec] in H.
      destruct f as [|f]; [cbn in H; inversion H; subst; exact HJ|].
      cbn [exec] in H.
      set (st1 := effect E SetClosed (log_action SetClosed (upd_tick st))) in *.
      assert (HJ1 : forall r, (countr r (journal st1) <= if memZ r (closed (sid st)) then 1 else 0)%nat).
      { intros r. specialize (HJ r). change (journal st1) with ((self_req (sid st), SetClosed) :: journal st).
        cbn [countr is_oerq]. rewrite andb_false_r. exact HJ. }
      assert (Hcl1 : closed (sid st1) = self_req (sid st) :: closed (sid st)) by reflexivity.
      assert (Hself1 : self_req (sid st1) = self_req (sid st)) by reflexivity.
      assert (Hres : exists st2, st' = st2 /\ journal st2 = (self_req (sid st), RunHooks OnEndRequest) :: journal st1
                                 /\ closed (sid st2) = closed (sid st1)).
      { destruct (e_act E (occ (RunHooks OnEndRequest) (journal st1)) (RunHooks OnEndRequest)) as [e|]; inversion H; subst;
          eexists; (split; [reflexivity|]); split; reflexivity. }
      destruct Hres as (st2 & -> & Hj2 & Hc2).
      intros r. rewrite Hj2, Hc2, Hcl1. cbn [countr is_oerq]. rewrite andb_true_r.
      specialize (HJ1 r). unfold memZ in *. cbn [existsb].
      destruct (self_req (sid st) =? r) eqn:Er.
      + apply Z.eqb_eq in Er. subst r. rewrite Z.eqb_refl. cbn [orb]. rewrite Hcl in HJ1. lia.
      + rewrite Z.eqb_sym in Er. rewrite Er. cbn [orb]. lia.
  Qed.

  Hypothesis prog_safe : forall g, safe (prog g) = true.
  Hypothesis pparam_safe : forall g, safe (pparam g) = true.

  Lemma sh_in (hs : list (pat * stmt)) p h :
    (fix sh (l : list (pat * stmt)) := match l with [] => true | h :: r => safe (snd h) && sh r end) hs = true ->
    In (p, h) hs -> safe h = true.
  Proof.
    induction hs as [|x r IH]; intros Hs Hin; [destruct Hin|].
    apply andb_prop in Hs. destruct Hs as [H1 H2]. destruct Hin as [->|Hin]; [exact H1 | now apply IH].
  Qed.

  Lemma find_handler_in hs e h : find_handler hs e = Some h -> exists p, In (p, h) hs.
  Proof.
    induction hs as [|[p x] r IH]; cbn [find_handler]; [discriminate|].
    destruct (matches p e).
    - intros H; inversion H; subst. exists p. now left.
    - intros H. destruct (IH H) as [q Hq]. exists q. now right.
  Qed.

  Theorem J_preserved : forall fuel param s st o st',
    safe param = true -> safe s = true -> J st -> EX fuel param s st = (o, st') -> J st'.
  Proof.
    induction fuel as [|f IH]; intros param s st o st' Hsp Hs HJ H; [cbn in H; inversion H; subst; exact HJ|].
    destruct s as [|a|s1 s2|body hs orelse fin|c s1 s2|fl|e| |body|body|g|].
    - cbn in H. inversion H; subst; exact HJ.
    - cbn [safe] in Hs. apply negb_true_iff in Hs. eapply J_act; eassumption.
    - cbn [safe] in Hs. apply andb_prop in Hs. destruct Hs as [Hs1 Hs2]. cbn [exec] in H.
      destruct (EX f param s1 st) as [o1 st1] eqn:H1. pose proof (IH _ _ _ _ _ Hsp Hs1 HJ H1) as HJ1.
      destruct o1; try (inversion H; subst; exact HJ1). exact (IH param s2 st1 o st' Hsp Hs2 HJ1 H).
    - cbn [safe] in Hs. apply andb_prop in Hs. destruct Hs as [Hs Hsf]. apply andb_prop in Hs. destruct Hs as [Hs Hso].
      apply andb_prop in Hs. destruct Hs as [Hsb Hsh]. cbn [exec] in H.
      destruct (EX f param body st) as [o1 st1] eqn:H1. pose proof (IH _ _ _ _ _ Hsp Hsb HJ H1) as HJ1.
      assert (H2 : exists o2 st2, J st2 /\
                 (match o2 with OutOfFuel => (OutOfFuel, st2)
                  | _ => let '(o3, st3) := EX f param fin st2 in
                         match o3 with Normal => (o2, st3) | _ => (o3, st3) end end) = (o, st')).
      { destruct o1.
        - destruct (EX f param orelse st1) as [o2 st2] eqn:H2. exists o2, st2. split; [exact (IH param orelse st1 o2 st2 Hsp Hso HJ1 H2) | exact H].
        - exists Returned, st1. split; [exact HJ1 | exact H].
        - destruct (find_handler hs e) as [h|] eqn:Hfh.
          + destruct (EX f param h (with_cur (Some e) st1)) as [oh sth] eqn:Hh.
            exists oh, (with_cur (cur_exn (sfin st1)) sth). split; [|exact H].
            destruct (find_handler_in _ _ _ Hfh) as [p Hp]. pose proof (sh_in hs p h Hsh Hp) as Hsafeh.
            assert (HJw : J (with_cur (Some e) st1)) by (eapply J_same; [| |exact HJ1]; reflexivity).
            pose proof (IH _ _ _ _ _ Hsp Hsafeh HJw Hh) as HJh.
            eapply J_same; [| |exact HJh]; reflexivity.
          + exists (Raised e), st1. split; [exact HJ1 | exact H].
        - exists OutOfFuel, st1. split; [exact HJ1 | exact H]. }
      destruct H2 as (o2 & st2 & HJ2 & H2).
      destruct o2; try (destruct (EX f param fin st2) as [o3 st3] eqn:H3;
                        pose proof (IH _ _ _ _ _ Hsp Hsf HJ2 H3) as HJ3; destruct o3; inversion H2; subst; exact HJ3).
      inversion H2; subst; exact HJ2.
    - destruct (safe_If_cases _ _ _ Hs) as [Heq|[Hs1 Hs2]].
      + rewrite Heq in H. eapply J_idiom; eassumption.
      + cbn [exec] in H.
        assert (HJu : J (upd_tick st)) by (eapply J_same; [| |exact HJ]; reflexivity).
        destruct (eval_cond E st c); [exact (IH param s1 _ o st' Hsp Hs1 HJu H) | exact (IH param s2 _ o st' Hsp Hs2 HJu H)].
    - cbn in H. inversion H; subst. eapply J_same; [| |exact HJ]; reflexivity.
    - cbn [exec] in H. destruct e as [e|]; [inversion H; subst; exact HJ|].
      destruct (cur_exn (sfin st)); inversion H; subst; exact HJ.
    - cbn in H. inversion H; subst; exact HJ.
    - cbn [safe] in Hs. cbn [exec] in H.
      destruct (EX f param body st) as [o1 st1] eqn:H1. pose proof (IH _ _ _ _ _ Hsp Hs HJ H1) as HJ1.
      destruct o1; try (inversion H; subst; exact HJ1). exact (IH param (Loop body) st1 o st' Hsp Hs HJ1 H).
    - cbn [safe] in Hs. cbn [exec] in H.
      destruct (e_cond E (tick st) FLoopMore).
      + assert (HJu : J (upd_tick st)) by (eapply J_same; [| |exact HJ]; reflexivity).
        destruct (EX f param body (upd_tick st)) as [o1 st1] eqn:H1. pose proof (IH _ _ _ _ _ Hsp Hs HJu H1) as HJ1.
        destruct o1; try (inversion H; subst; exact HJ1). exact (IH param (ForLoop body) st1 o st' Hsp Hs HJ1 H).
      + inversion H; subst. eapply J_same; [| |exact HJ]; reflexivity.
    - cbn [exec] in H.
      destruct (EX f (pparam g) (prog g) (with_self (receiver g st) (recv_known g (rsk (sid st))) st)) as [o1 st1] eqn:H1.
      inversion H; subst o st'.
      assert (HJw : J (with_self (receiver g st) (recv_known g (rsk (sid st))) st)) by (eapply J_same; [| |exact HJ]; reflexivity).
      pose proof (IH _ _ _ _ _ (pparam_safe g) (prog_safe g) HJw H1) as HJ1.
      eapply J_same; [| |exact HJ1]; reflexivity.
    - cbn [exec] in H. eapply (IH Skip param); [reflexivity | exact Hsp | exact HJ | exact H].
  Qed.
End EndReq.
