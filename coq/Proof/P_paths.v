(** Character-level facts about split/segments/normpath/resolve/join of
    Model/M_paths.v, and the soundness of the repaired (separator-boundary)
    guards. *)
From Coq Require Import ZArith List Bool Lia.
From CV Require Import Lib.Sx Lib.ListZ Model.M_paths.
Import ListNotations.
Open Scope Z_scope.

(** b extends a by whole segments *)
Definition SegPrefix (a b : list str) : Prop := exists r, b = a ++ r.

Lemma SegPrefix_refl a : SegPrefix a a.
Proof. exists []. now rewrite app_nil_r. Qed.

Lemma SegPrefix_app a b c : SegPrefix a b -> SegPrefix a (b ++ c).
Proof. intros [r ->]. exists (r ++ c). now rewrite app_assoc. Qed.

Lemma SegPrefix_nil b : SegPrefix [] b.
Proof. now exists b. Qed.

(* ---------- eqbZs ---------- *)

Lemma eqbZs_true a : forall b, eqbZs a b = true <-> a = b.
Proof.
  induction a as [|x a IH]; intros [|y b]; cbn; split; intro H; try easy.
  - apply andb_true_iff in H as [H1 H2]. apply Z.eqb_eq in H1. apply IH in H2. now subst.
  - inversion H; subst. apply andb_true_iff. split; [apply Z.eqb_refl | now apply IH].
Qed.

Lemma eqbZs_refl a : eqbZs a a = true.
Proof. now apply eqbZs_true. Qed.

Lemma seg_prefixb_sound a : forall b, seg_prefixb a b = true -> SegPrefix a b.
Proof.
  induction a as [|x a IH]; intros b H.
  - apply SegPrefix_nil.
  - destruct b as [|y b]; [discriminate|]. cbn in H.
    apply andb_true_iff in H as [H1 H2]. apply eqbZs_true in H1. subst y.
    destruct (IH _ H2) as [r ->]. now exists r.
Qed.

Lemma seg_prefixb_complete a b : SegPrefix a b -> seg_prefixb a b = true.
Proof.
  intros [r ->]. induction a as [|x a IH]; cbn; [reflexivity|].
  now rewrite eqbZs_refl, IH.
Qed.

(* ---------- startswith ---------- *)

Lemma startswith_spec s : forall p, startswith s p = true -> exists r, s = p ++ r.
Proof.
  induction s as [|y s IH]; intros [|x p] H; cbn in *; try discriminate.
  - now exists [].
  - now exists (y :: s).
  - apply andb_true_iff in H as [H1 H2]. apply Z.eqb_eq in H1. subst.
    destruct (IH _ H2) as [r ->]. now exists r.
Qed.

Lemma startswith_app p r : startswith (p ++ r) p = true.
Proof. induction p as [|x p IH]; cbn; [now destruct r|]. now rewrite Z.eqb_refl. Qed.

(* ---------- split_slash / segments ---------- *)

Lemma split_nonnil s : split_slash s <> [].
Proof.
  induction s as [|c s IH]; cbn; [discriminate|].
  destruct (c =? 47); [discriminate|]. destruct (split_slash s); discriminate.
Qed.

Lemma split_app_slash a b :
  split_slash (a ++ 47 :: b) = split_slash a ++ split_slash b.
Proof.
  induction a as [|c a IH]; cbn [app split_slash].
  - reflexivity.
  - rewrite IH. destruct (c =? 47); [reflexivity|].
    destruct (split_slash a) eqn:E; [now destruct (split_nonnil a)|]. reflexivity.
Qed.

Lemma segments_nil : segments [] = [].
Proof. reflexivity. Qed.

Lemma segments_app_slash a b : segments (a ++ 47 :: b) = segments a ++ segments b.
Proof. unfold segments. now rewrite split_app_slash, filter_app. Qed.

Lemma segments_slash b : segments (47 :: b) = segments b.
Proof. apply (segments_app_slash [] b). Qed.

Definition slashfree (c : str) : Prop := ~ In 47 c.

Lemma split_slashfree c : slashfree c -> split_slash c = [c].
Proof.
  unfold slashfree. induction c as [|x c IH]; intro H; cbn; [reflexivity|].
  destruct (x =? 47) eqn:E.
  - apply Z.eqb_eq in E. subst. destruct H. now left.
  - rewrite IH; [reflexivity|]. intro K. apply H. now right.
Qed.

Lemma split_all_slashfree s : Forall slashfree (split_slash s).
Proof.
  induction s as [|c s IH]; cbn.
  - constructor; [intros []|constructor].
  - destruct (c =? 47) eqn:E.
    + constructor; [intros []|exact IH].
    + destruct (split_slash s) as [|h t] eqn:Es; [now destruct (split_nonnil s)|].
      inversion IH as [|? ? Hh Ht]; subst. constructor; [|assumption].
      intros [K|K]; [subst; now rewrite Z.eqb_refl in E | exact (Hh K)].
Qed.

(** appending a slash-free suffix extends the last component *)
Lemma split_snoc s f : slashfree s ->
  exists cs l, split_slash f = cs ++ [l] /\ split_slash (f ++ s) = cs ++ [l ++ s].
Proof.
  intro Hs. induction f as [|c f IH].
  - exists [], []. cbn [app]. split; [reflexivity|]. now apply split_slashfree.
  - destruct IH as (cs & l & E1 & E2). cbn [app split_slash]. rewrite E1, E2.
    destruct (c =? 47).
    + exists ([] :: cs), l. split; reflexivity.
    + destruct cs as [|h cs]; cbn [app].
      * exists [], (c :: l). split; reflexivity.
      * exists ((c :: h) :: cs), l. split; reflexivity.
Qed.

Definition good (c : str) : Prop := c <> [] /\ slashfree c.

Lemma segments_good c : good c -> segments c = [c].
Proof.
  intros [Hn Hs]. unfold segments. rewrite split_slashfree by assumption.
  cbn. destruct c; [contradiction|reflexivity].
Qed.

Lemma segments_join l : Forall good l -> segments (join_slash l) = l.
Proof.
  induction l as [|c l IH]; intro H; [reflexivity|].
  inversion H; subst. destruct l as [|d l].
  - cbn. now apply segments_good.
  - change (join_slash (c :: d :: l)) with (c ++ 47 :: join_slash (d :: l)).
    rewrite segments_app_slash, IH by assumption. now rewrite segments_good.
Qed.

Lemma split_join l : l <> [] -> Forall slashfree l -> split_slash (join_slash l) = l.
Proof.
  induction l as [|c l IH]; intros Hn H; [contradiction|].
  inversion H; subst. destruct l as [|d l].
  - cbn. now apply split_slashfree.
  - change (join_slash (c :: d :: l)) with (c ++ 47 :: join_slash (d :: l)).
    rewrite split_app_slash, IH by (assumption || discriminate).
    now rewrite split_slashfree.
Qed.

Lemma segments_only_slashes r : segments r = [] -> Forall (fun c => c = 47) r.
Proof.
  induction r as [|c r IH]; intro H; [constructor|].
  destruct (c =? 47) eqn:E.
  - apply Z.eqb_eq in E. subst. rewrite segments_slash in H. constructor; auto.
  - exfalso. unfold segments in H. cbn in H. rewrite E in H.
    destruct (split_slash r); cbn in H; discriminate.
Qed.

(* ---------- last characters ---------- *)

Lemma last_app_ne {A} (a b : list A) d : b <> [] -> last (a ++ b) d = last b d.
Proof.
  intro Hb. induction a as [|x a IH]; [reflexivity|].
  cbn [app]. destruct (a ++ b) eqn:E.
  - apply app_eq_nil in E as [_ E]. contradiction.
  - rewrite <- E in *. cbn. rewrite E. rewrite <- E. exact IH.
Qed.

Lemma last_all_slashes r : Forall (fun c => c = 47) r -> last (47 :: r) 0 = 47.
Proof.
  induction 1 as [|c r Hc _ IH]; [reflexivity|]. subst c.
  change (last (47 :: 47 :: r) 0) with (last (47 :: r) 0). exact IH.
Qed.

Lemma last_join l : l <> [] -> Forall good l -> last (join_slash l) 0 <> 47.
Proof.
  induction l as [|c l IH]; intros Hn H; [contradiction|].
  inversion H as [|? ? [Hc Hs] Hl]; subst. destruct l as [|d l].
  - cbn [join_slash]. destruct (exists_last Hc) as (c' & x & E). rewrite E, last_last.
    intro K. apply Hs. rewrite E. apply in_or_app. right. now left.
  - change (join_slash (c :: d :: l)) with (c ++ 47 :: join_slash (d :: l)).
    assert (Hj : join_slash (d :: l) <> []).
    { inversion Hl as [|? ? [Hd _] _]; subst. destruct l; cbn; [assumption|].
      destruct d; [contradiction|discriminate]. }
    rewrite last_app_ne by discriminate.
    change (last (47 :: join_slash (d :: l)) 0) with
        (last ([47] ++ join_slash (d :: l)) 0).
    rewrite last_app_ne by assumption. apply IH; [discriminate|assumption].
Qed.

(* ---------- resolve and normpath ---------- *)

Definition nodd (acc : list str) : Prop := Forall (fun c => is_dotdot c = false) acc.

Lemma np_rs_step init acc c : 0 < init -> nodd acc ->
  np_step init acc c = rs_step acc c /\ nodd (rs_step acc c).
Proof.
  intros Hi Ha. unfold np_step, rs_step.
  destruct (is_empty c || is_dot c); [now split|].
  destruct (is_dotdot c) eqn:Ed; cbn [negb orb].
  - assert (E0 : (init =? 0) = false) by (apply Z.eqb_neq; lia). rewrite E0. cbn [andb orb].
    destruct acc as [|t acc]; [now split|].
    inversion Ha; subst. rewrite H1. now split.
  - split; [reflexivity|]. now constructor.
Qed.

Lemma np_rs_fold init comps : 0 < init -> forall acc, nodd acc ->
  fold_left (np_step init) comps acc = fold_left rs_step comps acc.
Proof.
  intro Hi. induction comps as [|c comps IH]; intros acc Ha; [reflexivity|].
  cbn [fold_left]. destruct (np_rs_step init acc c Hi Ha) as [E Hn].
  rewrite E. now apply IH.
Qed.

(** the stack only ever holds non-empty slash-free components of the path *)
Lemma rs_fold_good comps : Forall slashfree comps -> forall acc, Forall good acc ->
  Forall good (fold_left rs_step comps acc).
Proof.
  induction comps as [|c comps IH]; intros Hc acc Ha; [assumption|].
  inversion Hc; subst. cbn [fold_left]. apply IH; [assumption|].
  unfold rs_step. destruct (is_empty c || is_dot c) eqn:E; [assumption|].
  destruct (is_dotdot c); [destruct acc; [constructor | now inversion Ha]|].
  constructor; [|assumption]. split; [|assumption].
  intro K. subst c. discriminate.
Qed.

Lemma resolve_good p : Forall good (resolve p).
Proof.
  unfold resolve. apply Forall_rev. apply rs_fold_good; [apply split_all_slashfree|constructor].
Qed.

Lemma init_slashes_abs p : isabs p = true -> init_slashes p = 1 \/ init_slashes p = 2.
Proof.
  unfold isabs, init_slashes. destruct p as [|c p]; [discriminate|]. intro H.
  apply Z.eqb_eq in H. subst c.
  destruct p as [|c2 p]; [left; reflexivity|].
  destruct (c2 =? 47) eqn:E2.
  - apply Z.eqb_eq in E2. subst c2.
    destruct p as [|c3 p]; [right; reflexivity|].
    destruct (c3 =? 47) eqn:E3.
    + apply Z.eqb_eq in E3. subst c3. left. destruct p; reflexivity.
    + right. cbn [startswith]. rewrite (Z.eqb_sym 47 c3), E3. destruct p; reflexivity.
  - left. cbn [startswith]. rewrite (Z.eqb_sym 47 c2), E2. destruct p; reflexivity.
Qed.

(** an absolute path normalises to "/" or "//" followed by its lexical
    resolution joined with "/" *)
Lemma normpath_abs_form p : isabs p = true ->
  exists sl, (sl = [47] \/ sl = [47; 47]) /\ normpath p = sl ++ join_slash (resolve p).
Proof.
  intro H. destruct p as [|c p]; [discriminate|].
  unfold normpath. set (q := c :: p) in *.
  destruct (init_slashes_abs q H) as [E|E]; rewrite E.
  - exists [47]. split; [now left|].
    rewrite np_rs_fold by (lia || constructor). reflexivity.
  - exists [47; 47]. split; [now right|].
    rewrite np_rs_fold by (lia || constructor). reflexivity.
Qed.

Theorem segments_normpath_abs p : isabs p = true -> segments (normpath p) = resolve p.
Proof.
  intro H. destruct (normpath_abs_form p H) as (sl & [-> | ->] & E); rewrite E; cbn [app].
  - rewrite segments_slash. apply segments_join, resolve_good.
  - rewrite !segments_slash. apply segments_join, resolve_good.
Qed.

Lemma normpath_nonnil p : normpath p <> [].
Proof.
  unfold normpath. destruct p; [discriminate|].
  destruct (slashes _ ++ join_slash _); discriminate.
Qed.

Lemma normpath_abs_isabs p : isabs p = true -> isabs (normpath p) = true.
Proof.
  intro H. destruct (normpath_abs_form p H) as (sl & [-> | ->] & E); rewrite E; reflexivity.
Qed.

(* ---------- join ---------- *)

Lemma ends_slash_spec a : ends_slash a = true -> exists y, a = y ++ [47].
Proof.
  induction a as [|c a IH]; [discriminate|]. destruct a as [|d a].
  - cbn. intro H. apply Z.eqb_eq in H. subst. now exists [].
  - intro H. change (ends_slash (d :: a) = true) in H. destruct (IH H) as [y E].
    exists (c :: y). cbn. now rewrite <- E.
Qed.

(** join(nd, '') = y ++ "/" with the segments of nd *)
Lemma join_nil_form nd : nd <> [] ->
  exists y, join2 nd [] = y ++ [47] /\ segments y = segments nd.
Proof.
  intro Hn. unfold join2. cbn [isabs]. destruct nd as [|c nd]; [contradiction|].
  cbn [is_nil orb]. destruct (ends_slash (c :: nd)) eqn:E.
  - destruct (ends_slash_spec _ E) as [y Ey]. exists y. rewrite app_nil_r. split; [assumption|].
    rewrite Ey. change (y ++ [47]) with (y ++ 47 :: []). rewrite segments_app_slash.
    now rewrite segments_nil, app_nil_r.
  - exists (c :: nd). split; reflexivity.
Qed.

Lemma join2_abs a b : isabs a = true -> isabs (join2 a b) = true.
Proof.
  intro H. unfold join2. destruct (isabs b) eqn:E; [assumption|].
  destruct a; [discriminate|]. destruct (is_nil (z :: a) || ends_slash (z :: a)); exact H.
Qed.

(** the components of join(a, b) for a relative b *)
Lemma fold_join2 a b : isabs b = false -> a <> [] ->
  fold_left rs_step (split_slash (join2 a b)) [] =
  fold_left rs_step (split_slash b) (fold_left rs_step (split_slash a) []).
Proof.
  intros Hb Ha. unfold join2. rewrite Hb. destruct a as [|c a]; [contradiction|].
  cbn [is_nil orb]. destruct (ends_slash (c :: a)) eqn:E.
  - destruct (ends_slash_spec _ E) as [y Ey]. rewrite Ey.
    rewrite <- app_assoc. cbn [app]. rewrite !split_app_slash, !fold_left_app.
    reflexivity.
  - rewrite split_app_slash, fold_left_app. reflexivity.
Qed.

(** a relative path without ".." only descends *)
Definition safe_rel (s : str) : bool :=
  negb (isabs s) && forallb (fun c => negb (is_dotdot c)) (split_slash s).

Lemma fold_nodotdot comps : forallb (fun c => negb (is_dotdot c)) comps = true ->
  forall acc, exists y, fold_left rs_step comps acc = y ++ acc.
Proof.
  induction comps as [|c comps IH]; intros H acc; [now exists []|].
  cbn in H. apply andb_true_iff in H as [Hc H]. cbn [fold_left].
  unfold rs_step at 2. destruct (is_empty c || is_dot c); [now apply IH|].
  apply negb_true_iff in Hc. rewrite Hc.
  destruct (IH H (c :: acc)) as [y E]. exists (y ++ [c]). rewrite E, <- app_assoc. reflexivity.
Qed.

Lemma resolve_join_safe a b : a <> [] -> safe_rel b = true ->
  SegPrefix (resolve a) (resolve (join2 a b)).
Proof.
  intros Ha H. unfold safe_rel in H. apply andb_true_iff in H as [H1 H2].
  apply negb_true_iff in H1. unfold resolve. rewrite fold_join2 by assumption.
  destruct (fold_nodotdot _ H2 (fold_left rs_step (split_slash a) [])) as [y E].
  rewrite E, rev_app_distr. now exists (rev y).
Qed.

(* ---------- the repaired guards ---------- *)

(** static: normpath(filename) == normpath(dir) or it starts with
    join(normpath(dir), '') *)
Theorem guard_static_strict_sound filename dir :
  guard_static true filename dir = true ->
  SegPrefix (segments (normpath dir)) (segments (normpath filename)).
Proof.
  unfold guard_static. intro H. apply orb_true_iff in H as [H|H].
  - apply eqbZs_true in H. rewrite H. apply SegPrefix_refl.
  - destruct (join_nil_form (normpath dir) (normpath_nonnil dir)) as (y & Ey & Es).
    rewrite Ey in H. apply startswith_spec in H as [r Hr]. rewrite Hr, <- app_assoc.
    cbn [app]. rewrite segments_app_slash, Es. now exists (segments r).
Qed.

(** sessions: the path starts with join(storage_path, ''); for an absolute
    path this is *strict* containment unless the storage path is the root *)
Theorem guard_prefix_strict sp f : sp <> [] -> isabs f = true ->
  startswith (normpath f) (join2 sp []) = true ->
  exists r, resolve f = segments sp ++ r /\ (segments sp = [] \/ r <> []).
Proof.
  intros Hsp Hf H. destruct (join_nil_form sp Hsp) as (y & Ey & Es).
  rewrite Ey in H. apply startswith_spec in H as [r Hr].
  rewrite <- app_assoc in Hr. cbn [app] in Hr.
  pose proof (segments_normpath_abs f Hf) as Hseg.
  rewrite Hr, segments_app_slash, Es in Hseg.
  exists (segments r). split; [now symmetry|].
  destruct (segments sp) as [|s0 ss] eqn:Esp; [now left|]. right.
  intro Hr0. rewrite Hr0, app_nil_r in Hseg.
  destruct (normpath_abs_form f Hf) as (sl & Hsl & E).
  assert (Hlast : last (normpath f) 0 = 47).
  { rewrite Hr. rewrite last_app_ne by discriminate.
    apply last_all_slashes. now apply segments_only_slashes. }
  assert (Hne : resolve f <> []) by (rewrite <- Hseg; discriminate).
  assert (Hj : join_slash (resolve f) <> []).
  { pose proof (resolve_good f) as G. destruct (resolve f) as [|c l]; [contradiction|].
    inversion G as [|? ? [Hc _] _]; subst. destruct l; cbn; [assumption|].
    destruct c; [contradiction|discriminate]. }
  rewrite E, last_app_ne in Hlast by assumption.
  exact (last_join _ Hne (resolve_good f) Hlast).
Qed.

(** appending ".lock" (any slash-free suffix of length >= 3) to a path that
    resolves strictly inside stays inside *)
Definition longish (s : str) : Prop := (3 <= length s)%nat.

Lemma is_special_app l s : longish s ->
  (is_empty (l ++ s) || is_dot (l ++ s)) = false /\ is_dotdot (l ++ s) = false.
Proof.
  unfold longish. intro H.
  assert (L : (3 <= length (l ++ s))%nat) by (rewrite app_length; lia).
  destruct (l ++ s) as [|a [|b [|c t]]]; cbn in L; try lia.
  unfold is_empty, is_dot, is_dotdot, is_nil. cbn.
  split; [now rewrite andb_false_r | now rewrite !andb_false_r].
Qed.

Lemma rev_tl_prefix (st : list str) (SP r : list str) :
  rev (tl st) = SP ++ r -> SegPrefix SP (rev st).
Proof.
  destruct st as [|h st]; cbn [tl rev]; intro E.
  - now exists r.
  - rewrite E. exists (r ++ [h]). now rewrite app_assoc.
Qed.

Theorem resolve_suffix_inside f s SP r : slashfree s -> longish s ->
  resolve f = SP ++ r -> (SP = [] \/ r <> []) ->
  SegPrefix SP (resolve (f ++ s)).
Proof.
  intros Hs Hl E Hstrict. destruct Hstrict as [->|Hr]; [apply SegPrefix_nil|].
  destruct (split_snoc s f Hs) as (cs & l & E1 & E2).
  unfold resolve in *. rewrite E2, fold_left_app. rewrite E1, fold_left_app in E.
  cbn [fold_left] in *. set (st := fold_left rs_step cs []) in *.
  destruct (is_special_app l s Hl) as [Ha Hb].
  unfold rs_step at 1. rewrite Ha, Hb. cbn [rev]. apply SegPrefix_app.
  unfold rs_step in E.
  destruct (is_empty l || is_dot l).
  - now exists r.
  - destruct (is_dotdot l).
    + now apply rev_tl_prefix with r.
    + cbn [rev] in E. destruct (exists_last Hr) as (r' & x & ->).
      rewrite app_assoc in E. apply app_inj_tail in E as [E _]. now exists r'.
Qed.

(* ---------- the model kernel follows lexical resolution (A_fs) ---------- *)

Lemma kwalk_resolve fs comps : forall cur loc,
  (kwalk fs comps cur = KFile loc \/ kwalk fs comps cur = KDir loc) ->
  loc = fold_left rs_step comps cur.
Proof.
  induction comps as [|c comps IH]; intros cur loc H; cbn [kwalk fold_left] in *.
  - destruct H as [H|H]; [discriminate|now inversion H].
  - unfold rs_step at 2. destruct (is_empty c || is_dot c); [now apply IH|].
    destruct (is_dotdot c); [now apply IH|].
    destruct (fs_lookup fs (rev (c :: cur))) as [[|]|].
    + now apply IH.
    + destruct comps; [|destruct H; discriminate].
      destruct H as [H|H]; [now inversion H|discriminate].
    + destruct H; discriminate.
Qed.

Theorem kstat_resolve fs p loc :
  (kstat fs p = KFile loc \/ kstat fs p = KDir loc) -> rev loc = resolve p.
Proof.
  unfold kstat, resolve. destruct (has_nul p); [intros [H|H]; discriminate|].
  destruct (isabs p); [|intros [H|H]; discriminate].
  intro H. apply kwalk_resolve in H. now rewrite H.
Qed.
