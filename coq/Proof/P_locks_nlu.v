(** C13, part (a): no lost update.  [r_rd t = Some (id, v)] records that thread t loaded session
    id when it had been saved v times and has not saved yet; the invariant says that v is still
    the number of saves of id: between the load and the save of a request no other request
    saves that session. *)
From Coq Require Import ZArith List Bool Lia.
From CV Require Import Lib.Sx Lib.ListZ LibP.ListZ_facts Model.M_locks
  Proof.P_locks Proof.P_locks_inv Proof.P_locks_step Proof.P_locks_thm.
Import ListNotations.
Open Scope Z_scope.

Definition NLU (s : st) : Prop :=
  forall tid t id v, nthZ tid (reqs s) = Some t -> r_rd t = Some (id, v) ->
                     r_sid t = id /\ r_cs t = true /\ ver s id = v.

Lemma lk_reqs s s' : lk s = lk s' -> reqs s = reqs s'.
Proof. unfold lk. intros E. injection E as _ _ E _. exact E. Qed.

Lemma ver_finish tid t s id : ver (finish tid t s) id = ver s id. Proof. reflexivity. Qed.
Lemma ver_do_close tid t s id : ver (do_close tid t s) id = ver s id.
Proof. unfold do_close. destruct (r_locked t); reflexivity. Qed.
Lemma ver_do_save tid t s id : ver (do_save tid t s) id = ver s id.
Proof. unfold do_save, do_close. destruct (r_loaded t); [reflexivity|]. destruct (r_locked t); reflexivity. Qed.

Lemma NLU_put s s' tid t t' :
  NLU s -> nthZ tid (reqs s) = Some t ->
  reqs s' = updN tid (fun _ => t') (reqs s) ->
  (forall id, ver s' id = ver s id) ->
  (forall id v, r_rd t' = Some (id, v) -> r_sid t' = id /\ r_cs t' = true /\ ver s id = v) ->
  NLU s'.
Proof.
  intros HN Hn Er Ev Ht tid0 t0 id v H0 E0. rewrite Er in H0. rewrite Ev. apply updN_cases in H0.
  destruct H0 as [[-> (t1 & _ & ->)]|[N H0]]; [apply Ht; exact E0|eapply HN; eauto].
Qed.

Lemma NLU_other s s' :
  NLU s -> reqs s' = reqs s -> (forall id, ver s' id = ver s id) -> NLU s'.
Proof. intros HN Er Ev tid t id v H E. rewrite Er in H. rewrite Ev. eapply HN; eauto. Qed.

Lemma rd_none s tid t : NLU s -> nthZ tid (reqs s) = Some t -> r_cs t = false -> r_rd t = None.
Proof.
  intros HN Hn C. destruct (r_rd t) as [[id v]|] eqn:E; [|reflexivity].
  destruct (HN tid t id v Hn E) as (_ & X & _). congruence.
Qed.

Ltac rd_same HN Hn :=
  let id := fresh "id" in let v := fresh "v" in let E := fresh "E" in
  intros id v E; cbn in E; destruct (HN _ _ id v Hn E) as (? & ? & ?); cbn; auto.
Ltac rd_gone RN :=
  let id := fresh "id" in let v := fresh "v" in let E := fresh "E" in
  intros id v E; cbn in E; try rewrite RN in E; discriminate.

Lemma rstep_NLU cf s tid t lab s' :
  Inv s -> NLU s -> nthZ tid (reqs s) = Some t -> rstep cf tid t s = Some (lab, s') -> NLU s'.
Proof.
  intros HI HN Hn H. pose proof HI as (HT & _ & _). destruct (HT tid t Hn) as (_ & _ & A3).
  unfold rstep in H. unfold pc_ok in A3. destruct (r_pc t) eqn:Pc.
  - (* RBegin *)
    destruct A3 as (O & C). pose proof (rd_none s tid t HN Hn C) as RN. injection H as <- <-.
    destruct (c_cookie cf) as [i|];
      (eapply (NLU_put s _ tid t _ HN Hn); [reflexivity|intros; reflexivity|rd_gone RN]).
  - (* RExists *)
    destruct A3 as (O & C). pose proof (rd_none s tid t HN Hn C) as RN. injection H as <- <-.
    unfold start_acquire. destruct (ahas (r_sid t) (cache s)); destruct first;
      (eapply (NLU_put s _ tid t _ HN Hn); [reflexivity|intros; reflexivity|rd_gone RN]).
  - (* RSetdef *)
    destruct A3 as (O & C & _). pose proof (rd_none s tid t HN Hn C) as RN. injection H as <- <-.
    destruct (aget (r_sid t) (table s));
      (eapply (NLU_put s _ tid t _ HN Hn); [reflexivity|intros; reflexivity|rd_gone RN]).
  - (* RAcquire *)
    destruct A3 as (O & C & _). pose proof (rd_none s tid t HN Hn C) as RN.
    destruct (nthZ l (objs s)) as [o|]; [|discriminate]. destruct (free_for tid o); [|discriminate].
    injection H as <- <-. destruct (c_fixed cf).
    + eapply (NLU_put s _ tid t _ HN Hn); [reflexivity|intros; reflexivity|rd_gone RN].
    + unfold after_acquire. cbn [r_regen set_cs set_own r_kind].
      destruct (r_regen t); [|destruct (r_kind t =? 3)].
      * eapply (NLU_put s _ tid t _ HN Hn);
          [rewrite (lk_reqs _ _ (do_save_lk _ _ _)); reflexivity|intros; rewrite ver_do_save; reflexivity|rd_gone RN].
      * eapply (NLU_put s _ tid t _ HN Hn);
          [rewrite (lk_reqs _ _ (do_save_lk _ _ _)); reflexivity|intros; rewrite ver_do_save; reflexivity|rd_gone RN].
      * eapply (NLU_put s _ tid t _ HN Hn); [reflexivity|intros; reflexivity|rd_gone RN].
  - (* RCheck *)
    destruct A3 as (O & C & _). pose proof (rd_none s tid t HN Hn C) as RN. injection H as <- <-.
    assert (Stay : NLU (put tid (set_pc (RUndo l) t) s)).
    { eapply (NLU_put s _ tid t _ HN Hn); [reflexivity|intros; reflexivity|rd_gone RN]. }
    destruct (aget (r_sid t) (table s)) as [l'|]; [|exact Stay]. destruct (l' =? l); [|exact Stay].
    unfold after_acquire. cbn [r_regen set_cs r_kind].
    destruct (r_regen t); [|destruct (r_kind t =? 3)].
    + eapply (NLU_put s _ tid t _ HN Hn);
        [rewrite (lk_reqs _ _ (do_save_lk _ _ _)); reflexivity|intros; rewrite ver_do_save; reflexivity|rd_gone RN].
    + eapply (NLU_put s _ tid t _ HN Hn);
        [rewrite (lk_reqs _ _ (do_save_lk _ _ _)); reflexivity|intros; rewrite ver_do_save; reflexivity|rd_gone RN].
    + eapply (NLU_put s _ tid t _ HN Hn); [reflexivity|intros; reflexivity|rd_gone RN].
  - (* RUndo *)
    destruct A3 as (O & C & _). pose proof (rd_none s tid t HN Hn C) as RN. injection H as <- <-.
    eapply (NLU_put s _ tid t _ HN Hn); [reflexivity|intros; reflexivity|rd_gone RN].
  - (* RLoad: the thread records the number of saves it sees *)
    destruct A3 as (C & Lk).
    assert (G : forall d s0, reqs s0 = reqs s -> jrn s0 = jrn s -> forall e, is_save 0 e = false -> (forall i, is_save i e = false) ->
      NLU (if r_kind t =? 0 then do_save tid (set_rd (Some (r_sid t, ver s (r_sid t))) (set_loaded d t)) (emit e s0)
           else if r_kind t =? 1 then do_close tid (set_rd (Some (r_sid t, ver s (r_sid t))) (set_loaded d t)) (emit e s0)
           else put tid (set_pc RDelete (set_regen true (set_rd (Some (r_sid t, ver s (r_sid t))) (set_loaded d t)))) (emit e s0))).
    { intros d s0 E1 E2 e _ Ne.
      assert (V : forall i, ver (emit e s0) i = ver s i).
      { intros i. unfold ver. cbn [emit jrn count]. rewrite Ne, E2. reflexivity. }
      assert (RD : forall t', r_rd t' = Some (r_sid t, ver s (r_sid t)) -> r_sid t' = r_sid t -> r_cs t' = true ->
                              forall id v, r_rd t' = Some (id, v) -> r_sid t' = id /\ r_cs t' = true /\ ver s id = v).
      { intros t' X1 X2 X3 id v X. rewrite X1 in X. injection X as <- <-. auto. }
      destruct (r_kind t =? 0); [|destruct (r_kind t =? 1)].
      - eapply (NLU_put s _ tid t _ HN Hn);
          [rewrite (lk_reqs _ _ (do_save_lk _ _ _)); cbn [put reqs emit]; rewrite E1; reflexivity
          |intros; rewrite ver_do_save; apply V|apply RD; [reflexivity|reflexivity|exact C]].
      - eapply (NLU_put s _ tid t _ HN Hn);
          [rewrite (lk_reqs _ _ (do_close_lk _ _ _)); cbn [put reqs emit]; rewrite E1; reflexivity
          |intros; rewrite ver_do_close; apply V|apply RD; [reflexivity|reflexivity|exact C]].
      - eapply (NLU_put s _ tid t _ HN Hn);
          [cbn [put reqs emit]; rewrite E1; reflexivity|intros; apply V|apply RD; [reflexivity|reflexivity|exact C]]. }
    assert (Ne : forall v i, is_save i [2; tid; r_sid t; v] = false) by reflexivity.
    destruct (aget (r_sid t) (cache s)) as [e|]; [destruct (c_exp e)|]; injection H as <- <-;
      apply G; auto.
  - (* RDelete *)
    destruct A3 as (C & Lk). injection H as <- <-.
    eapply (NLU_put s _ tid t (set_pc (RRelLook AfRegen) (set_rd None t)) HN Hn); [| |rd_gone Pc].
    + destruct (ahas (r_sid t) (cache s)); reflexivity.
    + intros id. destruct (ahas (r_sid t) (cache s)); reflexivity.
  - (* RRelLook *)
    injection H as <- <-. unfold rel_fail, do_close, finish.
    destruct (aget (r_sid t) (table s)) as [l|];
      [destruct (nthZ l (objs s)) as [o|]; [destruct (owned_by tid o)|]|];
      try (eapply (NLU_put s _ tid t _ HN Hn); [reflexivity|intros; reflexivity|rd_same HN Hn]);
      destruct a; cbn [r_locked set_regen]; try destruct (r_locked t);
      (eapply (NLU_put s _ tid t _ HN Hn); [reflexivity|intros; reflexivity|rd_same HN Hn]).
  - (* RRelease *)
    injection H as <- <-. unfold rel_done. destruct a.
    + eapply (NLU_put s _ tid t _ HN Hn); [reflexivity|intros; reflexivity|rd_gone Pc].
    + eapply (NLU_put s _ tid t _ HN Hn);
        [rewrite (lk_reqs _ _ (do_close_lk _ _ _)); reflexivity|intros; rewrite ver_do_close; reflexivity|rd_gone Pc].
    + eapply (NLU_put s _ tid t _ HN Hn); [reflexivity|intros; reflexivity|rd_gone Pc].
  - (* RSave: the only step that adds a save; by mutual exclusion nobody else has loaded this id *)
    destruct A3 as (C & Lk). injection H as <- <-. cbn [r_locked set_rd]. rewrite Lk.
    intros tid0 t0 id v H0 E0. cbn [emit put reqs set_cache] in H0. apply updN_cases in H0.
    destruct H0 as [[-> (t1 & _ & ->)]|[N H0]]; [cbn in E0; discriminate|].
    destruct (HN tid0 t0 id v H0 E0) as (B1 & B2 & B3). split; [exact B1|split; [exact B2|]].
    unfold ver. cbn [emit jrn set_cache put count is_save].
    destruct (r_sid t =? id) eqn:Ei.
    + apply Z.eqb_eq in Ei. exfalso. apply N.
      apply (Inv_mutex s tid0 tid id HI); [exists t0; auto|exists t; auto].
    + cbn. exact B3.
  - discriminate.
Qed.

Lemma sstep_NLU s tid lab s' : NLU s -> sstep tid s = Some (lab, s') -> NLU s'.
Proof.
  intros HN H. unfold sstep in H.
  destruct (s_pc (sw s)); try discriminate; injection H as <- <-;
    unfold sw_pop, try_lock, sw_fail; cbn beta iota;
    repeat match goal with
           | |- context [nthZ ?a ?b] => destruct (nthZ a b)
           | |- context [free_for ?a ?b] => destruct (free_for a b)
           | |- context [owned_by ?a ?b] => destruct (owned_by a b)
           | |- context [aget ?a ?b] => destruct (aget a b)
           | |- context [ahas ?a ?b] => destruct (ahas a b)
           end;
    (apply (NLU_other s); [exact HN|reflexivity|intros; reflexivity]).
Qed.

Lemma NLU_init kinds sweeps pre : NLU (init kinds sweeps pre).
Proof.
  assert (T : forall ks tid t, nthZ tid (map new_thread ks) = Some t -> r_rd t = None).
  { induction ks as [|k r IHk]; intros tid1 t1 H1; cbn [map nthZ] in H1; [discriminate|].
    destruct (tid1 =? 0); [injection H1 as <-; reflexivity|]. destruct (tid1 <? 0); [discriminate|]. eauto. }
  intros tid t id v Hn E. assert (r_rd t = None); [|congruence].
  unfold init in Hn. destruct pre as [[[[i n0] ex] pl]|]; cbn [reqs] in Hn; eapply T; eauto.
Qed.

Theorem reach_NLU cf kinds sweeps pre s :
  c_fixed cf = true -> reach cf (init kinds sweeps pre) s -> NLU s.
Proof.
  intros FX R. induction R as [|s tid lab s' R IH Hs]; [apply NLU_init|].
  pose proof (reach_Inv _ _ _ _ _ FX R) as HI.
  unfold step in Hs. destruct (nthZ tid (reqs s)) as [t|] eqn:Hn.
  - eapply rstep_NLU; eauto.
  - destruct (tid =? lenZ (reqs s)); [|discriminate]. eapply sstep_NLU; eauto.
Qed.

(** every save is based on the latest saved version: a thread about to save session id loaded it
    when it had been saved exactly as many times as now *)
Theorem thm_no_lost_update cf kinds sweeps pre s tid t id v :
  c_fixed cf = true -> reach cf (init kinds sweeps pre) s ->
  nthZ tid (reqs s) = Some t -> r_rd t = Some (id, v) ->
  in_cs s tid id /\ ver s id = v /\ (forall tid', in_cs s tid' id -> tid' = tid).
Proof.
  intros FX R Hn E. pose proof (reach_Inv _ _ _ _ _ FX R) as HI.
  destruct (reach_NLU _ _ _ _ _ FX R tid t id v Hn E) as (B1 & B2 & B3).
  assert (C : in_cs s tid id) by (exists t; auto).
  split; [exact C|split; [exact B3|]]. intros tid' C'. eapply Inv_mutex; eauto.
Qed.

Lemma ex_nonvacuous :
  let cf := Cfg true (Some 1) in
  let s0 := init [0; 0] 1 (Some (1, 5, true, true)) in
  (exists cur s tr t0,
     replay cf [0;0; 1;1;1; 2;2;2;2;2;2;2;2;2; 0;0;0; 1;1;1;1; 0] None s0 [] = (cur, s, tr)
     /\ reach cf s0 s /\ in_cs s 0 1 /\ nthZ 0 (reqs s) = Some t0 /\ r_rd t0 = Some (1, 0)
     /\ all_done s = false
     /\ (forall tid t l, nthZ tid (reqs s) = Some t -> r_pc t = RAcquire l -> nthZ l (objs s) <> None)
     /\ enabled cf s = [0]) /\
  (exists ok s tr,
     run_locks cf s0 [0;0; 1;1;1; 2;2;2;2;2;2;2;2;2; 0;0;0; 1;1] = (ok, s, tr)
     /\ reach cf s0 s /\ ok = true /\ all_done s = true /\ ver s 1 = 2
     /\ map (fun p => heap_get (c_data (snd p)) s) (cache s) = [2]
     /\ map l_owner (objs s) = [None; None]).
Proof.
  intros cf s0. split.
  - destruct (replay cf [0;0; 1;1;1; 2;2;2;2;2;2;2;2;2; 0;0;0; 1;1;1;1; 0] None s0 []) as [[cur s] tr] eqn:E.
    exists cur, s, tr. pose proof (replay_reach cf s0 _ _ _ _ _ _ _ (reach_init cf s0) E) as R.
    vm_compute in E. injection E as _ <- _. eexists. split; [reflexivity|]. split; [exact R|].
    split; [eexists; split; [vm_compute; reflexivity|split; reflexivity]|].
    split; [vm_compute; reflexivity|]. split; [reflexivity|]. split; [reflexivity|].
    split; [|vm_compute; reflexivity].
    intros tid t l Hn Pc. cbn [reqs nthZ] in Hn.
    destruct (tid =? 0); [injection Hn as <-; discriminate|]. destruct (tid <? 0); [discriminate|].
    destruct (tid - 1 =? 0).
    + injection Hn as <-. cbn in Pc. injection Pc as <-. vm_compute. discriminate.
    + destruct (tid - 1 <? 0); discriminate.
  - destruct (run_locks cf s0 [0;0; 1;1;1; 2;2;2;2;2;2;2;2;2; 0;0;0; 1;1]) as [[ok s] tr] eqn:E.
    exists ok, s, tr. split; [reflexivity|]. split; [eapply run_locks_reach; exact E|].
    vm_compute in E. injection E as <- <- _. repeat split; vm_compute; reflexivity.
Qed.
