(** C06 - lemmas about the framing model: the invariant
    "Content-Length is absent or equals the length of the body" and what
    finalize makes of it. *)
From Coq Require Import ZArith List Bool Lia.
From CV Require Import Lib.Sx Lib.ListZ LibP.ListZ_facts Model.M_framing.
Import ListNotations.
Open Scope Z_scope.

(** The invariant every built-in transformer keeps. *)
Definition Inv (r : resp) : Prop := cl r = None \/ cl r = Some (total (body r)).

(** What a finished (finalized or bare) response looks like. *)
Definition Final (r : resp) : Prop :=
  (stream r = false ->
     (nobody (code r) = true -> body r = [] /\ cl r = None) /\
     (nobody (code r) = false -> cl r = Some (total (body r)))) /\
  (stream r = true -> Inv r).

Lemma total_nonneg b : 0 <= total b.
Proof. induction b as [|c r IH]; cbn [total]; [lia | pose proof (lenZ_nonneg c); lia]. Qed.

Lemma total_concat b : lenZ (concat b) = total b.
Proof.
  induction b as [|c r IH]; cbn [concat total].
  - reflexivity.
  - rewrite lenZ_app, IH. reflexivity.
Qed.

Lemma total_single c : total [c] = lenZ c.
Proof. cbn [total]. lia. Qed.

Lemma total_collapse b : total [concat b] = total b.
Proof. rewrite total_single. apply total_concat. Qed.

(** Which transformers are "built-in": everything except the two things only
    user code does (assigning a body without looking at the header, setting an
    arbitrary Content-Length); a regrouping must keep the bytes. *)
Fixpoint builtin_tx (t : tx) : Prop :=
  match t with
  | Regroup g _ => forall b, total (g b) = total b
  | HandlerBody _ _ => False
  | SetCL _ => False
  | UnlessCached t' => builtin_tx t'
  | _ => True
  end.

Definition cache_ok (c : option centry) : Prop :=
  match c with
  | Some (_, l, b) => l = None \/ l = Some (total b)
  | None => True
  end.

(* ---------- projections through the bookkeeping ---------- *)

Lemma inv_aux r a : Inv r -> Inv (with_aux r a).
Proof. intros H; exact H. Qed.

Lemma inv_tag r t : Inv r -> Inv (tag r t).
Proof. intros H; exact H. Qed.

Lemma inv_with_body r b : total b = total (body r) -> Inv r -> Inv (with_body r b).
Proof.
  intros E [H | H]; [left; exact H | right].
  change (cl (with_body r b)) with (cl r). change (body (with_body r b)) with b.
  rewrite H, E. reflexivity.
Qed.

Lemma inv_rewrite_drop f u r : Inv (rewrite_drop f u r).
Proof. left. reflexivity. Qed.

Lemma inv_rewrite_set_exact f u r : Inv (rewrite_set_exact f u r).
Proof. right. reflexivity. Qed.

(** HTTPError.set_response leaves a consistent response whatever it started from. *)
Lemma set_error_inv e c r : Inv (fst (set_error e c r)).
Proof.
  unfold set_error. destruct (page_of e c) as [pg pbad].
  destruct (ie_size c =? 0).
  - cbn [fst]. apply inv_tag, inv_rewrite_drop.
  - destruct (joinable _); cbn [fst].
    + apply inv_tag, inv_rewrite_set_exact.
    + apply inv_rewrite_drop.
Qed.

Lemma set_redirect_inv e c r r' : set_redirect e c r = (r', ENone) -> Inv r'.
Proof.
  unfold set_redirect. destruct (existsb _ _).
  - destruct (page_of e c) as [pg pbad]. intros H; inversion H; subst.
    apply inv_tag, inv_rewrite_drop.
  - destruct (_ || _); intros H; inversion H; subst.
    apply inv_tag, inv_rewrite_drop.
Qed.

Lemma bare_final r : Final (bare r).
Proof.
  unfold bare, Final. split.
  - intros _. split.
    + cbn. intros H. discriminate H.
    + intros _. reflexivity.
  - intros _. right. reflexivity.
Qed.

(* ---------- c06_inv: one transformer ---------- *)

Lemma apply_tx_inv e cache m t : forall r r',
  builtin_tx t -> cache_ok cache -> Inv r ->
  apply_tx e cache m t r = (r', ENone) -> Inv r'.
Proof.
  induction t; intros r r' Hb Hc Hi H; cbn [apply_tx builtin_tx] in *.
  - (* Keep *) inversion H; subst; exact Hi.
  - (* Regroup *) inversion H; subst. apply inv_aux. apply inv_with_body; [apply Hb | exact Hi].
  - inversion H; subst. apply inv_rewrite_drop.
  - inversion H; subst. apply inv_rewrite_set_exact.
  - (* Handled *) inversion H; subst. apply inv_aux, inv_rewrite_set_exact.
  - inversion H; subst. apply inv_aux, inv_rewrite_drop.
  - contradiction.
  - (* SetExact *) inversion H; subst. right. reflexivity.
  - contradiction.
  - (* DropCL *) inversion H; subst. left. reflexivity.
  - inversion H; subst. exact Hi.
  - inversion H; subst. exact Hi.
  - (* Collapse *)
    destruct (joinable r); inversion H; subst.
    apply inv_with_body; [apply total_collapse | exact Hi].
  - inversion H; subst. exact Hi.
  - (* UnlessCached *)
    destruct (a_cached (aux r)).
    + inversion H; subst. exact Hi.
    + eapply IHt; eauto.
  - (* SetError *)
    pose proof (set_error_inv e c r) as Hs. rewrite H in Hs. exact Hs.
  - (* RaiseIf2xx *)
    destruct (_ && _); inversion H; subst; exact Hi.
  - (* CacheGet *)
    destruct (invalidating m).
    + inversion H; subst. exact Hi.
    + destruct cache as [[[c l] b]|].
      * destruct hit_exit; inversion H; subst. cbn in Hc. exact Hc.
      * inversion H; subst. exact Hi.
  - (* Tee *)
    destruct (a_tee_attached (aux r)); inversion H; subst; exact Hi.
Qed.

Lemma run_txs_inv e cache m ts : forall r r',
  Forall builtin_tx ts -> cache_ok cache -> Inv r ->
  run_txs e cache m ts r = (r', ENone) -> Inv r'.
Proof.
  induction ts as [|t ts IH]; intros r r' Hf Hc Hi H; cbn [run_txs] in H.
  - inversion H; subst; exact Hi.
  - inversion Hf; subst.
    destruct (apply_tx e cache m t r) as [r1 ex] eqn:E.
    destruct ex; try discriminate H.
    apply (IH r1 r'); auto. eapply apply_tx_inv; eauto.
Qed.

Definition hook_ok (h : hook) : Prop := Forall builtin_tx (h_tx h) /\ Forall builtin_tx (h_tx2 h).

Lemma run_hook_inv e cache m second h r r' :
  hook_ok h -> cache_ok cache -> Inv r ->
  run_hook e cache m second h r = (r', ENone) -> Inv r'.
Proof.
  intros [H1 H2] Hc Hi H. unfold run_hook in H.
  destruct (run_txs e cache m (if second then h_tx2 h else h_tx h) r) as [r1 ex] eqn:E.
  assert (Forall builtin_tx (if second then h_tx2 h else h_tx h)) as Hf by (destruct second; assumption).
  destruct ex; try discriminate H.
  inversion H; subst. eapply run_txs_inv; eauto.
Qed.

Lemma run_hooks_inv e cache m second hs : forall r r',
  Forall hook_ok hs -> cache_ok cache -> Inv r ->
  run_hooks e cache m second hs r = (r', ENone) -> Inv r'.
Proof.
  induction hs as [|h hs IH]; intros r r' Hf Hc Hi H; cbn [run_hooks] in H.
  - inversion H; subst; exact Hi.
  - inversion Hf; subst.
    destruct (run_hook e cache m second h r) as [r1 ex] eqn:E.
    destruct ex; try discriminate H.
    apply (IH r1 r'); auto. eapply run_hook_inv; eauto.
Qed.

(* ---------- c06_finalize ---------- *)

Lemma finalize_final r r' : Inv r -> finalize r = (r', ENone) -> Final r'.
Proof.
  intros Hi H. unfold finalize in H.
  destruct (stream r) eqn:Es.
  - inversion H; subst. split; cbn; intros Hs.
    + rewrite Es in Hs. discriminate Hs.
    + exact Hi.
  - destruct (nobody (code r)) eqn:En.
    + destruct (a_bad (aux r) =? 3); [discriminate H|].
      destruct (a_teed (aux r) && negb (joinable r)); [discriminate H|].
      inversion H; subst. split; cbn; intros Hs.
      * split; [intros _; split; reflexivity | intros Hn; rewrite En in Hn; discriminate Hn].
      * rewrite Es in Hs. discriminate Hs.
    + destruct (cl r) as [n|] eqn:Ec.
      * inversion H; subst. split; cbn; intros Hs.
        -- split; [intros Hn; rewrite En in Hn; discriminate Hn|].
           intros _. destruct Hi as [Hi | Hi]; [rewrite Ec in Hi; discriminate Hi | exact Hi].
        -- rewrite Es in Hs. discriminate Hs.
      * destruct (joinable r); [|discriminate H].
        inversion H; subst. split; cbn; intros Hs.
        -- split; [intros Hn; rewrite En in Hn; discriminate Hn|].
           intros _. f_equal. lia.
        -- rewrite Es in Hs. discriminate Hs.
Qed.

(* ---------- the before_handler phase and the handler ---------- *)

(** Before the page handler runs, either nothing has set a Content-Length, or a
    HandlerTool / the cache has answered the request (then the handler is skipped). *)
Definition PreInv (r : resp) : Prop :=
  (a_skip (aux r) = false /\ cl r = None) \/ (a_skip (aux r) = true /\ Inv r).

(** what a tool hooked at before_handler may be *)
Fixpoint bh_tx (t : tx) : Prop :=
  match t with
  | Keep | SetCode _ | SetStream _ | NoStore | Tee | DropCL | Handled _ | HandledDrop _
  | CacheGet _ | RaiseIf2xx _ | Collapse | RewriteDrop _ _ => True
  | Regroup g _ => forall b, total (g b) = total b
  | UnlessCached t' => bh_tx t'
  | _ => False
  end.

Lemma bh_builtin t : bh_tx t -> builtin_tx t.
Proof. induction t; cbn; auto. Qed.

Lemma skip_auxop u a : a_skip (apply_auxop u a) = a_skip a.
Proof.
  destruct u; cbn [apply_auxop]; try reflexivity.
  - destruct (a_bad a =? 1); reflexivity.
  - destruct (a_bad a =? 0); reflexivity.
Qed.

Lemma apply_tx_preinv e cache m t : forall r r',
  bh_tx t -> cache_ok cache -> PreInv r ->
  apply_tx e cache m t r = (r', ENone) -> PreInv r'.
Proof.
  induction t; intros r r' Hb Hc Hi H; cbn [apply_tx bh_tx] in *; try contradiction.
  - inversion H; subst; exact Hi.
  - (* Regroup *)
    inversion H; subst. unfold PreInv in *. cbn. rewrite skip_auxop.
    destruct Hi as [[Hs Hn] | [Hs Hv]]; [left; split; assumption | right; split; [assumption|]].
    apply inv_aux, inv_with_body; [apply Hb | exact Hv].
  - (* RewriteDrop *)
    inversion H; subst. unfold PreInv, rewrite_drop. cbn. rewrite skip_auxop.
    destruct Hi as [[Hs _] | [Hs _]]; [left | right]; split; try assumption; try reflexivity.
    left. reflexivity.
  - (* Handled *)
    inversion H; subst. right. split; [reflexivity | apply inv_aux, inv_rewrite_set_exact].
  - inversion H; subst. right. split; [reflexivity | apply inv_aux, inv_rewrite_drop].
  - (* DropCL *)
    inversion H; subst. unfold PreInv. cbn.
    destruct Hi as [[Hs _] | [Hs _]]; [left | right]; split; try assumption; try reflexivity. left; reflexivity.
  - inversion H; subst. exact Hi.
  - inversion H; subst. exact Hi.
  - (* Collapse *)
    destruct (joinable r); inversion H; subst. unfold PreInv in *. cbn.
    destruct Hi as [[Hs Hn] | [Hs Hv]]; [left; split; assumption | right; split; [assumption|]].
    apply inv_with_body; [apply total_collapse | exact Hv].
  - inversion H; subst. exact Hi.
  - (* UnlessCached *)
    destruct (a_cached (aux r)).
    + inversion H; subst. exact Hi.
    + eapply IHt; eauto.
  - destruct (_ && _); inversion H; subst; exact Hi.
  - (* CacheGet *)
    destruct (invalidating m).
    + inversion H; subst. exact Hi.
    + destruct cache as [[[c l] b]|].
      * destruct hit_exit; inversion H; subst. right. split; [reflexivity|]. cbn in Hc. exact Hc.
      * inversion H; subst. exact Hi.
  - destruct (a_tee_attached (aux r)); inversion H; subst; exact Hi.
Qed.

Lemma run_txs_preinv e cache m ts : forall r r',
  Forall bh_tx ts -> cache_ok cache -> PreInv r ->
  run_txs e cache m ts r = (r', ENone) -> PreInv r'.
Proof.
  induction ts as [|t ts IH]; intros r r' Hf Hc Hi H; cbn [run_txs] in H.
  - inversion H; subst; exact Hi.
  - inversion Hf; subst.
    destruct (apply_tx e cache m t r) as [r1 ex] eqn:E.
    destruct ex; try discriminate H.
    apply (IH r1 r'); auto. eapply apply_tx_preinv; eauto.
Qed.

Definition bh_hook_ok (h : hook) : Prop := Forall bh_tx (h_tx h).

Lemma run_hooks_preinv e cache m hs : forall r r',
  Forall bh_hook_ok hs -> cache_ok cache -> PreInv r ->
  run_hooks e cache m false hs r = (r', ENone) -> PreInv r'.
Proof.
  induction hs as [|h hs IH]; intros r r' Hf Hc Hi H; cbn [run_hooks] in H.
  - inversion H; subst; exact Hi.
  - inversion Hf; subst.
    destruct (run_hook e cache m false h r) as [r1 ex] eqn:E.
    destruct ex; try discriminate H.
    apply (IH r1 r'); auto.
    unfold run_hook in E.
    destruct (run_txs e cache m (h_tx h) r) as [r2 ex2] eqn:E2.
    destruct ex2; try discriminate E. inversion E; subst.
    eapply run_txs_preinv; eauto.
Qed.

(** The assumption about user code: a page handler that runs while no
    Content-Length is set and returns normally (does not raise) has either left
    the header alone or set it to the exact length of what it returned. *)
Definition handler_exact (e : env) (cache : option centry) (m : meth) (h : hook) : Prop :=
  forall r r', cl r = None -> run_hook e cache m false h r = (r', ENone) -> Inv r'.

(* ---------- the flow ---------- *)

Lemma handle_error_final e r r' : handle_error e r = (r', ENone) -> Final r'.
Proof.
  unfold handle_error. intros H.
  pose proof (set_error_inv e 500 (tag r 31)) as Hs.
  destruct (set_error e 500 (tag r 31)) as [r1 ex]. cbn [fst] in Hs.
  destruct ex; try discriminate H.
  eapply finalize_final; eauto.
Qed.

Section Flow.
  Variable e : env.
  Variable cache : option centry.
  Variable m : meth.
  Variables bh bf : list hook.
  Variable h : hook.
  Hypothesis Hcache : cache_ok cache.
  Hypothesis Hbh : Forall bh_hook_ok bh.
  Hypothesis Hbf : Forall hook_ok bf.
  Hypothesis Hh : handler_exact e cache m h.

  Lemma do_respond_final r r' :
    PreInv r -> do_respond e cache m bh h bf r = (r', ENone) -> Final r'.
  Proof.
    intros Hp H. unfold do_respond in H.
    destruct (run_hooks e cache m false bh r) as [r1 ex1] eqn:E1.
    destruct ex1; try discriminate H.
    pose proof (run_hooks_preinv _ _ _ _ _ _ Hbh Hcache Hp E1) as Hp1.
    assert (exists r2, (if a_skip (aux r1) then (r1, ENone) else run_hook e cache m false h r1) = (r2, ENone)
                       /\ Inv r2 /\
                       match run_hooks e cache m false bf r2 with
                       | (r3, ENone) => finalize r3
                       | re => re
                       end = (r', ENone)) as [r2 [E2 [Hi2 H2]]].
    { destruct (if a_skip (aux r1) then (r1, ENone) else run_hook e cache m false h r1) as [r2 ex2] eqn:E2.
      destruct ex2; try discriminate H. exists r2. split; [reflexivity|]. split; [|exact H].
      destruct Hp1 as [[Hs Hn] | [Hs Hv]]; rewrite Hs in E2.
      - eapply Hh; [exact Hn | exact E2].
      - inversion E2; subst. exact Hv. }
    destruct (run_hooks e cache m false bf r2) as [r3 ex3] eqn:E3.
    destruct ex3; try discriminate H2.
    eapply finalize_final; [|exact H2].
    eapply run_hooks_inv; eauto.
  Qed.

  Lemma second_pass_final r1 r' :
    Inv r1 ->
    match run_hooks e cache m true bf (tag r1 30) with
    | (r2, ENone) =>
        match finalize r2 with
        | (r3, ENone) => (r3, ENone)
        | (r3, _) => handle_error e r3
        end
    | (r2, _) => handle_error e r2
    end = (r', ENone) -> Final r'.
  Proof.
    intros Hi H.
    destruct (run_hooks e cache m true bf (tag r1 30)) as [r2 ex2] eqn:E2.
    destruct ex2; try (eapply handle_error_final; exact H).
    assert (Inv r2) as Hi2.
    { apply (run_hooks_inv e cache m true bf (tag r1 30) r2 Hbf Hcache); [apply inv_tag; exact Hi | exact E2]. }
    destruct (finalize r2) as [r3 ex3] eqn:E3.
    destruct ex3; try (eapply handle_error_final; exact H).
    inversion H; subst. eapply finalize_final; eauto.
  Qed.

  Lemma respond_final r r' :
    PreInv r -> respond cache m e bh h bf r = (r', ENone) -> Final r'.
  Proof.
    intros Hp H. unfold respond in H.
    destruct (do_respond e cache m bh h bf r) as [r1 ex] eqn:E.
    destruct ex.
    - inversion H; subst. eapply do_respond_final; eauto.
    - (* HTTPError *)
      pose proof (set_error_inv e c r1) as Hs.
      destruct (set_error e c r1) as [r2 ex2]. cbn [fst] in Hs.
      destruct ex2; try (eapply handle_error_final; exact H).
      eapply second_pass_final; eauto.
    - (* HTTPRedirect *)
      destruct (set_redirect e c r1) as [r2 ex2] eqn:E2.
      destruct ex2; try (eapply handle_error_final; exact H).
      eapply second_pass_final; [|exact H]. eapply set_redirect_inv; eauto.
    - eapply handle_error_final; exact H.
  Qed.

  (** Request.run before the HEAD rule *)
  Lemma run_final r :
    PreInv r ->
    Final (match respond cache m e bh h bf r with (r', ENone) => r' | (r', _) => bare r' end).
  Proof.
    intros Hp. destruct (respond cache m e bh h bf r) as [r' ex] eqn:E.
    destruct ex; try apply bare_final.
    eapply respond_final; eauto.
  Qed.
End Flow.

(** what the property says about a delivered response *)
Definition framing_ok (m : meth) (r : resp) : Prop :=
  (stream r = false ->
     (nobody (code r) = true -> total (body r) = 0 /\ cl r = None) /\
     (nobody (code r) = false -> m <> HEAD -> cl r = Some (total (body r))) /\
     (nobody (code r) = false -> exists n, cl r = Some n)) /\
  (stream r = true -> m <> HEAD -> forall n, cl r = Some n -> n = total (body r)) /\
  (m = HEAD -> total (body r) = 0).

Lemma final_framing m r : Final r -> framing_ok m (head_rule m r).
Proof.
  intros [Hn Hs]. unfold framing_ok. split; [|split].
  - intros Hst. assert (stream r = false) as Hst' by (destruct m; exact Hst).
    destruct (Hn Hst') as [Ha Hb]. split; [|split].
    + intros Hc. assert (nobody (code r) = true) as Hc' by (destruct m; exact Hc).
      destruct (Ha Hc') as [Hb0 Hc0]. destruct m; cbn; rewrite ?Hb0; split; auto.
    + intros Hc Hm. destruct m; try (exfalso; apply Hm; reflexivity); cbn in *; apply Hb; exact Hc.
    + intros Hc. assert (nobody (code r) = false) as Hc' by (destruct m; exact Hc).
      exists (total (body r)). destruct m; cbn; apply Hb; exact Hc'.
  - intros Hst Hm n Hc. destruct m; try (exfalso; apply Hm; reflexivity); cbn in *.
    + destruct (Hs Hst) as [Hi | Hi]; rewrite Hi in Hc; [discriminate Hc | inversion Hc; reflexivity].
    + destruct (Hs Hst) as [Hi | Hi]; rewrite Hi in Hc; [discriminate Hc | inversion Hc; reflexivity].
  - intros Hm. subst m. reflexivity.
Qed.

Lemma preinv_resp0 st : PreInv (resp0 st).
Proof. left. split; reflexivity. Qed.

Lemma all_compositions e cache m bh bf h r0 :
  cache_ok cache -> Forall bh_hook_ok bh -> Forall hook_ok bf -> handler_exact e cache m h ->
  PreInv r0 ->
  framing_ok m (run_request cache m e bh h bf r0).
Proof.
  intros Hc Hbh Hbf Hh Hp. unfold run_request. apply final_framing.
  eapply run_final; eauto.
Qed.

(* ---------- the hooks of a request, sorted ---------- *)

Lemma In_insert_hook x h l : In x (insert_hook h l) -> x = h \/ In x l.
Proof.
  induction l as [|y l IH]; cbn [insert_hook]; intros H.
  - destruct H as [H | []]; left; symmetry; exact H.
  - destruct (_ <? _).
    + destruct H as [H | H]; [left; symmetry; exact H | right; exact H].
    + destruct H as [H | H]; [right; left; exact H|].
      destruct (IH H) as [H1 | H1]; [left; exact H1 | right; right; exact H1].
Qed.

Lemma In_fold_insert x l : forall acc,
  In x (fold_left (fun acc h => insert_hook h acc) l acc) -> In x l \/ In x acc.
Proof.
  induction l as [|y l IH]; intros acc H; cbn [fold_left] in H.
  - right; exact H.
  - destruct (IH _ H) as [H1 | H1].
    + left; right; exact H1.
    + destruct (In_insert_hook _ _ _ H1) as [H2 | H2]; [left; left; symmetry; exact H2 | right; exact H2].
Qed.

Lemma Forall_hooks_at (P : hook -> Prop) p l : Forall P l -> Forall P (hooks_at p l).
Proof.
  intros H. rewrite Forall_forall in *. intros x Hx. unfold hooks_at, sort_hooks in Hx.
  destruct (In_fold_insert _ _ _ Hx) as [H1 | []].
  apply filter_In in H1. apply H. exact (proj1 H1).
Qed.

(* ---------- c06_head ---------- *)

Lemma apply_tx_meth e cache t : forall r, apply_tx e cache GET t r = apply_tx e cache HEAD t r.
Proof.
  induction t; intros r; cbn [apply_tx]; try reflexivity.
  destruct (a_cached (aux r)); [reflexivity | apply IHt].
Qed.

Lemma run_txs_meth e cache ts : forall r, run_txs e cache GET ts r = run_txs e cache HEAD ts r.
Proof.
  induction ts as [|t ts IH]; intros r; cbn [run_txs]; [reflexivity|].
  rewrite apply_tx_meth. destruct (apply_tx e cache HEAD t r) as [r1 ex]. destruct ex; try reflexivity. apply IH.
Qed.

Lemma run_hook_meth e cache s h r : run_hook e cache GET s h r = run_hook e cache HEAD s h r.
Proof. unfold run_hook. rewrite run_txs_meth. reflexivity. Qed.

Lemma run_hooks_meth e cache s hs : forall r, run_hooks e cache GET s hs r = run_hooks e cache HEAD s hs r.
Proof.
  induction hs as [|h hs IH]; intros r; cbn [run_hooks]; [reflexivity|].
  rewrite run_hook_meth. destruct (run_hook e cache HEAD s h r) as [r1 ex]. destruct ex; try reflexivity. apply IH.
Qed.

Lemma respond_meth e cache bh h bf r :
  respond cache GET e bh h bf r = respond cache HEAD e bh h bf r.
Proof.
  unfold respond, do_respond.
  rewrite !run_hooks_meth.
  destruct (run_hooks e cache HEAD false bh r) as [r1 ex1]. rewrite !run_hook_meth.
  destruct ex1; try reflexivity.
  - destruct (if a_skip (aux r1) then (r1, ENone) else run_hook e cache HEAD false h r1) as [r2 ex2].
    destruct ex2; try reflexivity.
    + rewrite run_hooks_meth. destruct (run_hooks e cache HEAD false bf r2) as [r3 ex3].
      destruct ex3; try reflexivity.
      * destruct (finalize r3) as [r4 ex4]. destruct ex4; try reflexivity.
        -- destruct (set_error e c r4) as [r5 ex5]. destruct ex5; try reflexivity. now rewrite run_hooks_meth.
        -- destruct (set_redirect e c r4) as [r5 ex5]. destruct ex5; try reflexivity. now rewrite run_hooks_meth.
      * destruct (set_error e c r3) as [r5 ex5]. destruct ex5; try reflexivity. now rewrite run_hooks_meth.
      * destruct (set_redirect e c r3) as [r5 ex5]. destruct ex5; try reflexivity. now rewrite run_hooks_meth.
    + destruct (set_error e c r2) as [r5 ex5]. destruct ex5; try reflexivity. now rewrite run_hooks_meth.
    + destruct (set_redirect e c r2) as [r5 ex5]. destruct ex5; try reflexivity. now rewrite run_hooks_meth.
  - destruct (set_error e c r1) as [r5 ex5]. destruct ex5; try reflexivity. now rewrite run_hooks_meth.
  - destruct (set_redirect e c r1) as [r5 ex5]. destruct ex5; try reflexivity. now rewrite run_hooks_meth.
Qed.

Lemma head_like_get e cache bh h bf r0 :
  let g := run_request cache GET e bh h bf r0 in
  let hd := run_request cache HEAD e bh h bf r0 in
  code hd = code g /\ cl hd = cl g /\ stream hd = stream g /\ total (body hd) = 0.
Proof.
  cbv zeta. unfold run_request. rewrite respond_meth.
  destruct (respond cache HEAD e bh h bf r0) as [r ex].
  destruct ex; cbn; repeat split; reflexivity.
Qed.

(* ---------- c06_stream: where a streamed response's Content-Length comes from ---------- *)

(** transformers that can put a Content-Length on the response *)
Fixpoint sets_cl (t : tx) : bool :=
  match t with
  | RewriteSetExact _ _ | Handled _ | SetExact | SetCL _ | SetError _ | CacheGet _ => true
  | UnlessCached t' => sets_cl t'
  | _ => false
  end.

Lemma apply_tx_nocl e cache m t : forall r r' ex0,
  sets_cl t = false -> cl r = None -> apply_tx e cache m t r = (r', ex0) -> cl r' = None.
Proof.
  induction t; intros r r' ex0 Hs Hn H; cbn [apply_tx sets_cl] in *; try discriminate Hs;
    try (inversion H; subst; cbn; assumption); try (inversion H; subst; reflexivity).
  - destruct (joinable r); inversion H; subst; cbn; assumption.
  - destruct (a_cached (aux r)); [inversion H; subst; assumption | eapply IHt; eauto].
  - destruct (_ && _); inversion H; subst; assumption.
  - destruct (a_tee_attached (aux r)); inversion H; subst; cbn; assumption.
Qed.

Lemma run_txs_nocl e cache m ts : forall r r' ex,
  forallb (fun t => negb (sets_cl t)) ts = true -> cl r = None ->
  run_txs e cache m ts r = (r', ex) -> cl r' = None.
Proof.
  induction ts as [|t ts IH]; intros r r' ex Hf Hn H; cbn [run_txs forallb] in *.
  - inversion H; subst; exact Hn.
  - apply andb_true_iff in Hf as [Ht Hf]. apply negb_true_iff in Ht.
    destruct (apply_tx e cache m t r) as [r1 ex1] eqn:E.
    pose proof (apply_tx_nocl _ _ _ _ _ _ _ Ht Hn E) as Hn1.
    destruct ex1; try (inversion H; subst; exact Hn1).
    eapply IH; eauto.
Qed.

Definition hook_nocl (h : hook) : bool := forallb (fun t => negb (sets_cl t)) (h_tx h).

Lemma run_hooks_nocl e cache m hs : forall r r' ex,
  forallb hook_nocl hs = true -> cl r = None ->
  run_hooks e cache m false hs r = (r', ex) -> cl r' = None.
Proof.
  induction hs as [|h hs IH]; intros r r' ex Hf Hn H; cbn [run_hooks forallb] in *.
  - inversion H; subst; exact Hn.
  - apply andb_true_iff in Hf as [Ht Hf].
    destruct (run_hook e cache m false h r) as [r1 ex1] eqn:E.
    assert (cl r1 = None) as Hn1.
    { unfold run_hook in E. destruct (run_txs e cache m (h_tx h) r) as [r2 ex2] eqn:E2.
      pose proof (run_txs_nocl _ _ _ _ _ _ _ Ht Hn E2) as Hn2.
      destruct ex2; inversion E; subst; exact Hn2. }
    destruct ex1; try (inversion H; subst; exact Hn1).
    eapply IH; eauto.
Qed.

Lemma stream_no_setter e cache m bh h bf r r' :
  forallb hook_nocl bh = true -> hook_nocl h = true -> forallb hook_nocl bf = true ->
  cl r = None ->
  do_respond e cache m bh h bf r = (r', ENone) -> stream r' = true -> cl r' = None.
Proof.
  intros Hbh Hh Hbf Hn H Hst. unfold do_respond in H.
  destruct (run_hooks e cache m false bh r) as [r1 ex1] eqn:E1.
  pose proof (run_hooks_nocl _ _ _ _ _ _ _ Hbh Hn E1) as Hn1.
  destruct ex1; try discriminate H.
  destruct (if a_skip (aux r1) then (r1, ENone) else run_hook e cache m false h r1) as [r2 ex2] eqn:E2.
  assert (cl r2 = None) as Hn2.
  { destruct (a_skip (aux r1)); [inversion E2; subst; exact Hn1|].
    assert (forallb hook_nocl [h] = true) as Hh' by (cbn; rewrite Hh; reflexivity).
    assert (run_hooks e cache m false [h] r1 = (r2, ex2)) as E2'.
    { cbn [run_hooks]. rewrite E2. destruct ex2; reflexivity. }
    eapply run_hooks_nocl; eauto. }
  destruct ex2; try discriminate H.
  destruct (run_hooks e cache m false bf r2) as [r3 ex3] eqn:E3.
  pose proof (run_hooks_nocl _ _ _ _ _ _ _ Hbf Hn2 E3) as Hn3.
  destruct ex3; try discriminate H.
  unfold finalize in H. destruct (stream r3) eqn:Es.
  - inversion H; subst. exact Hn3.
  - destruct (nobody (code r3)).
    + destruct (a_bad (aux r3) =? 3); [discriminate H|].
      destruct (a_teed (aux r3) && negb (joinable r3)); [discriminate H|].
      inversion H; subst. reflexivity.
    + rewrite Hn3 in H. destruct (joinable r3); [|discriminate H].
      inversion H; subst. cbn in Hst. rewrite Es in Hst. discriminate Hst.
Qed.

(* ---------- G: the checker of the tool_effects table is sound ---------- *)

Lemma checker_sound (tbl : list effect_row) :
  forallb rewrites_body_implies_resets_length tbl = true ->
  forall row, In row tbl ->
  exists k, kind_of_row row = Some k /\
    forall f e cache m r r',
      (k = KPreserving -> forall b, total (f b) = total b) -> cache_ok cache -> Inv r ->
      apply_tx e cache m (tx_of_kind k f) r = (r', ENone) -> Inv r'.
Proof.
  intros H row Hin. rewrite forallb_forall in H. specialize (H row Hin).
  unfold rewrites_body_implies_resets_length in H.
  destruct (kind_of_row row) as [k|] eqn:E; [|discriminate H].
  exists k. split; [reflexivity|].
  intros f e cache m r r' Hp Hc Hi Ha.
  eapply apply_tx_inv; eauto.
  destruct k; cbn; auto.
Qed.
