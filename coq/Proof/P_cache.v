(** Lemmas about the primitives of Model/M_cache.v: string equality and order,
    insertion sort, association lists, and the store invariant preserved by
    every cache operation. *)
From Coq Require Import ZArith List Bool Lia Permutation.
From CV Require Import Lib.Sx Lib.ListZ LibP.ListZ_facts Model.M_cache.
Import ListNotations.
Open Scope Z_scope.

(* ---------- equality tests ---------- *)

Lemma eqbZs_true_iff : forall a b, eqbZs a b = true <-> a = b.
Proof.
  unfold eqbZs. induction a as [|x a IH]; destruct b as [|y b]; split; intro H;
    try reflexivity; try discriminate.
  - apply andb_true_iff in H. destruct H as [H1 H2]. apply Z.eqb_eq in H1.
    apply IH in H2. congruence.
  - inversion H; subst. apply andb_true_iff. split; [apply Z.eqb_refl | apply IH; reflexivity].
Qed.

Lemma eqbZs_refl : forall a, eqbZs a a = true.
Proof. intro a. apply eqbZs_true_iff. reflexivity. Qed.

Lemma eqbZs_false_iff : forall a b, eqbZs a b = false <-> a <> b.
Proof.
  intros a b. split; intro H.
  - intro E. apply eqbZs_true_iff in E. congruence.
  - destruct (eqbZs a b) eqn:E; [apply eqbZs_true_iff in E; contradiction | reflexivity].
Qed.

Lemma eqb_key_true_iff : forall a b, eqb_key a b = true <-> a = b.
Proof.
  induction a as [|x a IH]; destruct b as [|y b]; split; intro H;
    try reflexivity; try discriminate.
  - cbn in H. apply andb_true_iff in H. destruct H as [H1 H2].
    apply eqbZs_true_iff in H1. apply IH in H2. congruence.
  - inversion H; subst. cbn. apply andb_true_iff. split; [apply eqbZs_refl | apply IH; reflexivity].
Qed.

Lemma mem_true_iff : forall x l, mem x l = true <-> In x l.
Proof.
  induction l as [|y l IH]; cbn; split; intro H; try discriminate; try contradiction.
  - apply orb_true_iff in H. destruct H as [H|H].
    + left. apply eqbZs_true_iff in H. congruence.
    + right. apply IH. exact H.
  - apply orb_true_iff. destruct H as [H|H].
    + left. subst. apply eqbZs_refl.
    + right. apply IH. exact H.
Qed.

(* ---------- string order and insertion sort ---------- *)

Lemma str_ltb_irrefl : forall a, str_ltb a a = false.
Proof.
  induction a as [|x a IH]; cbn; [reflexivity|].
  rewrite Z.ltb_irrefl. exact IH.
Qed.

Lemma str_ltb_trans : forall a b d, str_ltb a b = true -> str_ltb b d = true -> str_ltb a d = true.
Proof.
  induction a as [|x a IH]; intros b d H1 H2.
  - destruct b; [discriminate|]. destruct d; [discriminate|]. reflexivity.
  - destruct b as [|y b]; [discriminate|]. destruct d as [|z d]; [discriminate|].
    cbn in *.
    destruct (x <? y) eqn:Exy; destruct (y <? z) eqn:Eyz;
      repeat match goal with
             | H : (_ <? _) = true |- _ => apply Z.ltb_lt in H
             | H : (_ <? _) = false |- _ => apply Z.ltb_ge in H
             end.
    + replace (x <? z) with true by (symmetry; apply Z.ltb_lt; lia). reflexivity.
    + destruct (z <? y) eqn:Ezy; [discriminate|]. apply Z.ltb_ge in Ezy.
      replace (x <? z) with true by (symmetry; apply Z.ltb_lt; lia). reflexivity.
    + destruct (y <? x) eqn:Eyx; [discriminate|]. apply Z.ltb_ge in Eyx.
      replace (x <? z) with true by (symmetry; apply Z.ltb_lt; lia). reflexivity.
    + destruct (y <? x) eqn:Eyx; [discriminate|]. apply Z.ltb_ge in Eyx.
      destruct (z <? y) eqn:Ezy; [discriminate|]. apply Z.ltb_ge in Ezy.
      assert (x = y) by lia. assert (y = z) by lia. subst.
      rewrite Z.ltb_irrefl. eapply IH; eassumption.
Qed.

(** totality: not (a < b) and not (b < a) only for equal strings *)
Lemma str_ltb_total : forall a b, str_ltb a b = false -> str_ltb b a = false -> a = b.
Proof.
  induction a as [|x a IH]; destruct b as [|y b]; cbn; intros H1 H2;
    try reflexivity; try discriminate.
  destruct (x <? y) eqn:Exy; [discriminate|].
  destruct (y <? x) eqn:Eyx; [discriminate|].
  apply Z.ltb_ge in Exy. apply Z.ltb_ge in Eyx. assert (x = y) by lia. subst.
  f_equal. apply IH; assumption.
Qed.

Lemma insert_perm : forall x l, Permutation (x :: l) (insert x l).
Proof.
  induction l as [|y l IH]; cbn; [apply Permutation_refl|].
  destruct (str_ltb x y); [apply Permutation_refl|].
  eapply Permutation_trans; [apply perm_swap|]. apply perm_skip. exact IH.
Qed.

Lemma sort_asc_perm : forall l, Permutation l (sort_asc l).
Proof.
  induction l as [|x l IH]; cbn; [constructor|].
  eapply Permutation_trans; [apply perm_skip; exact IH|]. apply insert_perm.
Qed.

Lemma sort_desc_In : forall x l, In x (sort_desc l) <-> In x l.
Proof.
  intros x l. unfold sort_desc. rewrite <- in_rev. split; intro H.
  - eapply Permutation_in; [apply Permutation_sym; apply sort_asc_perm | exact H].
  - eapply Permutation_in; [apply sort_asc_perm | exact H].
Qed.

Inductive sorted_asc : list str -> Prop :=
| sa_nil : sorted_asc []
| sa_cons : forall x l, (forall y, In y l -> str_ltb y x = false) -> sorted_asc l -> sorted_asc (x :: l).

Lemma insert_sorted : forall x l, sorted_asc l -> sorted_asc (insert x l).
Proof.
  induction l as [|y l IH]; intro H; cbn.
  - constructor; [intros y []|constructor].
  - inversion H as [|y' l' Hy Hl]; subst.
    destruct (str_ltb x y) eqn:E.
    + constructor; [|exact H]. intros z [Hz|Hz].
      * subst z. destruct (str_ltb y x) eqn:E2; [|reflexivity].
        pose proof (str_ltb_trans _ _ _ E E2) as T. rewrite str_ltb_irrefl in T. discriminate.
      * destruct (str_ltb z x) eqn:E2; [|reflexivity].
        pose proof (str_ltb_trans _ _ _ E2 E) as T. rewrite (Hy z Hz) in T. discriminate.
    + constructor; [|apply IH; exact Hl]. intros z Hz.
      apply (Permutation_in _ (Permutation_sym (insert_perm x l))) in Hz.
      destruct Hz as [Hz|Hz]; [subst z; exact E | apply Hy; exact Hz].
Qed.

Lemma sort_asc_sorted : forall l, sorted_asc (sort_asc l).
Proof. induction l; cbn; [constructor | apply insert_sorted; assumption]. Qed.

(** descending view of the reversed list: whatever precedes [x] is not smaller *)
Lemma sorted_rev_split : forall l pre x post,
  sorted_asc l -> rev l = pre ++ x :: post -> forall y, In y pre -> str_ltb y x = false.
Proof.
  induction l as [|a l IH]; intros pre x post Hs Hr y Hy.
  - destruct pre; discriminate.
  - inversion Hs as [|a' l' Ha Hl]; subst. cbn in Hr.
    (* rev l ++ [a] = pre ++ x :: post *)
    destruct post as [|z post' _] using rev_ind.
    + apply app_inj_tail in Hr. destruct Hr as [Hr Hx]. subst x pre.
      apply in_rev in Hy. apply Ha in Hy.
      (* y >= a is needed: not (y < a) *) exact Hy.
    + rewrite app_comm_cons, app_assoc in Hr.
      apply app_inj_tail in Hr. destruct Hr as [Hr _].
      eapply IH; eassumption.
Qed.

(* ---------- association lists ---------- *)

Section AssocFacts.
  Context {K V : Type} (eqb : K -> K -> bool).
  Hypothesis eqb_ok : forall a b, eqb a b = true <-> a = b.

  Lemma eqb_refl' : forall a, eqb a a = true.
  Proof. intro a. apply eqb_ok. reflexivity. Qed.

  Lemma aget_In : forall k (l : list (K * V)) v, aget eqb k l = Some v -> In (k, v) l.
  Proof.
    induction l as [|[k' v'] l IH]; cbn; intros v H; [discriminate|].
    destruct (eqb k k') eqn:E.
    - apply eqb_ok in E. inversion H; subst. left. reflexivity.
    - right. apply IH. exact H.
  Qed.

  Lemma In_aset : forall k v (l : list (K * V)) a b,
    In (a, b) (aset eqb k v l) -> (a = k /\ b = v) \/ In (a, b) l.
  Proof.
    induction l as [|[k' v'] l IH]; cbn; intros a b H.
    - destruct H as [H|[]]. inversion H; subst. left. split; reflexivity.
    - destruct (eqb k k') eqn:E.
      + apply eqb_ok in E. subst k'. destruct H as [H|H].
        * inversion H; subst. left. split; reflexivity.
        * right. right. exact H.
      + destruct H as [H|H]; [right; left; exact H|].
        apply IH in H. destruct H as [H|H]; [left; exact H | right; right; exact H].
  Qed.

  Lemma In_adel : forall k (l : list (K * V)) x, In x (adel eqb k l) -> In x l.
  Proof.
    induction l as [|[k' v'] l IH]; cbn; intros x H; [contradiction|].
    destruct (eqb k k'); [right; apply IH; exact H|].
    destruct H as [H|H]; [left; exact H | right; apply IH; exact H].
  Qed.

  Lemma aget_adel_same : forall k (l : list (K * V)), aget eqb k (adel eqb k l) = None.
  Proof.
    induction l as [|[k' v'] l IH]; cbn; [reflexivity|].
    destruct (eqb k k') eqn:E; [exact IH|]. cbn. rewrite E. exact IH.
  Qed.

  Lemma aget_adel_other : forall k k' (l : list (K * V)), k <> k' ->
    aget eqb k' (adel eqb k l) = aget eqb k' l.
  Proof.
    induction l as [|[k2 v2] l IH]; cbn; intro N; [reflexivity|].
    destruct (eqb k k2) eqn:E.
    - apply eqb_ok in E. subst k2.
      destruct (eqb k' k) eqn:E2; [apply eqb_ok in E2; congruence|]. apply IH. exact N.
    - cbn. destruct (eqb k' k2); [reflexivity | apply IH; exact N].
  Qed.

  Lemma aget_aset_other : forall k k' v (l : list (K * V)), k <> k' ->
    aget eqb k' (aset eqb k v l) = aget eqb k' l.
  Proof.
    induction l as [|[k2 v2] l IH]; cbn; intro N.
    - destruct (eqb k' k) eqn:E; [apply eqb_ok in E; congruence | reflexivity].
    - destruct (eqb k k2) eqn:E.
      + apply eqb_ok in E. subst k2. cbn.
        destruct (eqb k' k) eqn:E2; [apply eqb_ok in E2; congruence | reflexivity].
      + cbn. destruct (eqb k' k2); [reflexivity | apply IH; exact N].
  Qed.

  Lemma aget_aset_same : forall k v (l : list (K * V)), aget eqb k (aset eqb k v l) = Some v.
  Proof.
    induction l as [|[k2 v2] l IH]; cbn.
    - rewrite eqb_refl'. reflexivity.
    - destruct (eqb k k2) eqn:E; cbn; rewrite E; [reflexivity | exact IH].
  Qed.
End AssocFacts.

(* ---------- the store invariant ---------- *)

Section Invariant.
  Variable V : str -> list str.     (* the (constant) Vary list of every URI *)
  Variable c : cfg.

  (** variant [v] stored under key [k] of URI [u] was produced by a logged handler call *)
  Definition produced (log : list call) (u : str) (sel : list str) (k : key) (v : variant) : Prop :=
    exists cl, In cl log /\ k_gen cl = v_gen v /\ k_time cl = v_created v
      /\ r_uri (k_req cl) = u
      /\ p_status (r_plan (k_req cl)) = v_status v
      /\ p_size (r_plan (k_req cl)) = v_size v
      /\ k = mkkey c (r_hdrs (k_req cl)) sel
      /\ mem s_no_store (r_cc (k_req cl)) = false
      /\ mem s_no_store (p_rcc (r_plan (k_req cl))) = false
      /\ is_invalidating (r_meth (k_req cl)) = false.

  Definition store_ok (store : list (str * ucache)) (log : list call) (now : Z) : Prop :=
    forall u uc, In (u, uc) store ->
      uc_sel uc = sort_desc (V u) /\
      forall k v, In (k, SVar v) (uc_ents uc) -> produced log u (uc_sel uc) k v /\ v_created v <= now.

  Record Inv (s : st) : Prop := {
    inv_store : store_ok (s_store s) (s_log s) (s_now s);
    inv_vary : forall cl, In cl (s_log s) -> p_vary (r_plan (k_req cl)) = V (r_uri (k_req cl));
    inv_gen : forall cl, In cl (s_log s) -> k_gen cl <= s_gen s;
    inv_uniq : forall a b, In a (s_log s) -> In b (s_log s) -> k_gen a = k_gen b -> a = b;
  }.

  Lemma Inv_init : Inv init.
  Proof.
    constructor; cbn; try (intros; contradiction).
    intros u uc [].
  Qed.

  Lemma produced_mono : forall log log' u sel k v,
    (forall x, In x log -> In x log') -> produced log u sel k v -> produced log' u sel k v.
  Proof.
    intros log log' u sel k v Hsub [cl [Hin H]]. exists cl. split; [apply Hsub; exact Hin | exact H].
  Qed.

  Lemma store_ok_mono : forall store log log' now now',
    (forall x, In x log -> In x log') -> now <= now' ->
    store_ok store log now -> store_ok store log' now'.
  Proof.
    intros store log log' now now' Hsub Hle H u uc Hin.
    destruct (H u uc Hin) as [Hs He]. split; [exact Hs|].
    intros k v Hk. destruct (He k v Hk) as [Hp Ht]. split; [|lia].
    eapply produced_mono; eassumption.
  Qed.

  Lemma store_ok_adel : forall store log now u,
    store_ok store log now -> store_ok (adel eqbZs u store) log now.
  Proof. intros store log now u H u' uc Hin. apply H. eapply In_adel; exact Hin. Qed.

  (** replacing the entries of an existing URI by a sub-collection + Event placeholders *)
  Lemma store_ok_aset : forall store log now u sel ents,
    store_ok store log now ->
    sel = sort_desc (V u) ->
    (forall k v, In (k, SVar v) ents -> produced log u sel k v /\ v_created v <= now) ->
    store_ok (aset eqbZs u (UC sel ents) store) log now.
  Proof.
    intros store log now u sel ents H Hs He u' uc Hin.
    apply (In_aset eqbZs eqbZs_true_iff) in Hin. destruct Hin as [[Hu Huc]|Hin].
    - subst u' uc. cbn. split; [exact Hs | exact He].
    - apply H. exact Hin.
  Qed.

  Lemma Inv_tick : forall n s, Inv s -> Inv (tick n s).
  Proof.
    intros n s [H1 H2 H3 H4]. constructor; cbn; try assumption.
    eapply store_ok_mono; [| |exact H1]; [auto | lia].
  Qed.

  Lemma Inv_set_store : forall s store,
    Inv s -> store_ok store (s_log s) (s_now s) -> Inv (set_store store s).
  Proof. intros s store [H1 H2 H3 H4] H. constructor; cbn; assumption. Qed.

  Lemma Inv_delete : forall u s, Inv s -> Inv (cache_delete u s).
  Proof.
    intros u s H. unfold cache_delete. apply Inv_set_store; [exact H|].
    apply store_ok_adel. apply (inv_store _ H).
  Qed.

  Lemma Inv_cache_get : forall r s s' ov, Inv s -> cache_get c r s = (s', ov) -> Inv s'.
  Proof.
    intros r s s' ov H G. unfold cache_get in G.
    destruct (aget eqbZs (r_uri r) (s_store s)) as [uc|] eqn:E; [|inversion G; subst; exact H].
    destruct (aget eqb_key (mkkey c (r_hdrs r) (uc_sel uc)) (uc_ents uc)) as [[|v]|] eqn:E2;
      try (inversion G; subst; exact H).
    inversion G; subst. apply Inv_set_store; [exact H|].
    apply (aget_In eqbZs eqbZs_true_iff) in E.
    destruct (inv_store _ H _ _ E) as [Hs He].
    apply store_ok_aset; [apply (inv_store _ H) | exact Hs |].
    intros k v Hin. apply (In_aset eqb_key eqb_key_true_iff) in Hin.
    destruct Hin as [[_ Hv]|Hin]; [discriminate | apply He; exact Hin].
  Qed.

  (** the expiry sweep only removes entries *)
  Lemma store_ok_expire_obj : forall log now o store cur store' cur',
    store_ok store log now -> expire_obj o (store, cur) = (store', cur') -> store_ok store' log now.
  Proof.
    intros log now [[size uri] k] store cur store' cur' H E. cbn in E.
    destruct (aget eqbZs uri store) as [uc|] eqn:E1; [|inversion E; subst; exact H].
    destruct (aget eqb_key k (uc_ents uc)) eqn:E2; [|inversion E; subst; exact H].
    inversion E; subst.
    apply (aget_In eqbZs eqbZs_true_iff) in E1. destruct (H _ _ E1) as [Hs He].
    apply store_ok_aset; [exact H | exact Hs |].
    intros k' v Hin. apply He. eapply In_adel; exact Hin.
  Qed.

  Lemma store_ok_expire_objs : forall log now os store cur store' cur',
    store_ok store log now -> expire_objs os (store, cur) = (store', cur') -> store_ok store' log now.
  Proof.
    induction os as [|o os IH]; intros store cur store' cur' H E; cbn in E.
    - inversion E; subst. exact H.
    - destruct (expire_obj o (store, cur)) as [st1 c1] eqn:E1.
      eapply IH; [|exact E]. eapply store_ok_expire_obj; eassumption.
  Qed.

  Lemma store_ok_sweep_buckets : forall log now t e store cur e' store' cur',
    store_ok store log now -> sweep_buckets t e (store, cur) = (e', (store', cur')) ->
    store_ok store' log now.
  Proof.
    induction e as [|[t' b] e IH]; intros store cur e' store' cur' H E; cbn in E.
    - inversion E; subst. exact H.
    - destruct (t' <=? t).
      + destruct (expire_objs b (store, cur)) as [st1 c1] eqn:E1.
        eapply IH; [|exact E]. eapply store_ok_expire_objs; eassumption.
      + destruct (sweep_buckets t e (store, cur)) as [e1 [st1 c1]] eqn:E1.
        inversion E; subst. eapply IH; [exact H | exact E1].
  Qed.

  Lemma Inv_sweep : forall s, Inv s -> Inv (sweep s).
  Proof.
    intros s H. unfold sweep.
    destruct (sweep_buckets (s_now s) (s_exp s) (s_store s, s_cursize s)) as [e1 [st1 c1]] eqn:E.
    destruct H as [H1 H2 H3 H4]. constructor; cbn; try assumption.
    eapply store_ok_sweep_buckets; eassumption.
  Qed.

  Lemma Inv_handler : forall r s s' g,
    Inv s -> p_vary (r_plan r) = V (r_uri r) -> handler r s = (s', g) ->
    Inv s' /\ g = s_gen s + 1 /\ s_store s' = s_store s /\ s_now s' = s_now s
    /\ s_log s' = Call g (s_now s) r :: s_log s.
  Proof.
    intros r s s' g [H1 H2 H3 H4] Hv E. unfold handler in E. inversion E; subst. clear E.
    cbn. split; [|split; [reflexivity|split; [reflexivity|split; reflexivity]]].
    constructor; cbn.
    - eapply store_ok_mono; [| |exact H1]; [intros x Hx; right; exact Hx | lia].
    - intros cl [Hc|Hc]; [subst cl; cbn; exact Hv | apply H2; exact Hc].
    - intros cl [Hc|Hc]; [subst cl; cbn; lia | specialize (H3 _ Hc); lia].
    - intros a b [Ha|Ha] [Hb|Hb] Hg.
      + congruence.
      + subst a. cbn in Hg. specialize (H3 _ Hb). lia.
      + subst b. cbn in Hg. specialize (H3 _ Ha). lia.
      + apply H4; assumption.
  Qed.

  (** MemoryCache.put of the response a logged handler call has just produced *)
  Lemma Inv_put : forall r g s,
    Inv s -> In (Call g (s_now s) r) (s_log s) ->
    p_vary (r_plan r) = V (r_uri r) ->
    mem s_no_store (r_cc r) = false -> mem s_no_store (p_rcc (r_plan r)) = false ->
    is_invalidating (r_meth r) = false ->
    Inv (cache_put c r (Var (p_status (r_plan r)) g (p_size (r_plan r)) (s_now s) (p_lastmod (r_plan r)))
                   (p_size (r_plan r)) s).
  Proof.
    intros r g s H Hlog Hv Hn1 Hn2 Hm. unfold cache_put.
    set (v := Var (p_status (r_plan r)) g (p_size (r_plan r)) (s_now s) (p_lastmod (r_plan r))).
    assert (Hprod : forall sel, produced (s_log s) (r_uri r) sel (mkkey c (r_hdrs r) sel) v).
    { intro sel. exists (Call g (s_now s) r). cbn. repeat split; try assumption; reflexivity. }
    destruct (aget eqbZs (r_uri r) (s_store s)) as [uc|] eqn:E.
    - (* the URI is known *)
      apply (aget_In eqbZs eqbZs_true_iff) in E. destruct (inv_store _ H _ _ E) as [Hs He].
      cbv beta iota zeta.
      match goal with |- context [if ?b then _ else _] => destruct b end; [|apply Inv_set_store; [exact H | apply (inv_store _ H)]].
      match goal with |- context [if ?b then _ else _] => destruct b end;
        [|apply Inv_set_store; [exact H | apply (inv_store _ H)]].
      destruct H as [H1 H2 H3 H4]. constructor; cbn; try assumption.
      apply store_ok_aset; [exact H1 | exact Hs |].
      intros k v' Hin. apply (In_aset eqb_key eqb_key_true_iff) in Hin.
      destruct Hin as [[Hk Hv']|Hin]; [|apply He; exact Hin].
      inversion Hv'; subst k v'. split; [apply Hprod | cbn; lia].
    - (* first put for this URI: a new uricache with the response's Vary *)
      set (uc := UC (sort_desc (p_vary (r_plan r))) []).
      assert (Hst1 : store_ok (aset eqbZs (r_uri r) uc (s_store s)) (s_log s) (s_now s)).
      { apply store_ok_aset; [apply (inv_store _ H) | rewrite Hv; reflexivity |].
        intros k v' []. }
      cbv beta iota zeta. fold uc.
      match goal with |- context [if ?b then _ else _] => destruct b end;
        [|apply Inv_set_store; [exact H | exact Hst1]].
      match goal with |- context [if ?b then _ else _] => destruct b end;
        [|apply Inv_set_store; [exact H | exact Hst1]].
      destruct H as [H1 H2 H3 H4]. constructor; cbn; try assumption.
      apply store_ok_aset; [exact Hst1 | rewrite Hv; reflexivity |].
      intros k v' Hin. cbn in Hin. destruct Hin as [Hin|[]].
      inversion Hin; subst k v'. split; [apply Hprod | cbn; lia].
  Qed.

  Lemma Inv_tee : forall r g s,
    Inv s -> In (Call g (s_now s) r) (s_log s) ->
    p_vary (r_plan r) = V (r_uri r) -> is_invalidating (r_meth r) = false ->
    Inv (tee c r g s).
  Proof.
    intros r g s H Hlog Hv Hm. unfold tee.
    destruct (mem s_no_store (r_cc r)) eqn:E1; [exact H|].
    destruct (mem s_no_cache (p_rpragma (r_plan r)) || mem s_no_store (p_rcc (r_plan r))) eqn:E2; [exact H|].
    apply orb_false_iff in E2. destruct E2 as [_ E2].
    destruct (p_size (r_plan r) <=? 0); [apply Inv_delete; exact H|].
    apply Inv_put; assumption.
  Qed.

  Lemma Inv_miss : forall r s ou fl s',
    Inv s -> p_vary (r_plan r) = V (r_uri r) -> is_invalidating (r_meth r) = false ->
    miss c r s = (ou, fl, s') -> Inv s' /\ ou = OMiss (s_gen s + 1) /\ fl = false.
  Proof.
    intros r s ou fl s' H Hv Hm E. unfold miss in E.
    destruct (handler r s) as [s1 g] eqn:Eh.
    destruct (Inv_handler _ _ _ _ H Hv Eh) as [H1 [Hg [_ [Hnow Hlog]]]].
    inversion E; subst ou fl s'. split; [|split; [congruence | reflexivity]].
    apply Inv_tee; try assumption. rewrite Hlog, Hnow. left. reflexivity.
  Qed.

  Lemma Inv_do_req : forall r s ou fl s',
    Inv s -> p_vary (r_plan r) = V (r_uri r) -> do_req c r s = (ou, fl, s') -> Inv s'.
  Proof.
    intros r s ou fl s' H Hv E. unfold do_req in E.
    destruct (is_invalidating (r_meth r)) eqn:Em.
    - destruct (handler r (cache_delete (r_uri r) s)) as [s1 g] eqn:Eh. inversion E; subst.
      eapply Inv_handler; [apply Inv_delete; exact H | exact Hv | exact Eh].
    - destruct (mem s_no_cache (r_pragma r)); [eapply Inv_miss; eassumption|].
      destruct (cache_get c r s) as [s1 ov] eqn:Eg.
      pose proof (Inv_cache_get _ _ _ _ H Eg) as H1.
      destruct ov as [v|]; [|eapply Inv_miss; eassumption].
      destruct (cc_scan (sort_desc (r_cc r))).
      + destruct (max_age_of c CCDefault <? age_of c (s_now s1) (v_created v));
          [eapply Inv_miss; eassumption | destruct (validate_since r v); inversion E; subst; exact H1].
      + destruct (max_age_of c (CCMaxAge n) <? age_of c (s_now s1) (v_created v));
          [eapply Inv_miss; eassumption | destruct (validate_since r v); inversion E; subst; exact H1].
      + inversion E; subst; exact H1.
      + eapply Inv_miss; eassumption.
  Qed.

  Definition ops_ok (ops : list op) : Prop :=
    forall r, In (OReq r) ops -> p_vary (r_plan r) = V (r_uri r).

  Lemma Inv_step : forall o s ou s', Inv s -> ops_ok [o] -> step c o s = (ou, s') -> Inv s'.
  Proof.
    intros o s ou s' H Ho E. destruct o as [r|n|]; cbn in E.
    - destruct (do_req c r s) as [[ou1 fl] s1] eqn:Ed. inversion E; subst.
      eapply Inv_do_req; [exact H | apply Ho; left; reflexivity | exact Ed].
    - inversion E; subst. apply Inv_tick. exact H.
    - inversion E; subst. apply Inv_sweep. exact H.
  Qed.

  Lemma Inv_run : forall ops s outs s', Inv s -> ops_ok ops -> run c ops s = (outs, s') -> Inv s'.
  Proof.
    induction ops as [|o ops IH]; intros s outs s' H Ho E; cbn in E.
    - inversion E; subst. exact H.
    - destruct (step c o s) as [ou s1] eqn:Es. destruct (run c ops s1) as [outs1 s2] eqn:Er.
      inversion E; subst. eapply IH; [| |exact Er].
      + eapply Inv_step; [exact H | | exact Es]. intros r [Hr|[]]. apply Ho. left. exact Hr.
      + intros r Hr. apply Ho. right. exact Hr.
  Qed.
End Invariant.
