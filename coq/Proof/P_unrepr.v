(** Lemmas about the unrepr model: evaluating the AST of a literal's repr gives the
    literal back ([canon v]: [v] up to the sign of a zero component of a complex). *)
From Coq Require Import ZArith List Bool Lia.
From CV Require Import Lib.Sx Lib.ListZ Model.M_unrepr.
Import ListNotations.
Open Scope Z_scope.

(* ---------- induction principle for the nested value type ---------- *)

Section ValueInd.
Variable P : value -> Prop.
Hypothesis HNone : P VNone.
Hypothesis HBool : forall b, P (VBool b).
Hypothesis HInt : forall z, P (VInt z).
Hypothesis HFloat : forall f, P (VFloat f).
Hypothesis HComplex : forall r i, P (VComplex r i).
Hypothesis HStr : forall s, P (VStr s).
Hypothesis HBytes : forall s, P (VBytes s).
Hypothesis HList : forall l, Forall P l -> P (VList l).
Hypothesis HTuple : forall l, Forall P l -> P (VTuple l).
Hypothesis HDict : forall d, Forall (fun kv => P (fst kv) /\ P (snd kv)) d -> P (VDict d).
Hypothesis HObj : forall i, P (VObj i).

Fixpoint value_ind' (v : value) : P v :=
  match v with
  | VNone => HNone
  | VBool b => HBool b
  | VInt z => HInt z
  | VFloat f => HFloat f
  | VComplex r i => HComplex r i
  | VStr s => HStr s
  | VBytes s => HBytes s
  | VList l =>
    HList l ((fix go (l : list value) : Forall P l :=
                match l with
                | [] => Forall_nil P
                | x :: r => Forall_cons x (value_ind' x) (go r)
                end) l)
  | VTuple l =>
    HTuple l ((fix go (l : list value) : Forall P l :=
                 match l with
                 | [] => Forall_nil P
                 | x :: r => Forall_cons x (value_ind' x) (go r)
                 end) l)
  | VDict d =>
    HDict d ((fix go (d : list (value * value)) : Forall (fun kv => P (fst kv) /\ P (snd kv)) d :=
                match d with
                | [] => Forall_nil _
                | kv :: r => Forall_cons kv (conj (value_ind' (fst kv)) (value_ind' (snd kv))) (go r)
                end) d)
  | VObj i => HObj i
  end.
End ValueInd.

(* ---------- well-formed literals ---------- *)

(** the magnitude of a real part printed as an integer is below 10^16 *)
Definition mag_ok (m : mag) : bool :=
  match m with MInt n => (0 <=? n) && (n <? ten16) | MTok _ => true end.

Definition fresh (k : value) (acc : list value) : bool := forallb (fun k' => negb (veqb k k')) acc.
Fixpoint distinct_from (acc ks : list value) : bool :=
  match ks with
  | [] => true
  | k :: r => fresh k acc && distinct_from (acc ++ [k]) r
  end.

(** a Python literal as the model represents it: no opaque objects; integral float
    magnitudes in range; dict keys are None / ints / strings / bytes / tuples of such
    (hashable, Python equality = structural equality) and pairwise different *)
Fixpoint wf_lit (v : value) : bool :=
  match v with
  | VFloat f => mag_ok (f_mag f)
  | VComplex re im => mag_ok (f_mag re) && mag_ok (f_mag im)
  | VList l | VTuple l => forallb wf_lit l
  | VDict d =>
    forallb (fun kv => plain_key (fst kv) && wf_lit (snd kv)) d && distinct_from [] (map fst d)
  | VObj _ => false
  | _ => true
  end.

(** the repr contains no binary minus *)
Fixpoint sub_free (v : value) : bool :=
  match v with
  | VComplex re im => (is_zero re && negb (f_neg re)) || negb (f_neg im)
  | VList l | VTuple l => forallb sub_free l
  | VDict d => forallb (fun kv => sub_free (fst kv) && sub_free (snd kv)) d
  | _ => true
  end.

(* ---------- scalars ---------- *)

Lemma fl_eta f : Fl (f_neg f) (f_mag f) = f.
Proof. destruct f; reflexivity. Qed.

Lemma build_int c E z : build c E (to_ast (VInt z)) = Ok (VInt z).
Proof.
  cbn [to_ast]. destruct (z <? 0) eqn:Ez; cbn [signed build build_unop bind v_neg as_num].
  - apply Z.ltb_lt in Ez. f_equal. f_equal. lia.
  - apply Z.ltb_ge in Ez. f_equal. f_equal. lia.
Qed.

Lemma build_float c E f : build c E (to_ast (VFloat f)) = Ok (VFloat f).
Proof.
  cbn [to_ast]. destruct f as [n m]. destruct n; cbn; reflexivity.
Qed.

Lemma float_of_nonneg n : 0 <= n < ten16 -> float_of_Z n = Some (Fl false (MInt n)).
Proof.
  intros H. unfold float_of_Z. rewrite Z.abs_eq by lia.
  destruct (n <? ten16) eqn:E1; [|apply Z.ltb_ge in E1; lia].
  destruct (n <? 0) eqn:E2; [apply Z.ltb_lt in E2; lia|]. reflexivity.
Qed.

Lemma float_of_neg n : 0 < n < ten16 -> float_of_Z (- n) = Some (Fl true (MInt n)).
Proof.
  intros H. unfold float_of_Z. rewrite Z.abs_opp, Z.abs_eq by lia.
  destruct (n <? ten16) eqn:E1; [|apply Z.ltb_ge in E1; lia].
  destruct (- n <? 0) eqn:E2; [|apply Z.ltb_ge in E2; lia]. reflexivity.
Qed.

(** the real operand of a complex repr, as a float *)
Lemma real_operand c E re :
  mag_ok (f_mag re) = true ->
  exists l x, build c E (signed (f_neg re) (mag_ast (f_mag re))) = Ok l
              /\ as_num l = Some x /\ (forall r i, x <> NComplex r i)
              /\ to_float x = Some (if is_zero re then pzero else re).
Proof.
  destruct re as [n [k|t]]; cbn [f_neg f_mag mag_ok mag_ast is_zero]; intros Hok.
  - apply andb_true_iff in Hok. destruct Hok as [H0 H1].
    apply Z.leb_le in H0. apply Z.ltb_lt in H1.
    destruct n; cbn [signed build build_unop bind v_neg as_num].
    + exists (VInt (- k)), (NInt (- k)). split; [reflexivity|]. split; [reflexivity|].
      split; [discriminate|]. cbn [to_float].
      destruct (k =? 0) eqn:Ek.
      * apply Z.eqb_eq in Ek. subst k. reflexivity.
      * apply Z.eqb_neq in Ek. apply float_of_neg. lia.
    + exists (VInt k), (NInt k). split; [reflexivity|]. split; [reflexivity|].
      split; [discriminate|]. cbn [to_float].
      destruct (k =? 0) eqn:Ek.
      * apply Z.eqb_eq in Ek. subst k. reflexivity.
      * apply float_of_nonneg. lia.
  - destruct n; cbn [signed build build_unop bind v_neg as_num].
    + exists (VFloat (Fl true (MTok t))), (NFloat (Fl true (MTok t))).
      repeat split; try reflexivity; discriminate.
    + exists (VFloat (Fl false (MTok t))), (NFloat (Fl false (MTok t))).
      repeat split; try reflexivity; discriminate.
Qed.

Lemma fadd_pzero_r f : f = (if is_zero f then pzero else f) -> fadd f pzero = Some f.
Proof.
  intros H. unfold fadd. destruct (is_zero f) eqn:E.
  - rewrite H. reflexivity.
  - reflexivity.
Qed.

Lemma num_add_complex x f im :
  (forall r i, x <> NComplex r i) -> to_float x = Some f ->
  num_add x (NComplex pzero im)
  = match fadd f pzero, fadd pzero im with
    | Some r, Some i => Ok (VComplex r i)
    | _, _ => Err EUnknown
    end.
Proof.
  intros Hx Hf. destruct x as [z|g|r i]; [| |exfalso; eapply Hx; reflexivity];
    cbn [num_add to_complex]; rewrite Hf; reflexivity.
Qed.

Lemma num_add_complex_neg x f im :
  (forall r i, x <> NComplex r i) -> to_float x = Some f ->
  num_add x (NComplex (fneg pzero) im)
  = match fadd f (fneg pzero), fadd pzero im with
    | Some r, Some i => Ok (VComplex r i)
    | _, _ => Err EUnknown
    end.
Proof.
  intros Hx Hf. destruct x as [z|g|r i]; [| |exfalso; eapply Hx; reflexivity];
    cbn [num_add to_complex]; rewrite Hf; reflexivity.
Qed.

Lemma fadd_pzero_l f : fadd pzero f = Some (unzero f).
Proof. unfold fadd, unzero. change (is_zero pzero) with true. cbn [pzero f_neg andb]. destruct (is_zero f); reflexivity. Qed.

Lemma fadd_unzero_r f z : is_zero z = true -> fadd (unzero f) z = Some (unzero f).
Proof.
  intros Hz. unfold fadd, unzero. destruct (is_zero f) eqn:E.
  - change (is_zero pzero) with true. rewrite Hz. reflexivity.
  - rewrite E, Hz. reflexivity.
Qed.

Lemma build_complex c E re im :
  mag_ok (f_mag re) = true ->
  c_sub c = true \/ sub_free (VComplex re im) = true ->
  build c E (to_ast (VComplex re im)) = Ok (canon (VComplex re im)).
Proof.
  intros Hre Hsub. cbn [to_ast canon].
  destruct (is_zero re && negb (f_neg re)) eqn:Ez.
  - (* 2j / -2j *)
    apply andb_true_iff in Ez. destruct Ez as [Hz Hn].
    destruct re as [rn rm]. cbn [f_neg] in Hn. destruct rn; [discriminate|].
    unfold is_zero in Hz. cbn [f_mag] in Hz. destruct rm as [k|t]; [|discriminate].
    apply Z.eqb_eq in Hz. subst k.
    destruct im as [n m]. cbn [f_neg]. unfold imag_const, fabs. cbn [f_mag].
    destruct n; cbn [signed build build_unop bind v_neg as_num]; reflexivity.
  - destruct (real_operand c E re Hre) as (l & x & Hl & Hx & Hnc & Hf).
    change (if is_zero re then pzero else re) with (unzero re) in Hf.
    unfold imag_const.
    destruct im as [n m]. cbn [f_neg]. unfold fabs. cbn [f_mag].
    destruct n.
    + (* a - bj *)
      assert (Hs : c_sub c = true).
      { destruct Hsub as [H|H]; [exact H|]. cbn [sub_free] in H. rewrite Ez in H. discriminate. }
      cbn [build]. rewrite Hl. cbn [bind build_binop]. rewrite Hs. cbn [bind].
      unfold v_sub. rewrite Hx. cbn [as_num v_neg].
      change (fneg (Fl false m)) with (Fl true m).
      rewrite (num_add_complex_neg x _ _ Hnc Hf).
      rewrite fadd_unzero_r by reflexivity. rewrite fadd_pzero_l. reflexivity.
    + (* a + bj *)
      cbn [build]. rewrite Hl. cbn [bind build_binop].
      unfold v_add. rewrite Hx. cbn [as_num].
      rewrite (num_add_complex x _ _ Hnc Hf).
      rewrite fadd_unzero_r by reflexivity. rewrite fadd_pzero_l. reflexivity.
Qed.

(* ---------- containers ---------- *)

Fixpoint build_list (c : cfg) (E : env) (l : list pyast) : res (list value) :=
  match l with
  | [] => Ok []
  | x :: r => bind (build c E x) (fun v => bind (build_list c E r) (fun vs => Ok (v :: vs)))
  end.

Fixpoint build_pairs (c : cfg) (E : env) (l : list (pyast * pyast)) : res (list (value * value)) :=
  match l with
  | [] => Ok []
  | p :: r =>
    bind (build c E (fst p)) (fun kv => bind (build c E (snd p)) (fun vv =>
      bind (build_pairs c E r) (fun rr => Ok ((kv, vv) :: rr))))
  end.

Lemma build_AList c E l : build c E (AList l) = bind (build_list c E l) (fun vs => Ok (VList vs)).
Proof.
  cbn [build]. f_equal. induction l as [|x r IH]; [reflexivity|].
  cbn [build_list]. rewrite <- IH. reflexivity.
Qed.

Lemma build_ATuple c E l : build c E (ATuple l) = bind (build_list c E l) (fun vs => Ok (VTuple vs)).
Proof.
  cbn [build]. f_equal. induction l as [|x r IH]; [reflexivity|].
  cbn [build_list]. rewrite <- IH. reflexivity.
Qed.

Lemma build_ADict c E l : build c E (ADict l) = bind (build_pairs c E l) mk_dict.
Proof.
  cbn [build]. f_equal. induction l as [|x r IH]; [reflexivity|].
  cbn [build_pairs]. rewrite <- IH. reflexivity.
Qed.

Lemma build_list_ok c E (l : list value) (f : value -> value) :
  Forall (fun v => build c E (to_ast v) = Ok (f v)) l ->
  build_list c E (map to_ast l) = Ok (map f l).
Proof.
  induction 1 as [|x r Hx _ IH]; [reflexivity|].
  cbn [map build_list]. rewrite Hx. cbn [bind]. rewrite IH. reflexivity.
Qed.

(** plain keys: unchanged by canon, evaluate to themselves, hashable *)
Lemma plain_key_facts c E : forall v,
  plain_key v = true ->
  canon v = v /\ build c E (to_ast v) = Ok v /\ hashable v = true.
Proof.
  induction v using value_ind'; cbn [plain_key]; intros Hp; try discriminate.
  - repeat split; reflexivity.
  - split; [reflexivity|]. split; [apply build_int | reflexivity].
  - repeat split; reflexivity.
  - repeat split; reflexivity.
  - (* tuple *)
    assert (Hall : Forall (fun v => canon v = v /\ build c E (to_ast v) = Ok v /\ hashable v = true) l).
    { rewrite forallb_forall in Hp. rewrite Forall_forall in *. intros x Hx. apply H; auto. }
    split; [|split].
    + cbn [canon]. f_equal. clear H Hp. induction Hall as [|x r Hx _ IH]; [reflexivity|].
      cbn [map]. destruct Hx as (-> & _ & _). now rewrite IH.
    + cbn [to_ast]. rewrite build_ATuple.
      rewrite (build_list_ok c E l (fun v => v)).
      * cbn [bind]. now rewrite map_id.
      * eapply Forall_impl; [|exact Hall]. cbn beta. intros a (_ & Ha & _). exact Ha.
    + cbn [hashable]. apply forallb_forall. rewrite Forall_forall in Hall.
      intros x Hx. apply Hall; exact Hx.
Qed.

Lemma dict_set_fresh k v acc :
  fresh k (map fst acc) = true -> dict_set k v acc = acc ++ [(k, v)].
Proof.
  induction acc as [|[k' v'] r IH]; cbn [map fst fresh forallb dict_set app]; intros H; [reflexivity|].
  apply andb_true_iff in H. destruct H as [H1 H2].
  destruct (veqb k k'); [discriminate|]. f_equal. apply IH. exact H2.
Qed.

Lemma fold_dict_set : forall kvs acc,
  distinct_from (map fst acc) (map fst kvs) = true ->
  fold_left (fun d kv => dict_set (fst kv) (snd kv) d) kvs acc = acc ++ kvs.
Proof.
  induction kvs as [|[k v] r IH]; intros acc H; cbn [fold_left].
  - now rewrite app_nil_r.
  - cbn [map fst distinct_from] in H. apply andb_true_iff in H. destruct H as [H1 H2].
    cbn [fst snd]. rewrite (dict_set_fresh k v acc H1).
    rewrite IH.
    + rewrite <- app_assoc. reflexivity.
    + rewrite map_app. exact H2.
Qed.

(** evaluating the AST of a literal's repr *)
Lemma thm_unrepr c E : forall v,
  wf_lit v = true ->
  c_sub c = true \/ sub_free v = true ->
  build c E (to_ast v) = Ok (canon v).
Proof.
  induction v using value_ind'; intros Hwf Hsub.
  - reflexivity.
  - reflexivity.
  - apply build_int.
  - apply build_float.
  - cbn [wf_lit] in Hwf. apply andb_true_iff in Hwf. apply build_complex; tauto.
  - reflexivity.
  - reflexivity.
  - (* list *)
    cbn [to_ast canon]. rewrite build_AList.
    rewrite (build_list_ok c E l canon); [reflexivity|].
    cbn [wf_lit] in Hwf. rewrite forallb_forall in Hwf.
    rewrite Forall_forall in *. intros x Hx. apply H; [exact Hx | apply Hwf; exact Hx |].
    destruct Hsub as [Hs|Hs]; [left; exact Hs | right].
    cbn [sub_free] in Hs. rewrite forallb_forall in Hs. apply Hs; exact Hx.
  - (* tuple *)
    cbn [to_ast canon]. rewrite build_ATuple.
    rewrite (build_list_ok c E l canon); [reflexivity|].
    cbn [wf_lit] in Hwf. rewrite forallb_forall in Hwf.
    rewrite Forall_forall in *. intros x Hx. apply H; [exact Hx | apply Hwf; exact Hx |].
    destruct Hsub as [Hs|Hs]; [left; exact Hs | right].
    cbn [sub_free] in Hs. rewrite forallb_forall in Hs. apply Hs; exact Hx.
  - (* dict *)
    cbn [wf_lit] in Hwf. apply andb_true_iff in Hwf. destruct Hwf as [Hkv Hdist].
    rewrite forallb_forall in Hkv.
    cbn [to_ast canon]. rewrite build_ADict.
    set (d' := map (fun kv => (fst kv, canon (snd kv))) d).
    assert (Hpairs : build_pairs c E (map (fun kv => (to_ast (fst kv), to_ast (snd kv))) d) = Ok d').
    { subst d'. clear Hdist. induction d as [|kv r IH]; [reflexivity|].
      inversion H as [|? ? [_ Hv] Hr]; subst.
      assert (Hin : In kv (kv :: r)) by now left.
      pose proof (Hkv kv Hin) as Hk. apply andb_true_iff in Hk. destruct Hk as [Hpk Hwv].
      destruct (plain_key_facts c E (fst kv) Hpk) as (_ & Hbk & _).
      cbn [map build_pairs fst snd]. rewrite Hbk. cbn [bind].
      rewrite Hv; [|exact Hwv|].
      2:{ destruct Hsub as [Hs|Hs]; [left; exact Hs | right].
          cbn [sub_free] in Hs. apply andb_true_iff in Hs. destruct Hs as [Hs _].
          apply andb_true_iff in Hs. tauto. }
      cbn [bind]. rewrite IH; [reflexivity | exact Hr | |].
      - intros x Hx. apply Hkv. now right.
      - destruct Hsub as [Hs|Hs]; [left; exact Hs | right].
        cbn [sub_free] in Hs. apply andb_true_iff in Hs. cbn [sub_free]. tauto. }
    rewrite Hpairs. cbn [bind]. unfold mk_dict.
    assert (Hfst : map fst d' = map fst d).
    { subst d'. rewrite map_map. reflexivity. }
    assert (Hhash : forallb (fun kv => hashable (fst kv)) d' = true).
    { apply forallb_forall. intros kv Hin. subst d'. apply in_map_iff in Hin.
      destruct Hin as (kv0 & <- & Hin0). cbn [fst].
      pose proof (Hkv kv0 Hin0) as Hk. apply andb_true_iff in Hk.
      destruct (plain_key_facts c E (fst kv0) (proj1 Hk)) as (_ & _ & Hh). exact Hh. }
    assert (Hplain : forallb (fun kv => plain_key (fst kv)) d' = true).
    { apply forallb_forall. intros kv Hin. subst d'. apply in_map_iff in Hin.
      destruct Hin as (kv0 & <- & Hin0). cbn [fst].
      pose proof (Hkv kv0 Hin0) as Hk. apply andb_true_iff in Hk. tauto. }
    rewrite Hhash, Hplain. cbn [negb].
    rewrite fold_dict_set by (cbn [map]; rewrite Hfst; exact Hdist).
    cbn [app]. f_equal. f_equal. subst d'.
    apply map_ext_in. intros kv Hin.
    pose proof (Hkv kv Hin) as Hk. apply andb_true_iff in Hk.
    destruct (plain_key_facts c E (fst kv) (proj1 Hk)) as (Hc & _ & _). now rewrite Hc.
  - discriminate.
Qed.

(* ---------- canon v is the same Python value: equal under ==, same types ---------- *)

(** float == : zeros of either sign are equal *)
Definition fl_peq (a b : fl) : bool := (is_zero a && is_zero b) || fl_eqb a b.

(** Python == between values of identical (nested) types *)
Fixpoint py_eq (a b : value) : bool :=
  match a, b with
  | VNone, VNone => true
  | VBool x, VBool y => Bool.eqb x y
  | VInt x, VInt y => x =? y
  | VFloat x, VFloat y => fl_peq x y
  | VComplex r1 i1, VComplex r2 i2 => fl_peq r1 r2 && fl_peq i1 i2
  | VStr x, VStr y => eqbZs x y
  | VBytes x, VBytes y => eqbZs x y
  | VList x, VList y | VTuple x, VTuple y =>
    (fix go (x y : list value) : bool :=
       match x, y with
       | [], [] => true
       | p :: x', q :: y' => py_eq p q && go x' y'
       | _, _ => false
       end) x y
  | VDict x, VDict y =>
    (fix go (x y : list (value * value)) : bool :=
       match x, y with
       | [], [] => true
       | p :: x', q :: y' => py_eq (fst p) (fst q) && py_eq (snd p) (snd q) && go x' y'
       | _, _ => false
       end) x y
  | VObj x, VObj y => x =? y
  | _, _ => false
  end.

Lemma eqbZs_refl a : eqbZs a a = true.
Proof. unfold eqbZs. induction a as [|x r IH]; [reflexivity|]. rewrite Z.eqb_refl. exact IH. Qed.

Lemma fl_eqb_refl f : fl_eqb f f = true.
Proof.
  destruct f as [n m]. unfold fl_eqb. cbn [f_neg f_mag]. rewrite Bool.eqb_reflx.
  destruct m; cbn [mag_eqb andb]; [apply Z.eqb_refl | apply eqbZs_refl].
Qed.

Lemma fl_peq_refl f : fl_peq f f = true.
Proof. unfold fl_peq. rewrite fl_eqb_refl. apply orb_true_r. Qed.

Lemma fl_peq_unzero f : fl_peq (unzero f) f = true.
Proof.
  unfold unzero, fl_peq. destruct (is_zero f) eqn:E.
  - change (is_zero pzero) with true. reflexivity.
  - rewrite E. rewrite fl_eqb_refl. reflexivity.
Qed.

Lemma fl_peq_fneg_zero f : is_zero f = true -> fl_peq (fneg f) f = true.
Proof.
  intros H. unfold fl_peq.
  assert (Hn : is_zero (fneg f) = true) by (destruct f; exact H).
  rewrite Hn, H. reflexivity.
Qed.

Lemma thm_canon_pyeq : forall v, py_eq (canon v) v = true.
Proof.
  induction v using value_ind'; cbn [canon py_eq];
    try reflexivity; try apply Bool.eqb_reflx; try apply Z.eqb_refl; try apply eqbZs_refl.
  - apply fl_peq_refl.
  - destruct (is_zero r && negb (f_neg r)) eqn:Ez.
    + destruct (f_neg i); cbn [py_eq].
      * apply andb_true_iff in Ez. rewrite fl_peq_fneg_zero by tauto. apply fl_peq_refl.
      * now rewrite !fl_peq_refl.
    + cbn [py_eq]. now rewrite !fl_peq_unzero.
  - induction H as [|x r Hx _ IH]; [reflexivity|]. cbn [map]. now rewrite Hx, IH.
  - induction H as [|x r Hx _ IH]; [reflexivity|]. cbn [map]. now rewrite Hx, IH.
  - induction H as [|x r [Hk Hv] _ IH]; [reflexivity|]. cbn [map fst snd]. now rewrite Hk, Hv, IH.
Qed.

(** without a zero component nothing changes at all *)
Fixpoint zero_free (v : value) : bool :=
  match v with
  | VComplex re im => negb (is_zero re) && negb (is_zero im)
  | VList l | VTuple l => forallb zero_free l
  | VDict d => forallb (fun kv => zero_free (fst kv) && zero_free (snd kv)) d
  | _ => true
  end.

Lemma thm_canon_id : forall v, zero_free v = true -> canon v = v.
Proof.
  induction v using value_ind'; cbn [canon zero_free]; intros Hz; try reflexivity.
  - apply andb_true_iff in Hz. destruct Hz as [H1 H2].
    apply negb_true_iff in H1. apply negb_true_iff in H2.
    unfold unzero. rewrite H1, H2. reflexivity.
  - f_equal. rewrite forallb_forall in Hz. rewrite Forall_forall in H.
    rewrite <- (map_id l) at 2. apply map_ext_in. intros x Hx. apply H; auto.
  - f_equal. rewrite forallb_forall in Hz. rewrite Forall_forall in H.
    rewrite <- (map_id l) at 2. apply map_ext_in. intros x Hx. apply H; auto.
  - f_equal. rewrite forallb_forall in Hz. rewrite Forall_forall in H.
    rewrite <- (map_id d) at 2. apply map_ext_in. intros kv Hin.
    pose proof (Hz kv Hin) as Hk. apply andb_true_iff in Hk.
    destruct (H kv Hin) as [Hf Hs]. rewrite Hf, Hs by tauto. now destruct kv.
Qed.

(* ---------- examples ---------- *)

(** {'a': [(1-2j), -1.5, (-7, None)], 3: (-0-2j)} *)
Definition ex_lit : value :=
  VDict [(VStr [97], VList [VComplex (Fl false (MInt 1)) (Fl true (MInt 2));
                            VFloat (Fl true (MTok [49;46;53]));
                            VTuple [VInt (-7); VNone]]);
         (VInt 3, VComplex (Fl true (MInt 0)) (Fl true (MInt 2)))].

Lemma ex_lit_ok :
  wf_lit ex_lit = true /\ sub_free ex_lit = false /\
  build (Cfg true) (Env [] [] []) (to_ast ex_lit) = Ok (canon ex_lit) /\
  canon ex_lit <> ex_lit /\
  build (Cfg false) (Env [] [] []) (to_ast ex_lit) = Err ENoBuilder.
Proof.
  split; [reflexivity|]. split; [reflexivity|]. split; [vm_compute; reflexivity|].
  split; [vm_compute; discriminate | vm_compute; reflexivity].
Qed.
