(** The access-log atom escaping of M_headers: repr(bytes) followed by the two
    replace() calls yields printable ASCII in which every double quote is
    preceded by a backslash. *)
From Coq Require Import ZArith List Bool Lia.
From CV Require Import Lib.Sx Lib.ListZ Model.M_headers Proof.P_headers.
Import ListNotations.
Open Scope Z_scope.

Ltac Zify.zify_post_hook ::= Z.to_euclidean_division_equations.

Definition printable (b : Z) : Prop := 32 <= b < 127.

(** every 34 is preceded by 92; [prev] is the character before the list *)
Fixpoint qesc (prev : Z) (l : list Z) : bool :=
  match l with
  | [] => true
  | c :: r => (negb (c =? 34) || (prev =? 92)) && qesc c r
  end.

Lemma qesc_spec l p : qesc p l = true ->
  forall pre post, l = pre ++ 34 :: post ->
                   (pre = [] /\ p = 92) \/ exists pre', pre = pre' ++ [92].
Proof.
  revert p. induction l as [|c r IH]; intros p H pre post E.
  - destruct pre; discriminate.
  - cbn [qesc] in H. apply andb_true_iff in H. destruct H as [H1 H2].
    destruct pre as [|x pre].
    + left. split; [reflexivity|]. cbn [app] in E. injection E as E1 E2. subst c.
      cbn in H1. apply Z.eqb_eq in H1. exact H1.
    + right. cbn [app] in E. injection E as E1 E2. subst x.
      destruct (IH c H2 pre post E2) as [[-> ->]|[pre' ->]].
      * exists []. reflexivity.
      * exists (c :: pre'). reflexivity.
Qed.

Lemma qesc_prev_irrel p q l : (p =? 92) = (q =? 92) -> qesc p l = qesc q l.
Proof. destruct l as [|c r]; [reflexivity|]. cbn [qesc]. intros ->. reflexivity. Qed.

(** a chunk without 34: only its last character matters for what follows *)
Lemma qesc_chunk a b p : ~ In 34 a -> a <> [] -> qesc p (a ++ b) = qesc (last a 0) b.
Proof.
  revert p. induction a as [|c r IH]; intros p Hn Hne; [congruence|].
  cbn [app qesc]. assert (Hc : (c =? 34) = false) by (apply Z.eqb_neq; intros ->; apply Hn; now left).
  rewrite Hc. cbn [negb orb andb].
  destruct r as [|d r'].
  - reflexivity.
  - rewrite IH; [reflexivity| |discriminate]. intros H. apply Hn. now right.
Qed.

(** Step A: after replace('"', '\\"') every quote is escaped *)
Lemma qesc_replace v p : qesc p (replace1 34 [92; 34] v) = true.
Proof.
  revert p. induction v as [|c r IH]; intros p; [reflexivity|].
  unfold replace1. cbn [flat_map]. fold (replace1 34 [92; 34] r).
  destruct (c =? 34) eqn:E.
  - cbn [app qesc]. rewrite IH. reflexivity.
  - cbn [app qesc]. rewrite E, IH. reflexivity.
Qed.

(** Step B: UTF-8 keeps it so *)
Lemma utf8_cp_shape c a : utf8_cp c = Some a ->
  (c < 128 /\ a = [c]) \/ (128 <= c /\ a <> [] /\ Forall (fun b => 128 <= b) a).
Proof.
  unfold utf8_cp.
  destruct (c <? 0) eqn:E0; [discriminate|apply Z.ltb_ge in E0].
  destruct (c <? 128) eqn:E1; [apply Z.ltb_lt in E1|apply Z.ltb_ge in E1].
  { intros H; apply Some_inj in H; subst a. left. auto. }
  intros H0. right. split; [assumption|]. revert H0.
  destruct (c <? 2048) eqn:E2; [apply Z.ltb_lt in E2|apply Z.ltb_ge in E2].
  { intros H; apply Some_inj in H; subst a. split; [discriminate|]. all_lia. }
  destruct (c <? 65536) eqn:E3; [apply Z.ltb_lt in E3|apply Z.ltb_ge in E3].
  { destruct (is_surrogate c); [discriminate|].
    intros H; apply Some_inj in H; subst a. split; [discriminate|]. all_lia. }
  destruct (c <? 1114112) eqn:E4; [apply Z.ltb_lt in E4|discriminate].
  intros H; apply Some_inj in H; subst a. split; [discriminate|]. all_lia.
Qed.

Lemma hi_no34 a : Forall (fun b => 128 <= b) a -> ~ In 34 a.
Proof. rewrite Forall_forall. intros H Hin. specialize (H 34 Hin). lia. Qed.

Lemma hi_last a : a <> [] -> Forall (fun b => 128 <= b) a -> 128 <= last a 0.
Proof.
  intros Hne H. rewrite Forall_forall in H. apply H.
  destruct a as [|x r]; [congruence|]. clear. revert x.
  induction r as [|y r IH]; intros x; [now left|]. right. apply (IH y).
Qed.

Lemma qesc_utf8 s : forall p bs, utf8 s = Some bs -> qesc p s = true -> qesc p bs = true.
Proof.
  induction s as [|c r IH]; intros p bs; cbn [utf8].
  - intros H _. apply Some_inj in H. subst bs. reflexivity.
  - destruct (utf8_cp c) as [a|] eqn:Ea; [|discriminate].
    destruct (utf8 r) as [b|] eqn:Eb; [|discriminate].
    intros H Hq. apply Some_inj in H. subst bs.
    cbn [qesc] in Hq. apply andb_true_iff in Hq. destruct Hq as [H1 H2].
    destruct (utf8_cp_shape c a Ea) as [[Hc ->]|[Hc [Hne Hhi]]].
    + cbn [app qesc]. rewrite H1. cbn [andb]. now apply IH.
    + rewrite qesc_chunk by (auto using hi_no34).
      rewrite (qesc_prev_irrel _ c).
      * now apply IH.
      * pose proof (hi_last a Hne Hhi).
        replace (last a 0 =? 92) with false by (symmetry; apply Z.eqb_neq; lia).
        symmetry. apply Z.eqb_neq. lia.
Qed.

(** Step C: repr then replace('\\\\', '\\') is a per-byte map *)
Definition esc2 (q b : Z) : list Z := if b =? 92 then [92] else repr_byte q b.

Lemma bsbs_ne x rest : x <> 92 -> replace_bsbs (x :: rest) = x :: replace_bsbs rest.
Proof.
  intros H. apply Z.eqb_neq in H. cbn [replace_bsbs]. destruct rest as [|y r]; [reflexivity|].
  rewrite H. reflexivity.
Qed.

Lemma bsbs_bs_ne y rest : y <> 92 -> replace_bsbs (92 :: y :: rest) = 92 :: y :: replace_bsbs rest.
Proof.
  intros H. rewrite <- (bsbs_ne y rest H). apply Z.eqb_neq in H.
  cbn [replace_bsbs]. rewrite H, andb_false_r. reflexivity.
Qed.

Lemma bsbs_pair rest : replace_bsbs (92 :: 92 :: rest) = 92 :: replace_bsbs rest.
Proof. reflexivity. Qed.

Lemma hexdigit_range n : 0 <= n < 16 -> 48 <= hexdigit n <= 57 \/ 97 <= hexdigit n <= 102.
Proof. intros H. unfold hexdigit. destruct (n <? 10) eqn:E; [apply Z.ltb_lt in E|apply Z.ltb_ge in E]; lia. Qed.

Lemma mod16 x : 0 <= x mod 16 < 16.
Proof. apply Z.mod_pos_bound. lia. Qed.

Lemma bsbs_chunk q b rest : q <> 92 ->
  replace_bsbs (repr_byte q b ++ rest) = esc2 q b ++ replace_bsbs rest.
Proof.
  intros Hq. unfold esc2, repr_byte.
  destruct (b =? 92) eqn:E92.
  { apply Z.eqb_eq in E92. subst b. rewrite orb_true_r. reflexivity. }
  apply Z.eqb_neq in E92. rewrite orb_false_r.
  destruct (b =? q) eqn:Eq.
  { apply Z.eqb_eq in Eq. subst b. cbn [app]. now rewrite bsbs_bs_ne. }
  destruct (b =? 9); [cbn [app]; rewrite bsbs_bs_ne by lia; reflexivity|].
  destruct (b =? 10); [cbn [app]; rewrite bsbs_bs_ne by lia; reflexivity|].
  destruct (b =? 13); [cbn [app]; rewrite bsbs_bs_ne by lia; reflexivity|].
  destruct ((b <? 32) || (127 <=? b)).
  - cbn [app]. rewrite bsbs_bs_ne by lia.
    pose proof (hexdigit_range _ (mod16 (b / 16))). pose proof (hexdigit_range _ (mod16 b)).
    rewrite !bsbs_ne by lia. reflexivity.
  - cbn [app]. now rewrite bsbs_ne.
Qed.

Lemma bsbs_repr q bs : q <> 92 ->
  replace_bsbs (flat_map (repr_byte q) bs) = flat_map (esc2 q) bs.
Proof.
  intros Hq. induction bs as [|b r IH]; [reflexivity|].
  cbn [flat_map]. rewrite bsbs_chunk by assumption. now rewrite IH.
Qed.

Lemma memZ_false_not_in' x l : memZ x l = false -> ~ In x l.
Proof. intros H Hin. apply memZ_In in Hin. congruence. Qed.

Lemma repr_quote_cases bs :
  (repr_quote bs = 39) \/ (repr_quote bs = 34 /\ ~ In 34 bs).
Proof.
  unfold repr_quote. destruct (memZ 39 bs); cbn [andb]; [|now left].
  destruct (memZ 34 bs) eqn:E; cbn [negb]; [now left|].
  right. split; [reflexivity|]. now apply memZ_false_not_in'.
Qed.

(** Step D: the result is printable ASCII *)
Lemma esc2_printable q b : q = 34 \/ q = 39 -> Forall printable (esc2 q b).
Proof.
  intros Hq. unfold esc2, repr_byte, printable.
  destruct (b =? 92) eqn:E92; [all_lia|].
  rewrite orb_false_r.
  destruct (b =? q) eqn:Eq; [apply Z.eqb_eq in Eq; all_lia|].
  destruct (b =? 9); [all_lia|]. destruct (b =? 10); [all_lia|]. destruct (b =? 13); [all_lia|].
  destruct ((b <? 32) || (127 <=? b)) eqn:E.
  - pose proof (hexdigit_range _ (mod16 (b / 16))). pose proof (hexdigit_range _ (mod16 b)). all_lia.
  - apply orb_false_iff in E. destruct E as [E1 E2]. apply Z.ltb_ge in E1. apply Z.leb_gt in E2. all_lia.
Qed.

Lemma flat_esc2_printable q bs : q = 34 \/ q = 39 -> Forall printable (flat_map (esc2 q) bs).
Proof.
  intros Hq. induction bs as [|b r IH]; [constructor|].
  cbn [flat_map]. apply Forall_app. split; [now apply esc2_printable|assumption].
Qed.

(** Step E: quotes stay escaped through the per-byte map *)
Lemma esc2_34 q : q <> 34 -> esc2 q 34 = [34].
Proof.
  intros Hq. unfold esc2, repr_byte.
  replace (34 =? q) with false by (symmetry; apply Z.eqb_neq; lia).
  reflexivity.
Qed.

Ltac fin_chunk := cbn [In last]; repeat split; try discriminate; try lia; try (intuition lia).

Lemma esc2_other q b : b <> 34 -> (q = 34 \/ q = 39) ->
  ~ In 34 (esc2 q b) /\ esc2 q b <> [] /\ (b <> 92 -> last (esc2 q b) 0 <> 92)
  /\ (b = 92 -> esc2 q b = [92]).
Proof.
  intros Hb Hq. unfold esc2, repr_byte.
  destruct (b =? 92) eqn:E92.
  { apply Z.eqb_eq in E92. subst b. fin_chunk. }
  apply Z.eqb_neq in E92. rewrite orb_false_r.
  destruct (b =? q) eqn:Eq.
  { apply Z.eqb_eq in Eq. subst q. fin_chunk. }
  destruct (b =? 9); [fin_chunk|].
  destruct (b =? 10); [fin_chunk|].
  destruct (b =? 13); [fin_chunk|].
  destruct ((b <? 32) || (127 <=? b)).
  - pose proof (hexdigit_range _ (mod16 (b / 16))). pose proof (hexdigit_range _ (mod16 b)).
    fin_chunk.
  - fin_chunk.
Qed.

Lemma qesc_flat q bs : (q = 34 \/ q = 39) -> (q = 34 -> ~ In 34 bs) ->
  forall p p', (p = 92 -> p' = 92) -> qesc p bs = true -> qesc p' (flat_map (esc2 q) bs) = true.
Proof.
  intros Hq. induction bs as [|b r IH]; intros Hno p p' Hp H; [reflexivity|].
  cbn [qesc] in H. apply andb_true_iff in H. destruct H as [H1 H2].
  assert (Hno' : q = 34 -> ~ In 34 r) by (intros E Hin; apply (Hno E); now right).
  cbn [flat_map].
  destruct (Z.eq_dec b 34) as [->|Hb].
  - assert (Hq34 : q <> 34) by (intros E; apply (Hno E); now left).
    rewrite esc2_34 by assumption. cbn [app qesc].
    cbn in H1. apply Z.eqb_eq in H1. rewrite (Hp H1). cbn.
    apply (IH Hno' 34 34); auto.
  - destruct (esc2_other q b Hb Hq) as [A [B [C D]]].
    rewrite qesc_chunk by assumption.
    apply (IH Hno' b); [|assumption].
    intros ->. rewrite (D eq_refl). reflexivity.
Qed.

(** c12_log_single_line, atom level *)
Lemma log_atom_safe v out : log_atom v = Some out ->
  Forall printable out /\ qesc 0 out = true.
Proof.
  unfold log_atom. destruct (utf8 (replace1 34 [92; 34] v)) as [bs|] eqn:E; [|discriminate].
  intros H. apply Some_inj in H. subst out. unfold repr_body.
  assert (Hq : repr_quote bs = 34 \/ repr_quote bs = 39)
    by (destruct (repr_quote_cases bs) as [->|[-> _]]; auto).
  assert (Hq92 : repr_quote bs <> 92) by lia.
  rewrite bsbs_repr by assumption. split.
  - now apply flat_esc2_printable.
  - apply (qesc_flat _ bs Hq) with (p := 0).
    + intros E34. destruct (repr_quote_cases bs) as [E39|[_ Hn]]; [congruence|assumption].
    + discriminate.
    + eapply qesc_utf8; [exact E|]. apply qesc_replace.
Qed.

(** the whole record is printable ASCII: a single line *)
Lemma access_line_printable x line : access_line x = Some line -> Forall printable line.
Proof.
  unfold access_line.
  destruct (log_atom (a_h x)) as [h|] eqn:Eh; [|discriminate].
  destruct (log_atom (a_l x)) as [l|] eqn:El; [|discriminate].
  destruct (log_atom (a_u x)) as [u|] eqn:Eu; [|discriminate].
  destruct (log_atom (a_t x)) as [t|] eqn:Et; [|discriminate].
  destruct (log_atom (a_r x)) as [r|] eqn:Er; [|discriminate].
  destruct (log_atom (a_s x)) as [s|] eqn:Es; [|discriminate].
  destruct (log_atom (a_b x)) as [b|] eqn:Eb; [|discriminate].
  destruct (log_atom (a_f x)) as [f|] eqn:Ef; [|discriminate].
  destruct (log_atom (a_a x)) as [a|] eqn:Ea; [|discriminate].
  destruct (log_atom (a_o x)) as [o|] eqn:Eo; [|discriminate].
  intros H. apply Some_inj in H. subst line. unfold access_format.
  cbn [a_h a_l a_u a_t a_r a_s a_b a_f a_a].
  repeat (apply Forall_app; split);
    try (eapply proj1, log_atom_safe; eassumption);
    unfold printable; all_lia.
Qed.

(** the same with the quote clause spelled out *)
Lemma log_atom_spec v out : log_atom v = Some out ->
  Forall printable out /\
  forall pre post, out = pre ++ 34 :: post -> exists pre', pre = pre' ++ [92].
Proof.
  intros H. destruct (log_atom_safe v out H) as [A B]. split; [assumption|].
  intros pre post E. destruct (qesc_spec out 0 B pre post E) as [[_ C]|C]; [discriminate|assumption].
Qed.

(** examples used for non-vacuity *)
Lemma ex_log_atom :
  log_atom [97; 34; 10; 233; 92; 39] = Some [97; 92; 34; 92; 110; 92; 120; 99; 51; 92; 120; 97; 57; 92; 92; 39].
Proof. vm_compute. reflexivity. Qed.
